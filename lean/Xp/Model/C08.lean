import Xp.Base.Prog
import Xp.Gen.C08Consts
/-
C08 model: the deletion (`meta.WasDeleted`) branches of

  internal/controller/apiextensions/claim/reconciler.go        (claimRec)
  internal/controller/apiextensions/composite/reconciler.go    (xrRec)
  internal/controller/apiextensions/definition/reconciler.go   (definedRec)
  internal/controller/apiextensions/offered/reconciler.go      (offeredRec)
  internal/controller/pkg/revision/{reconciler,dependency}.go  (revRec)
  internal/controller/apiextensions/usage/reconciler.go        (usageRec)

call by call as `Xp.Prog` programs over an abstract API server (objects with
finalizers, deletionTimestamp, resourceVersion, owner references) plus the
controller engine reduced to its set of running controllers, and a small-step
system (`Sys`) in which any in-flight reconcile may take its next API call with
any fault outcome, interleaved with user deletions, Kubernetes garbage
collection steps and third-party finalizer removals.

Modelling decisions (see props/C08.json):
* `client.Update(obj)` of an object the reconcile read earlier is modelled as
  "resourceVersion precondition + the delta the code applied" (`removeFin`,
  `lockRemove`, `unlabel`, `setStatus`); the equivalence with a full replace relies
  on resourceVersion determining the content, which the correspondence checks.
* Only the deletion branches are programs (call by call); a program that reads a live
  object returns `Res.oos`.  Of the LIVE branches the model keeps the writes that create or
  re-create something, as atomic steps with the reads folded in (`Live`, `liveStep`,
  `liveActs`: one whole fault-free live reconcile per controller), and `Act.create` stands
  for whatever a user may create.  The `trace_*` theorems quantify over creation-free
  schedules (`NoCreate`), the `trace_*_all` theorems over ALL schedules that stay outside
  the windows (`Calm`, at the end of this file); field sync (C07) and binding (C06) beyond
  "the XR exists and is bound" are absent.
* Status conditions are abstract tokens; they matter only because a changed
  status bumps the resourceVersion.
* Third parties also EDIT objects (`Act.edit`: a claim's delete policy or XR reference, an
  XR's claim reference, a Usage's composite label or using resource): the in-flight
  reconciles then hold stale copies and their writes are rejected by the resourceVersion
  precondition.  The state-based constraint of a finalizer removal is therefore stated for
  the moment the removal is APPLIED (stored resourceVersion = the request's).
* Reads through an informer cache may LAG (`Act.lagStep`): the reply is computed from any
  store the run has been in (`Sys.past`).  A cache that is older than the initial store
  (an object "not yet in the cache") is the same thing as a creation step and is excluded
  with it (`NoCreate`), see the witnesses in Props.
-/
namespace Xp.C08

inductive Kind where
  | claim | xr | xrd | crd | rev | lock | usage | res
  /-- `res2`: the same Kind as `res` in another API group; `res3`: another Kind of the same
  group (objects of the three kinds may share a name) -/
  | res2 | res3
  deriving DecidableEq, Repr, Inhabited

structure Key where
  kind : Kind
  name : String
  deriving DecidableEq, Repr, Inhabited

structure ORef where
  uid : Nat
  ctrl : Bool
  block : Bool
  deriving DecidableEq, Repr

/-- One API object, reduced to what the teardown logic reads or writes.
`ref`: claim → name of its XR (`spec.resourceRef`), XR → "ns/name" of the claim it is
bound to (`spec.claimRef`), XRD → name of the composite CRD, usage → name of the
*using* resource (`spec.by`).  `of`: XRD → name of the claim CRD, usage → name of the
*used* resource.  `flag`: claim → `compositeDeletePolicy = Foreground`, usage → carries
the `crossplane.io/composite` label.  `inuse`: the `crossplane.io/in-use` label. -/
structure Obj where
  key : Key
  uid : Nat
  rv : Nat
  fins : List String
  del : Bool
  owners : List ORef
  conds : List (String × String)
  paused : Bool
  ref : String
  of : String
  flag : Bool
  inuse : Bool
  pkgs : List String
  /-- package revision: `spec.desiredState = Inactive` -/
  inactive : Bool := false
  /-- package revision: `spec.skipDependencyResolution = true` -/
  skipDeps : Bool := false
  /-- usage: (apiVersion, kind) of the using resource `spec.by` -/
  refKind : Kind := .res
  /-- usage: (apiVersion, kind) of the used resource `spec.of` -/
  ofKind : Kind := .res
  /-- XR: the claim whose `Sync` last wrote its labels / spec / claimRef ("" = never synced):
  a `Sync` by the same claim that finds its claimRef intact changes nothing (no Update) -/
  synced : String := ""
  /-- claim: how `spec.resourceRef.apiVersion` / `kind` relate to the XR kind the claim
  controller was started for: "" = the same, "old" = another VERSION of that kind (the XRD's
  referenceable version changed since the reference was written), "other" = another group /
  kind.  The claim reconciler looks its XR up BY NAME: nothing below reads this field. -/
  refVer : String := ""
  /-- usage: `spec.by` names the using resource by a `resourceSelector` that has NOT been
  resolved (no `resourceRef` yet); its labels select the resource `ref` of kind `refKind` -/
  sel : Bool := false
  deriving DecidableEq, Repr

structure St where
  objs : List Obj
  nextRv : Nat
  running : List String
  deriving Repr

/-! ### object store primitives -/

def find (s : St) (k : Key) : Option Obj := s.objs.find? (fun o => o.key = k)

def put (s : St) (o : Obj) : St :=
  { s with objs := s.objs.map (fun x => if x.key = o.key then o else x) }

def erase (s : St) (k : Key) : St :=
  { s with objs := s.objs.filter (fun o => o.key ≠ k) }

def fgFin : String := "foregroundDeletion"

/-- simstore `commit` + `finalizeIfDone`: a write that changes nothing is a no-op (no
resourceVersion bump); otherwise the object gets a fresh resourceVersion and, if it
is terminating and has no finalizer left, disappears. Returns the object as stored
(or as it was when it disappeared). -/
def commit (s : St) (o o' : Obj) : St × Obj :=
  if o' = o then (s, o) else
    let o'' := { o' with rv := s.nextRv }
    let s' := { s with nextRv := s.nextRv + 1 }
    if o''.del && o''.fins.isEmpty then (erase s' o.key, o'') else (put s' o'', o'')

/-- `Delete` of one stored object (no preconditions) whose finalizers will be `fins`.
Deleting an object that is already terminating changes nothing (and keeps the
resourceVersion) unless a finalizer is added. -/
def deleteWith (s : St) (o : Obj) (fins : List String) : St :=
  if fins.isEmpty then erase s o.key
  else if o.del && fins == o.fins then s
  else put { s with nextRv := s.nextRv + 1 } { o with fins := fins, del := true, rv := s.nextRv }

/-- Foreground adds the `foregroundDeletion` finalizer. -/
def deleteObj (s : St) (o : Obj) (fg : Bool) : St :=
  deleteWith s o (if fg && !o.fins.contains fgFin then o.fins ++ [fgFin] else o.fins)

def deleteKey (s : St) (k : Key) (fg : Bool) : St :=
  match find s k with
  | none => s
  | some o => deleteObj s o fg

/-- insertion sort by name (structural, so that concrete runs reduce in the kernel) -/
def insertByName (o : Obj) : List Obj → List Obj
  | [] => [o]
  | x :: xs => if o.key.name ≤ x.key.name then o :: x :: xs else x :: insertByName o xs

def sortByName : List Obj → List Obj
  | [] => []
  | x :: xs => insertByName x (sortByName xs)

/-- `List` of one kind: the server returns the items ordered by (namespace, name) -/
def ofKind (s : St) (kd : Kind) : List Obj :=
  sortByName (s.objs.filter (fun o => o.key.kind = kd))

def Obj.controlledBy (o : Obj) (uid : Nat) : Bool := o.owners.any (fun r => r.ctrl && r.uid == uid)

/-! ### requests -/

inductive Req where
  | get (k : Key)
  | list (kd : Kind)
  | listUsagesOf (kd : Kind) (n : String)
  /-- `apiSelectorResolver.resolveSelector`: List of kind `kd` by the labels that select `n` -/
  | listSel (kd : Kind) (n : String)
  | setStatus (k : Key) (rv : Nat) (conds : List (String × String))
  | removeFin (k : Key) (rv : Nat) (fin : String)
  | delete (k : Key) (fg : Bool)
  | deleteAll (kd : Kind)
  | lockRemove (rv : Nat) (pkg : String)
  | unlabel (k : Key) (rv : Nat)
  | stop (ctrl : String)
  | cacheDelete (n : String)
  deriving DecidableEq, Repr

inductive Resp where
  | ok
  | obj (o : Obj)
  | list (l : List Obj)
  | notFound
  | conflict
  | err
  deriving DecidableEq, Repr

def lockKey : Key := ⟨.lock, Xp.Gen.c08LockName⟩

/-- a resourceVersion-guarded modification of one object -/
def withObj (s : St) (k : Key) (rv : Nat) (f : Obj → Obj) : St × Resp :=
  match find s k with
  | none => (s, .notFound)
  | some o =>
    if o.rv ≠ rv then (s, .conflict)
    else let r := commit s o (f o); (r.1, .obj r.2)

def exec (s : St) : Req → St × Resp
  | .get k => (s, match find s k with | some o => .obj o | none => .notFound)
  | .list kd => (s, .list (ofKind s kd))
  | .listUsagesOf kd n => (s, .list ((ofKind s .usage).filter (fun u => u.of = n ∧ u.ofKind = kd)))
  | .listSel kd n => (s, .list ((ofKind s kd).filter (fun o => o.key.name = n)))
  | .setStatus k rv conds => withObj s k rv (fun o => { o with conds := conds })
  | .removeFin k rv fin => withObj s k rv (fun o => { o with fins := o.fins.filter (· ≠ fin) })
  | .delete k fg =>
    match find s k with
    | none => (s, .notFound)
    | some o => (deleteObj s o fg, .ok)
  | .deleteAll kd => ((ofKind s kd).foldl (fun acc o => deleteKey acc o.key false) s, .ok)
  | .lockRemove rv pkg => withObj s lockKey rv (fun o => { o with pkgs := o.pkgs.filter (· ≠ pkg) })
  | .unlabel k rv => withObj s k rv (fun o => { o with inuse := false })
  | .stop c => ({ s with running := s.running.filter (· ≠ c) }, .ok)
  | .cacheDelete _ => (s, .ok)

def Req.isWrite : Req → Bool
  | .get _ | .list _ | .listUsagesOf _ _ | .listSel _ _ | .stop _ | .cacheDelete _ => false
  | _ => true

/-- reads: the calls an informer cache can answer -/
def Req.isRead : Req → Bool
  | .get _ | .list _ | .listUsagesOf _ _ | .listSel _ _ => true
  | _ => false

/-- reply seen by the controller when the call was not applied -/
def errResp (o : Outcome) (r : Req) : Resp :=
  match o with
  | .conflict => if r.isWrite then .conflict else .err
  | _ => .err

def sem : Sem St Req Resp := ⟨exec, errResp⟩

/-! ### environment -/

/-- one round of Kubernetes garbage collection (simstore `GCStep`) -/
def gcStep (s : St) : St :=
  let uids := s.objs.map (·.uid)
  let alive (o : Obj) : List ORef := o.owners.filter (fun r => uids.contains r.uid)
  let blocked : List Nat := ((s.objs.flatMap alive).filter (·.block)).map (·.uid)
  let orphans := s.objs.filter (fun o => !o.owners.isEmpty && (alive o).isEmpty)
  let s1 := orphans.foldl (fun acc o =>
      match find acc o.key with
      | none => acc
      | some c =>
        if !c.fins.isEmpty then
          (if c.del then acc else put { acc with nextRv := acc.nextRv + 1 } { c with del := true, rv := acc.nextRv })
        else erase acc c.key) s
  s1.objs.foldl (fun acc o =>
      match find acc o.key with
      | none => acc
      | some c =>
        if c.del && c.fins.contains fgFin && !blocked.contains c.uid then
          let c' := { c with fins := c.fins.filter (· ≠ fgFin), rv := acc.nextRv }
          let acc' := { acc with nextRv := acc.nextRv + 1 }
          if c'.fins.isEmpty then erase acc' c.key else put acc' c'
        else acc) s1

/-- a third party removes one of its finalizers -/
def envUnfin (s : St) (k : Key) (f : String) : St :=
  match find s k with
  | none => s
  | some o => (commit s o { o with fins := o.fins.filter (· ≠ f) }).1

/-- kinds whose `ref` / `flag` a third party may edit (claim: `spec.resourceRef`,
`spec.compositeDeletePolicy`; XR: `spec.claimRef`; Usage: `spec.by`, the composite label) -/
def editable : Kind → Bool
  | .claim | .xr | .usage => true
  | _ => false

inductive Edit where
  | flip
  | ref (v : String)
  deriving DecidableEq, Repr

def Edit.app (e : Edit) (o : Obj) : Obj :=
  match e with
  | .flip => { o with flag := !o.flag }
  | .ref v => { o with ref := v, refVer := "", sel := false }

/-- a third party edits an object (a changed object gets a fresh resourceVersion) -/
def envEdit (s : St) (k : Key) (e : Edit) : St :=
  if editable k.kind then
    match find s k with
    | none => s
    | some o => (commit s o (e.app o)).1
  else s

/-- the process dies: every dynamically started controller dies with it -/
def crash (s : St) : St := { s with running := [] }

/-! ### the live (not deleted) branches: the things they create

The deletion branches below are programs; of the LIVE branches of the same `Reconcile`
functions the model keeps exactly the writes that create or re-create something the
teardown order talks about (see the entries marked `live` in the declared skeletons at the
end of this file), as atomic steps that may happen at any moment (`Act.live`): an
over-approximation of the real reconciles, which issue them only after their own reads. -/

inductive Live where
  /-- `AddFinalizer` of any of the six reconcilers (an Update under the read resourceVersion) -/
  | addFin (k : Key) (fin : String)
  /-- claim `r.composite.Sync`: the claim is pointed at XR `xr`; the XR is created when it does
  not exist, bound when it is unbound -/
  | syncXR (claim : String) (xr : String)
  /-- definition / offered `r.client.Apply(crd, MustBeControllableBy(d.GetUID()))` with the
  updating applicator: the rendered CRD (sole owner reference: controller reference to the
  XRD) is created, or replaces a CRD that has no controller or is controlled by this XRD -/
  | applyCRD (xrd : String) (offered : Bool)
  /-- definition / offered `r.engine.Start` -/
  | start (xrd : String) (offered : Bool)
  /-- revision `r.lock.Resolve`: the Lock is created when it does not exist and the revision
  appended to its packages when it is not listed -/
  | lockAdd (rev : String)
  /-- Usage: owner reference to the using resource -/
  | usageOwn (u : String)
  /-- Usage: in-use label on the used resource -/
  | usageLabel (u : String)
  /-- the status update a live reconcile ends with (conditions only) -/
  | status (k : Key) (conds : List (String × String))
  deriving DecidableEq, Repr

/-- a new object enters the store under a fresh resourceVersion -/
def ins (s : St) (o : Obj) : St :=
  { s with objs := s.objs ++ [{ o with rv := s.nextRv }], nextRv := s.nextRv + 1 }

def blank (k : Key) (uid : Nat) : Obj :=
  { key := k, uid := uid, rv := 0, fins := [], del := false, owners := [], conds := [], paused := false,
    ref := "", of := "", flag := false, inuse := false, pkgs := [] }

def ctrlOf (xrd : String) (offered : Bool) : String :=
  if offered then Xp.Gen.c08ClaimControllerPrefix ++ xrd else Xp.Gen.c08CompositeControllerPrefix ++ xrd

def crdOf (d : Obj) (offered : Bool) : Key := ⟨.crd, if offered then d.of else d.ref⟩

def liveStep (s : St) : Live → St
  | .addFin k fin =>
    match find s k with
    | none => s
    | some o => if o.fins.contains fin then s else (commit s o { o with fins := o.fins ++ [fin] }).1
  | .syncXR c x =>
    match find s ⟨.claim, c⟩ with
    | none => s
    | some cm =>
      -- `cm.SetResourceReference(xr.GetReference())`: name AND current apiVersion / kind
      let s1 := (commit s cm { cm with ref := x, refVer := "" }).1
      match find s1 ⟨.xr, x⟩ with
      | some xo =>
        -- bound to another claim: the reconcile refuses; nothing to write: `AllowUpdateIf(changed)`
        if (xo.ref != "" && xo.ref != c) || (xo.ref == c && xo.synced == c) then s1
        else (commit s1 xo { xo with ref := c, synced := c }).1
      | none => ins s1 { blank ⟨.xr, x⟩ s1.nextRv with ref := c, synced := c }
  | .applyCRD xrd off =>
    match find s ⟨.xrd, xrd⟩ with
    | none => s
    | some d =>
      match find s (crdOf d off) with
      | none => ins s { blank (crdOf d off) s.nextRv with owners := [⟨d.uid, true, true⟩] }
      | some c =>
        -- the Update replaces the whole object by the rendered one: owner references AND
        -- finalizers (the rendered CRD has none); status (Established) is a subresource and stays
        match c.owners.find? (·.ctrl) with
        | none => (commit s c { c with owners := [⟨d.uid, true, true⟩], fins := [] }).1
        | some r => if r.uid = d.uid then (commit s c { c with owners := [⟨d.uid, true, true⟩], fins := [] }).1 else s
  | .start xrd off => if s.running.contains (ctrlOf xrd off) then s else { s with running := ctrlOf xrd off :: s.running }
  | .lockAdd r =>
    match find s ⟨.lock, Xp.Gen.c08LockName⟩ with
    | none => ins s { blank ⟨.lock, Xp.Gen.c08LockName⟩ s.nextRv with pkgs := [r] }
    | some l => if l.pkgs.contains r then s else (commit s l { l with pkgs := l.pkgs ++ [r] }).1
  | .usageOwn u =>
    match find s ⟨.usage, u⟩ with
    | none => s
    | some uo =>
      match find s ⟨uo.refKind, uo.ref⟩ with
      | none => s
      | some usingRes =>
        if uo.owners.any (·.uid == usingRes.uid) then s
        else (commit s uo { uo with owners := uo.owners ++ [⟨usingRes.uid, false, false⟩] }).1
  | .usageLabel u =>
    match find s ⟨.usage, u⟩ with
    | none => s
    | some uo =>
      match find s ⟨uo.ofKind, uo.of⟩ with
      | none => s
      | some used => (commit s used { used with inuse := true }).1
  | .status k conds =>
    match find s k with
    | none => s
    | some o => (commit s o { o with conds := conds }).1

/-- what a creating step brings into the world -/
inductive Birth where
  /-- an object appears under this key -/
  | obj (k : Key)
  /-- the owner references of this object are replaced / extended -/
  | owners (k : Key)
  /-- this controller is started -/
  | start (c : String)
  /-- this package is added to the Lock -/
  | lock (p : String)
  deriving DecidableEq, Repr

def Live.births (s : St) : Live → List Birth
  | .addFin _ _ => []
  | .syncXR _ x => [.obj ⟨.xr, x⟩]
  | .applyCRD xrd off =>
    match find s ⟨.xrd, xrd⟩ with
    | none => []
    | some d => [.obj (crdOf d off), .owners (crdOf d off)]
  | .start xrd off => [.start (ctrlOf xrd off)]
  | .lockAdd r => [.obj ⟨.lock, Xp.Gen.c08LockName⟩, .lock r]
  | .usageOwn u => [.owners ⟨.usage, u⟩]
  | .usageLabel _ => []
  | .status _ _ => []

/-! ### the reconcilers -/

inductive Res where
  | ok | requeue | err | oos | crashed
  deriving DecidableEq, Repr

abbrev P := Prog Req Resp Res

def setCond (cs : List (String × String)) (t v : String) : List (String × String) :=
  if cs.any (fun c => c.1 = t) then cs.map (fun c => if c.1 = t then (t, v) else c) else cs ++ [(t, v)]

def Obj.cond (o : Obj) (t v : String) : Obj := { o with conds := setCond o.conds t v }

def Resp.cls : Resp → String
  | .notFound => "notFound"
  | .conflict => "conflict"
  | _ => "other"

/-- `return reconcile.Result{…}, errors.Wrap(r.client.Status().Update(ctx, o), …)`;
`k` is the key the reconcile was asked for (the object it fetched by that name). -/
def statusThen (k : Key) (o : Obj) (r : Res) : P :=
  .call (.setStatus k o.rv o.conds) fun
    | .obj _ => .ret r
    | _ => .ret .err

open Xp.Gen

/-- claim: UnpublishConnection (no-op), RemoveFinalizer, final status update -/
def claimFinalize (k : Key) (cm : Obj) : P :=
  if cm.fins.contains c08ClaimFinalizer then
    .call (.removeFin k cm.rv c08ClaimFinalizer) fun
      -- `cm.SetConditions(xpv1.Deleting(), xpv1.ReconcileSuccess())`: the Update replaced the
      -- in-memory copy, Deleting is set again (fix f96c12b)
      | .obj cm' => statusThen k ((cm'.cond "Ready" "Deleting").cond "Synced" "Success") .ok
      | .notFound => statusThen k ((cm.cond "Ready" "Deleting").cond "Synced" "Success") .ok
      | r => statusThen k (cm.cond "Synced" ("err:removeFin:" ++ r.cls)) .requeue
  else statusThen k ((cm.cond "Ready" "Deleting").cond "Synced" "Success") .ok

/-- claim: `if meta.WasDeleted(cm) { … }` -/
def claimDeleted (k : Key) (cm : Obj) (xr : Option Obj) : P :=
  let cm := cm.cond "Ready" "Deleting"
  match xr with
  | none => claimFinalize k cm
  | some x =>
    if x.del && cm.flag then statusThen k cm .requeue
    else .call (.delete ⟨.xr, cm.ref⟩ cm.flag) fun
      | .ok => if cm.flag then .ret .requeue else claimFinalize k cm
      | .notFound => if cm.flag then .ret .requeue else claimFinalize k cm
      | r => statusThen k (cm.cond "Synced" ("err:deleteXR:" ++ r.cls)) .requeue

def claimBound (k : Key) (cm : Obj) (xr : Option Obj) : P :=
  match xr with
  | some x =>
    if x.ref ≠ "" ∧ x.ref ≠ k.name then statusThen k (cm.cond "Synced" "err:unbound") .ok
    else if cm.del then claimDeleted k cm xr else .ret .oos
  | none => if cm.del then claimDeleted k cm none else .ret .oos

def claimGot (k : Key) (cm : Obj) : P :=
  if cm.paused then statusThen k (cm.cond "Synced" "Paused") .ok
  else if cm.ref = "" then claimBound k cm none
  else .call (.get ⟨.xr, cm.ref⟩) fun
    | .obj x => claimBound k cm (some x)
    | .notFound => claimBound k cm none
    | r => statusThen k (cm.cond "Synced" ("err:getXR:" ++ r.cls)) .requeue

def claimRec (n : String) : P :=
  .call (.get ⟨.claim, n⟩) fun
    | .obj cm => claimGot ⟨.claim, n⟩ cm
    | .notFound => .ret .ok
    | _ => .ret .err

/-- composite resource (XR) reconciler, deletion branch -/
def xrRec (n : String) : P :=
  let k : Key := ⟨.xr, n⟩
  .call (.get k) fun
    | .obj x =>
      if x.paused then statusThen k (x.cond "Synced" "Paused") .ok
      else if !x.del then .ret .oos
      else
        let x := x.cond "Ready" "Deleting"
        if x.fins.contains c08XRFinalizer then
          .call (.removeFin k x.rv c08XRFinalizer) fun
            -- `xr.SetConditions(xpv1.Deleting(), xpv1.ReconcileSuccess())` (fix f96c12b)
            | .obj x' => statusThen k ((x'.cond "Ready" "Deleting").cond "Synced" "Success") .ok
            | .notFound => statusThen k ((x.cond "Ready" "Deleting").cond "Synced" "Success") .ok
            | .conflict => .ret .requeue
            | r => statusThen k (x.cond "Synced" ("err:removeFin:" ++ r.cls)) .requeue
        else statusThen k ((x.cond "Ready" "Deleting").cond "Synced" "Success") .ok
    | .notFound => .ret .ok
    | _ => .ret .err

/-- XRD controllers, "CRD is gone or not ours": stop the controller, drop the finalizer.
`cur` is the XRD as returned by the status update (current resourceVersion and finalizers). -/
def xrdFinish (k : Key) (cur : Obj) (ctrl fin : String) : P :=
  .call (.stop ctrl) fun
    | .ok =>
      if cur.fins.contains fin then
        .call (.removeFin k cur.rv fin) fun
          | .obj _ => .ret .ok
          | .notFound => .ret .ok
          | .conflict => .ret .requeue
          | _ => .ret .err
      else .ret .ok
    | _ => .ret .err

/-- XRD controllers, no instance left: stop the controller, then delete the CRD -/
def xrdStopDelete (ctrl : String) (crd : Key) : P :=
  .call (.stop ctrl) fun
    | .ok => .call (.delete crd false) fun
        | .ok => .ret .requeue
        | .notFound => .ret .requeue
        | _ => .ret .err
    | _ => .ret .err

def compositeCtrl (xrd : String) : String := c08CompositeControllerPrefix ++ xrd
def claimCtrl (xrd : String) : String := c08ClaimControllerPrefix ++ xrd

/-- `definition` reconciler (composite CRD + XR controller), deletion branch. `d` is the
XRD as first read (its uid and CRD names cannot change), `d'` the copy the status update
returned. -/
def definedRec (n : String) : P :=
  let k : Key := ⟨.xrd, n⟩
  .call (.get k) fun
    | .obj d =>
      if !d.del then .ret .oos else
      .call (.setStatus k d.rv (setCond d.conds "Established" "TerminatingComposite")) fun
        | .obj d' =>
          .call (.get ⟨.crd, d.ref⟩) fun
            | .obj c =>
              if !c.controlledBy d.uid then xrdFinish k d' (compositeCtrl n) c08DefinedFinalizer
              else .call (.deleteAll .xr) fun
                | .ok => .call (.list .xr) fun
                    | .list [] => xrdStopDelete (compositeCtrl n) ⟨.crd, d.ref⟩
                    | .list _ => .ret .requeue
                    | _ => .ret .err
                | _ => .ret .err
            | .notFound => xrdFinish k d' (compositeCtrl n) c08DefinedFinalizer
            | _ => .ret .err
        | .conflict => .ret .requeue
        | _ => .ret .err
    | .notFound => .ret .ok
    | _ => .ret .err

def deleteEach : List Obj → P
  | [] => .ret .requeue
  | o :: rest => .call (.delete o.key false) fun
      | .ok => deleteEach rest
      | .notFound => deleteEach rest
      | _ => .ret .err

/-- `offered` reconciler (claim CRD + claim controller), deletion branch -/
def offeredRec (n : String) : P :=
  let k : Key := ⟨.xrd, n⟩
  .call (.get k) fun
    | .obj d =>
      if !d.del then .ret .oos else
      .call (.setStatus k d.rv (setCond d.conds "Offered" "TerminatingClaim")) fun
        | .obj d' =>
          .call (.get ⟨.crd, d.of⟩) fun
            | .obj c =>
              if !c.controlledBy d.uid then xrdFinish k d' (claimCtrl n) c08OfferedFinalizer
              else .call (.list .claim) fun
                | .list [] => xrdStopDelete (claimCtrl n) ⟨.crd, d.of⟩
                -- the items of a claim list are claims
                | .list l => deleteEach (l.filter (fun o => o.key.kind = .claim))
                | _ => .ret .err
            | .notFound => xrdFinish k d' (claimCtrl n) c08OfferedFinalizer
            | _ => .ret .err
        | .conflict => .ret .requeue
        | _ => .ret .err
    | .notFound => .ret .ok
    | _ => .ret .err

def revFinalize (k : Key) (pr : Obj) : P :=
  if pr.fins.contains c08RevisionFinalizer then
    .call (.removeFin k pr.rv c08RevisionFinalizer) fun
      | .obj _ => .ret .ok
      | .notFound => .ret .ok
      | .conflict => .ret .requeue
      | _ => .ret .err
  else .ret .ok

/-- package revision reconciler, deletion branch: cache.Delete, lock.RemoveSelf, RemoveFinalizer.
Whether the revision is in the Lock is a matter of history, not of its current spec: the
branch does NOT look at `pr.inactive` or `pr.skipDeps` (a revision marked Inactive whose
deactivation never completed, or one whose `skipDependencyResolution` was switched on after
its dependencies were resolved, is still in the Lock). -/
def revRec (n : String) : P :=
  let k : Key := ⟨.rev, n⟩
  .call (.get k) fun
    | .obj pr =>
      if pr.paused then statusThen k (pr.cond "Synced" "Paused") .ok
      else if !pr.del then .ret .oos
      else .call (.cacheDelete n) fun
        | .ok => .call (.get lockKey) fun
            | .obj l =>
              if l.pkgs.contains n then
                .call (.lockRemove l.rv n) fun
                  | .obj _ => revFinalize k pr
                  | .conflict => .ret .requeue
                  | _ => .ret .err
              else revFinalize k pr
            | .notFound => revFinalize k pr
            | _ => .ret .err
        | _ => .ret .err
    | .notFound => .ret .ok
    | _ => .ret .err

def usageFinalize (k : Key) (u : Obj) : P :=
  if u.fins.contains c08UsageFinalizer then
    .call (.removeFin k u.rv c08UsageFinalizer) fun
      | .obj _ => .ret .ok
      | .notFound => .ret .ok
      | .conflict => .ret .requeue
      | _ => .ret .err
  else .ret .ok

def usageUsed (k : Key) (u : Obj) : P :=
  .call (.get ⟨u.ofKind, u.of⟩) fun
    | .obj used => .call (.listUsagesOf u.ofKind u.of) fun
        | .list l =>
          if l.length < 2 then
            .call (.unlabel ⟨u.ofKind, u.of⟩ used.rv) fun
              | .obj _ => usageFinalize k u
              | .conflict => .ret .requeue
              | _ => .ret .err
          else usageFinalize k u
        | _ => .ret .err
    | .notFound => usageFinalize k u
    | _ => .ret .err

/-- Usage reconciler, deletion branch -/
def usageRec (n : String) : P :=
  let k : Key := ⟨.usage, n⟩
  .call (.get k) fun
    | .obj u =>
      -- `r.usage.resolveSelectors` (before the WasDeleted test): `spec.of` is always resolved
      -- here; an unresolved `spec.by` selector is resolved by a List — an error or an empty
      -- list ends the reconcile with an error, whatever the Usage's state
      if u.sel && u.ref != "" then
        .call (.listSel u.refKind u.ref) fun
          | .list [] => .ret .err
          -- resolved: the reference is persisted (Update) and the reconcile goes on with the
          -- updated copy: not modelled (`Res.oos`, see props/C08.json)
          | .list _ => .ret .oos
          | _ => .ret .err
      else if !u.del then .ret .oos
      else if u.ref ≠ "" ∧ u.flag then
        .call (.get ⟨u.refKind, u.ref⟩) fun
          | .obj _ => .ret .requeue
          | .notFound => usageUsed k u
          | _ => .ret .err
      else usageUsed k u
    | .notFound => .ret .ok
    | _ => .ret .err

inductive Ctl where
  | claim | xr | defined | offered | rev | usage
  deriving DecidableEq, Repr

def program : Ctl → String → P
  | .claim, n => claimRec n
  | .xr, n => xrRec n
  | .defined, n => definedRec n
  | .offered, n => offeredRec n
  | .rev, n => revRec n
  | .usage, n => usageRec n


/-- ONE whole fault-free reconcile of a LIVE (not deleted) object by controller `c`, as the
sequence of abstract creating steps it amounts to in store `s` (its reads folded in): the
live branches of the six `Reconcile` functions, mirrored branch by branch.  A CRD's `flag`
stands for its Established condition.  The correspondence harness runs the REAL reconcile
atomically at such a step and compares the effect (harness op `live`). -/
def liveActs (s : St) : Ctl → String → List Live
  | .claim, n =>
    let k : Key := ⟨.claim, n⟩
    match find s k with
    | none => []
    | some cm =>
      if cm.paused then [.status k (setCond cm.conds "Synced" "Paused")]
      else
        -- `meta.WasCreated(xr) && ref != nil && !cmp.Equal(cm.GetReference(), ref)`
        let unbound := match find s ⟨.xr, cm.ref⟩ with
          | some x => x.ref != "" && x.ref != n
          | none => false
        if unbound then [.status k (setCond cm.conds "Synced" "err:unbound")]
        else [.addFin k c08ClaimFinalizer, .syncXR n cm.ref,
              .status k (setCond (setCond cm.conds "Synced" "Success") "Ready" "Waiting")]
  | .xr, _ => []
  | .defined, n =>
    let k : Key := ⟨.xrd, n⟩
    match find s k with
    | none => []
    | some d =>
      [.addFin k c08DefinedFinalizer, .applyCRD n false] ++
      (match find s (crdOf d false) with
       | some c =>
         -- `MustBeControllableBy`, then `xcrd.IsEstablished`, then Start (idempotent) and status
         if (match c.owners.find? (·.ctrl) with | none => true | some r => r.uid == d.uid) && c.flag
         then [.start n false, .status k (setCond d.conds "Established" "WatchingComposite")] else []
       | none => [])
  | .offered, n =>
    let k : Key := ⟨.xrd, n⟩
    match find s k with
    | none => []
    | some d =>
      [.addFin k c08OfferedFinalizer, .applyCRD n true] ++
      (match find s (crdOf d true) with
       | some c =>
         if (match c.owners.find? (·.ctrl) with | none => true | some r => r.uid == d.uid) && c.flag
         then [.start n true, .status k (setCond d.conds "Offered" "WatchingClaim")] else []
       | none => [])
  | .rev, n =>
    -- `PackageDependencyManager.Resolve`: an Inactive revision resolves nothing
    match find s ⟨.rev, n⟩ with
    | none => []
    | some pr => if pr.inactive then [] else [.lockAdd n]
  | .usage, n =>
    let k : Key := ⟨.usage, n⟩
    match find s k with
    | none => []
    | some u =>
      if u.sel then [] else   -- selector resolution first: not mirrored (the harness never runs it)
      -- AddFinalizer, (details annotation), Get used (error ends the reconcile), label it,
      -- Get using (error ends the reconcile), owner reference, status
      .addFin k c08UsageFinalizer ::
      (match find s ⟨u.ofKind, u.of⟩ with
       | none => []
       | some _ =>
         .usageLabel n ::
         (if u.ref = "" then [.status k (setCond u.conds "Ready" "Available")]
          else match find s ⟨u.refKind, u.ref⟩ with
            | none => []
            | some _ => [.usageOwn n, .status k (setCond u.conds "Ready" "Available")]))

/-- every step of a whole live reconcile is one of the steps its controller may take -/
def Live.of (c : Ctl) (n : String) : Live → Bool
  | .addFin _ _ => true
  | .status _ _ => true
  | .syncXR m _ => c == .claim && m == n
  | .applyCRD m off => (c == .defined && !off || c == .offered && off) && m == n
  | .start m off => (c == .defined && !off || c == .offered && off) && m == n
  | .lockAdd m => c == .rev && m == n
  | .usageOwn m => c == .usage && m == n
  | .usageLabel m => c == .usage && m == n

/-! ### the interleaved system -/

/-- an in-flight reconcile: which controller and key it serves and what it has seen so
far (ghost), and what is left of it -/
structure Thread where
  ctl : Ctl
  name : String
  hist : List (Req × Resp)
  prog : P

structure Sys where
  st : St
  ths : List Thread
  /-- every store the run has been in (oldest first): what a lagging informer cache may
  still show -/
  past : List St := []
  /-- ghost: what each schedule step so far brought into the world (`births[j]` = the births
  of schedule step `j`, taken from store `past[j]`) -/
  births : List (List Birth) := []

inductive Act where
  | spawn (c : Ctl) (n : String)
  | step (i : Nat) (o : Outcome)
  | del (k : Key)
  | gc
  | unfin (k : Key) (f : String)
  /-- a third party edits an object (see `envEdit`) -/
  | edit (k : Key) (e : Edit)
  /-- reconcile `i` takes its next call; if it is a read it is answered from an informer
  cache that shows the store as it was before schedule step `j` (`past[j]`); a write goes
  to the API server (= `step i .ok`) -/
  | lagStep (i : Nat) (j : Nat)
  /-- an object appears (a user, or a reconcile outside the modelled deletion branches,
  e.g. a live claim re-creating its XR). NOT part of the alphabet the trace theorems
  quantify over; present so that the need for that restriction can be stated. -/
  | create (o : Obj)
  /-- a creating write of the live branch of one of the reconcilers (see `Live`) -/
  | live (l : Live)
  deriving Repr

def Thread.dead (t : Thread) : Thread := { t with prog := .ret .crashed }

/-- reconcile `i` (thread `t`, about to issue `r`) sees reply `x`; the store becomes `st` -/
def Sys.reply (s : Sys) (i : Nat) (t : Thread) (r : Req) (k : Resp → P) (st : St) (x : Resp) : Sys :=
  { s with st := st, ths := s.ths.set i { t with hist := t.hist ++ [(r, x)], prog := k x } }

/-- one schedule step (without the book-keeping of `past`) -/
def Sys.act1 (s : Sys) : Act → Sys
  | .spawn c n => { s with ths := s.ths ++ [⟨c, n, [], program c n⟩] }
  | .step i o =>
    match s.ths[i]? with
    | none => s
    | some t =>
      match t.prog with
      | .ret _ => s
      | .call r k =>
        match o with
        | .ok => s.reply i t r k (exec s.st r).1 (exec s.st r).2
        | .fail => s.reply i t r k s.st (errResp .fail r)
        | .conflict => s.reply i t r k s.st (errResp .conflict r)
        | .crashBefore => { s with st := crash s.st, ths := s.ths.map Thread.dead }
        | .crashAfter => { s with st := crash (exec s.st r).1, ths := s.ths.map Thread.dead }
  | .lagStep i j =>
    match s.ths[i]? with
    | none => s
    | some t =>
      match t.prog with
      | .ret _ => s
      | .call r k =>
        if r.isRead then
          match s.past[j]? with
          | some p => s.reply i t r k s.st (exec p r).2
          | none => s.reply i t r k s.st (exec s.st r).2
        else s.reply i t r k (exec s.st r).1 (exec s.st r).2
  | .del k => { s with st := deleteKey s.st k false }
  | .gc => { s with st := gcStep s.st }
  | .unfin k f => { s with st := envUnfin s.st k f }
  | .edit k e => { s with st := envEdit s.st k e }
  | .create o => if (find s.st o.key).isSome then s else { s with st := ins s.st o }
  | .live l => { s with st := liveStep s.st l }

/-- what schedule step `a`, taken in configuration `s`, brings into the world -/
def Act.births (s : Sys) : Act → List Birth
  | .create o => [.obj o.key]
  | .live l => l.births s.st
  | _ => []

/-- one schedule step; the store it started from joins `past` (so that `past[j]` is the
store just before schedule step `j`) -/
def Sys.act (s : Sys) (a : Act) : Sys :=
  { s.act1 a with past := s.past ++ [s.st], births := s.births ++ [a.births s] }

def Act.isCreate : Act → Bool
  | .create _ => true
  | .live _ => true
  | _ => false

def Sys.run (s : Sys) : List Act → Sys
  | [] => s
  | a :: rest => (s.act a).run rest

/-- the configuration reached from store `st0` with no reconcile in flight -/
def reach (st0 : St) (acts : List Act) : Sys := Sys.run { st := st0, ths := [] } acts

/-- the schedule contains no creation step: it is made of reconciles of the six modelled
deletion branches (each call with any fault outcome, each read fresh or from a lagging
cache), user deletions, third-party edits, garbage collection steps, finalizer removals
and crashes -/
def NoCreate (acts : List Act) : Prop := ∀ a ∈ acts, a.isCreate = false

/-- every stored resourceVersion was issued before the next one -/
def WF (s : St) : Prop := ∀ o ∈ s.objs, o.rv < s.nextRv

/-! ### the property as a predicate on (state, controller, request about to be applied) -/

def present (s : St) (k : Key) : Bool := (find s k).isSome

def noneOf (s : St) (kd : Kind) : Bool := s.objs.all (fun o => o.key.kind != kd)

/-- the CRD `crd` is gone or is not controlled by the object with this uid -/
def crdNotOurs (s : St) (crd : String) (uid : Nat) : Bool :=
  match find s ⟨.crd, crd⟩ with
  | none => true
  | some c => !c.controlledBy uid

/-- the XR a stored claim references is gone, or (policy not Foreground) already being deleted -/
def claimXRGone (s : St) (cm : Obj) : Bool :=
  cm.ref == "" ||
  match find s ⟨.xr, cm.ref⟩ with
  | none => true
  | some x => x.del && !cm.flag

/-- `safeReq s c n r`: request `r`, about to be applied to state `s` by a reconcile of
controller `c` for key `n`, respects the teardown order.  A finalizer removal of a claim
or Usage carries the resourceVersion `rv` it was computed from: if the stored object has
another one (a third party edited it meanwhile) the API server rejects the write and
nothing is applied. -/
def safeReq (s : St) (c : Ctl) (n : String) : Req → Bool
  | .removeFin k rv fin =>
    match c with
    | .claim => fin != c08ClaimFinalizer || (match find s k with | none => true | some cm => cm.rv != rv || claimXRGone s cm)
    | .defined => fin != c08DefinedFinalizer || (match find s k with | none => true | some d => crdNotOurs s d.ref d.uid)
    | .offered => fin != c08OfferedFinalizer || (match find s k with | none => true | some d => crdNotOurs s d.of d.uid)
    | .rev => fin != c08RevisionFinalizer || (match find s lockKey with | none => true | some l => !l.pkgs.contains k.name)
    | .usage => fin != c08UsageFinalizer ||
        (match find s k with | none => true | some u => u.rv != rv || !(u.flag && u.ref != "") || !present s ⟨u.refKind, u.ref⟩)
    | .xr => true
  | .delete k _ =>
    match c with
    | .defined => k.kind != .crd || (noneOf s .xr && !s.running.contains (compositeCtrl n))
    | .offered => k.kind != .crd || (noneOf s .claim && !s.running.contains (claimCtrl n))
    | _ => true
  | .stop _ =>
    match c with
    | .defined => (match find s ⟨.xrd, n⟩ with | none => true | some d => crdNotOurs s d.ref d.uid || noneOf s .xr)
    | .offered => (match find s ⟨.xrd, n⟩ with | none => true | some d => crdNotOurs s d.of d.uid || noneOf s .claim)
    | _ => true
  | _ => true

/-- the next request of in-flight reconcile `i` violates the ordering constraint in the
current store -/
def Sys.violatesAt (s : Sys) (i : Nat) : Bool :=
  match s.ths[i]? with
  | none => false
  | some t =>
    match t.prog with
    | .call r _ => !safeReq s.st t.ctl t.name r
    | .ret _ => false

/-! ### what one reconcile has seen: histories and the local ordering constraints -/

abbrev Hist := List (Req × Resp)

/-- every request the program issues when run under fault plan `plan` from store `s`
(with any server semantics `sm`), paired with the history of requests and replies the
reconcile had seen when it issued it -/
def issued (sm : Sem St Req Resp) (plan : Plan) : Nat → Hist → P → St → List (Hist × Req)
  | _, _, .ret _, _ => []
  | k, h, .call r c, s =>
    match plan k with
    | .ok => (h, r) :: issued sm plan (k+1) (h ++ [(r, (sm.exec s r).2)]) (c (sm.exec s r).2) (sm.exec s r).1
    | .fail => (h, r) :: issued sm plan (k+1) (h ++ [(r, sm.errResp .fail r)]) (c (sm.errResp .fail r)) s
    | .conflict => (h, r) :: issued sm plan (k+1) (h ++ [(r, sm.errResp .conflict r)]) (c (sm.errResp .conflict r)) s
    | .crashBefore => [(h, r)]
    | .crashAfter => [(h, r)]

/-- `a` occurs in `h` strictly before `b` -/
def Before (h : Hist) (a b : Req × Resp) : Prop := ∃ h1 h2 h3, h = h1 ++ a :: h2 ++ b :: h3

/-- the reconcile has seen that the XR of claim `cm` is gone: it read it as NotFound, or
(policy not Foreground) its Delete was acknowledged -/
def XRGoneSeen (h : Hist) (cm : Obj) : Prop :=
  cm.ref = "" ∨ (Req.get ⟨.xr, cm.ref⟩, Resp.notFound) ∈ h ∨
  (cm.flag = false ∧ ((Req.delete ⟨.xr, cm.ref⟩ false, Resp.ok) ∈ h ∨ (Req.delete ⟨.xr, cm.ref⟩ false, Resp.notFound) ∈ h))

/-- the reconcile has read the CRD as NotFound or as not controlled by `uid` -/
def CRDNotOursSeen (h : Hist) (crd : String) (uid : Nat) : Prop :=
  (Req.get ⟨.crd, crd⟩, Resp.notFound) ∈ h ∨ ∃ c, (Req.get ⟨.crd, crd⟩, Resp.obj c) ∈ h ∧ c.controlledBy uid = false

/-- the reconcile has seen that revision `n` is not in the Lock -/
def NotInLockSeen (h : Hist) (n : String) : Prop :=
  (Req.get lockKey, Resp.notFound) ∈ h ∨ (∃ l, (Req.get lockKey, Resp.obj l) ∈ h ∧ n ∉ l.pkgs) ∨
  ∃ rv l, (Req.lockRemove rv n, Resp.obj l) ∈ h

/-- `guardH c n h r`: what a reconcile of controller `c` for key `n` must have seen (`h`)
when it issues request `r`. -/
def guardH (c : Ctl) (n : String) (h : Hist) : Req → Prop
  | .removeFin k rv fin =>
    match c with
    | .claim => fin = c08ClaimFinalizer → k = ⟨.claim, n⟩ ∧ ∃ cm, (Req.get ⟨.claim, n⟩, Resp.obj cm) ∈ h ∧ rv = cm.rv ∧ XRGoneSeen h cm
    | .defined => fin = c08DefinedFinalizer → k = ⟨.xrd, n⟩ ∧ ∃ d, (Req.get ⟨.xrd, n⟩, Resp.obj d) ∈ h ∧ CRDNotOursSeen h d.ref d.uid
    | .offered => fin = c08OfferedFinalizer → k = ⟨.xrd, n⟩ ∧ ∃ d, (Req.get ⟨.xrd, n⟩, Resp.obj d) ∈ h ∧ CRDNotOursSeen h d.of d.uid
    | .rev => fin = c08RevisionFinalizer → k = ⟨.rev, n⟩ ∧ NotInLockSeen h n
    | .usage => fin = c08UsageFinalizer → k = ⟨.usage, n⟩ ∧ ∃ u, (Req.get ⟨.usage, n⟩, Resp.obj u) ∈ h ∧ rv = u.rv ∧
        (u.ref = "" ∨ u.flag = false ∨ (Req.get ⟨u.refKind, u.ref⟩, Resp.notFound) ∈ h)
    | .xr => True
  | .delete k _ =>
    match c with
    | .defined => k.kind = .crd →
        Before h (Req.list .xr, Resp.list []) (Req.stop (compositeCtrl n), Resp.ok)
    | .offered => k.kind = .crd →
        Before h (Req.list .claim, Resp.list []) (Req.stop (claimCtrl n), Resp.ok)
    | _ => k.kind ≠ .crd
  | .stop ctl =>
    match c with
    | .defined => ctl = compositeCtrl n ∧ ∃ d, (Req.get ⟨.xrd, n⟩, Resp.obj d) ∈ h ∧
        (CRDNotOursSeen h d.ref d.uid ∨ (Req.list .xr, Resp.list []) ∈ h)
    | .offered => ctl = claimCtrl n ∧ ∃ d, (Req.get ⟨.xrd, n⟩, Resp.obj d) ∈ h ∧
        (CRDNotOursSeen h d.of d.uid ∨ (Req.list .claim, Resp.list []) ∈ h)
    | _ => False
  | _ => True

/-- `Always φ h p`: on every path of `p` (every possible reply to every call), each
request is issued only when `φ` holds of the history so far. -/
def Always (φ : Hist → Req → Prop) : Hist → P → Prop
  | _, .ret _ => True
  | h, .call r k => φ h r ∧ ∀ x, Always φ (h ++ [(r, x)]) (k x)

/-! ### stable facts, births and the windows

What a reconcile learns from a reply (`learn`) is a `Fact` about the store.  No step of the
creation-free alphabet invalidates a fact (Xp/Proofs/C08Trace.lean); a creating step
(`Act.create`, `Act.live`) invalidates exactly the facts its births threaten
(`Birth.threatens`, Xp/Proofs/C08Live.lean).  A schedule is `Calm` when no creating step is
taken while an in-flight reconcile holds a fact it threatens, and no read is answered from a
cache older than a birth that threatens what the reply teaches: these are the windows of the
recorded findings (an XR created between the XRD reconcile's empty List and its Stop /
Delete(crd); a cache that has not seen an XR / CRD yet) and their analogues for the other
births (a controller started, a CRD adopted, a package added to the Lock behind a teardown
reconcile's back). -/

/-- the stored object `o` under key `k` is a later version of the copy `a` read earlier: it
agrees with it on the fields nothing changes, and on the editable ones (`ref`, `flag`)
if it still has the resourceVersion of the copy (or the kind is not editable) -/
structure Obj.Same (k : Key) (a o : Obj) : Prop where
  rv : a.rv ≤ o.rv
  uid : o.uid = a.uid
  of_ : o.of = a.of
  owners : o.owners = a.owners
  refKind : o.refKind = a.refKind
  ofKind : o.ofKind = a.ofKind
  same : (o.rv = a.rv ∨ editable k.kind = false) → o.ref = a.ref ∧ o.flag = a.flag

/-- facts a reconcile can learn from a reply and that no later step invalidates -/
inductive Fact where
  | gone (k : Key)
  | goneOrDel (k : Key)
  | noneOf (kd : Kind)
  | stopped (c : String)
  | immut (k : Key) (a : Obj)
  | pkgsSub (ps : List String)
  | notInLock (n : String)

def Fact.holds (s : St) : Fact → Prop
  | .gone k => find s k = none
  | .goneOrDel k => ∀ o, find s k = some o → o.del = true
  | .noneOf kd => ∀ o ∈ s.objs, o.key.kind ≠ kd
  | .stopped c => c ∉ s.running
  | .immut k a => ∀ o, find s k = some o → Obj.Same k a o
  | .pkgsSub ps => ∀ l, find s lockKey = some l → ∀ p ∈ l.pkgs, p ∈ ps
  | .notInLock n => ∀ l, find s lockKey = some l → n ∉ l.pkgs

/-- what a reply teaches -/
def learn : Req → Resp → List Fact
  | .get k, .notFound => [.gone k]
  | .get k, .obj o => .immut k o :: (if k = lockKey then [.pkgsSub o.pkgs] else [])
  | .delete k _, .ok => [.goneOrDel k]
  | .delete k _, .notFound => [.gone k]
  | .list kd, .list [] => [.noneOf kd]
  | .stop c, .ok => [.stopped c]
  | .lockRemove _ n, .obj _ => [.notInLock n]
  | _, _ => []

def facts (h : Hist) : List Fact := h.flatMap (fun p => learn p.1 p.2)


def Birth.threatens : Birth → Fact → Bool
  | .obj k, .gone k' => k = k'
  | .obj k, .goneOrDel k' => k = k'
  | .obj k, .noneOf kd => k.kind = kd
  | .obj k, .immut k' _ => k = k'
  | .obj k, .pkgsSub _ => k = lockKey
  | .obj k, .notInLock _ => k = lockKey
  | .owners k, .immut k' _ => k = k'
  | .start c, .stopped c' => c = c'
  | .lock p, .pkgsSub ps => !ps.contains p
  | .lock p, .notInLock n => p = n
  | _, _ => false

def Thread.inFlight (t : Thread) : Bool :=
  match t.prog with
  | .call _ _ => true
  | .ret _ => false

/-- the births of the schedule steps from step `j` on -/
def Sys.birthsSince (s : Sys) (j : Nat) : List Birth := (s.births.drop j).flatten

/-- what a lagging read of reconcile `i` from `past[j]` teaches -/
def Sys.lagLearns (s : Sys) (i j : Nat) : List Fact :=
  match s.ths[i]?, s.past[j]? with
  | some t, some p =>
    match t.prog with
    | .call r _ => if r.isRead then learn r (exec p r).2 else []
    | .ret _ => []
  | _, _ => []

/-- schedule step `a`, taken in configuration `s`, stays outside the windows: it brings
nothing into the world that threatens a fact an in-flight reconcile has learned, and if it
is a lagging read, nothing born since the cache's store threatens what the reply teaches -/
def Sys.calm (s : Sys) (a : Act) : Prop :=
  (∀ t ∈ s.ths, t.inFlight = true → ∀ f ∈ facts t.hist, ∀ b ∈ a.births s, b.threatens f = false) ∧
  (∀ i j, a = .lagStep i j → ∀ f ∈ s.lagLearns i j, ∀ b ∈ s.birthsSince j, b.threatens f = false)

/-- every step of the schedule, taken where the schedule takes it, stays outside the windows -/
def Calm : Sys → List Act → Prop
  | _, [] => True
  | s, a :: rest => s.calm a ∧ Calm (s.act a) rest


/-- `Sys.calm` as a test (used by the driver; `calm_of_calmB` in Xp/Proofs/C08Live.lean) -/
def Sys.calmB (s : Sys) (a : Act) : Bool :=
  (s.ths.all fun t => !t.inFlight || (facts t.hist).all fun f => (a.births s).all fun b => !b.threatens f) &&
  (match a with
   | .lagStep i j => (s.lagLearns i j).all fun f => (s.birthsSince j).all fun b => !b.threatens f
   | _ => true)

/-! ### declared call skeletons (tie "a")

For every Go function the programs above mirror: the ordered list of its calls (client
verbs, finalizer helpers, engine, Lock manager, package cache, branch guards) as this model
understands it, one entry per call, each with the model step that mirrors it.  The same
lists are re-extracted from the CURRENT source tree by go/ast on every check run
(`Xp.Gen.c08Skel…`, harness/main/c08_dump.go); `Xp/Props/C08.lean` states that they are
equal (`skeleton_*`), and that the requests the model's program issues along its designated
paths are exactly the entries marked with that path, in source order (`skeleton_*_path*`):
the declared skeleton is checked against the source AND against the `Prog` trees. -/

/-- what the model makes of one call of a Go function -/
inductive SkStep where
  /-- mirrored by a request of this constructor (`Req.tag`), issued on the designated paths
  listed (indices into the function's `…Paths`) and possibly on others -/
  | req (tag : String) (paths : List Nat)
  /-- a branch guard (`meta.WasDeleted` …): mirrored by an `if` of the program -/
  | guard (how : String)
  /-- a call of the live (not deleted) branch that creates / re-creates something: mirrored by
  the abstract step `Act.live` of this name -/
  | live (act : String)
  /-- not mirrored, with the reason -/
  | no (why : String)
  deriving DecidableEq, Repr

def Req.tag : Req → String
  | .get _ => "get" | .list _ => "list" | .listUsagesOf _ _ => "listUsagesOf"
  | .listSel _ _ => "listSel"
  | .setStatus _ _ _ => "setStatus" | .removeFin _ _ _ => "removeFin" | .delete _ _ => "delete"
  | .deleteAll _ => "deleteAll" | .lockRemove _ _ => "lockRemove" | .unlabel _ _ => "unlabel"
  | .stop _ => "stop" | .cacheDelete _ => "cacheDelete"

/-- the requests a program issues when it sees these replies, in order -/
def pathReqs : P → List Resp → List Req
  | .ret _, _ => []
  | .call r _, [] => [r]
  | .call r k, x :: xs => r :: pathReqs (k x) xs

/-- the request tags of the entries of a declared skeleton that lie on designated path `i` -/
def onPath (i : Nat) (sk : List (String × SkStep)) : List String :=
  sk.filterMap fun e => match e.2 with
    | .req t ps => if ps.contains i then some t else none
    | _ => none

def calls (sk : List (String × SkStep)) : List String := sk.map (·.1)

private def liveXR := "live branch of the XR reconciler (composition): C01/C02/C05; creates composed resources, never XRs, claims, CRDs or Lock entries"
private def errStatus := "setStatus"

/-- `claim.Reconciler.Reconcile` ↔ `claimRec` / `claimGot` / `claimBound` / `claimDeleted` / `claimFinalize`.
Paths: 0 = Background, bound XR exists; 1 = Foreground, XR already terminating. -/
def skelClaim : List (String × SkStep) := [
  ("client.Get", .req "get" [0, 1]),                       -- claimRec: get claim
  ("meta.IsPaused", .guard "claimGot: cm.paused"),
  ("client.Status.Update", .req errStatus []),            -- claimGot: Paused
  ("client.Get", .req "get" [0, 1]),                       -- claimGot: get XR (skipped when resourceRef is nil)
  ("client.Status.Update", .req errStatus []),            -- claimGot: err:getXR
  ("meta.WasCreated", .guard "claimBound: xr = some x ∧ x.ref ≠ \"\" ∧ x.ref ≠ claim"),
  ("client.Status.Update", .req errStatus []),            -- claimBound: err:unbound
  ("managedFields.Upgrade", .no "default NopManagedFieldsUpgrader (SSA claims off): no call, never fails"),
  ("client.Status.Update", .no "error path of Upgrade: unreachable with the no-op upgrader"),
  ("meta.WasDeleted", .guard "claimBound: cm.del (else Res.oos; the live branch is Act.live)"),
  ("meta.WasCreated", .guard "claimDeleted: match xr with some x"),
  ("meta.WasDeleted", .guard "claimDeleted: x.del && cm.flag"),
  ("client.Status.Update", .req errStatus [1]),           -- claimDeleted: Foreground wait
  ("client.Delete", .req "delete" [0]),                   -- claimDeleted: delete XR (fg = cm.flag)
  ("client.Status.Update", .req errStatus []),            -- claimDeleted: err:deleteXR
  ("claim.UnpublishConnection", .no "default no-op unpublisher (claims publish nothing themselves): no call, never fails"),
  ("client.Status.Update", .no "error path of UnpublishConnection: unreachable with the no-op unpublisher"),
  ("claim.RemoveFinalizer", .req "removeFin" [0]),        -- claimFinalize (APIFinalizer: Update under the read resourceVersion, skipped when absent)
  ("client.Status.Update", .req errStatus []),            -- claimFinalize: err:removeFin
  ("client.Status.Update", .req errStatus [0]),           -- claimFinalize: Success
  ("claim.AddFinalizer", .live "addFin (claim, claim finalizer)"),
  ("client.Status.Update", .no "live branch: status only"),
  ("composite.Sync", .live "syncXR: creates the XR the claim names (or a generated name) when absent, binds claim and XR"),
  ("client.Status.Update", .no "live branch: status only"),
  ("client.Status.Update", .no "live branch: status only (Waiting)"),
  ("composite.PropagateConnection", .no "live branch: connection secrets are C09's"),
  ("client.Status.Update", .no "live branch: status only"),
  ("client.Status.Update", .no "live branch: status only (Available)")]

/-- `composite.Reconciler.Reconcile` ↔ `xrRec`.  Paths: 0 = terminating XR with our finalizer; 1 = paused. -/
def skelXR : List (String × SkStep) := [
  ("client.Get", .req "get" [0, 1]),
  ("meta.IsPaused", .guard "x.paused"),
  ("client.Status.Update", .req errStatus [1]),           -- Paused
  ("meta.WasDeleted", .guard "x.del (else Res.oos)"),
  ("composite.UnpublishConnection", .no "default no-op publisher: no call, never fails"),
  ("client.Status.Update", .no "error path of UnpublishConnection: unreachable"),
  ("composite.RemoveFinalizer", .req "removeFin" [0]),
  ("client.Status.Update", .req errStatus []),            -- err:removeFin
  ("client.Status.Update", .req errStatus [0]),           -- Success
  ("composite.AddFinalizer", .live "addFin (xr, XR finalizer)"),
  ("client.Status.Update", .no liveXR), ("composite.SelectComposition", .no liveXR),
  ("client.Status.Update", .no liveXR), ("revision.Fetch", .no liveXR),
  ("client.Status.Update", .no liveXR), ("revision.Validate", .no liveXR),
  ("client.Status.Update", .no liveXR), ("composite.Configure", .no liveXR),
  ("client.Status.Update", .no liveXR), ("resource.Compose", .no liveXR),
  ("client.Status.Update", .no liveXR), ("engine.StartWatches", .no liveXR),
  ("composite.PublishConnection", .no liveXR), ("client.Status.Update", .no liveXR),
  ("client.Status.Update", .no liveXR), ("client.Status.Update", .no liveXR)]

private def liveStopVersion := "live branch, referenceable version changed: controller RESTART (Stop then Start) of a live XRD; not a teardown stop, not modelled (the harness's XRDs carry no status.controllers ref)"

/-- `definition.Reconciler.Reconcile` ↔ `definedRec` / `xrdFinish` / `xrdStopDelete`.
Paths: 0 = CRD ours, no XR left; 1 = CRD gone. -/
def skelDefined : List (String × SkStep) := [
  ("client.Get", .req "get" [0, 1]),
  ("composite.Render", .no "pure (xcrd.ForCompositeResource); its error returns before any call; the harness's XRDs always render; only crd.name (= d.ref) is used by the deletion branch"),
  ("meta.WasDeleted", .guard "d.del (else Res.oos; the live branch is Act.live)"),
  ("client.Status.Update", .req "setStatus" [0, 1]),      -- TerminatingComposite
  ("client.Get", .req "get" [0, 1]),                       -- get CRD
  ("meta.WasCreated", .guard "reply .notFound"),
  ("metav1.IsControlledBy", .guard "c.controlledBy d.uid"),
  ("engine.Stop", .req "stop" [1]),                       -- xrdFinish
  ("composite.RemoveFinalizer", .req "removeFin" [1]),    -- xrdFinish (under the rv the status update returned)
  ("client.DeleteAllOf", .req "deleteAll" [0]),
  ("client.List", .req "list" [0]),
  ("engine.Stop", .req "stop" [0]),                       -- xrdStopDelete
  ("client.Delete", .req "delete" [0]),                   -- xrdStopDelete: delete CRD
  ("composite.AddFinalizer", .live "addFin (xrd, defined finalizer)"),
  ("client.Apply", .live "applyCRD (composite): creates the CRD controlled by the XRD, or adopts an uncontrolled one"),
  ("engine.Stop", .no liveStopVersion),
  ("engine.IsRunning", .guard "live branch: Start only when not running (Act.live start is idempotent)"),
  ("client.Status.Update", .no "live branch: status only"),
  ("engine.Start", .live "start (composite controller)"),
  ("engine.StartWatches", .no "live branch: watches are C13's; a controller counts as running from Start on"),
  ("client.Status.Update", .no "live branch: status only")]

/-- `offered.Reconciler.Reconcile` ↔ `offeredRec` / `deleteEach` / `xrdFinish` / `xrdStopDelete`.
Paths: 0 = CRD ours, no claim left; 1 = CRD gone; 2 = CRD ours, one claim listed. -/
def skelOffered : List (String × SkStep) := [
  ("client.Get", .req "get" [0, 1, 2]),
  ("claim.Render", .no "pure (xcrd.ForCompositeResourceClaim); see skelDefined"),
  ("meta.WasDeleted", .guard "d.del (else Res.oos; the live branch is Act.live)"),
  ("client.Status.Update", .req "setStatus" [0, 1, 2]),   -- TerminatingClaim
  ("client.Get", .req "get" [0, 1, 2]),                    -- get CRD
  ("meta.WasCreated", .guard "reply .notFound"),
  ("metav1.IsControlledBy", .guard "c.controlledBy d.uid"),
  ("engine.Stop", .req "stop" [1]),
  ("claim.RemoveFinalizer", .req "removeFin" [1]),
  ("client.List", .req "list" [0, 2]),
  ("client.Delete", .req "delete" [2]),                   -- deleteEach (one per listed claim)
  ("engine.Stop", .req "stop" [0]),
  ("client.Delete", .req "delete" [0]),                   -- delete CRD
  ("claim.AddFinalizer", .live "addFin (xrd, offered finalizer)"),
  ("client.Apply", .live "applyCRD (claim): creates the CRD controlled by the XRD, or adopts an uncontrolled one"),
  ("engine.Stop", .no liveStopVersion),
  ("engine.IsRunning", .guard "live branch: Start only when not running (Act.live start is idempotent)"),
  ("client.Status.Update", .no "live branch: status only"),
  ("engine.Start", .live "start (claim controller)"),
  ("engine.StartWatches", .no "live branch: watches are C13's"),
  ("client.Status.Update", .no "live branch: status only")]

private def liveRev := "live branch of the revision reconciler (fetch, parse, lint, establish): C14/C15/C17"

/-- `revision.Reconciler.Reconcile` ↔ `revRec` / `revFinalize`; `lock.RemoveSelf` is inlined
(`skelRemoveSelf`).  Path 0 = terminating revision that is in the Lock. -/
def skelRevision : List (String × SkStep) := [
  ("client.Get", .req "get" [0]),
  ("meta.IsPaused", .guard "pr.paused"),
  ("client.Status.Update", .req errStatus []),            -- Paused
  ("meta.WasDeleted", .guard "pr.del (else Res.oos)"),
  ("cache.Delete", .req "cacheDelete" [0]),
  ("lock.RemoveSelf", .req "RemoveSelf" [0]),             -- inlined: skelRemoveSelf
  ("revision.RemoveFinalizer", .req "removeFin" [0]),
  ("client.Status.Update", .no liveRev),                  -- paused condition cleanup
  ("client.Status.Update", .no liveRev),
  ("revision.AddFinalizer", .live "addFin (rev, revision finalizer)"),
  ("client.Status.Update", .no liveRev), ("client.Status.Update", .no liveRev),
  ("deactivateRevision", .no liveRev), ("client.Status.Update", .no liveRev),
  ("cache.Get", .no liveRev), ("cache.Delete", .no liveRev),
  ("client.Status.Update", .no liveRev), ("client.Status.Update", .no liveRev),
  ("cache.Delete", .no liveRev), ("client.Status.Update", .no liveRev),
  ("client.Status.Update", .no liveRev), ("client.Status.Update", .no liveRev),
  ("client.Update", .no liveRev), ("client.Status.Update", .no liveRev),
  ("client.Status.Update", .no liveRev),
  ("lock.Resolve", .live "lockAdd: the revision adds itself to the Lock (skelResolve)"),
  ("client.Status.Update", .no liveRev), ("runtimeHook.Pre", .no liveRev),
  ("client.Status.Update", .no liveRev), ("objects.Establish", .no liveRev),
  ("client.Status.Update", .no liveRev), ("runtimeHook.Post", .no liveRev),
  ("client.Status.Update", .no liveRev), ("client.Status.Update", .no liveRev)]

/-- `PackageDependencyManager.RemoveSelf` ↔ the `get lockKey` / `lockRemove` part of `revRec` -/
def skelRemoveSelf : List (String × SkStep) := [
  ("client.Get", .req "get" [0]),
  ("client.Update", .req "lockRemove" [0])]               -- full replace under the read rv = rv precondition + delta

/-- `PackageDependencyManager.Resolve` ↔ `Act.live lockAdd` -/
def skelResolve : List (String × SkStep) := [
  ("client.Get", .live "lockAdd reads the Lock"),
  ("client.Create", .live "lockAdd creates the Lock when it does not exist"),
  ("RemoveSelf", .no "same name, other source (relocated image): remove then re-add; net effect on membership none"),
  ("client.Get", .no "refresh after that RemoveSelf"),
  ("client.Update", .live "lockAdd appends the revision to the Lock's packages when absent")]

/-- `usage.Reconciler.Reconcile` ↔ `usageRec` / `usageUsed` / `usageFinalize`.
Paths: 0 = composed Usage, using resource gone, used resource exists, last Usage of it;
1 = using resource still exists. -/
def skelUsage : List (String × SkStep) := [
  ("client.Get", .req "get" [0, 1, 2]),
  ("usage.resolveSelectors", .req "listSel" [2]),         -- skelSelResolve: only an unresolved spec.by selector makes a call
  ("meta.WasDeleted", .guard "u.del (else Res.oos; the live branch is Act.live)"),
  ("client.Get", .req "get" [0, 1]),                       -- using resource (only when composed and spec.by set)
  ("client.Get", .req "get" [0]),                          -- used resource
  ("client.List", .req "listUsagesOf" [0]),
  ("client.Update", .req "unlabel" [0]),
  ("client.Delete", .no "replayDeletion: asynchronous, after the Usage is gone; not exercised"),
  ("usage.RemoveFinalizer", .req "removeFin" [0]),
  ("usage.AddFinalizer", .live "addFin (usage, usage finalizer)"),
  ("client.Update", .no "live branch: details annotation"),
  ("client.Get", .no "live branch: read of the used resource"),
  ("client.Update", .live "usageLabel: in-use label on the used resource"),
  ("client.Get", .no "live branch: read of the using resource"),
  ("client.Update", .live "usageOwn: owner reference to the using resource"),
  ("client.Status.Update", .no "live branch: status only")]

/-- `apiSelectorResolver.resolveSelectors` ↔ the `u.sel` branch of `usageRec` -/
def skelSelResolve : List (String × SkStep) := [
  ("resolveSelector", .no "spec.of: always resolved in the harness's Usages (the used resource must be known)"),
  ("client.Update", .no "spec.of resolved: see above"),
  ("resolveSelector", .req "listSel" [2]),                -- skelSelResolveOne
  ("client.Update", .no "the resolved spec.by reference is persisted and the reconcile goes on with the updated copy: Res.oos")]

/-- `apiSelectorResolver.resolveSelector` ↔ `Req.listSel` -/
def skelSelResolveOne : List (String × SkStep) := [
  ("client.List", .req "listSel" [2])]

/-- `engine.ControllerEngine.Stop` ↔ `Req.stop`: a failing watch stop is the `.err` reply
(nothing dropped), otherwise the controller's context is cancelled and it leaves the
running set (`running.filter (· ≠ c)`). The lock protocol is C13's. -/
def skelEngineStop : List (String × SkStep) := [
  ("w.Stop", .no "a failing watch stop = reply .err of Req.stop (injected by the schedule)"),
  ("c.cancel", .req "stop" [])]

/-- `engine.ControllerEngine.Start` ↔ `Act.live start` -/
def skelEngineStart : List (String × SkStep) := [
  ("c.Start", .live "start: the controller joins the running set"),
  ("Stop", .no "cleanup when the controller's Start returns an error: C13")]

/-- replies that drive the programs along their designated paths (`skeleton_*_path*`) -/
def pathObj (k : Key) (fins : List String) : Obj :=
  { key := k, uid := 1, rv := 1, fins := fins, del := true, owners := [], conds := [], paused := false,
    ref := "r", of := "o", flag := false, inuse := false, pkgs := [] }

open Xp.Gen in
def claimPaths : List (List Resp) :=
  let cm := pathObj ⟨.claim, "n"⟩ [c08ClaimFinalizer]
  let x := { pathObj ⟨.xr, "r"⟩ [] with ref := "n" }
  [[.obj cm, .obj x, .ok, .obj cm, .obj cm], [.obj { cm with flag := true }, .obj x, .obj cm]]

open Xp.Gen in
def xrPaths : List (List Resp) :=
  let x := pathObj ⟨.xr, "n"⟩ [c08XRFinalizer]
  [[.obj x, .obj x, .obj x], [.obj { x with paused := true }, .obj x]]

open Xp.Gen in
def definedPaths : List (List Resp) :=
  let d := pathObj ⟨.xrd, "n"⟩ [c08DefinedFinalizer]
  let c := { pathObj ⟨.crd, "r"⟩ [] with owners := [⟨1, true, true⟩] }
  [[.obj d, .obj d, .obj c, .ok, .list [], .ok, .ok], [.obj d, .obj d, .notFound, .ok, .obj d]]

open Xp.Gen in
def offeredPaths : List (List Resp) :=
  let d := pathObj ⟨.xrd, "n"⟩ [c08OfferedFinalizer]
  let c := { pathObj ⟨.crd, "o"⟩ [] with owners := [⟨1, true, true⟩] }
  [[.obj d, .obj d, .obj c, .list [], .ok, .ok], [.obj d, .obj d, .notFound, .ok, .obj d],
   [.obj d, .obj d, .obj c, .list [pathObj ⟨.claim, "ns/c"⟩ []], .ok]]

open Xp.Gen in
def revPaths : List (List Resp) :=
  let pr := pathObj ⟨.rev, "n"⟩ [c08RevisionFinalizer]
  let l := { pathObj lockKey [] with pkgs := ["n"] }
  [[.obj pr, .ok, .obj l, .obj l, .obj pr]]

open Xp.Gen in
def usagePaths : List (List Resp) :=
  let u := { pathObj ⟨.usage, "n"⟩ [c08UsageFinalizer] with flag := true }
  let used := pathObj ⟨.res, "o"⟩ []
  [[.obj u, .notFound, .obj used, .list [u], .obj used, .obj u], [.obj u, .obj used],
   [.obj { u with sel := true }, .list []]]

/-- the request tags the program issues along designated path `i` -/
def pathTags (p : P) (paths : List (List Resp)) (i : Nat) : List String :=
  (pathReqs p (paths.getD i [])).map Req.tag

end Xp.C08

import Xp.Base.Json
import Xp.Gen.Xcrd
import Xp.Gen.C07
import Xp.Gen.C07Skel
/-
C07 model: how a claim and its composite resource (XR) are synced.

Mirrors, call by call,
  internal/controller/apiextensions/claim/syncer_ssa.go  ServerSideCompositeSyncer.Sync
  internal/controller/apiextensions/claim/syncer_csa.go  ClientSideCompositeSyncer.Sync
  internal/controller/apiextensions/claim/object.go      withoutReservedK8sEntries, withoutKeys, merge (mergo)
over a projection of Kubernetes objects to {name, labels, annotations, spec,
status}, together with the API-server operations the syncers use (update,
status update, server-side apply with one field manager, create, JSON merge
patch) as harness/main/simstore.go implements them.

The key tables come from `Xp.Gen` (regenerated from internal/xcrd/schemas.go on
every run). Typed round trips through corev1.ObjectReference, metav1.Time and
xpv1.Condition are the identity on the canonical forms the API server admits and
are modelled as such (the correspondence stream calibrates this).
-/
namespace Xp.C07
open Xp

/-! ### association lists -/

abbrev AL (α : Type) := List (String × α)

def alookup {α} (k : String) : AL α → Option α
  | [] => none
  | (k', v) :: rest => if k' = k then some v else alookup k rest

def aerase {α} (k : String) : AL α → AL α
  | [] => []
  | (k', v) :: rest => if k' = k then aerase k rest else (k', v) :: aerase k rest

def aset {α} (k : String) (v : α) : AL α → AL α
  | [] => [(k, v)]
  | (k', v') :: rest => if k' = k then (k, v) :: rest else (k', v') :: aset k v rest

/-- `for k, v := range src { dst[k] = v }` -/
def addAll {α} (dst : AL α) : AL α → AL α
  | [] => dst
  | (k, v) :: rest => addAll (aset k v dst) rest

def akeys {α} (l : AL α) : List String := l.map (·.1)

/-- no duplicate keys (what a decoded JSON object is) -/
def NoDup {α} (l : AL α) : Prop := (akeys l).Nodup

/-- object.go `withoutKeys` -/
def withoutKeys {α} (m : AL α) (ks : List String) : AL α := m.filter fun kv => !ks.contains kv.1

def eraseAll {α} (m : AL α) : List String → AL α
  | [] => m
  | k :: ks => eraseAll (aerase k m) ks

/-! ### the projection of a Kubernetes object -/

structure KObj where
  name : String
  labels : AL String := []
  /-- `none`: metadata.annotations absent (meta.AddAnnotations distinguishes this from `{}`) -/
  annotations : Option (AL String) := none
  spec : Option J := none
  status : Option J := none
  deriving Inhabited

/-- group/version/kind constants of one claim/XR pair -/
structure Cfg where
  claimAPIVersion : String
  claimKind : String
  claimNS : String
  xrAPIVersion : String
  xrKind : String

def objFields : Option J → AL J
  | some (.obj l) => l
  | _ => []

def KObj.specFields (o : KObj) : AL J := objFields o.spec
def KObj.statusFields (o : KObj) : AL J := objFields o.status
def KObj.anns (o : KObj) : AL String := o.annotations.getD []

/-! ### object.go -/

/-- the character `withoutReservedK8sEntries` splits a key at (the string literal of its
strings.Split call, regenerated from object.go; `reserved_tables` in Props pins that it
is one one-character separator) -/
def reservedSep : Char := ((Xp.Gen.c07ReservedSeparators.headD "/").toList.headD '/')

/-- `strings.Split(k, sep)[0]` for a one-character separator -/
def firstPart (k : String) : List Char := k.toList.takeWhile (· != reservedSep)

/-- `withoutReservedK8sEntries`: the part of the key before the first "/" ends in one of
the suffixes of the `strings.HasSuffix` tests of the current tree (kubernetes.io, k8s.io). -/
def reserved (k : String) : Bool :=
  Xp.Gen.c07ReservedSuffixes.any fun suf => suf.toList.isSuffixOf (firstPart k)

def withoutReserved (m : AL String) : AL String := m.filter fun kv => !reserved kv.1

/-- mergo's isEmptyValue on decoded JSON -/
def isEmptyJ : J → Bool
  | .null => true
  | .bool b => !b
  | .num n => n == 0
  | .str s => s == ""
  | .arr l => l.isEmpty
  | .obj l => l.isEmpty

/- `mergo.Merge(&dst, src, opts...)` on `map[string]any` holding decoded JSON
(mergo v1.0.1 deepMerge, reflect.Map case). `ov` = mergo.WithOverride.
`mergeV ov d s` is the new binding of one key given its old binding `d`. -/
mutual
def mergeV (ov : Bool) (dst : Option J) (src : J) : Option J :=
  match src with
  | .null => if ov then some .null else dst
  | .obj sm =>
    match dst with
    | none => some (.obj sm)
    | some (.obj dm) =>
      let dm' := mergeF ov dm sm
      if dm'.isEmpty then some (.obj sm) else some (.obj dm')
    | some d => if isEmptyJ d || ov then some (.obj sm) else some d
  | s =>
    if ov then some s else
    match dst with
    | none => some s
    | some d => if isEmptyJ d then some s else some d
def mergeF (ov : Bool) (dst : AL J) : AL J → AL J
  | [] => dst
  | (k, sv) :: rest =>
    match mergeV ov (alookup k dst) sv with
    | some v => mergeF ov (aset k v dst) rest
    | none => mergeF ov dst rest
end

/-! ### API-server operations (simstore.go) on values -/

/- JSON merge patch (RFC 7386) as simstore.mergePatch. -/
mutual
def mpV (dst : Option J) (p : J) : J :=
  match p with
  | .obj pm => .obj (mpF (objFields dst) pm)
  | v => v
def mpF (dst : AL J) : AL J → AL J
  | [] => dst
  | (k, v) :: rest =>
    match v with
    | .null => mpF (aerase k dst) rest
    | v => mpF (aset k (mpV (alookup k dst) v) dst) rest
end

/- simstore.ssaMerge: maps merge recursively, everything else is replaced. -/
mutual
def ssaMergeV (dst : Option J) (cfg : J) : J :=
  match cfg with
  | .obj cm => .obj (ssaMergeF (objFields dst) cm)
  | v => v
def ssaMergeF (dst : AL J) : AL J → AL J
  | [] => dst
  | (k, v) :: rest => ssaMergeF (aset k (ssaMergeV (alookup k dst) v) dst) rest
end

/- simstore.ssaRemove with no other field manager: every leaf this manager applied
before (`prev`) and omits now (`cfg`) is removed; a map emptied that way and
absent from `cfg` is removed too. -/
mutual
def ssaRemoveV (dst : AL J) (cfg : AL J) (k : String) (pv : J) : AL J :=
  match pv with
  | .obj pm =>
    match alookup k dst with
    | some (.obj dm) =>
      let cm := objFields (alookup k cfg)
      let dm' := ssaRemoveF dm cm pm
      if dm'.isEmpty && (alookup k cfg).isNone then aerase k dst else aset k (.obj dm') dst
    | _ => dst
  | _ => if (alookup k cfg).isNone then aerase k dst else dst
def ssaRemoveF (dst : AL J) (cfg : AL J) : AL J → AL J
  | [] => dst
  | (k, pv) :: rest => ssaRemoveF (ssaRemoveV dst cfg k pv) cfg rest
end

/-- the same on string-valued maps (labels, annotations) -/
def ssaRemoveS (dst : AL String) (cfg : AL String) : AL String → AL String
  | [] => dst
  | (k, _) :: rest => ssaRemoveS (if (alookup k cfg).isNone then aerase k dst else dst) cfg rest

/-! ### order-insensitive equality (cmp.Equal on decoded JSON maps) -/

mutual
def jeqv : J → J → Bool
  | .null, .null => true
  | .bool a, .bool b => a == b
  | .num a, .num b => a == b
  | .str a, .str b => a == b
  | .arr a, .arr b => jeqvL a b
  | .obj a, .obj b => a.length == b.length && jeqvF a b
  | _, _ => false
def jeqvL : List J → List J → Bool
  | [], [] => true
  | x :: xs, y :: ys => jeqv x y && jeqvL xs ys
  | _, _ => false
def jeqvF : AL J → AL J → Bool
  | [], _ => true
  | (k, v) :: rest, b =>
    (match alookup k b with
     | some w => jeqv v w
     | none => false) && jeqvF rest b
end

def seqv (a b : AL String) : Bool :=
  a.length == b.length && a.all fun kv => alookup kv.1 b == some kv.2

def oeqv {α} (f : α → α → Bool) : Option α → Option α → Bool
  | none, none => true
  | some a, some b => f a b
  | _, _ => false

/-- cmp.Equal(current, desired) on two XRs read from / derived from the same
stored object (status and all other metadata coincide by construction). -/
def kobjEqv (a b : KObj) : Bool :=
  a.name == b.name && seqv a.labels b.labels && oeqv seqv a.annotations b.annotations && oeqv jeqv a.spec b.spec

/-! ### tables (regenerated from internal/xcrd/schemas.go) -/

def extNameKey : String := Xp.Gen.annotationKeyExternalName

/-- The claim spec keys NOT propagated to the XR: CompositeResourceClaimSpecProps
minus PropagateSpecProps, minus compositionRevisionRef when the XR's update policy is Manual. -/
def claimFilter (manual : Bool) : List String :=
  (Xp.Gen.specPropsClaim.filter fun k => !Xp.Gen.propagateSpecProps.contains k).filter
    fun k => !(manual && k == Xp.Gen.compositionRevisionRefKey)

/-- The XR spec keys the client-side syncer does NOT merge back into the claim:
CompositeResourceSpecProps minus PropagateSpecProps. -/
def xrFilter : List String :=
  Xp.Gen.specPropsXR.filter fun k => !Xp.Gen.propagateSpecProps.contains k

/-! ### accessors -/

def strOf : Option J → Option String
  | some (.str s) => some s
  | _ => none

/-- claim.GetResourceReference().Name: `none` when spec.resourceRef is absent -/
def refName (spec : AL J) : Option String :=
  match alookup "resourceRef" spec with
  | some (.obj r) => some ((strOf (alookup "name" r)).getD "")
  | _ => none

def xrRefJ (c : Cfg) (name : String) : J :=
  .obj [("apiVersion", .str c.xrAPIVersion), ("kind", .str c.xrKind), ("name", .str name)]

def claimRefJ (c : Cfg) (cm : KObj) : J :=
  .obj [("apiVersion", .str c.claimAPIVersion), ("kind", .str c.claimKind), ("name", .str cm.name), ("namespace", .str c.claimNS)]

/-- does spec.resourceRef equal the proposed reference (cmp.Equal on reference.Composite)? -/
def refIs (c : Cfg) (name : String) (spec : AL J) : Bool :=
  match alookup "resourceRef" spec with
  | some (.obj r) =>
    (strOf (alookup "apiVersion" r)).getD "" == c.xrAPIVersion &&
    (strOf (alookup "kind" r)).getD "" == c.xrKind &&
    (strOf (alookup "name" r)).getD "" == name
  | _ => false

def extName (o : Option KObj) : String :=
  match o with
  | some x => (alookup extNameKey x.anns).getD ""
  | none => ""

/-- composite.GetCompositionUpdatePolicy -/
def policyOf (spec : AL J) : Option String := strOf (alookup "compositionUpdatePolicy" spec)

def xrSpecFields (o : Option KObj) : AL J :=
  match o with
  | some x => x.specFields
  | none => []

def claimLabels (c : Cfg) (cm : KObj) : AL String :=
  [(Xp.Gen.labelKeyClaimName, cm.name), (Xp.Gen.labelKeyClaimNamespace, c.claimNS)]

/-- meta.AddAnnotations(o, m) where `m` may be a nil map -/
def addAnn (cur : Option (AL String)) (m : Option (AL String)) : Option (AL String) :=
  match cur with
  | none => m
  | some a => some (addAll a (m.getD []))

def setAnn (cur : Option (AL String)) (k v : String) : Option (AL String) :=
  addAnn cur (some [(k, v)])

/-! ### state, writes, results -/

/-- What the API server holds: the claim, its XR (if any) and the configuration
last applied by the claim controller's server-side-apply field manager. -/
structure St where
  cm : KObj
  xr : Option KObj := none
  prev : Option KObj := none
  deriving Inhabited

inductive Write where
  | claimUpdate (body : KObj)
  | claimStatus (body : KObj)
  | xrApply (body : KObj)
  | xrCreate (body : KObj)
  | xrPatch (body : KObj)
  deriving Inhabited

structure Out where
  st : St
  writes : List Write := []
  err : String := ""
  deriving Inhabited

/-- client.Update(claim): metadata and spec are replaced, status is kept. -/
def storeClaimUpdate (stored body : KObj) : KObj := { body with status := stored.status }

/-- client.Status().Update(claim) -/
def storeClaimStatus (stored body : KObj) : KObj := { stored with status := body.status }

/-- Server-side apply of `p` to the XR by the field manager whose previous configuration is `prev`. -/
def applySSA (cur : Option KObj) (prev : Option KObj) (p : KObj) : KObj :=
  match cur with
  | none => { p with status := none }
  | some x =>
    let prevLabels := match prev with | some q => q.labels | none => []
    let labels := addAll (ssaRemoveS x.labels p.labels prevLabels) p.labels
    let anns0 : Option (AL String) :=
      match prev with
      | some q =>
        match q.annotations, x.annotations with
        | some pa, some xa =>
          let xa' := ssaRemoveS xa (p.annotations.getD []) pa
          if xa'.isEmpty && p.annotations.isNone then none else some xa'
        | _, xa => xa
      | none => x.annotations
    let anns := match p.annotations with
      | some m => some (addAll (anns0.getD []) m)
      | none => anns0
    let prevSpec := match prev with | some q => q.specFields | none => []
    let spec0 : Option J :=
      match x.spec with
      | some (.obj xs) => some (.obj (ssaRemoveF xs p.specFields prevSpec))
      | s => s
    let spec := match p.spec with
      | some ps => some (ssaMergeV spec0 ps)
      | none => spec0
    { x with labels := labels, annotations := anns, spec := spec }

/-- JSON merge patch of the whole desired object `p` onto the stored XR (main resource: status untouched). -/
def mergePatchXR (x : KObj) (p : KObj) : KObj :=
  { x with
    labels := addAll x.labels p.labels
    annotations := match p.annotations with
      | some m => some (addAll x.anns m)
      | none => x.annotations
    spec := match p.spec with
      | some ps => some (mpV x.spec ps)
      | none => x.spec }

/-- `withoutKeys(cmSpec, wellKnownClaimFields...)` followed by SetClaimReference: the
spec both syncers hand to the XR. `manual`: the XR's update policy (before the sync) is Manual. -/
def specToXR (c : Cfg) (cm : KObj) (manual : Bool) (cmSpec : AL J) : AL J :=
  aset "claimRef" (claimRefJ c cm) (withoutKeys cmSpec (claimFilter manual))

/-! ### syncer_ssa.go -/

/-- `if ann := withoutReservedK8sEntries(cm.GetAnnotations()); len(ann) > 0 { AddAnnotations(xrPatch, ann) }` -/
def nonEmptyUnreserved (a : Option (AL String)) : Option (AL String) :=
  match a with
  | some a => if (withoutReserved a).isEmpty then none else some (withoutReserved a)
  | none => none

/-- The object the server-side syncer applies (`xrPatch`). -/
def ssaPatch (c : Cfg) (gen : String) (cm : KObj) (xr : Option KObj) (cmSpec : AL J) : KObj :=
  let name := match refName cmSpec with
    | some n => if n == "" then gen else n
    | none => gen
  let en := extName xr
  let ann0 := nonEmptyUnreserved cm.annotations
  let labels := addAll (withoutReserved cm.labels) (claimLabels c cm)
  let ann := if en != "" then setAnn ann0 extNameKey en else ann0
  let manual := policyOf (xrSpecFields xr) == some "Manual"
  { name := name, labels := labels, annotations := ann, spec := some (.obj (specToXR c cm manual cmSpec)), status := none }

/-- The claim the server-side syncer sends to Update. -/
def ssaClaim (c : Cfg) (name : String) (cm : KObj) (xr : Option KObj) (cmSpec : AL J) : KObj :=
  let en := extName xr
  let xs := xrSpecFields xr
  let s1 := aset "resourceRef" (xrRefJ c name) cmSpec
  let s2 := match alookup "compositionRef" xs, alookup "compositionRef" s1 with
    | some r, none => aset "compositionRef" r s1
    | _, _ => s1
  let s3 := if policyOf xs == some "Automatic" then
      match alookup "compositionRevisionRef" xs with
      | some r => aset "compositionRevisionRef" r s2
      | none => s2
    else s2
  { cm with annotations := if en != "" then setAnn cm.annotations extNameKey en else cm.annotations,
            spec := some (.obj s3) }

/-- `cm.SetConditions(cmcs.Conditions...)` when the claim had conditions -/
def keepConditions (cmStatus st : AL J) : AL J :=
  match alookup "conditions" cmStatus with
  | some cs => aset "conditions" cs st
  | none => st

/-- `cm.SetConnectionDetailsLastPublishedTime(pub)` when the claim had one -/
def keepPublished (cmStatus st : AL J) : AL J :=
  match alookup "connectionDetails" cmStatus with
  | some (.obj cd) =>
    match alookup "lastPublishedTime" cd with
    | some t => aset "connectionDetails" (.obj [("lastPublishedTime", t)]) st
    | none => st
  | _ => st

/-- the claim's own lastPublishedTime, the only connection-detail bookkeeping it keeps -/
def ownPublished (cst : AL J) : Option J :=
  match alookup "connectionDetails" cst with
  | some (.obj cd) =>
    (match alookup "lastPublishedTime" cd with
     | some t => some (.obj [("lastPublishedTime", t)])
     | none => none)
  | _ => none

/-- The claim status the server-side syncer sends to Status().Update. -/
def ssaStatus (cmStatus : AL J) (xrStatus : AL J) : AL J :=
  keepPublished cmStatus (keepConditions cmStatus (withoutKeys xrStatus Xp.Gen.statusProps))

def syncSSA (c : Cfg) (gen : String) (s : St) : Out :=
  match s.cm.spec with
  | some (.obj cmSpec) =>
    let p := ssaPatch c gen s.cm s.xr cmSpec
    let cm1body := ssaClaim c p.name s.cm s.xr cmSpec
    let cm1 := storeClaimUpdate s.cm cm1body
    let xr' := applySSA s.xr s.prev p
    let s1 : St := { cm := cm1, xr := some xr', prev := some p }
    let w := [Write.claimUpdate cm1body, Write.xrApply p]
    match xr'.status with
    | none => { st := s1, writes := w }
    | some (.obj xst) =>
      let body := { cm1 with status := some (.obj (ssaStatus cm1.statusFields xst)) }
      { st := { s1 with cm := storeClaimStatus cm1 body }, writes := w ++ [Write.claimStatus body] }
    | some _ => { st := s1, writes := w, err := "xrStatusNotObject" }
  | _ => { st := s, err := "claimSpecNotObject" }

/-! ### syncer_csa.go -/

/-- The XR the client-side syncer hands to Apply. -/
def csaDesired (c : Cfg) (gen : String) (cm : KObj) (xr : Option KObj) (cmSpec : AL J) : KObj :=
  let x0 : KObj := xr.getD { name := "" }
  let en := extName xr
  let ann1 := addAnn x0.annotations (cm.annotations.map withoutReserved)
  let lab := addAll (addAll x0.labels (withoutReserved cm.labels)) (claimLabels c cm)
  let ann2 := if xr.isSome && en != "" then setAnn ann1 extNameKey en else ann1
  let manual := policyOf (xrSpecFields xr) == some "Manual"
  let spec := specToXR c cm manual cmSpec
  let name1 := match refName cmSpec with
    | some n => n
    | none => x0.name
  let name := if xr.isNone && name1 == "" then gen else name1
  { x0 with name := name, labels := lab, annotations := ann2, spec := some (.obj spec) }

/-- `merge(cm.Object["status"], xr.Object["status"], WithOverride, withSrcFilter(status props))` -/
def csaMergeStatus (cst xst : Option J) : Except String (Option J) :=
  match cst, xst with
  | none, _ => .ok none
  | some c, none => .ok (some c)
  | some (.obj c), some (.obj x) => .ok (some (.obj (mergeF true c (withoutKeys x Xp.Gen.statusProps))))
  | _, _ => .error "mergeStatus"

/-- The claim spec the client-side syncer ends with: the XR's revision reference (or
null) under Automatic, then every XR spec field outside `xrFilter` merged into every
empty claim field. -/
def csaClaimSpec (cs xs : AL J) : AL J :=
  let cs1 := if policyOf xs == some "Automatic" then
      aset "compositionRevisionRef" ((alookup "compositionRevisionRef" xs).getD .null) cs
    else cs
  mergeF false cs1 (withoutKeys xs xrFilter)

/-- the part of the client-side sync after the XR has been applied -/
def csaBack (_c : Cfg) (cm1 : KObj) (xrA : KObj) (s1 : St) (w : List Write) : Out :=
  match csaMergeStatus cm1.status xrA.status with
  | .error e => { st := s1, writes := w, err := e }
  | .ok st' =>
    let body2 := { cm1 with status := st' }
    let cm2 := storeClaimStatus cm1 body2
    let w2 := w ++ [Write.claimStatus body2]
    let en2 := extName (some xrA)
    let ann := if en2 != "" then setAnn cm2.annotations extNameKey en2 else cm2.annotations
    match cm2.spec with
    | some (.obj cs) =>
      let body3 := { cm2 with annotations := ann, spec := some (.obj (csaClaimSpec cs xrA.specFields)) }
      let cm3 := storeClaimUpdate cm2 body3
      { st := { s1 with cm := cm3, xr := some xrA }, writes := w2 ++ [Write.claimUpdate body3] }
    | _ => { st := { s1 with cm := cm2, xr := some xrA }, writes := w2, err := "mergeSpec" }

/-- the claim after the client-side syncer bound it to the XR named `name` -/
def csaBind (c : Cfg) (name : String) (cm : KObj) (cmSpec : AL J) : KObj :=
  { cm with spec := some (.obj (aset "resourceRef" (xrRefJ c name) cmSpec)) }

/-- the claim after the (conditional) first Update of the client-side syncer:
`if !cmp.Equal(existing, proposed) { cm.SetResourceReference(proposed); client.Update(cm) }` -/
def csaBound (c : Cfg) (gen : String) (s : St) (cs : AL J) : KObj :=
  let d := csaDesired c gen s.cm s.xr cs
  if refIs c d.name cs then s.cm else storeClaimUpdate s.cm (csaBind c d.name s.cm cs)

/-- the XR the client-side Apply leaves in the store: created, or merge-patched unless
`cmp.Equal(current, desired)` -/
def csaApplied (c : Cfg) (gen : String) (s : St) (cs : AL J) : KObj :=
  let d := csaDesired c gen s.cm s.xr cs
  match s.xr with
  | none => d
  | some cur => if kobjEqv cur d then cur else mergePatchXR cur d

def syncCSA (c : Cfg) (gen : String) (s : St) : Out :=
  match s.cm.spec with
  | some (.obj cmSpec) =>
    let d := csaDesired c gen s.cm s.xr cmSpec
    let w1 := if refIs c d.name cmSpec then [] else [Write.claimUpdate (csaBind c d.name s.cm cmSpec)]
    let w2 := match s.xr with
      | none => [Write.xrCreate d]
      | some cur => if kobjEqv cur d then [] else [Write.xrPatch d]
    let cm1 := csaBound c gen s cmSpec
    let xrA := csaApplied c gen s cmSpec
    csaBack c cm1 xrA { s with cm := cm1, xr := some xrA } (w1 ++ w2)
  | _ => { st := s, err := "claimSpecNotObject" }

/-! ### histories -/

structure Delta where
  setSpec : AL J := []
  delSpec : List String := []
  setStatus : AL J := []
  delStatus : List String := []
  setLabels : AL String := []
  delLabels : List String := []
  setAnn : AL String := []
  delAnn : List String := []

/-- an out-of-band edit of a stored object (user edit of the claim, XR controller write) -/
def applyDelta (o : KObj) (d : Delta) : KObj :=
  let spec := if d.setSpec.isEmpty && d.delSpec.isEmpty then o.spec
    else some (.obj (addAll (eraseAll o.specFields d.delSpec) d.setSpec))
  let status := if d.setStatus.isEmpty && d.delStatus.isEmpty then o.status
    else some (.obj (addAll (eraseAll o.statusFields d.delStatus) d.setStatus))
  let labels := addAll (eraseAll o.labels d.delLabels) d.setLabels
  let anns := if d.setAnn.isEmpty && d.delAnn.isEmpty then o.annotations
    else
      let a := addAll (eraseAll o.anns d.delAnn) d.setAnn
      if a.isEmpty then none else some a
  { o with labels := labels, annotations := anns, spec := spec, status := status }

inductive Op where
  | syncSSA (gen : String)
  | syncCSA (gen : String)
  | editClaim (d : Delta)
  | xrCtl (d : Delta)
  | upgrade

/-- The API server prunes null values of non-nullable fields on every write; the only
ones the syncers produce are top-level spec fields (see harness/main/c07.go). -/
def dropNullSpec (o : KObj) : KObj :=
  match o.spec with
  | some (.obj fs) => { o with spec := some (.obj (fs.filter fun kv => match kv.2 with | .null => false | _ => true)) }
  | _ => o

def pruneNulls (o : Out) : Out :=
  { o with st := { o.st with cm := dropNullSpec o.st.cm, xr := o.st.xr.map dropNullSpec } }

/-- one step of a history; only sync steps write through the syncers -/
def step (c : Cfg) (s : St) : Op → Out
  | .syncSSA gen => pruneNulls (syncSSA c gen s)
  | .syncCSA gen => pruneNulls (syncCSA c gen s)
  | .editClaim d => { st := { s with cm := applyDelta s.cm d } }
  | .xrCtl d => { st := { s with xr := s.xr.map fun x => applyDelta x d } }
  | .upgrade => { st := s }

def run (c : Cfg) (s : St) : List Op → St
  | [] => s
  | op :: rest => run c (step c s op).st rest

/-! ### the field partition (stated independently of the generated tables) -/

inductive Owner where
  /-- XRD author's field: claim → XR only -/
  | user
  /-- composition selection fields: claim → XR; compositionRef XR → claim when the claim has none -/
  | shared
  /-- compositionRevisionRef: claim → XR under Manual, XR → claim under Automatic -/
  | revision
  /-- claim machinery that never reaches the XR -/
  | claimOnly
  /-- XR machinery that the claim never asserts and that never reaches the claim -/
  | xrOnly
  /-- both sides carry their own; never copied either way -/
  | eachSide
  deriving DecidableEq, Repr

def owner (k : String) : Owner :=
  if k = "resourceRef" ∨ k = "compositeDeletePolicy" then .claimOnly
  else if k = "claimRef" ∨ k = "resourceRefs" then .xrOnly
  else if k = "writeConnectionSecretToRef" ∨ k = "publishConnectionDetailsTo" then .eachSide
  else if k = "compositionRef" ∨ k = "compositionSelector" ∨ k = "compositionUpdatePolicy" ∨ k = "compositionRevisionSelector" then .shared
  else if k = "compositionRevisionRef" then .revision
  else .user

/-- A valid instance of the generated claim CRD never carries XR-only machinery at the
top level of its spec: the API server prunes it (the XRD author's schema is assumed not
to declare `claimRef` / `resourceRefs` itself). -/
def ClaimValid (cs : AL J) : Prop := ∀ k, owner k = .xrOnly → alookup k cs = none

/-- the spec fields the XR side owns and the claim controller must leave alone -/
def XrOwned (k : String) : Prop := owner k = .eachSide ∨ k = "resourceRefs"

/-- status machinery: conditions and connection-detail bookkeeping (and the list of
condition types to copy) are never synced from the XR's status into the claim's. -/
def statusMachinery (k : String) : Bool :=
  k = "conditions" ∨ k = "connectionDetails" ∨ k = "claimConditionTypes"

/-! ### histories the API server admits -/

/-- an operation the API server admits: an edit of the claim cannot put XR-only machinery
at the top level of its spec (unknown fields are pruned) -/
def ValidOp : Op → Prop
  | .editClaim d => ∀ k, owner k = .xrOnly → alookup k d.setSpec = none
  | _ => True

/-- invariant of every history -/
def Inv (s : St) : Prop :=
  ClaimValid s.cm.specFields ∧
  (∀ q, s.prev = some q → ∀ k, XrOwned k → alookup k q.specFields = none)

/-! ### the recorded defect D10 (client-side syncer) -/

def wcfg : Cfg := ⟨"example.org/v1", "Thing", "team-a", "example.org/v1", "XThing"⟩

/-- D10 witness: a bound claim that does not (any longer) have the user field `region`,
and its XR, which still has it. -/
def d10Witness : St :=
  { cm := { name := "my-claim", spec := some (.obj [("resourceRef", xrRefJ wcfg "my-claim-x")]) }
    xr := some { name := "my-claim-x"
                 labels := [("crossplane.io/claim-name", "my-claim"), ("crossplane.io/claim-namespace", "team-a")]
                 spec := some (.obj [("claimRef", claimRefJ wcfg { name := "my-claim" }), ("region", .str "xu-east")]) } }

def strAt (k : String) (o : KObj) : String :=
  match alookup k o.specFields with
  | some (.str v) => v
  | _ => ""


end Xp.C07

import Xp.Model.C20
/-
C20: the call skeletons the model was written from, one per Go function the model mirrors.

`Xp.Gen.c20Skel*` (lean/Xp/Gen/C20Skel.lean) is extracted with go/ast from the CURRENT tree on every
check run (harness/main/c20_skel.go); `Props/C20.lean` proves `Xp.Gen.c20Skel<F> = skel<F>` for every
function (`skeleton_*`), so that a call inserted into, removed from or moved inside one of these
functions breaks an obligation before any scenario is run. Every entry names the model step that
mirrors the call, or says why there is none. Where the entries are API calls the declared list is ALSO
proved to be the request sequence of the model's own program (`*_from_model` in Props/C20.lean:
`pathReqs`, `reqVerb` below).
-/
namespace Xp.C20

/-! ### requests of a model program along one path -/

/-- the client verb a request of the model stands for -/
def reqVerb : Req → String
  | .getSecret _ | .getPkg _ _ | .getCrd _ | .getWhc _ _ | .getLock => "Get"
  | .listPkgs _ | .listCrs _ => "List"
  | .createSecret _ | .createPkg _ | .createCrd _ | .createWhc _ | .createLock | .createSc _ | .createDrc => "Create"
  | .updateSecret _ _ => "Update"
  | .patchPkg _ _ _ | .patchCrd _ _ | .patchWhc _ _ _ | .patchCr _ _ | .patchLock => "Patch"
  | .patchCrdStored _ _ => "Status.Patch"

/-- the requests a program issues when every call is answered by `reply` (at most `fuel` of them) -/
def pathReqs {α : Type} (reply : Req → Resp) : Nat → P α → List Req
  | 0, _ => []
  | _, .ret _ => []
  | fuel + 1, .call r k => r :: pathReqs reply fuel (k (reply r))

def pathVerbs {α : Type} (pre : String) (reply : Req → Resp) (fuel : Nat) (p : P α) : List String :=
  (pathReqs reply fuel p).map fun r => pre ++ reqVerb r

/-- the client calls of a declared skeleton (`pre` = the variable the client is held in: "kube." / "client.") -/
def apiOnly (pre : String) (l : List String) : List String :=
  l.filter fun s => ["Get", "List", "Create", "Update", "Patch", "Status.Patch"].any fun v => s == pre ++ v

/-- nothing exists yet: every read answers NotFound (an empty list), every write succeeds -/
def replyAbsent : Req → Resp
  | .getSecret _ | .getPkg _ _ | .getCrd _ | .getWhc _ _ | .getLock => .err .notFound
  | .listPkgs _ => .pkgs []
  | .listCrs _ => .crs []
  | _ => .ok

/-- everything exists, with nothing in it: a secret without data, a CRD that still stores `old` and has one custom
resource, … ; every write succeeds -/
def replyPresent (old : String) : Req → Resp
  | .getSecret n => .secret (blankSecret n)
  | .getPkg k n => .pkg ⟨k, n, "", none, 0⟩
  | .getCrd n => .crd ⟨n, 0, [("v1", true)], false, .empty, [old], 0⟩
  | .getWhc k n => .whc ⟨k, n, [], 0⟩
  | .getLock => .lock 0
  | .listPkgs _ => .pkgs []
  | .listCrs c => .crs [⟨c, "x", 0⟩]
  | _ => .ok

/-! ### internal/initializer/initializer.go -/

/-- Initializer.Init: one `s.Run` per step, in order, stop at the first error = `runSteps` (`st.prog g n`, then
`runSteps g rest`); a nil step (`continue`) is not modelled: core.initCommand.Run never appends one. Logging and
the reflection that computes the step's name for the log line are left out of the extraction. -/
def skelInit : List String := ["s.Run"]                 -- runSteps: Prog.bind (st.prog g n) …

/-- StepFunc.Run calls the function: `Step.drc` is DefaultDeploymentRuntimeConfig itself -/
def skelStepFuncRun : List String := ["f"]              -- Step.prog .drc = drcStep

/-! ### internal/initializer/tls.go -/

/-- TLSCertificateGenerator.Run = `tlsStep` -/
def skelTlsRun : List String :=
  ["loadOrGenerateCA",          -- tlsStep: Prog.bind (loadOrGenerateCA g caName n)
   "ensureServerCertificate",   -- ensureOpt g server sg n
   "ensureClientCertificate"]   -- ensureOpt g client sg n

/-- loadOrGenerateCA = `loadOrGenerateCA` / `genCA` -/
def skelLoadOrGenerateCA : List String :=
  ["kube.Get",                  -- loadOrGenerateCA: .call (.getSecret caName)
   "resource.IgnoreNotFound",   -- the reply match: `.err .notFound` goes on, any other error => (none, n)
   "parseCertificateSigner",    -- complete secret: parseSigner sec.key sec.crt
   "certificate.Generate",      -- genCA: g ["crossplane-root-ca"] true none n
   "kube.Create",               -- genCA: writeSecret none … = .createSecret
   "kube.Update",               -- genCA: writeSecret (some old) … = .updateSecret old
   "parseCertificateSigner"]    -- genCA returns `some ⟨kp, c⟩`: what the generator made always parses (not a model step)

/-- ensureServerCertificate = `ensureLeaf` / `issueLeaf` -/
def skelEnsureLeaf : List String :=
  ["kube.Get",                  -- ensureLeaf: .call (.getSecret ref.name)
   "resource.IgnoreNotFound",   -- the reply match (as above)
   "certificate.Generate",      -- issueLeaf: g ref.dns false (some signer) n
   "kube.Create",               -- issueLeaf: writeSecret none …
   "kube.Update"]               -- issueLeaf: writeSecret (some old) …

/-- parseCertificateSigner = `parseSigner`: the key must decode and parse as a key, the certificate as a certificate -/
def skelParseSigner : List String :=
  ["pem.Decode", "x509.ParsePKCS1PrivateKey",   -- parseSigner: `.key k` (anything else: none)
   "pem.Decode", "x509.ParseCertificate"]       -- parseSigner: `.cert c` (anything else: none)

/-! ### cert_generator.go: the real generator, and what tls.go asks of it

`stdGen` (Model/C20.lean) is CertGenerator.Generate with a key pair reduced to its identity: -/

/-- CertGenerator.Generate = `stdGen` -/
def skelGenerate : List String :=
  ["rsa.GenerateKey",               -- stdGen: the fresh key pair `n`
   "x509.CreateCertificate",        -- stdGen: ⟨n, signer key, dns, ca⟩ (see `createCertificateArgs`)
   "pem.Encode", "pem.Encode", "x509.MarshalPKCS1PrivateKey"]   -- returns (key, certificate) = (n, CertInfo)

/-- x509.CreateCertificate(rand, template, parent, pub, priv): the template is the certificate asked for (`dns`,
`ca`), the parent is the signer's certificate (the template itself when `signer == nil`: self-signed), the public
key is the FRESH key (`CertInfo.kp = n`), the signing key is the signer's (`CertInfo.signedBy = s.key`; x509 refuses
a parent whose public key does not match `priv`: `if s.key = s.cert.kp`). This is `Generator.Sound`. -/
def createCertificateArgs : List String := ["rand.Reader, cert, signer.certificate, &privateKey.PublicKey, signer.key"]

/-- loadOrGenerateCA asks for: `g ["crossplane-root-ca"] true none n` (genCA) -/
def genCallCA : List String := ["DNSNames=[]string{\"crossplane-root-ca\"}", "IsCA=true", "a, nil"]

/-- ensureServerCertificate asks for: `g ref.dns false (some signer) n` (issueLeaf), `ref.dns` = the server names -/
def genCallServer : List String := ["dnsNames:=e.tlsServerDNSNames", "DNSNames=dnsNames", "IsCA=false", "cert, signer"]

/-- ensureClientCertificate asks for: `g ref.dns false (some signer) n` (issueLeaf), `ref.dns` = the client names -/
def genCallClient : List String := ["dnsNames:=e.tlsClientDNSNames", "DNSNames=dnsNames", "IsCA=false", "cert, signer"]

/-! ### crossplane-runtime resource.APIPatchingApplicator.Apply (module source the harness is compiled from)

mirrored by `applyCrd`, `applyWhc`, `applyPkg` and `lockStep` (no ApplyOption is passed by the initializer) -/
def skelApply : List String :=
  ["m.GetName", "m.GetGenerateName",
   "client.Create",             -- not modelled: only for an object with generateName and no name (every object applied here is named)
   "client.Get",                -- apply*: .call (.getX name)
   "m.GetName",                 --   (its key)
   "kerrors.IsNotFound",        -- the reply match: `.err .notFound` => create, any other error => .err "…: get"
   "client.Create",             -- apply*: .call (.createX …)
   "client.Patch"]              -- apply*: .call (.patchX …)  (JSON merge patch of the desired object)

/-! ### internal/initializer/crds.go, webhook_configurations.go -/

/-- CoreCRDs.Run = `crdsStep` / `crdsBody` -/
def skelCrdsRun : List String :=
  ["kube.Get",                            -- crdsStep: getBundle ref (only with a webhook TLS secret reference)
   "parser.NewFsBackend.Init", "p.Parse", -- crdsBody: d.parseErr (the filesystem parser is not modelled: `Dir` is its result)
   "resource.NewAPIPatchingApplicator",
   "pkg.GetObjects",                      -- crdsBody: forEach … d.objs
   "pa.Apply"]                            -- applyCrd f cb

/-- WebhookConfigurations.Run = `whcsStep` -/
def skelWhcsRun : List String :=
  ["kube.Get",                            -- whcsStep: getBundle tlsRef
   "parser.NewFsBackend.Init", "p.Parse", -- d.parseErr
   "resource.NewAPIPatchingApplicator",
   "pkg.GetObjects",                      -- forEach … d.objs
   "conf.GetName", "conf.SetName",        -- whcName: validating-webhook-configuration => crossplane
   "conf.SetName",                        -- whcName: mutating => crossplane
   "pa.Apply"]                            -- applyWhc f cb svc

/-! ### internal/initializer/crds_migrator.go -/

/-- CoreCRDsMigrator.Run = `migrateStep`. NOT modelled: the pagination loop (`client.Limit(500)`, continue token) –
the model lists once. -/
def skelMigratorRun : List String :=
  ["kube.Get",                  -- migrateStep: .call (.getCrd crd)
   "kerrors.IsNotFound",        -- `.err .notFound` => .ret .ok
   "sets.NewString.Has",        -- c.stored.contains old
   "kube.List",                 -- .call (.listCrs crd)
   "kube.Patch",                -- migrateCrs: .call (.patchCr crd cr.name) per resource
   "kube.Status.Patch",         -- migrateFinish: .call (.patchCrdStored crd [storage])
   "kube.Get"]                  -- migrateFinish: .call (.getCrd crd), "one more check"

/-! ### lock.go, store_config.go, deployment_runtime_config.go -/

/-- LockObject.Run = `lockStep` (Apply: see `skelApply`) -/
def skelLockRun : List String := ["resource.NewAPIPatchingApplicator.Apply"]

/-- StoreConfigObject.Run = `scStep`, DefaultDeploymentRuntimeConfig = `drcStep`: both `createIfAbsent` -/
def skelCreateIfAbsent : List String :=
  ["resource.Ignore",           -- createIfAbsent: `.err .alreadyExists` => .ret .ok
   "kube.Create"]               -- createIfAbsent: .call r

/-- … and the error class they ignore is AlreadyExists, nothing else -/
def ignoredErrors : List String := ["kerrors.IsAlreadyExists", "kerrors.IsAlreadyExists"]

/-! ### installer.go, xpkg/name.go -/

def skelListAndIndex : List String :=
  ["kube.List",                                 -- listOf k: .call (.listPkgs k)
   "kerrors.IsNotFound",                        -- listOf: `.err .notFound` => cont []
   "name.ParseReference",                       -- buildIndex: p.ref (go-containerregistry: shipped by the harness)
   "xpkg.ParsePackageSourceFromReference"]      -- buildIndex: r.src = parseSource r.str (driver)

/-- PackageInstaller.Run = `installWith resolve`: three lists and indexes, buildPack per image and kind, apply all -/
def skelInstallerRun : List String :=
  skelListAndIndex ++ skelListAndIndex ++ skelListAndIndex ++   -- listOf .provider / .configuration / .function
  ["buildPack", "buildPack", "buildPack",                       -- installBody: buildAll res (buildIndex pl) p, … c, … f
   "resource.NewAPIPatchingApplicator",
   "pa.Apply"]                                                  -- installApply: forEach (applyPkg k)

/-- buildPack = `buildAll` / `resolve`; EVERY setter it calls on the package object is listed (the merge patch
carries exactly name and spec.package: `patchPkg` changes `raw` and `ref` only) -/
def skelBuildPack : List String :=
  ["name.ParseReference",                       -- buildAll: i.ref = none => "install: parse"
   "xpkg.ToDNSLabel", "ref.Context.RepositoryStr",   -- resolve: toDNSLabel r.repo
   "xpkg.ParsePackageSourceFromReference",      -- resolve: lookupIndex m r.src
   "pack.SetName",                              -- (res m r, r).1
   "pack.SetSource", "ref.String"]              -- createPkg ⟨k, name, r.str, …⟩ / patchPkg k name r

/-- xpkg.ParsePackageSourceFromReference = `parseSource` / `parseSourceChars` -/
def skelParseSource : List String :=
  ["strings.Cut", "ref.String",                 -- cutAt '@' str.toList
   "strings.LastIndex",                         -- lastIndex ':' s
   "strings.LastIndex"]                         -- lastIndex '/' s

/-- xpkg.ToDNSLabel = `toDNSLabel` / `dnsGo` -/
def skelToDNSLabel : List String :=
  ["cut.WriteByte",                             -- dnsGo: acc ++ [c] for a-z 0-9
   "cut.WriteByte",                             -- dnsGo: acc ++ ['-'] for . / : - inside
   "strings.Trim", "cut.String"]                -- trimDashes

end Xp.C20

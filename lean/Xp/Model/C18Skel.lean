import Xp.Model.C18
/-
C18 declared call skeletons: for every Go function the model (Xp/Model/C18.lean) mirrors, the
calls of that function in source order, each with the model step that mirrors it (or
"not modelled: <why>").  `Xp.Gen.C18Skel` holds the same lists extracted from the CURRENT tree
(harness/main/c18_skel.go, go/ast); Props/C18.lean states `skeleton_* : Xp.Gen.<name> = <declared>`.
An inserted / removed / reordered call in one of these functions breaks the obligation.

`apiSteps` ties the declared skeletons of the three reconcilers to the model programs: the
API-level entries of the declared skeleton are the steps of the model program along a run
(`*_from_model` in Props/C18.lean).
-/
namespace Xp.C18

/-- roles.Reconciler.Reconcile ↔ `reconcile` -/
def skelReconcile : List String :=
  [ "context.WithTimeout",            -- not modelled: a context that becomes done DURING a reconcile (level_note)
    "client.Get",                     -- reconcile: .call (.getPR name)
    "resource.IgnoreNotFound",        --   | .notFound => .ret .ok ; | _ => .ret .err
    "pr.GetUID",                      -- logging only
    "meta.IsPaused",                  -- if p.paused then .ret .ok
    "meta.WasDeleted",                -- else if p.deleted then .ret .ok
    "DefinedResources",               -- withFamily: definedResources p.refs
    "pr.GetLabels",                   -- withFamily: if p.family = ""
    "client.List",                    -- withFamily: .call (.listPRs p.family)
    "kerrors.IsConflict",             --   | .conflict => .ret .requeue ; | _ => .ret .err
    "member.GetUID", "pr.GetUID",     -- memberResources: if m.uid = p.uid then []
    "org.Differs",                    -- memberResources: else if orgDiffers p.org m.org then []
    "append", "DefinedResources",     -- memberResources: else definedResources m.refs (appended in list order)
    "rbac.ValidatePermissionRequests",-- withValidation (validate / expand; an error ⇒ .ret .err)
    "len",                            -- if !rejected.isEmpty then .ret .ok
    "rbac.RenderClusterRoles",        -- renderRoles p resources
    "client.Apply",                   -- applyRoles p.uid, one `skelApply` per role
    "resource.MustBeControllableBy", "pr.GetUID",  -- applyRoles: notControllable uid cur.ctrl ⇒ .ret .err
    "resource.AllowUpdateIf",         -- applyRoles: !rolesDiffer cur cr ⇒ next role
    "resource.StoreCurrentRV",        -- not modelled: feeds the "Applied RBAC ClusterRoles" event only
    "resource.IsNotAllowed",          -- applyRoles: ... ⇒ applyRoles uid rest (continue)
    "kerrors.IsConflict",             -- applyRoles: | .conflict => .ret .requeue ; | _ => .ret .err
    "append", "len" ]                 -- not modelled: the list of applied role names (event only)

/-- definition.Reconciler.Reconcile ↔ `reconcileXRD` -/
def skelReconcileXRD : List String :=
  [ "context.WithTimeout",            -- not modelled (as above)
    "client.Get",                     -- .call (.getXRD name)
    "resource.IgnoreNotFound",        --   | .notFound => .ret .ok ; | _ => .ret .err
    "d.GetUID",                       -- logging only
    "meta.WasDeleted",                -- if d.deleted then .ret .ok
    "rbac.RenderClusterRoles",        -- renderXRDRoles d
    "client.Apply",                   -- applyRoles d.uid
    "resource.MustBeControllableBy", "d.GetUID",   -- notControllable
    "resource.AllowUpdateIf",         -- rolesDiffer
    "resource.StoreCurrentRV",        -- not modelled: event only
    "resource.IsNotAllowed",          -- continue
    "kerrors.IsConflict",             -- .requeue / .err
    "append", "len" ]                 -- not modelled: event only

/-- binding.Reconciler.Reconcile ↔ `reconcileBinding` -/
def skelReconcileBinding : List String :=
  [ "context.WithTimeout",            -- not modelled (as above)
    "client.Get",                     -- .call (.getPR name)
    "resource.IgnoreNotFound",        --   | .notFound => .ret .ok ; | _ => .ret .err
    "pr.GetUID",                      -- logging only
    "meta.IsPaused",                  -- if p.paused
    "meta.WasDeleted",                -- else if p.deleted
    "client.List",                    -- .call .listDeployments ; any error ⇒ .ret .err (no IsConflict here)
    "d.GetOwnerReferences", "pr.GetUID",  -- subjectsFor: d.owners.filter (· = uid)
    "append",                         -- subjectsFor: ⟨d.ns, d.sa⟩
    "append",                         -- not modelled: subjectStrings (event only)
    "roles.SystemClusterRoleName",    -- systemRoleName p.name
    "meta.AsController", "meta.TypedReferenceTo",  -- rb.ctrl = some p.uid
    "client.Apply",                   -- getBinding / createBinding / updateBinding (`skelApply`)
    "resource.MustBeControllableBy", "pr.GetUID",  -- notControllable
    "resource.AllowUpdateIf",         -- bindingsDiffer
    "resource.IsNotAllowed",          -- .ret .ok
    "kerrors.IsConflict" ]            -- .requeue / .err

/-- roles.NewReconciler: the wiring the model's `Cfg` and `applyRoles` assume: the applicator is
crossplane-runtime's APIUpdatingApplicator over the manager's (cached) client; without options the
validator is VerySecureValidator (`Cfg.allowRole = none`) and the renderer RenderClusterRoles -/
def skelNewReconciler : List String :=
  [ "mgr.GetClient",                       -- reads and writes through the manager's client (World.at)
    "resource.NewAPIUpdatingApplicator",   -- applyRoles = Get; Create | options; Update(resourceVersion read)
    "mgr.GetClient",
    "PermissionRequestsValidatorFn",       -- (VerySecureValidator): withValidation, cfg.allowRole = none
    "ClusterRoleRenderFn",                 -- (RenderClusterRoles): renderRoles
    "logging.NewNopLogger", "event.NewNopRecorder",  -- not modelled: logs, events
    "f" ]                                  -- the options (WithPermissionRequestsValidator ⇒ cfg.allowRole = some a; WithOrgDiffer)

/-- crossplane-runtime APIUpdatingApplicator.Apply ↔ the body of `applyRoles` / the apply of `reconcileBinding` -/
def skelApply : List String :=
  [ "m.GetName", "m.GetGenerateName", "client.Create",  -- not modelled: an object without a name; every rendered role / binding has one
    "client.Get", "m.GetName",          -- .call (.getRole cr.name) / (.getBinding n)
    "kerrors.IsNotFound",               --   | .notFound =>
    "client.Create",                    --       .call (.createRole cr) / (.createBinding rb)
    "fn",                               --   | .role cur rv => notControllable … ; rolesDiffer … (the ApplyOptions, in order)
    "m.SetResourceVersion", "current.GetResourceVersion",  -- the `rv` of .updateRole cr rv
    "client.Update" ]                   --       .call (.updateRole cr rv) / (.updateBinding rb rv)

/-- DefinedResources ↔ `definedResources` -/
def skelDefinedResources : List String :=
  [ "make", "len",
    "schema.ParseGroupVersion",         -- groupOfAPIVersion ref.apiVersion
    "strings.Cut",                      -- cutDot ref.name
    "append" ]                          -- ⟨g, p⟩

/-- ClusterRolesDiffer (provider/roles and definition: the same function twice) ↔ `rolesDiffer` -/
def skelClusterRolesDiffer : List String :=
  [ "cmp.Equal", "c.GetLabels", "d.GetLabels",   -- cur.labels != des.labels
    "cmp.Equal" ]                                  -- cur.rules != des.rules

/-- ClusterRoleBindingsDiffer ↔ `bindingsDiffer` -/
def skelBindingsDiffer : List String :=
  [ "cmp.Equal",                        -- cur.subjects != des.subjects || des.subjects.isEmpty (nil vs empty slice)
    "cmp.Equal",                        -- cur.roleRef != des.roleRef
    "cmp.Equal", "c.GetOwnerReferences", "d.GetOwnerReferences" ]  -- cur.ctrl != des.ctrl

/-- OrgDiffer.Differs ↔ `orgDiffersParsed` (`parsed` is go-containerregistry's answer: an oracle) -/
def skelOrgDiffers : List String :=
  [ "name.ParseReference", "name.WithDefaultRegistry",   -- oracle: a = none ⇒ true
    "name.ParseReference", "name.WithDefaultRegistry",   -- oracle: b = none ⇒ true
    "ra.Context", "rb.Context",                          -- Parsed.registry / Parsed.repo
    "ca.RegistryStr", "cb.RegistryStr",                  -- x.registry != y.registry ⇒ true
    "strings.Split", "ca.RepositoryStr",                 -- firstSeg x.repo
    "strings.Split", "cb.RepositoryStr" ]                -- firstSeg y.repo

/-- ClusterRoleBackedValidator.ValidatePermissionRequests ↔ `withValidation` + `validate` -/
def skelValidate : List String :=
  [ "v.client.Get", "errors.Wrap",      -- withValidation: .call (.getRole a) ; | _ => .ret .err
    "newNode",                          -- tree: Node.empty
    "Expand", "errors.Wrap",            -- tree: expand allow (validateCtx: none)
    "t.Allow", "rule.path",             -- tree: foldl (fun t r => t.allow r.path)
    "make",
    "Expand", "errors.Wrap",            -- validate: expand requests (validateCtx: none)
    "t.Allowed", "rule.path",           -- validate: filter fun r => !(tree allow).allowed r.path — EVERY expanded request is looked up
    "append" ]                          -- the rejected list, in request order

/-- VerySecureValidator ↔ `withValidation` with `cfg.allowRole = none`: `expand p.requests` -/
def skelVerySecure : List String := [ "Expand" ]

/-- Expand ↔ `expandOne` / `expand` / `expandCtx` -/
def skelExpand : List String :=
  [ "make", "len",
    "ctx.Done", "ctx.Err", "append",    -- URLs × verbs ; expandCtx: done ⇒ none
    "len",                              -- if r.resourceNames.isEmpty then [wildcard]
    "ctx.Done", "ctx.Err", "append" ]   -- groups × resources × names × verbs

/-- node.Allow ↔ `Node.allow` -/
def skelNodeAllow : List String :=
  [ "len",                              -- | [], .mk _ cs => .mk true cs
    "newNode",                          -- upsert: [(k, f Node.empty)]
    "n.children.Allow" ]                -- upsert k (Node.allow p)

/-- node.Allowed ↔ `Node.allowed` / `look` -/
def skelNodeAllowed : List String :=
  [ "len",                              -- | [], _ => false
    "c.Allowed" ]                       -- look: c.isAllowed || rec c, for k and for the wildcard

/-- Rule.path: two returns (URL path, resource path) ↔ the two branches of `Rule.path` -/
def skelRulePath : List String := [ "return", "return" ]

/-- roles.RenderClusterRoles ↔ `renderRoles` -/
def skelRenderClusterRoles : List String :=
  [ "len",                              -- if rs.isEmpty then []
    "sort.Slice",                       -- isort resourceLT rs (the outcome as a set of grants does not depend on it: render_grants_order_independent)
    "make", "make", "make", "append", "append",  -- groupsOf / resourcesOfGroup
    "append",                           -- groupRules
    "pr.GetName", "withVerbs",          -- edit role
    "pr.GetName", "withVerbs",          -- view role
    "SystemClusterRoleName", "pr.GetName", "pr.GetName",  -- system role name, provider-name label
    "append", "append", "append", "withVerbs",   -- systemRules: verbs ++ [ruleFinalizers] ++ rulesSystemExtra ++ p.requests
    "meta.AsController", "meta.TypedReferenceTo", "roles.SetOwnerReferences" ]  -- ctrl := some p.uid

/-- withVerbs ↔ `withVerbs` -/
def skelWithVerbs : List String := [ "make", "len" ]

/-- definition.RenderClusterRoles ↔ `renderXRDRoles` -/
def skelRenderXRDRoles : List String :=
  [ "d.GetName", "d.GetName", "d.GetName", "d.GetName", "d.GetName", "d.GetName", "d.GetName",  -- 4 role names + 3 XRD labels
    "append", "append", "append",       -- claimRules of the system, edit, view role (none for browse)
    "meta.AddOwnerReference", "meta.AsController", "meta.TypedReferenceTo" ]  -- ctrl := some d.uid

/-! ### the API-level entries of a reconciler's skeleton, and the steps of the model program -/

/-- the entries of a declared skeleton that reach the API server (directly or through a helper) -/
def isAPIStep (c : String) : Bool :=
  c == "client.Get" || c == "client.List" || c == "client.Apply" || c == "rbac.ValidatePermissionRequests"

def apiSteps (skel : List String) : List String := skel.filter isAPIStep

/-- the Go call of the reconciler that issues this model request (`allow` = the allow-list role) -/
def stepOf (allow : Option String) : Req → String
  | .getPR _ | .getXRD _ => "client.Get"
  | .listPRs _ | .listDeployments => "client.List"
  | .getRole n => if allow = some n then "rbac.ValidatePermissionRequests" else "client.Apply"
  | _ => "client.Apply"

/-- consecutive requests of one Go call (the Get and Create/Update inside one Apply, the Apply loop) -/
def collapse : List String → List String
  | [] => []
  | x :: rest => match collapse rest with
    | [] => [x]
    | y :: ys => if x = y then y :: ys else x :: y :: ys

/-- the requests inside one APIUpdatingApplicator.Apply, by model constructor -/
def applyStepOf : Req → Option String
  | .getRole _ | .getBinding _ => some "client.Get"
  | .createRole _ | .createBinding _ => some "client.Create"
  | .updateRole _ _ | .updateBinding _ _ => some "client.Update"
  | _ => none

end Xp.C18

import Xp.Model.C05
import Xp.Model.C05Ready
/-
C05 model, production side: how the FunctionComposer (composition_functions.go Compose) turns a
pipeline's responses into the CompositionResult the reconciler consumes - conditions accumulate
over the steps (and survive a FATAL result, not a runner error), the desired state is the LAST
step's, a desired resource is ready only when the function says READY_TRUE, an apply the API
server rejects as invalid leaves the resource unsynced, and the desired XR status (which may
carry status.conditions - minus the system condition types, which are stripped) is
server-side-applied to the XR before the reconciler derives the system conditions.
-/
namespace Xp.C05

structure FnRes where
  name : String
  ready : Option Bool   -- READY_UNSPECIFIED = none
  invalid : Bool        -- the API server rejects the apply as invalid
  deriving Repr

structure FnStep where
  conds : List FnCond       -- STATUS_CONDITION_UNSPECIFIED already read as Unknown
  fatal : Bool              -- some result has severity FATAL
  err : Bool                -- the runner returned an error
  res : List FnRes
  xrReady : Option Bool
  statusConds : List Cond   -- status.conditions of the desired XR
  deriving Repr

inductive PipeOut where
  | error
  | fatal (conds : List FnCond)
  | ok (conds : List FnCond) (last : Option FnStep)
  deriving Repr

def runPipe : List FnStep → List FnCond → Option FnStep → PipeOut
  | [], acc, last => .ok acc last
  | s :: ss, acc, _ =>
    if s.err then .error
    else if s.fatal then .fatal (acc ++ s.conds)
    else runPipe ss (acc ++ s.conds) (some s)

def composedOf (s : FnStep) : List Res := s.res.map fun r => ⟨r.name, !r.invalid, r.ready == some true⟩

/-- server-side apply of status.conditions (a map-list keyed by type) -/
def mergeStatus (cs : List Cond) (sc : List Cond) : List Cond := sc.foldl setCond cs

/-- removeSystemConditions: the system condition types are stripped from the desired XR status
before it is applied (functions set custom conditions; Ready/Synced belong to the reconciler) -/
def customOnly (sc : List Cond) : List Cond := sc.filter fun c => !isSystem c.type

structure FnRec where
  steps : List FnStep
  publish : Option EC
  lost : Bool
  deriving Repr

/-- what is stored after the reconcile, and whether its final status update took effect -/
def fnReconcile (old : St) (r : FnRec) : St × Bool :=
  match runPipe r.steps [] none with
  | .error => if r.lost then (old, false) else (composeError old [], true)
  | .fatal conds => if r.lost then (old, false) else (composeError old conds, true)
  | .ok conds last =>
    let composed := (last.map composedOf).getD []
    let explicit := last.bind (·.xrReady)
    let merged : St := { old with conds := mergeStatus old.conds (customOnly ((last.map (·.statusConds)).getD [])) }
    match r.publish with
    | some .conflict => (merged, false)
    | some _ => if r.lost then (merged, false) else ({ merged with conds := setCond merged.conds reconcileError }, true)
    | none => if r.lost then (merged, false) else (composeOk merged composed explicit conds, true)

/-! #### Compose failing after the pipeline completed

Every other exit of `FunctionComposer.Compose` returns an EMPTY CompositionResult with the error:
the conditions the pipeline returned are dropped (unlike a FATAL result, which keeps them), the
desired XR status is not applied (the status patch is the last call), and the reconciler treats it
like any Compose error - a conflict requeues without a status write, any other class stores
Synced=False/ReconcileError and marks every custom condition Unknown. -/

/-- the calls after the pipeline at which the harness makes Compose fail -/
inductive FnPoint where
  | refs          -- the server-side apply of spec.resourceRefs
  | apply         -- the apply of a desired composed resource answered with a NON-invalid error
  | statusPatch   -- the server-side apply of the desired XR status
  deriving DecidableEq, Repr

/-- the call is issued at all: a composed resource is applied only when the last step desires one -/
def FnPoint.fires (p : FnPoint) (last : Option FnStep) : Bool :=
  match p with
  | .apply => !((last.map (·.res)).getD []).isEmpty
  | _ => true

/-- what a Compose error leaves behind: `mem` is the XR as held in memory when Compose returned -/
def composeFail (old mem : St) (e : EC) (lost : Bool) : St × Bool :=
  if e == .conflict || lost then (old, false) else (composeError mem [], true)

/-- what a late failure leaves behind. The resource references are applied through a SEPARATE
object: when that apply changed the XR (`stale`), the XR the reconciler holds carries an outdated
resourceVersion until the status patch at the very end of Compose reloads it - so after a failing
apply of a composed resource the reconciler's status update conflicts and nothing is stored. When
the status patch itself fails, Compose has already replaced the content of the XR it holds by the
desired XR (FromStruct), which carries no resourceVersion: the API server refuses the status update
of a custom resource without one. -/
def fnFaultOutcome (old : St) (p : FnPoint) (e : EC) (lost stale : Bool) : St × Bool :=
  match p with
  | .refs => composeFail old old e lost
  | .apply => composeFail old old e (lost || stale)
  | .statusPatch => (old, false)

/-- one function reconcile in which Compose may also fail at a call after the pipeline -/
def fnReconcileF (old : St) (r : FnRec) (fault : Option (FnPoint × EC)) (stale : Bool) : St × Bool :=
  match runPipe r.steps [] none, fault with
  | .ok _ last, some (p, e) => if p.fires last then fnFaultOutcome old p e r.lost stale else fnReconcile old r
  | _, _ => fnReconcile old r

/-- an XR of the function composer: its conditions, and what decides whether the apply of the
resource references changes it -/
structure FnXR where
  st : St
  /-- the template names in spec.resourceRefs, as last applied -/
  refs : List String
  /-- those of them whose composed resource exists -/
  live : List String
  /-- the references were applied before (the first apply always changes the object) -/
  applied : Bool
  deriving Repr

/-- one reconcile of the XR: ObserveComposedResources sees the live resources; the garbage
collector deletes those the last step no longer desires; UpdateResourceRefs keeps the name of every
observed resource and generates a fresh one for the others (so the references change unless every
desired resource is live and every reference is desired); then the resources are applied - a
resource whose apply is rejected exists afterwards only if it existed before. -/
def fnWorldStep (x : FnXR) (r : FnRec) (f : Option (FnPoint × EC)) : FnXR × Bool :=
  match runPipe r.steps [] none with
  | .ok _ last =>
    let des := (last.map (·.res)).getD []
    let names := des.map (·.name)
    let live1 := x.live.filter (names.contains ·)
    let changed := !x.applied || !(names.all (x.live.contains ·) && x.refs.all (names.contains ·))
    let o := fnReconcileF x.st r f changed
    let live2 := (des.filter fun d => !d.invalid || live1.contains d.name).map (·.name)
    match f with
    | some (.refs, _) => ({ x with st := o.1, live := live1 }, o.2)
    | some (.apply, _) =>
      if des.isEmpty then ({ st := o.1, refs := names, live := live2, applied := true }, o.2)
      else ({ st := o.1, refs := names, live := live1, applied := true }, o.2)   -- the FIRST apply fails: nothing is created
    | _ => ({ st := o.1, refs := names, live := live2, applied := true }, o.2)
  | _ =>
    let o := fnReconcileF x.st r f false
    ({ x with st := o.1 }, o.2)

/-- a sequence of reconciles by the long-lived composer and reconciler: per reconcile the addressed
XR's stored state afterwards and whether the final status write took effect -/
def fnTrace : List FnXR → List (Nat × FnRec × Option (FnPoint × EC)) → List (Option St × Bool)
  | _, [] => []
  | xs, (i, r, f) :: rs =>
    match xs[i]? with
    | none => (none, false) :: fnTrace xs rs
    | some x =>
      let o := fnWorldStep x r f
      (some o.1.st, o.2) :: fnTrace (xs.set i o.1) rs

/-! #### declared call skeletons of composition_functions.go -/

/-- `FunctionComposer.Compose` -/
def skelFnCompose : List String :=
  ["composite.ObserveComposedResources",       -- not modelled: which composed resources exist (C01); its error = an empty result + error
   "composite.FetchConnection", "AsState",     -- not modelled: connection details (C09), the observed state (C04)
   "client.Get",                               -- not modelled: credentials secrets (C04)
   "pipeline.RunFunction",                     -- runPipe: s.err => .error
   "rsp.GetDesired",                           -- runPipe: the LAST step's desired state (`some s`)
   "rsp.GetConditions", "GetStatus", "convertTarget",   -- runPipe: acc ++ s.conds (UNSPECIFIED read as Unknown by the driver; FnCond.claim)
   "rsp.GetResults", "convertTarget", "rs.GetSeverity", -- runPipe: s.fatal => .fatal (acc ++ s.conds); other severities are events (not modelled)
   "d.GetResources", "FromStruct", "RenderComposedResourceMetadata", "composite.GenerateName",   -- not modelled: rendering the desired resources (C01/C04)
   "dr.GetReady",                              -- composedOf: r.ready == some true (READY_TRUE only)
   "d.GetComposite.GetReady", "d.GetComposite", -- fnReconcile: explicit := last.bind (·.xrReady)
   "composite.GarbageCollectComposedResources", -- not modelled (C03)
   "UpdateResourceRefs", "client.Patch",       -- FnPoint.refs
   "composite.ManagedFieldsUpgrader.Upgrade",  -- not modelled: field-manager migration of observed resources
   "client.Patch", "kerrors.IsInvalid",        -- composedOf: synced := !r.invalid; FnPoint.apply for every other class
   "FromStruct", "d.GetComposite",             -- the desired XR status (FnStep.statusConds)
   "removeSystemConditions",                   -- customOnly
   "client.Status.Patch",                      -- mergeStatus; FnPoint.statusPatch
   "d.GetComposite"]                           -- connection details of the result (C09)

/-- `removeSystemConditions`: the filter of customOnly; an empty remainder deletes the field -/
def skelRemoveSystemConditions : List String := ["xpv1.IsSystemConditionType", "delete"]

/-! ### the P&T composer (composition_pt.go Compose) seen from the XR's conditions

Per template: it is rendered (from-composite patches, metadata, name) or not; a rendered one is
applied and the API server may reject the apply as invalid; one that was rendered and applied is
OBSERVED - its to-composite patches are applied to the XR held in memory, then its readiness
checks (ready.go, `isReady`) are run against the applied object. A check that fails to run, and
every failing call other than a rejected apply, makes Compose return an error. -/

structure PTRes where
  name : String
  /-- RenderFromCompositePatches, RenderComposedResourceMetadata and GenerateName all succeeded -/
  rendered : Bool
  /-- the API server rejects the apply as invalid -/
  invalid : Bool
  /-- the composed resource as the apply returned it: what the readiness checks look at -/
  obj : RObj
  checks : List RCheck
  deriving Repr

/-- the field of a condition entry a ToCompositeFieldPath patch addresses -/
inductive CField where
  | status | reason
  deriving DecidableEq, Repr

/-- the calls at which the harness makes the P&T Compose fail -/
inductive PTPoint where
  | refs      -- the Update that persists spec.resourceRefs (before anything is applied)
  | apply     -- the FIRST apply of a composed resource (a rendered template)
  | xrApply   -- the final Apply of the XR (after every resource was observed)
  deriving DecidableEq, Repr

structure PTRec where
  res : List PTRes
  /-- a ToCompositeFieldPath patch of the FIRST template whose target is
  status.conditions[k].status / .reason of the XR -/
  patch : Option (Nat × CField × String)
  fault : Option (PTPoint × EC)
  publish : Option EC
  lost : Bool
  deriving Repr

/-- rendered, applied and therefore observed (cds[i] != nil in the third loop) -/
def PTRes.observed (r : PTRes) : Bool := r.rendered && !r.invalid

/-- an invalid answer to the first apply is a rejection of THAT resource, not a Compose error -/
def markRejected : List PTRes → List PTRes
  | [] => []
  | r :: rs => if r.rendered then { r with invalid := true } :: rs else r :: markRejected rs

def PTRec.effRes (r : PTRec) : List PTRes :=
  match r.fault with
  | some (.apply, .invalid) => markRejected r.res
  | _ => r.res

/-- Compose returns before any resource is observed (and so before any to-composite patch) -/
def PTRec.early (r : PTRec) : Option EC :=
  match r.fault with
  | some (.refs, e) => some e
  | some (.apply, e) => if e != .invalid && r.res.any (·.rendered) then some e else none
  | _ => none

/-- Compose fails at its very last call -/
def PTRec.late (r : PTRec) : Option EC :=
  match r.fault with
  | some (.xrApply, e) => some e
  | _ => none

/-- the third loop of Compose: none = a readiness check could not be run (Compose error) -/
def ptObserve : List PTRes → Option (List Res)
  | [] => some []
  | r :: rs =>
    if r.observed then
      match isReady r.obj r.checks with
      | none => none
      | some b => (ptObserve rs).map (⟨r.name, true, b⟩ :: ·)
    else (ptObserve rs).map (⟨r.name, false, false⟩ :: ·)   -- not rendered / rejected: unsynced AND unready

def patchAt (cs : List Cond) (k : Nat) (f : CField) (v : String) : List Cond :=
  match cs[k]? with
  | some c => cs.set k (match f with | .status => { c with status := v } | .reason => { c with reason := v })
  | none => cs

/-- the XR held in memory once the first template has been observed: the patch edits it; only a
status update of the reconciler stores it -/
def PTRec.patched (r : PTRec) (old : St) : St :=
  match r.patch, r.effRes with
  | some (k, f, v), x :: _ => if x.observed then { old with conds := patchAt old.conds k f v } else old
  | _, _ => old

def ptReconcile (old : St) (r : PTRec) : St × Bool :=
  match r.early with
  | some e => composeFail old old e r.lost
  | none =>
    let mem := r.patched old
    match ptObserve r.effRes with
    | none => composeFail old mem .generic r.lost
    | some composed =>
      match r.late with
      | some e => composeFail old mem e r.lost
      | none =>
        match r.publish with
        | some .conflict => (old, false)
        | some _ => if r.lost then (old, false) else ({ mem with conds := setCond mem.conds reconcileError }, true)
        | none => if r.lost then (old, false) else (composeOk mem composed none [], true)

def ptTrace : List St → List (Nat × PTRec) → List (Option St × Bool)
  | _, [] => []
  | sts, (x, r) :: rs =>
    match sts[x]? with
    | none => (none, false) :: ptTrace sts rs
    | some old =>
      let o := ptReconcile old r
      (some o.1, o.2) :: ptTrace (sts.set x o.1) rs

/-- declared call skeleton of `PTComposer.Compose` -/
def skelPTCompose : List String :=
  ["ComposedTemplates",                        -- not modelled: patch-set inlining (C10); an error = Compose error before anything
   "composition.AssociateTemplates",           -- not modelled: template/resource association (C01, C02)
   "RenderFromJSON",                           -- not modelled: a base that does not parse is a Compose error (C10)
   "RenderFromCompositePatches", "RenderComposedResourceMetadata", "composed.GenerateName",   -- PTRes.rendered (any of the three failing)
   "xr.SetResourceReferences", "client.Update", -- PTPoint.refs
   "client.Apply", "kerrors.IsInvalid",        -- PTRes.invalid (cds[i] = nil) / PTPoint.apply for every other class
   "RenderToCompositePatches",                 -- PTRec.patched: patchAt on the XR in memory (a failing Required patch is not modelled)
   "composed.FetchConnection", "composed.ExtractConnection",   -- not modelled: connection details (C09)
   "composed.IsReady", "ReadinessChecksFromComposedTemplate",  -- ptObserve: isReady r.obj r.checks, none => Compose error
   "client.Apply", "toXRPatchesFromTAs"]       -- PTPoint.xrApply

end Xp.C05

import Xp.Model.C05
/-
C05 model, production side: how the FunctionComposer (composition_functions.go Compose) turns a
pipeline's responses into the CompositionResult the reconciler consumes - conditions accumulate
over the steps (and survive a FATAL result, not a runner error), the desired state is the LAST
step's, a desired resource is ready only when the function says READY_TRUE, an apply the API
server rejects as invalid leaves the resource unsynced, and the desired XR status (which may
carry status.conditions - minus the system condition types, which are stripped) is
server-side-applied to the XR before the reconciler derives the system conditions.
-/
namespace Xp.C05

structure FnRes where
  name : String
  ready : Option Bool   -- READY_UNSPECIFIED = none
  invalid : Bool        -- the API server rejects the apply as invalid
  deriving Repr

structure FnStep where
  conds : List FnCond       -- STATUS_CONDITION_UNSPECIFIED already read as Unknown
  fatal : Bool              -- some result has severity FATAL
  err : Bool                -- the runner returned an error
  res : List FnRes
  xrReady : Option Bool
  statusConds : List Cond   -- status.conditions of the desired XR
  deriving Repr

inductive PipeOut where
  | error
  | fatal (conds : List FnCond)
  | ok (conds : List FnCond) (last : Option FnStep)
  deriving Repr

def runPipe : List FnStep → List FnCond → Option FnStep → PipeOut
  | [], acc, last => .ok acc last
  | s :: ss, acc, _ =>
    if s.err then .error
    else if s.fatal then .fatal (acc ++ s.conds)
    else runPipe ss (acc ++ s.conds) (some s)

def composedOf (s : FnStep) : List Res := s.res.map fun r => ⟨r.name, !r.invalid, r.ready == some true⟩

/-- server-side apply of status.conditions (a map-list keyed by type) -/
def mergeStatus (cs : List Cond) (sc : List Cond) : List Cond := sc.foldl setCond cs

/-- removeSystemConditions: the system condition types are stripped from the desired XR status
before it is applied (functions set custom conditions; Ready/Synced belong to the reconciler) -/
def customOnly (sc : List Cond) : List Cond := sc.filter fun c => !isSystem c.type

structure FnRec where
  steps : List FnStep
  publish : Option EC
  lost : Bool
  deriving Repr

/-- what is stored after the reconcile, and whether its final status update took effect -/
def fnReconcile (old : St) (r : FnRec) : St × Bool :=
  match runPipe r.steps [] none with
  | .error => if r.lost then (old, false) else (composeError old [], true)
  | .fatal conds => if r.lost then (old, false) else (composeError old conds, true)
  | .ok conds last =>
    let composed := (last.map composedOf).getD []
    let explicit := last.bind (·.xrReady)
    let merged : St := { old with conds := mergeStatus old.conds (customOnly ((last.map (·.statusConds)).getD [])) }
    match r.publish with
    | some .conflict => (merged, false)
    | some _ => if r.lost then (merged, false) else ({ merged with conds := setCond merged.conds reconcileError }, true)
    | none => if r.lost then (merged, false) else (composeOk merged composed explicit conds, true)

/-- a sequence of reconciles by the long-lived composer and reconciler: per reconcile the addressed
XR's stored state afterwards and whether the final status write took effect -/
def fnTrace : List St → List (Nat × FnRec) → List (Option St × Bool)
  | _, [] => []
  | sts, (x, r) :: rs =>
    match sts[x]? with
    | none => (none, false) :: fnTrace sts rs
    | some old =>
      let o := fnReconcile old r
      (some o.1, o.2) :: fnTrace (sts.set x o.1) rs

/-! ### the P&T composer (composition_pt.go Compose) seen from the XR's conditions -/

structure PTRes where
  name : String
  ready : Bool     -- every readiness check of the template holds
  invalid : Bool   -- the API server rejects the apply as invalid
  deriving Repr

structure PTRec where
  res : List PTRes
  /-- a ToCompositeFieldPath patch whose target is status.conditions[k].status of the XR -/
  patch : Option (Nat × String)
  publish : Option EC
  lost : Bool
  deriving Repr

/-- a rejected apply leaves the resource unsynced AND unready -/
def ptComposed (rs : List PTRes) : List Res := rs.map fun r => ⟨r.name, !r.invalid, r.ready && !r.invalid⟩

def patchAt (cs : List Cond) (k : Nat) (s : String) : List Cond :=
  match cs[k]? with
  | some c => cs.set k { c with status := s }
  | none => cs

/-- the patch edits the XR held in memory; only a status update of the reconciler stores it -/
def ptReconcile (old : St) (r : PTRec) : St × Bool :=
  let patched : St := match r.patch with
    | some (k, s) => { old with conds := patchAt old.conds k s }
    | none => old
  match r.publish with
  | some .conflict => (old, false)
  | some _ => if r.lost then (old, false) else ({ patched with conds := setCond patched.conds reconcileError }, true)
  | none => if r.lost then (old, false) else (composeOk patched (ptComposed r.res) none [], true)

def ptTrace : List St → List (Nat × PTRec) → List (Option St × Bool)
  | _, [] => []
  | sts, (x, r) :: rs =>
    match sts[x]? with
    | none => (none, false) :: ptTrace sts rs
    | some old =>
      let o := ptReconcile old r
      (some o.1, o.2) :: ptTrace (sts.set x o.1) rs

end Xp.C05

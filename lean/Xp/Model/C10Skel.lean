import Xp.Model.C10World
/-
C10: the call skeletons the model mirrors (tie "a").

For every Go function the C10 model mirrors, the list of its case labels ("case …", "default"),
if-conditions ("if …", `err != nil` left out), ranged-over expressions ("range …"), calls (dotted
chain, receiver stripped; builtins, conversions and error/event constructors left out) and – for the
small predicate/arithmetic functions and the `conversions` table – returns, in source order, AS THE
MODEL WAS WRITTEN AGAINST THEM, one entry per line with the model step that mirrors it (or
"not modelled: why"). harness/main/c10_dump.go regenerates the same lists from the current tree into
Xp.Gen.C10Skel on every check run; lean/Xp/Props/C10.lean states `Xp.Gen.c10Skel… = skel…` for each
(theorems skeleton_*), so that inserting, removing or reordering a call, a case, a guard or a table
entry in one of these functions fails an obligation before any scenario is run.
-/
namespace Xp.C10

/-- Apply  —  mirrored by applyWith -/
def skelApply : List String :=
  ["ApplyToObjects"]  -- applyWith

/-- ApplyToObjects  —  mirrored by applyWith -/
def skelApplyToObjects : List String :=
  ["if filterPatch(p, only...)",  -- `if filtered p only then ⟨xr, cd, none⟩`
   "filterPatch",  -- filtered p only
   "p.GetType",  -- Patch.getType
   "case v1.PatchTypeFromCompositeFieldPath",  -- arm "FromCompositeFieldPath"
   "ApplyFromFieldPathPatch",  -- applyFromFieldPathWith (source/destination as in the arm above)
   "case v1.PatchTypeToCompositeFieldPath",  -- arm "ToCompositeFieldPath"
   "ApplyFromFieldPathPatch",  -- applyFromFieldPathWith (source/destination as in the arm above)
   "case v1.PatchTypeCombineFromComposite",  -- arm "CombineFromComposite"
   "ApplyCombineFromVariablesPatch",  -- applyCombineWith (source/destination as in the arm above)
   "case v1.PatchTypeCombineToComposite",  -- arm "CombineToComposite"
   "ApplyCombineFromVariablesPatch",  -- applyCombineWith (source/destination as in the arm above)
   "case v1.PatchTypePatchSet"]  -- arm "PatchSet"

/-- filterPatch  —  mirrored by filtered -/
def skelFilterPatch : List String :=
  ["if len(only) == 0",  -- !only.isEmpty
   "return false",  -- no filter: not filtered
   "range only",  -- recursion in filtered
   "if patchType == p.Type",  -- only.contains p.type (the RAW type: an empty type is filtered)
   "return false",  -- the raw type is in `only`
   "return true"]  -- filtered: Apply returns nil without touching either object

/-- ResolveTransforms  —  mirrored by resolveAllWith -/
def skelResolveTransforms : List String :=
  ["range c.Transforms",  -- the recursion of resolveAllWith
   "Resolve"]  -- resolveWith, one step of resolveAllWith

/-- patchFieldValueToMultiple  —  mirrored by patchToMultiple -/
def skelPatchToMultiple : List String :=
  ["fieldpath.PaveObject",  -- not modelled: objects are V values already (the conversion of an unstructured object cannot fail)
   "paved.ExpandWildcards",  -- expandIn (path segments shipped by the harness: the parser is an oracle)
   "if len(arrayFieldPaths) == 0",  -- `.ok [] => expand`
   "range arrayFieldPaths",  -- mergeAll
   "paved.MergeValue",  -- mergeValue (mergeAll over the expanded paths in patchToMultiple)
   "runtime.DefaultUnstructuredConverter.FromUnstructured",  -- fromUnstructured
   "paved.UnstructuredContent"]  -- the V value itself

/-- ApplyFromFieldPathPatch  —  mirrored by applyFromFieldPathWith -/
def skelApplyFromFieldPath : List String :=
  ["if p.FromFieldPath == nil",  -- `match p.fromPath with | none => required`
   "if p.ToFieldPath == nil",  -- tp := p.toPath.getD fp
   "runtime.DefaultUnstructuredConverter.ToUnstructured",  -- not modelled: the source is a V value already (JSON round trip of an unstructured object is the identity on the generated values)
   "fieldpath.Pave.GetValue",  -- getPath src path
   "fieldpath.Pave",  -- the V value itself
   "if IsOptionalFieldPathNotFound(err, p.Policy)",  -- `.error .notFound => if p.optional then ⟨to, none⟩` (theorem optional_missing_noop)
   "IsOptionalFieldPathNotFound",  -- the arm `.error .notFound => if p.optional …`
   "if p.Policy != nil",  -- Patch.mo
   "ResolveTransforms",  -- resolveAllWith sel p.xfs
   "if strings.Contains(*p.ToFieldPath, \"[*]\")",  -- `if containsSub tp.raw "[*]"`
   "strings.Contains",  -- containsSub tp.raw "[*]"
   "patchFieldValueToMultiple",  -- patchToMultiple
   "patchFieldValueToObject"]  -- patchToObject

/-- ApplyCombineFromVariablesPatch  —  mirrored by applyCombineWith, combineVars -/
def skelApplyCombine : List String :=
  ["if p.Combine == nil",  -- `match p.combine with | none => required`
   "if p.ToFieldPath == nil",  -- `match p.toPath with | none => required`
   "if vl < 1",  -- `if c.variables.length < 1` -> combineVars
   "runtime.DefaultUnstructuredConverter.ToUnstructured",  -- not modelled: the source is a V value already (JSON round trip of an unstructured object is the identity on the generated values)
   "range p.Combine.Variables",  -- combineVars p src c.variables
   "fieldpath.Pave.GetValue",  -- getPath src path
   "fieldpath.Pave",  -- the V value itself
   "if IsOptionalFieldPathNotFound(err, p.Policy)",  -- `.error .notFound => if p.optional then .ok none` (theorem optional_missing_noop_combine)
   "IsOptionalFieldPathNotFound",  -- the arm `.error .notFound => if p.optional …`
   "Combine",  -- combineVals
   "ResolveTransforms",  -- resolveAllWith sel p.xfs
   "patchFieldValueToObject"]  -- patchToObject [] tp out to none (never merge options)

/-- IsOptionalFieldPathNotFound  —  mirrored by Patch.optional and the `.error .notFound` arms of applyFromFieldPathWith / combineVars -/
def skelIsOptional : List String :=
  ["case p == nil",  -- Patch.optional: `| none => true`
   "case p.FromFieldPath == nil",  -- Patch.optional: `| none => true` (policy without fromFieldPath)
   "case *p.FromFieldPath == v1.FromFieldPathPolicyOptional",  -- Patch.optional: `s == "Optional"`
   "return fieldpath.IsNotFound(err)",  -- the `.error .notFound` pattern (only notFound, no other lookup error)
   "fieldpath.IsNotFound",  -- the pattern `.error .notFound`
   "default",  -- the `_ =>` arm
   "return false"]  -- Required or any unknown policy: the error is returned

/-- Combine  —  mirrored by combineVals -/
def skelCombine : List String :=
  ["case v1.CombineStrategyString",  -- arm "string"
   "if c.String == nil",  -- `match c.fmt with | none => combineCfg`
   "CombineString",  -- sprintfLite f vars, else the oracle entry "out" keyed by the variables
   "default"]  -- the `_ =>` arm

/-- CombineString  —  mirrored by combineVals (sprintfLite, else the oracle) -/
def skelCombineString : List String :=
  ["fmt.Sprintf"]  -- sprintfLite f vars, else the oracle entry "out" keyed by the variables

/-- ComposedTemplates  —  mirrored by inlineAll = setsValid + inlineEach / inlinePatches / lookupSet (Model/C10World.lean) -/
def skelComposedTemplates : List String :=
  ["range pss",  -- setsValid / lookupSet (the LAST set of a name wins)
   "range s.Patches",  -- setsValid: s.patches.all
   "if p.Type == v1.PatchTypePatchSet",  -- p.type != "PatchSet" in setsValid
   "range cts",  -- inlineEach
   "range r.Patches",  -- inlinePatches
   "if p.Type != v1.PatchTypePatchSet",  -- `if p.type = "PatchSet" … else (inlinePatches pss ps).map (p :: ·)`
   "if p.PatchSetName == nil",  -- `match p.setName with | none => none`
   "if !ok"]  -- `match lookupSet n pss with | none => none` (theorem inline_by_exact_name)

/-- mergePath  —  mirrored by mergePath (Model/C10Compose.lean) -/
def skelMergePath : List String :=
  ["fieldpath.PaveObject",  -- not modelled: objects are V values already (the conversion of an unstructured object cannot fail)
   "srcPaved.GetValue",  -- getPath src path (every error and a nil value mean: nothing to merge)
   "if fieldpath.IsNotFound(err) || val == nil",  -- the two "nothing to merge" arms
   "fieldpath.IsNotFound",  -- `.error _ => ⟨dst, none⟩` and `.ok .null => ⟨dst, none⟩`: GetValue returns nil with every error
   "patchFieldValueToObject"]  -- patchToObject

/-- mergeReplace  —  mirrored by mergeReplace -/
def skelMergeReplace : List String :=
  ["src.DeepCopyObject",  -- values are immutable in the model
   "mergePath",  -- mergePath orc path current desired mo (onto the copy of current)
   "mergePath"]  -- mergePath [] path desired o1.to none (the merged value replaces desired's)

/-- withMergeOptions  —  mirrored by one step of applyOpts -/
def skelWithMergeOptions : List String :=
  ["mergeReplace"]  -- mergeReplace p.applyOrc tp current desired mo

/-- mergeOptions  —  mirrored by Patch.applyOpt, applyOpts -/
def skelMergeOptions : List String :=
  ["range pas",  -- the recursion of applyOpts
   "if p.Policy == nil || p.ToFieldPath == nil",  -- `match p.policy, p.toPath with | some pol, some tp => … | _, _ => none`
   "withMergeOptions"]  -- the option `some (tp, pol.mergeOptions)` of Patch.applyOpt

/-- patchFieldValueToObject  —  mirrored by patchToObject -/
def skelPatchToObject : List String :=
  ["fieldpath.PaveObject",  -- not modelled: objects are V values already (the conversion of an unstructured object cannot fail)
   "paved.MergeValue",  -- mergeValue (mergeAll over the expanded paths in patchToMultiple)
   "runtime.DefaultUnstructuredConverter.FromUnstructured",  -- fromUnstructured
   "paved.UnstructuredContent"]  -- the V value itself

/-- Resolve  —  mirrored by resolveWith -/
def skelResolve : List String :=
  ["case v1.TransformTypeMath",  -- arm "math"
   "if t.Math == nil",  -- guard in resolveWith
   "ResolveMath",  -- resolveMath
   "case v1.TransformTypeMap",  -- arm "map"
   "if t.Map == nil",  -- guard in resolveWith
   "ResolveMap",  -- resolveMap
   "case v1.TransformTypeMatch",  -- arm "match"
   "if t.Match == nil",  -- guard in resolveWith
   "ResolveMatch",  -- resolveMatch
   "case v1.TransformTypeString",  -- arm "string"
   "if t.String == nil",  -- guard in resolveWith
   "ResolveString",  -- resolveStringWith sel
   "case v1.TransformTypeConvert",  -- arm "convert"
   "if t.Convert == nil",  -- guard in resolveWith
   "ResolveConvert",  -- resolveConvert
   "default"]  -- the `_ =>` arm

/-- ResolveMath  —  mirrored by resolveMath -/
def skelResolveMath : List String :=
  ["t.Validate",  -- MathCfg.valid / the formatValid and ioTypeValid tests
   "case int",  -- not reachable: an unstructured object never holds an `int`
   "case int64",  -- `.num i`
   "case float64",  -- `.flt _`
   "default",  -- the `_ =>` arm
   "t.GetType",  -- MathCfg.getType
   "case v1.MathTransformTypeMultiply",  -- arm "Multiply"
   "resolveMathMultiply",  -- wrap64 (i * multiply) for int64, oracle key "fmul" for float64
   "case v1.MathTransformTypeClampMin",  -- arm "ClampMin"
   "case v1.MathTransformTypeClampMax",  -- arm "ClampMax"
   "resolveMathClamp",  -- the clamp arms (int64 computed; float64 comparison through oracle keys "ltMin"/"gtMax")
   "default"]  -- the `_ =>` arm

/-- resolveMathMultiply  —  mirrored by the "Multiply" arms of resolveMath -/
def skelMathMultiply : List String :=
  ["case int",  -- not reachable: an unstructured object never holds an `int`
   "return int64(i) * *t.Multiply, nil",  -- not reachable: an unstructured object never holds an `int`
   "case int64",  -- `.num i`
   "return i * *t.Multiply, nil",  -- .num (wrap64 (i * multiply)): int64 multiplication wraps (theorems multiply_in_range, multiply_exact)
   "case float64",  -- `.flt _`
   "return i * float64(*t.Multiply), nil",  -- oracle key "fmul"
   "default",  -- the `_ =>` arm
   "return nil, errors.Errorf(errFmtMathInputNonNumber, input)"]  -- error result of the arm above

/-- resolveMathClamp  —  mirrored by the "ClampMin"/"ClampMax" arms of resolveMath -/
def skelMathClamp : List String :=
  ["case int",  -- not reachable: an unstructured object never holds an `int`
   "case int64",  -- `.num i`
   "case float64",  -- `.flt _`
   "t.GetType",  -- MathCfg.getType
   "case v1.MathTransformTypeClampMin",  -- arm "ClampMin"
   "if i < float64(*t.ClampMin)",  -- oracle verdict "ltMin" (float comparison), theorem clamp_min_float
   "return *t.ClampMin, nil",  -- result of the arm above
   "case v1.MathTransformTypeClampMax",  -- arm "ClampMax"
   "if i > float64(*t.ClampMax)",  -- oracle verdict "gtMax", theorem clamp_max_float (D17 compared after truncation)
   "return *t.ClampMax, nil",  -- result of the arm above
   "default",  -- the `_ =>` arm
   "return nil, errors.Errorf(errMathTransformTypeFailed, string(t.Type))",  -- error result of the arm above
   "return input, nil",  -- result of the arm above
   "default",  -- the `_ =>` arm
   "return nil, errors.Errorf(errFmtMathInputNonNumber, input)",  -- error result of the arm above
   "t.GetType",  -- MathCfg.getType
   "case v1.MathTransformTypeClampMin",  -- arm "ClampMin"
   "if in < *t.ClampMin",  -- `if i < m.clampMin.getD 0`, theorem clamp_min_int
   "return *t.ClampMin, nil",  -- result of the arm above
   "case v1.MathTransformTypeClampMax",  -- arm "ClampMax"
   "if in > *t.ClampMax",  -- `if i > m.clampMax.getD 0`, theorem clamp_max_int
   "return *t.ClampMax, nil",  -- result of the arm above
   "default",  -- the `_ =>` arm
   "return nil, errors.Errorf(errMathTransformTypeFailed, string(t.Type))",  -- error result of the arm above
   "return input, nil"]  -- result of the arm above

/-- ResolveMap  —  mirrored by resolveMap -/
def skelResolveMap : List String :=
  ["case string",  -- `.str s`
   "if !ok",  -- `| none => .error .mapKey`
   "json.Unmarshal",  -- decoded by the harness into Raw (.val / .bad / .empty / .nil): encoding/json is an oracle
   "default",  -- the `_ =>` arm
   "fmt.Sprintf"]  -- text of the error only (class mapType)

/-- ResolveMatch  —  mirrored by resolveMatch, matchLoop -/
def skelResolveMatch : List String :=
  ["range t.Patterns",  -- recursion in resolveMatch, matchLoop
   "Matches",  -- patternMatches orc i p input
   "if matches",  -- `.ok true => rawOrNil p.result`
   "unmarshalJSON",  -- rawOrNil p.result
   "if t.FallbackTo == v1.MatchFallbackToTypeInput",  -- m.fallbackTo == "Input"
   "if t.FallbackValue.Size() != 0",  -- m.fallbackValue.sized -> matchFallbackBoth
   "t.FallbackValue.Size",  -- Raw.sized
   "unmarshalJSON"]  -- rawOrNil m.fallbackValue

/-- Matches  —  mirrored by patternMatches -/
def skelMatches : List String :=
  ["case v1.MatchTransformPatternTypeLiteral",  -- arm "literal"
   "matchesLiteral",  -- the "literal" arm
   "case v1.MatchTransformPatternTypeRegexp",  -- arm "regexp"
   "matchesRegexp"]  -- the "regexp" arm

/-- matchesLiteral  —  mirrored by the "literal" arm of patternMatches -/
def skelMatchesLiteral : List String :=
  ["if p.Literal == nil",  -- `| none => .error .required`
   "return false, errors.Errorf(errFmtRequiredField, \"literal\", v1.MatchTransformPatternTypeLiteral)",  -- error result of the arm above
   "if !ok",  -- `| _ => .error .matchInput`
   "return false, errors.Errorf(errFmtMatchInputTypeInvalid, fmt.Sprintf(\"%T\", input))",  -- error result of the arm above
   "fmt.Sprintf",  -- text of the error only (class matchInput)
   "return inputStr == *p.Literal, nil"]  -- .ok (s == lit)

/-- matchesRegexp  —  mirrored by the "regexp" arm of patternMatches -/
def skelMatchesRegexp : List String :=
  ["if p.Regexp == nil",  -- `| none => .error .required`
   "return false, errors.Errorf(errFmtRequiredField, \"regexp\", v1.MatchTransformPatternTypeRegexp)",  -- error result of the arm above
   "regexp.Compile",  -- oracle: compile verdict ("ok" per pattern / "compile")
   "return false, errors.Wrap(err, errMatchRegexpCompile)",  -- error result of the arm above
   "if input == nil",  -- `| _ => .error .matchInput` (after the compile verdict)
   "return false, errors.Errorf(errFmtMatchInputTypeInvalid, \"null\")",  -- error result of the arm above
   "if !ok",  -- `| _ => .error .matchInput`
   "return false, errors.Errorf(errFmtMatchInputTypeInvalid, fmt.Sprintf(\"%T\", input))",  -- error result of the arm above
   "fmt.Sprintf",  -- text of the error only (class matchInput)
   "return re.MatchString(inputStr), nil",  -- result of the arm above
   "re.MatchString"]  -- oracle: match verdict "m" (valid only for the input the oracle is keyed by)

/-- unmarshalJSON  —  mirrored by rawOrNil -/
def skelUnmarshalJSON : List String :=
  ["if len(j.Raw) == 0",  -- Raw.nil / Raw.empty => .ok .null
   "return nil",  -- result of the arm above
   "return json.Unmarshal(j.Raw, output)",  -- result of the arm above
   "json.Unmarshal"]  -- decoded by the harness into Raw (.val / .bad / .empty / .nil): encoding/json is an oracle

/-- ResolveString  —  mirrored by resolveStringWith -/
def skelResolveString : List String :=
  ["case v1.StringTransformTypeFormat",  -- arm "Format"
   "if t.Format == nil",  -- guard in resolveStringWith
   "fmt.Sprintf",  -- fmtStr: sprintfLite computed on the plain fragment, oracle key "fmt" otherwise
   "case v1.StringTransformTypeConvert",  -- arm "Convert"
   "if t.Convert == nil",  -- guard in resolveStringWith
   "stringConvertTransform",  -- stringConvert
   "case v1.StringTransformTypeTrimPrefix",  -- arm "TrimPrefix"
   "case v1.StringTransformTypeTrimSuffix",  -- arm "TrimSuffix"
   "if t.Trim == nil",  -- guard in resolveStringWith
   "stringTrimTransform",  -- trimPrefix / trimSuffix over fmtV
   "case v1.StringTransformTypeRegexp",  -- arm "Regexp"
   "if t.Regexp == nil",  -- guard in resolveStringWith
   "stringRegexpTransform",  -- stringRegexpWith sel
   "case v1.StringTransformTypeJoin",  -- arm "Join"
   "if t.Join == nil",  -- guard in resolveStringWith
   "stringJoinTransform",  -- stringJoin
   "default"]  -- the `_ =>` arm

/-- stringConvertTransform  —  mirrored by stringConvert -/
def skelStringConvert : List String :=
  ["fmt.Sprintf",  -- fmtV (computed for string/int64/bool/nil, oracle key "pv" otherwise)
   "case v1.StringConversionTypeToUpper",  -- arm "ToUpper"
   "strings.ToUpper",  -- upperOf: asciiUpper computed, oracle key "upper" for non-ASCII text
   "case v1.StringConversionTypeToLower",  -- arm "ToLower"
   "strings.ToLower",  -- lowerOf: asciiLower computed, oracle key "lower" for non-ASCII text
   "case v1.StringConversionTypeToJSON",  -- arm "ToJson"
   "json.Marshal",  -- oracle key "json"
   "case v1.StringConversionTypeToBase64",  -- arm "ToBase64"
   "base64.StdEncoding.EncodeToString",  -- oracle key "b64e"
   "case v1.StringConversionTypeFromBase64",  -- arm "FromBase64"
   "base64.StdEncoding.DecodeString",  -- oracle key "b64d"
   "case v1.StringConversionTypeToSHA1",  -- arm "ToSha1"
   "stringGenerateHash",  -- oracle keys "sha1"/"sha256"/"sha512"/"adler"
   "hex.EncodeToString",  -- part of the same oracle entry
   "case v1.StringConversionTypeToSHA256",  -- arm "ToSha256"
   "stringGenerateHash",  -- oracle keys "sha1"/"sha256"/"sha512"/"adler"
   "hex.EncodeToString",  -- part of the same oracle entry
   "case v1.StringConversionTypeToSHA512",  -- arm "ToSha512"
   "stringGenerateHash",  -- oracle keys "sha1"/"sha256"/"sha512"/"adler"
   "hex.EncodeToString",  -- part of the same oracle entry
   "case v1.StringConversionTypeToAdler32",  -- arm "ToAdler32"
   "stringGenerateHash",  -- oracle keys "sha1"/"sha256"/"sha512"/"adler"
   "strconv.FormatUint",  -- part of the oracle entry "adler"
   "default"]  -- the `_ =>` arm

/-- stringGenerateHash  —  mirrored by (oracle keys sha1/sha256/sha512/adler) -/
def skelStringHash : List String :=
  ["case string",  -- oracle (c10HashBytes mirrors the two arms on the harness side)
   "default",  -- the `_ =>` arm
   "json.Marshal",  -- oracle key "json"
   "hashFunc"]  -- oracle

/-- stringTrimTransform  —  mirrored by the "TrimPrefix"/"TrimSuffix" arms of resolveStringWith -/
def skelStringTrim : List String :=
  ["fmt.Sprintf",  -- fmtV (computed for string/int64/bool/nil, oracle key "pv" otherwise)
   "if t == v1.StringTransformTypeTrimPrefix",  -- arm "TrimPrefix"
   "return strings.TrimPrefix(str, trim)",  -- result of the arm above
   "strings.TrimPrefix",  -- trimPrefix
   "if t == v1.StringTransformTypeTrimSuffix",  -- arm "TrimSuffix"
   "return strings.TrimSuffix(str, trim)",  -- result of the arm above
   "strings.TrimSuffix",  -- trimSuffix
   "return str"]  -- result of the arm above

/-- stringRegexpTransform  —  mirrored by stringRegexpWith, selectGroup -/
def skelStringRegexp : List String :=
  ["regexp.Compile",  -- oracle: compile verdict ("ok" per pattern / "compile")
   "return \"\", errors.Wrap(err, errStringTransformTypeRegexpFailed)",  -- error result of the arm above
   "re.FindStringSubmatch",  -- oracle: orcGroups (key "groups")
   "fmt.Sprintf",  -- fmtV (computed for string/int64/bool/nil, oracle key "pv" otherwise)
   "ptr.Deref",  -- r.group.getD 0
   "if len(groups) == 0 || g < 0 || g >= len(groups)",  -- selectGroup: `groups.length == 0 || g < 0 || g ≥ groups.length` (theorem group_index_guard; D1 was the missing `g < 0`)
   "return \"\", errors.Errorf(errStringTransformTypeRegexpNoMatch, r.Match, g)",  -- error result of the arm above
   "return groups[g], nil"]  -- groups[g.toNat]? (proved in range: resolve_never_panics)

/-- stringJoinTransform  —  mirrored by stringJoin, fmtAll -/
def skelStringJoin : List String :=
  ["if !ok",  -- `| _ => .error .joinInput`
   "range inputList",  -- fmtAll
   "fmt.Sprintf",  -- fmtV (computed for string/int64/bool/nil, oracle key "pv" otherwise)
   "strings.Join"]  -- sep.intercalate

/-- ResolveConvert  —  mirrored by resolveConvert -/
def skelResolveConvert : List String :=
  ["t.Validate",  -- MathCfg.valid / the formatValid and ioTypeValid tests
   "v1.TransformIOType",  -- goType input
   "fmt.Sprintf",  -- goType input (`%T`)
   "if !from.IsValid()",  -- guard in resolveConvert
   "from.IsValid",  -- ioTypeValid src0
   "GetConversionFunc",  -- the dst/src normalisation, identity and hasConversion tests
   "f"]  -- convFn orc src dst format input

/-- GetConversionFunc  —  mirrored by resolveConvert (dst/src, identity, hasConversion) -/
def skelGetConversionFunc : List String :=
  ["if to == v1.TransformIOTypeInt",  -- dst := if c.toType == "int" then "int64"
   "if from == v1.TransformIOTypeInt",  -- src := if src0 == "int" then "int64"
   "if to == from",  -- `if dst == src then .ok input` (identity)
   "return func(input any) (any, error) { return input, nil }, nil",  -- result of the arm above
   "return input, nil",  -- result of the arm above
   "t.GetFormat",  -- ConvCfg.getFormat
   "if !ok",  -- `!hasConversion src dst format` -> convPair
   "return nil, errors.Errorf(v1.ErrFmtConvertFormatPairNotSupported, originalFrom, to, t.GetFormat())",  -- error result of the arm above
   "t.GetFormat",  -- ConvCfg.getFormat
   "return f, nil"]  -- result of the arm above

/-- RenderFromJSON  —  mirrored by renderFromJSON (Model/C10Compose.lean) -/
def skelRenderFromJSON : List String :=
  ["o.GetObjectKind.GroupVersionKind",  -- refKind / refApiVersion of the scenario, kindOf afterwards
   "o.GetObjectKind",  -- (same call chain)
   "o.GetName",  -- refName
   "o.GetNamespace",  -- refNamespace
   "json.Unmarshal",  -- base : Option V decoded by the harness; kindOf b == "" is the decoder's "Object 'Kind' is missing"
   "o.SetName",  -- setOrRemoveMeta … "name" refName
   "o.SetNamespace",  -- setOrRemoveMeta … "namespace" refNamespace
   "if !gvk.Empty() && o.GetObjectKind().GroupVersionKind().Kind != gvk.Kind",  -- `(refKind != "" || refApiVersion != "") && kindOf o != refKind` -> kindChanged
   "gvk.Empty",  -- refKind != "" || refApiVersion != ""
   "o.GetObjectKind.GroupVersionKind",  -- refKind / refApiVersion of the scenario, kindOf afterwards
   "o.GetObjectKind",  -- (same call chain)
   "o.GetObjectKind.GroupVersionKind",  -- refKind / refApiVersion of the scenario, kindOf afterwards
   "o.GetObjectKind"]  -- (same call chain)

/-- RenderFromCompositePatches  —  mirrored by renderFromXR -/
def skelRenderFromXR : List String :=
  ["range p",  -- the recursion of renderFromXR (stops at the first error)
   "Apply",  -- apply p xr cd <filter>
   "patchTypesFromXR"]  -- patchTypesFromXR (= Xp.Gen.c10PatchTypesFromXR, theorem patch_type_filters_tied)

/-- RenderToCompositePatches  —  mirrored by renderToXR -/
def skelRenderToXR : List String :=
  ["range p",  -- the recursion of renderToXR
   "Apply",  -- apply p xr cd <filter>
   "patchTypesToXR"]  -- patchTypesToXR (= Xp.Gen.c10PatchTypesToXR)

/-- RenderComposedResourceMetadata  —  mirrored by renderMeta -/
def skelRenderMeta : List String :=
  ["if xr.GetLabels()[xcrd.LabelKeyNamePrefixForComposed] == \"\"",  -- `if pre == ""` -> namePrefixLabel
   "xr.GetLabels",  -- strMap xr "labels" / lookupS
   "cd.SetGenerateName",  -- setMeta cd "generateName" (pre ++ "-")
   "xr.GetLabels",  -- strMap xr "labels" / lookupS
   "if n != \"\"",  -- `if n != ""`
   "SetCompositionResourceName",  -- addStrMap … "annotations" [(annoResourceName, n)]
   "meta.AddLabels",  -- addStrMap … "labels" […]
   "xr.GetLabels",  -- strMap xr "labels" / lookupS
   "xr.GetLabels",  -- strMap xr "labels" / lookupS
   "xr.GetLabels",  -- strMap xr "labels" / lookupS
   "meta.AsController",  -- controller := some true, block := some true
   "meta.TypedReferenceTo",  -- ref : ORef from the XR
   "xr.GetObjectKind.GroupVersionKind",  -- topStr xr "apiVersion" / "kind"
   "xr.GetObjectKind",  -- (same call chain)
   "meta.AddControllerReference"]  -- controllerOf / addORef (error "controllerRef" for a foreign controller)

/-- PTComposer.Compose  —  mirrored by stepW / composeW (composePT in the quiet world): inlineAll, renderTpl, applyLoopW, observeLoopW -/
def skelCompose : List String :=
  ["ComposedTemplates",  -- inlineAll sets (tpls.map (·.patches)) in stepW
   "composition.AssociateTemplates",  -- not modelled: the scenario fixes the association (C01 owns the associator)
   "range tas",  -- renderAll xr tpls
   "composed.New",  -- the reference fields of Tpl (refKind, refApiVersion, refName)
   "composed.FromReference",  -- (same)
   "RenderFromJSON",  -- renderFromJSON in renderTpl; `none` is the terminal error "parseBase"
   "RenderFromCompositePatches",  -- renderFromXR xr o t.patches in renderTpl
   "RenderComposedResourceMetadata",  -- renderMeta r1.cd xr name in renderTpl
   "composed.GenerateName",  -- the name oracle NameGen (keep / name / fail) in renderTpl
   "meta.ReferenceTo",  -- refs := (kindOf r.cd, getMetaStr r.cd "name")
   "r.GetObjectKind.GroupVersionKind",  -- kindOf r.cd
   "r.GetObjectKind",  -- (same call chain)
   "if rendered",  -- Rendered.rendered (cds[i] stays nil otherwise)
   "xr.SetResourceReferences",  -- refs of ComposeRes (the observation compares them)
   "client.Update",  -- the write ⟨"update", none⟩; w.updFails
   "range tas",  -- applyLoopW
   "if cd == nil",  -- `if !r.rendered` in applyLoopW: no Apply for an unrendered resource
   "resource.MustBeControllableBy",  -- notControllable uid cur in applyW
   "xr.GetUID",  -- getMetaStr xr "uid"
   "usage.RespectOwnerRefs",  -- not modelled: a no-op for anything that is not a Usage
   "mergeOptions",  -- applyOpts cur cd t.patches (own template only)
   "filterPatches",  -- Patch.applyOpt: patchTypesFromXR.contains p.type
   "patchTypesFromXR",  -- patchTypesFromXR (= Xp.Gen.c10PatchTypesFromXR, theorem patch_type_filters_tied)
   "client.Apply",  -- applyW uid i t (env i) r.cd: Get, NotFound -> create, else options + merge patch
   "if kerrors.IsInvalid(err)",  -- `if tolerated c` – the loop goes on, the resource is not applied
   "kerrors.IsInvalid",  -- tolerated cls
   "range tas",  -- observeLoopW
   "if cd == nil",  -- `if !applied` in observeLoopW
   "RenderToCompositePatches",  -- renderToXR in observeLoopW
   "composed.FetchConnection",  -- not modelled: connection details are C09's subject
   "composed.ExtractConnection",  -- not modelled (C09)
   "ExtractConfigsFromComposedTemplate",  -- not modelled (C09)
   "range extracted",  -- not modelled (C09)
   "composed.IsReady",  -- not modelled: readiness is C05's subject
   "ReadinessChecksFromComposedTemplate",  -- not modelled (C05)
   "xr.DeepCopy",  -- values are immutable in the model
   "client.Apply",  -- the write ⟨"patch", none⟩; w.xrApplyFails (merge options of the to-XR patches not modelled)
   "mergeOptions",  -- not modelled (see toXRPatchesFromTAs)
   "toXRPatchesFromTAs"]  -- not modelled: the merge options of the to-XR patches on the final Apply (level_note)

/-- toXRPatchesFromTAs  —  mirrored by (not modelled: selects the patches whose merge options accompany the final Apply of the composite, which the model renders as one write) -/
def skelToXRPatchesFromTAs : List String :=
  ["range tas",  -- not modelled
   "filterPatches",  -- Patch.applyOpt: patchTypesFromXR.contains p.type
   "patchTypesToXR"]  -- patchTypesToXR (= Xp.Gen.c10PatchTypesToXR)

/-- filterPatches  —  mirrored by the test `patchTypesFromXR.contains p.type` of Patch.applyOpt -/
def skelFilterPatches : List String :=
  ["range onlyTypes",  -- patchTypesFromXR as a list
   "range pas",  -- recursion in the test `patchTypesFromXR.contains p.type` of Patch.applyOpt
   "if include[p.Type]",  -- patchTypesFromXR.contains p.type (raw type)
   "return filtered"]  -- result of the arm above

/-- Patch.GetType  —  mirrored by Patch.getType -/
def skelPatchGetType : List String :=
  ["if p.Type == \"\"",  -- guard in Patch.getType
   "return PatchTypeFromCompositeFieldPath",  -- result of the arm above
   "return p.Type"]  -- result of the arm above

/-- MathTransform.GetType  —  mirrored by MathCfg.getType -/
def skelMathGetType : List String :=
  ["if m.Type == \"\"",  -- guard in MathCfg.getType
   "return MathTransformTypeMultiply",  -- result of the arm above
   "return m.Type"]  -- result of the arm above

/-- MathTransform.Validate  —  mirrored by MathCfg.valid -/
def skelMathValidate : List String :=
  ["GetType",  -- MathCfg.getType
   "case MathTransformTypeMultiply",  -- arm "Multiply"
   "if m.Multiply == nil",  -- guard in MathCfg.valid
   "case MathTransformTypeClampMin",  -- arm "ClampMin"
   "if m.ClampMin == nil",  -- guard in MathCfg.valid
   "case MathTransformTypeClampMax",  -- arm "ClampMax"
   "if m.ClampMax == nil",  -- guard in MathCfg.valid
   "default"]  -- the `_ =>` arm

/-- ConvertTransform.GetFormat  —  mirrored by ConvCfg.getFormat -/
def skelConvertGetFormat : List String :=
  ["if t.Format != nil",  -- guard in ConvCfg.getFormat
   "return *t.Format",  -- result of the arm above
   "return ConvertTransformFormatNone"]  -- result of the arm above

/-- ConvertTransform.Validate  —  mirrored by the first two tests of resolveConvert -/
def skelConvertValidate : List String :=
  ["if !t.GetFormat().IsValid()",  -- guard in the first two tests of resolveConvert
   "GetFormat.IsValid",  -- formatValid c.getFormat
   "GetFormat",  -- ConvCfg.getFormat
   "if !t.ToType.IsValid()",  -- guard in the first two tests of resolveConvert
   "ToType.IsValid"]  -- ioTypeValid c.toType

/-- TransformIOType.IsValid  —  mirrored by ioTypeValid -/
def skelIOTypeIsValid : List String :=
  ["case TransformIOTypeString",  -- arm "string"
   "case TransformIOTypeBool",  -- arm "bool"
   "case TransformIOTypeInt",  -- arm "int"
   "case TransformIOTypeInt64",  -- arm "int64"
   "case TransformIOTypeFloat64",  -- arm "float64"
   "case TransformIOTypeObject",  -- arm "object"
   "case TransformIOTypeArray",  -- arm "array"
   "return true",  -- result of the arm above
   "return false"]  -- result of the arm above

/-- ConvertTransformFormat.IsValid  —  mirrored by formatValid -/
def skelFormatIsValid : List String :=
  ["case ConvertTransformFormatNone",  -- arm "none"
   "case ConvertTransformFormatQuantity",  -- arm "quantity"
   "case ConvertTransformFormatJSON",  -- arm "json"
   "return true",  -- result of the arm above
   "return false"]  -- result of the arm above

/-- the `conversions` table  —  mirrored by convFn (key set: hasConversion over Xp.Gen.c10Conversions) -/
def skelConversions : List String :=
  ["entry {from: v1.TransformIOTypeString, to: v1.TransformIOTypeInt64, format: v1.ConvertTransformFormatNone}",  -- convFn arm "string", "int64", "none"
   "if !ok",  -- the type assertion: the arm matches on the constructor of the input (else oracleMiss – unreachable, goType chose the entry)
   "return nil, errors.New(\"not a string\")",  -- error result of the arm above
   "return strconv.ParseInt(s, 10, 64)",  -- parseInt s (base 10, 64 bits) -> .num / convParse
   "strconv.ParseInt",  -- parseInt (decimal, range checked; proved inverse of fmtInt)
   "entry {from: v1.TransformIOTypeString, to: v1.TransformIOTypeBool, format: v1.ConvertTransformFormatNone}",  -- convFn arm "string", "bool", "none"
   "if !ok",  -- the type assertion: the arm matches on the constructor of the input (else oracleMiss – unreachable, goType chose the entry)
   "return nil, errors.New(\"not a string\")",  -- error result of the arm above
   "return strconv.ParseBool(s)",  -- result of the arm above
   "strconv.ParseBool",  -- parseBool
   "entry {from: v1.TransformIOTypeString, to: v1.TransformIOTypeFloat64, format: v1.ConvertTransformFormatNone}",  -- convFn arm "string", "float64", "none"
   "if !ok",  -- the type assertion: the arm matches on the constructor of the input (else oracleMiss – unreachable, goType chose the entry)
   "return nil, errors.New(\"not a string\")",  -- error result of the arm above
   "return strconv.ParseFloat(s, 64)",  -- result of the arm above
   "strconv.ParseFloat",  -- oracle key "pfloat"
   "entry {from: v1.TransformIOTypeString, to: v1.TransformIOTypeFloat64, format: v1.ConvertTransformFormatQuantity}",  -- convFn arm "string", "float64", "quantity"
   "if !ok",  -- the type assertion: the arm matches on the constructor of the input (else oracleMiss – unreachable, goType chose the entry)
   "return nil, errors.New(\"not a string\")",  -- error result of the arm above
   "resource.ParseQuantity",  -- oracle key "pquant"
   "return nil, err",  -- result of the arm above
   "return q.AsApproximateFloat64(), nil",  -- result of the arm above
   "q.AsApproximateFloat64",  -- same oracle entry
   "entry {from: v1.TransformIOTypeInt64, to: v1.TransformIOTypeString, format: v1.ConvertTransformFormatNone}",  -- convFn arm "int64", "string", "none"
   "if !ok",  -- the type assertion: the arm matches on the constructor of the input (else oracleMiss – unreachable, goType chose the entry)
   "return nil, errors.New(\"not an int64\")",  -- error result of the arm above
   "return strconv.FormatInt(i64, 10), nil",  -- result of the arm above
   "strconv.FormatInt",  -- fmtInt
   "entry {from: v1.TransformIOTypeInt64, to: v1.TransformIOTypeBool, format: v1.ConvertTransformFormatNone}",  -- convFn arm "int64", "bool", "none"
   "if !ok",  -- the type assertion: the arm matches on the constructor of the input (else oracleMiss – unreachable, goType chose the entry)
   "return nil, errors.New(\"not an int64\")",  -- error result of the arm above
   "return i64 == 1, nil",  -- .bool (i == 1) (theorems convert_roundtrip_bool_int / _int_bool)
   "entry {from: v1.TransformIOTypeInt64, to: v1.TransformIOTypeFloat64, format: v1.ConvertTransformFormatNone}",  -- convFn arm "int64", "float64", "none"
   "if !ok",  -- the type assertion: the arm matches on the constructor of the input (else oracleMiss – unreachable, goType chose the entry)
   "return nil, errors.New(\"not an int64\")",  -- error result of the arm above
   "return float64(i64), nil",  -- oracle key "itof"
   "entry {from: v1.TransformIOTypeBool, to: v1.TransformIOTypeString, format: v1.ConvertTransformFormatNone}",  -- convFn arm "bool", "string", "none"
   "if !ok",  -- the type assertion: the arm matches on the constructor of the input (else oracleMiss – unreachable, goType chose the entry)
   "return nil, errors.New(\"not a bool\")",  -- error result of the arm above
   "return strconv.FormatBool(b), nil",  -- result of the arm above
   "strconv.FormatBool",  -- fmtBool
   "entry {from: v1.TransformIOTypeBool, to: v1.TransformIOTypeInt64, format: v1.ConvertTransformFormatNone}",  -- convFn arm "bool", "int64", "none"
   "if !ok",  -- the type assertion: the arm matches on the constructor of the input (else oracleMiss – unreachable, goType chose the entry)
   "return nil, errors.New(\"not a bool\")",  -- error result of the arm above
   "if b",  -- guard in convFn (key set: hasConversion over Xp.Gen.c10Conversions)
   "return int64(1), nil",  -- .num 1
   "return int64(0), nil",  -- .num 0
   "entry {from: v1.TransformIOTypeBool, to: v1.TransformIOTypeFloat64, format: v1.ConvertTransformFormatNone}",  -- convFn arm "bool", "float64", "none"
   "if !ok",  -- the type assertion: the arm matches on the constructor of the input (else oracleMiss – unreachable, goType chose the entry)
   "return nil, errors.New(\"not a bool\")",  -- error result of the arm above
   "if b",  -- guard in convFn (key set: hasConversion over Xp.Gen.c10Conversions)
   "return float64(1), nil",  -- .flt "1"
   "return float64(0), nil",  -- .flt "0"
   "entry {from: v1.TransformIOTypeFloat64, to: v1.TransformIOTypeString, format: v1.ConvertTransformFormatNone}",  -- convFn arm "float64", "string", "none"
   "if !ok",  -- the type assertion: the arm matches on the constructor of the input (else oracleMiss – unreachable, goType chose the entry)
   "return nil, errors.New(\"not a float64\")",  -- error result of the arm above
   "return strconv.FormatFloat(f64, 'f', -1, 64), nil",  -- result of the arm above
   "strconv.FormatFloat",  -- oracle key "ffmt"
   "entry {from: v1.TransformIOTypeFloat64, to: v1.TransformIOTypeInt64, format: v1.ConvertTransformFormatNone}",  -- convFn arm "float64", "int64", "none"
   "if !ok",  -- the type assertion: the arm matches on the constructor of the input (else oracleMiss – unreachable, goType chose the entry)
   "return nil, errors.New(\"not a float64\")",  -- error result of the arm above
   "return int64(f64), nil",  -- oracle key "trunc"
   "entry {from: v1.TransformIOTypeFloat64, to: v1.TransformIOTypeBool, format: v1.ConvertTransformFormatNone}",  -- convFn arm "float64", "bool", "none"
   "if !ok",  -- the type assertion: the arm matches on the constructor of the input (else oracleMiss – unreachable, goType chose the entry)
   "return nil, errors.New(\"not a float64\")",  -- error result of the arm above
   "return f64 == float64(1), nil",  -- .bool (r == "1") on the printed float
   "entry {from: v1.TransformIOTypeString, to: v1.TransformIOTypeObject, format: v1.ConvertTransformFormatJSON}",  -- convFn arm "string", "object", "json"
   "if !ok",  -- the type assertion: the arm matches on the constructor of the input (else oracleMiss – unreachable, goType chose the entry)
   "return nil, errors.New(\"not a string\")",  -- error result of the arm above
   "return o, json.Unmarshal([]byte(s), &o)",  -- oracle keys "jobj" / "jarr"
   "json.Unmarshal",  -- decoded by the harness into Raw (.val / .bad / .empty / .nil): encoding/json is an oracle
   "entry {from: v1.TransformIOTypeString, to: v1.TransformIOTypeArray, format: v1.ConvertTransformFormatJSON}",  -- convFn arm "string", "array", "json"
   "if !ok",  -- the type assertion: the arm matches on the constructor of the input (else oracleMiss – unreachable, goType chose the entry)
   "return nil, errors.New(\"not a string\")",  -- error result of the arm above
   "return o, json.Unmarshal([]byte(s), &o)",  -- oracle keys "jobj" / "jarr"
   "json.Unmarshal"]  -- decoded by the harness into Raw (.val / .bad / .empty / .nil): encoding/json is an oracle

/-- nameGenerator.GenerateName (internal/names/generate.go)  —  mirrored by the name oracle NameGen in renderTpl:
keep (named already / no generateName), name n (the probe answered NotFound), fail (ANY other answer
of the probe – a no-match error of an unserved kind included –, or ten taken names) -/
def skelGenerateName : List String :=
  ["if cd.GetName() != \"\" || cd.GetGenerateName() == \"\"",  -- `if getMetaStr cd2 "name" != "" || getMetaStr cd2 "generateName" == ""` in renderTpl
   "cd.GetName",  -- getMetaStr cd2 "name"
   "cd.GetGenerateName",  -- getMetaStr cd2 "generateName"
   "return nil",  -- (cd2, false): nothing to do
   "range maxTries",  -- not modelled: the up-to-ten probes are folded into the oracle's answer
   "namer.GenerateName",  -- oracle: the random suffix (NameGen.name n)
   "cd.GetGenerateName",  -- (same)
   "obj.SetGroupVersionKind",  -- the probe is for the resource's own kind
   "cd.GetObjectKind.GroupVersionKind",  -- kindOf cd2
   "cd.GetObjectKind",  -- (same call chain)
   "reader.Get",  -- the availability probe; for an unserved kind the real generator runs against a server answering NoKindMatchError
   "if kerrors.IsNotFound(err)",  -- ONLY NotFound means "the name is free": NameGen.name n
   "kerrors.IsNotFound",  -- (same)
   "cd.SetName",  -- setMeta cd2 "name" (.str n)
   "return nil",  -- rendered
   "return err",  -- NameGen.fail: every other answer of the probe fails the name generation -> the resource is not rendered
   "return errors.New(errGenerateName)"]  -- NameGen.fail: ten names taken

/-- values of the API constants the model's `match`es are written against (string literals in Model/C10*.lean) -/
def declaredConsts : List (String × String) :=
  [("TransformTypeMap", "map"),
   ("TransformTypeMatch", "match"),
   ("TransformTypeMath", "math"),
   ("TransformTypeString", "string"),
   ("TransformTypeConvert", "convert"),
   ("MathTransformTypeMultiply", "Multiply"),
   ("MathTransformTypeClampMin", "ClampMin"),
   ("MathTransformTypeClampMax", "ClampMax"),
   ("MatchFallbackToTypeValue", "Value"),
   ("MatchFallbackToTypeInput", "Input"),
   ("MatchTransformPatternTypeLiteral", "literal"),
   ("MatchTransformPatternTypeRegexp", "regexp"),
   ("StringTransformTypeFormat", "Format"),
   ("StringTransformTypeConvert", "Convert"),
   ("StringTransformTypeTrimPrefix", "TrimPrefix"),
   ("StringTransformTypeTrimSuffix", "TrimSuffix"),
   ("StringTransformTypeRegexp", "Regexp"),
   ("StringTransformTypeJoin", "Join"),
   ("StringConversionTypeToUpper", "ToUpper"),
   ("StringConversionTypeToLower", "ToLower"),
   ("StringConversionTypeToJSON", "ToJson"),
   ("StringConversionTypeToBase64", "ToBase64"),
   ("StringConversionTypeFromBase64", "FromBase64"),
   ("StringConversionTypeToSHA1", "ToSha1"),
   ("StringConversionTypeToSHA256", "ToSha256"),
   ("StringConversionTypeToSHA512", "ToSha512"),
   ("StringConversionTypeToAdler32", "ToAdler32"),
   ("TransformIOTypeString", "string"),
   ("TransformIOTypeBool", "bool"),
   ("TransformIOTypeInt", "int"),
   ("TransformIOTypeInt64", "int64"),
   ("TransformIOTypeFloat64", "float64"),
   ("TransformIOTypeObject", "object"),
   ("TransformIOTypeArray", "array"),
   ("ConvertTransformFormatNone", "none"),
   ("ConvertTransformFormatQuantity", "quantity"),
   ("ConvertTransformFormatJSON", "json"),
   ("PatchTypeFromCompositeFieldPath", "FromCompositeFieldPath"),
   ("PatchTypePatchSet", "PatchSet"),
   ("PatchTypeToCompositeFieldPath", "ToCompositeFieldPath"),
   ("PatchTypeCombineFromComposite", "CombineFromComposite"),
   ("PatchTypeCombineToComposite", "CombineToComposite"),
   ("FromFieldPathPolicyOptional", "Optional"),
   ("FromFieldPathPolicyRequired", "Required"),
   ("CombineStrategyString", "string")]

end Xp.C10

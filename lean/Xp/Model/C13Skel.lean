import Xp.Model.C13
/-
C13 — the tie between the model's steps and the control-flow skeletons of the Go functions
they mirror (harness/main/c13_dump.go regenerates the skeletons from the current tree into
`Xp.Gen.c13Flow…`).

Three things live here:

1. `accepts`: an interpreter of skeleton tokens. `accepts fuel skip toks defers trace` says
   whether `trace` is the sequence of calls and writes of SOME path through the function
   (an `if` taken or not, a loop run 0, 1 or 2 times, `break` / `continue`, a `return` that ends
   the path, deferred calls run last-in-first-out at the return). Tokens named in `skip` are
   steps of the Go function that are not steps of the model; each skip list below says why.

2. `stepEvents`: what one step of the MODEL does, in the vocabulary of the skeletons. The lock
   operations are not written down: they are DERIVED from the lock state the proofs are about
   (`Pc.held` before and after the step); the calls that leave the engine and the writes are
   read off the step's program counter and global action. `runTrace` runs a schedule and
   collects the events per thread and per Go function (a model thread that runs `Stop` also runs
   `StoppableSource.Stop`; the collector's thread runs `GetWatches` and `StopWatches`).

3. The declared skeletons (`flow…`): one entry per token of the Go function, each with the model
   step that mirrors it or the reason why no model step does.

Props/C13.lean states `skeleton_<fn> : Xp.Gen.c13Flow<Fn> = flow<Fn>` and `trace_<fn>`: the
event sequences the model derives for that function on its characteristic runs (longest path,
early returns, error paths) are paths of the regenerated skeleton.
-/
namespace Xp.C13

/-- one skeleton token: (depth, kind, what, target) -/
abbrev Tok := Nat × String × String × Nat

def tCall (d : Nat) (w : String) : Tok := (d, "call", w, 0)
def tDefer (d : Nat) (w : String) : Tok := (d, "defer", w, 0)
def tSet (d : Nat) (w : String) : Tok := (d, "set", w, 0)
def tRet (d : Nat) : Tok := (d, "return", "", 0)
def tIf (d : Nat) (c : String) : Tok := (d, "if", c, 0)
def tElse (d : Nat) : Tok := (d, "else", "", 0)
def tCase (d : Nat) : Tok := (d, "case", "", 0)
def tFor (d : Nat) (c : String) : Tok := (d, "for", c, 0)
def tFunc (d : Nat) : Tok := (d, "func", "", 0)
def tBreak (d tg : Nat) : Tok := (d, "break", "", tg)
def tCont (d tg : Nat) : Tok := (d, "continue", "", tg)

/-- the tokens of the block opened at depth `d`, and what follows the block -/
def blockOf (d : Nat) (ts : List Tok) : List Tok × List Tok := ts.span (fun t => decide (d < t.1))

/-- the event a `call` / `set` token stands for -/
def tokEvent (k w : String) : String := if k = "set" then "set " ++ w else w

/-- Is `trace` the event sequence of some path through `toks`? `defers` is the stack of deferred
calls registered so far (most recent first). -/
def accepts (skip : List String) : Nat → List Tok → List String → List String → Bool
  | 0, _, _, _ => false
  | _ + 1, [], defers, trace => trace == defers
  | fuel + 1, (d, k, w, tg) :: rest, defers, trace =>
    if k = "call" || k = "set" then
      if skip.contains (tokEvent k w) then accepts skip fuel rest defers trace
      else match trace with
        | e :: tr => e == tokEvent k w && accepts skip fuel rest defers tr
        | [] => false
    else if k = "defer" then
      if skip.contains w then accepts skip fuel rest defers trace
      else accepts skip fuel rest (w :: defers) trace
    else if k = "return" then trace == defers
    else if k = "if" || k = "case" then
      let body := (blockOf d rest).1
      let after := (blockOf d rest).2
      match after with
      | (d', k', _, _) :: after' =>
        if k' = "else" && d' = d then
          let ebody := (blockOf d after').1
          let after2 := (blockOf d after').2
          accepts skip fuel (body ++ after2) defers trace || accepts skip fuel (ebody ++ after2) defers trace
        else accepts skip fuel (body ++ after) defers trace || accepts skip fuel after defers trace
      | [] => accepts skip fuel body defers trace || accepts skip fuel [] defers trace
    else if k = "for" then
      let body := (blockOf d rest).1
      let after := (blockOf d rest).2
      accepts skip fuel after defers trace
        || accepts skip fuel (body ++ after) defers trace
        || accepts skip fuel (body ++ (d + 1, "iter", "", 0) :: (body ++ after)) defers trace
    else if k = "func" then accepts skip fuel (blockOf d rest).2 defers trace
    else if k = "iter" then accepts skip fuel rest defers trace
    else if k = "break" then accepts skip fuel (rest.dropWhile (fun t => decide (tg < t.1))) defers trace
    else if k = "continue" then
      accepts skip fuel (rest.dropWhile (fun t => decide (tg < t.1) && !(t.2.1 == "iter" && t.1 == tg + 1))) defers trace
    else false

/-! ### the model's events -/

/-- the Go functions a model thread runs -/
inductive Fn
  | start | stop | isRunning | startWatches | stopWatches | getWatches   -- ControllerEngine
  | srcStart | srcStop                                                   -- StoppableSource
  | gcNow                                                                -- GarbageCollector.GarbageCollectWatchesNow
  | cache                                                                -- InformerTrackingCache entry points (one atomic step here; see C13Cache)
  deriving DecidableEq, Repr

/-- the lock operation that takes a lock from mode `a` to mode `b` -/
def lockOp (pfx : String) : Mode → Mode → List String
  | .n, .w => [pfx ++ "Lock"]
  | .n, .r => [pfx ++ "RLock"]
  | .w, .n => [pfx ++ "Unlock"]
  | .r, .n => [pfx ++ "RUnlock"]
  | _, _ => []

def cMode (h : Held) : Mode :=
  match h.c with
  | some (_, m) => m
  | none => .n

/-- the lock operations of a step, derived from the lock state before and after it:
`e.mx` is "mx." (the receiver is dropped in the skeletons), the controller's lock "c.mx." -/
def heldEvents (a b : Held) : List String :=
  lockOp "mx." a.e b.e ++ lockOp "c.mx." (cMode a) (cMode b)

/-- the Go function whose code the step from `pc` of a thread running `op` executes -/
def stepFn (op : Op) : Pc → Fn
  | .idle | .done _ =>
    match op with
    | .start _ => .start | .stop _ => .stop | .isRunning _ => .isRunning
    | .startWatches _ _ => .startWatches | .stopWatches _ _ => .stopWatches
    | .getWatches _ => .getWatches | .gc _ _ => .gcNow
    | .removeInformer _ | .cacheRead _ => .cache
  | .relE _ => (match op with | .start _ => .start | _ => .stop)
  | .relCE _ _ => .stop
  | .relC _ _ => (match op with | .startWatches _ _ => .startWatches | _ => .stopWatches)
  | .stNC _ => .start
  | .spC _ _ | .spLoop _ _ | .spGI _ _ _ _ | .spRH _ _ _ _ _ => .stop
  | .irRel _ => .isRunning
  | .swLU _ _ | .swAI _ _ | .swCR _ _ _ | .swCRrel _ _ _ _ | .swCW _ _ _ | .swAI2 _ _
  | .swGI _ _ _ _ _ | .swAH _ _ _ _ _ _ => .startWatches
  | .xw0 _ _ | .xwLU _ _ | .xwCR _ _ | .xwCRrel _ _ _ | .xwCW _ _ | .xwGI _ _ _ _ _ | .xwRH _ _ _ _ _ _ => .stopWatches
  | .gwLU _ | .gwCR _ | .gwCRrel _ _ => .getWatches
  | .gc1 _ _ | .gcLU _ _ _ | .gcCR _ _ _ | .gcCRrel _ _ _ _ => .getWatches   -- the collector's call of GetWatches

/-- is the thread the collector's? (its StopWatches is called by GarbageCollectWatchesNow) -/
def Op.isGc : Op → Bool
  | .gc _ _ => true
  | _ => false

/-- The calls that leave the engine and the writes of the step from `t.pc` that ends in `pc'`
with global action `act`, each under the Go function that contains it. A call of one modelled
function by another (`w.Stop`, `c.ctrl.Watch`, `engine.GetWatches`, `engine.StopWatches`) is an
event of the caller at the callee's first step. -/
def callEvents (cfg : Cfg) (t : Thread) (pc' : Pc) (act : Act) : List (Fn × String) :=
  match t.pc, act with
  -- Start: c, err := co.nc(...); e.controllers[name] = r
  | .stNC _, .newCtl _ => [(.start, "co.nc"), (.start, "set controllers[]")]
  | .stNC _, _ => [(.start, "co.nc")]
  -- Stop: w.Stop(ctx) = GetInformer, RemoveEventHandler, s.reg = nil; delete(c.sources, wid)
  | .spGI _ _ _ _, _ => [(.stop, "w.Stop"), (.srcStop, "infs.GetInformer")]
  | .spRH _ _ _ _ _, .delReg _ _ _ => [(.srcStop, "i.RemoveEventHandler"), (.srcStop, "set reg"), (.stop, "delete c.sources")]
  | .spRH _ _ _ _ _, _ => [(.srcStop, "i.RemoveEventHandler")]
  -- Stop: c.cancel(); c.stopped = true; delete(e.controllers, name)
  | .spLoop _ _, .finishStop _ _ => [(.stop, "c.cancel"), (.stop, "set c.stopped"), (.stop, "delete controllers")]
  -- StartWatches: a := e.infs.ActiveInformers()
  | .swAI _ _, _ => [(.startWatches, "infs.ActiveInformers")]
  | .swAI2 _ _, _ => [(.startWatches, "infs.ActiveInformers")]
  -- StartWatches: c.ctrl.Watch(src) = src.Start: GetInformer, AddEventHandler, s.reg = reg; c.sources[wid] = src; started[wid] = true
  | .swGI _ _ _ _ _, _ => [(.startWatches, "c.ctrl.Watch"), (.srcStart, "infs.GetInformer")]
  | .swAH _ _ _ _ _ _, .addReg _ _ _ =>
    [(.srcStart, "i.AddEventHandler"), (.srcStart, "set reg"), (.startWatches, "set c.sources[]")]
      ++ (if cfg.fixD2 then [(.startWatches, "set started[]")] else [])
  | .swAH _ _ _ _ _ _, _ => [(.srcStart, "i.AddEventHandler")]
  -- StopWatches
  | .xwGI _ _ _ _ _, _ => [(.stopWatches, "w.Stop"), (.srcStop, "infs.GetInformer")]
  | .xwRH _ _ _ _ _ _, .delReg _ _ _ => [(.srcStop, "i.RemoveEventHandler"), (.srcStop, "set reg"), (.stopWatches, "delete c.sources")]
  | .xwRH _ _ _ _ _ _, _ => [(.srcStop, "i.RemoveEventHandler")]
  | .xw0 _ _, _ => if t.op.isGc then [(.gcNow, "engine.StopWatches")] else []
  -- collector: gc.engine.GetCached().List(ctx, l); gc.engine.GetWatches(name)
  | .gc1 _ _, _ => [(.gcNow, "engine.GetWatches")]
  | .idle, .rmInformer _ => [(.cache, "RemoveInformer")]
  | .idle, .getInformer _ _ => [(.cache, "read")]
  | .idle, _ =>
    match t.op, pc' with
    | .gc _ _, _ => [(.gcNow, "engine.GetCached"), (.gcNow, "engine.GetCached.List")]
    | _, _ => []
  | _, _ => []

/-- all events of one step, in the order the Go code performs them: a step that acquires a
lock does so before anything else, a step that releases one does so last; the call of a
modelled function by another precedes the callee's lock operation -/
def stepEvents (cfg : Cfg) (t : Thread) (pc' : Pc) (act : Act) : List (Fn × String) :=
  let locks := (heldEvents t.pc.held pc'.held).map (fun e => (stepFn t.op t.pc, e))
  match t.pc with
  | .gc1 _ _ | .xw0 _ _ => callEvents cfg t pc' act ++ locks
  | _ => locks ++ callEvents cfg t pc' act

/-- run a schedule, collecting (thread, function, event) -/
def runTrace (cfg : Cfg) (s : Sys) : List (Nat × Choice) → Option (Sys × List (Nat × Fn × String))
  | [] => some (s, [])
  | (i, ch) :: rest =>
    match s.threads[i]? with
    | none => none
    | some t =>
      match next cfg s i t ch with
      | none => none
      | some (pc', act) =>
        match runTrace cfg (act.apply { s with threads := s.threads.set i { t with pc := pc' } }) rest with
        | none => none
        | some (s', evs) => some (s', (stepEvents cfg t pc' act).map (fun e => (i, e.1, e.2)) ++ evs)

/-- the events of thread `i` inside Go function `f` along a schedule (`none`: the schedule is
not executable) -/
def traceOf (cfg : Cfg) (ops : List Op) (sched : List (Nat × Choice)) (i : Nat) (f : Fn) : Option (List String) :=
  (runTrace cfg (init ops) sched).map (fun r => (r.2.filter (fun e => e.1 == i && e.2.1 == f)).map (·.2.2))

/-- `trace` is some path of `toks` -/
def isPath (skip : List String) (toks : List Tok) (trace : Option (List String)) : Bool :=
  match trace with
  | some tr => accepts skip 400 toks [] tr
  | none => false

/-! ### declared skeletons

One line per token of the Go function, with the model step (a `Pc` transition of `next`) that
mirrors it. "–" marks tokens without a model step; those that are calls or writes are in the
function's skip list, with the reason. -/

/-- ControllerEngine.Start -/
def flowStart : List Tok := [
  tCall 0 "mx.Lock",                       -- idle → stNC / relE : acquire e.mx (W)
  tDefer 0 "mx.Unlock",                    -- relE → done
  tIf 0 "running",                         -- idle: `aget n s.ctrls` is some → relE .ok
  tRet 1,
  tFor 0 "range o",                        -- – options: the harness passes WithNewControllerFn only
  tSet 0 "co.runtime.SkipNameValidation",  -- – controller-runtime option
  tCall 0 "co.nc",                         -- stNC: NewControllerFn (parking point NC, fault point)
  tIf 0 "err != nil",                      -- stNC, ch.fault → relE .err
  tRet 1,
  tCall 0 "context.WithCancel",            -- – the context `finishStop` cancels (Ctl.cancelled = false)
  tFunc 0,                                 -- – goroutine: <-Elected; c.Start(ctx); on error e.Stop(ctx, name): not modelled (level_note 6)
  tCall 1 "mgr.Elected",
  tCall 1 "c.Start",
  tIf 1 "err != nil",
  tCall 2 "Stop",
  tRet 2,
  tIf 0 "co.gc != nil",                    -- – goroutine running the collector every minute: the model's `Op.gc` threads
  tFunc 1,
  tCall 2 "mgr.Elected",
  tCall 2 "co.gc.GarbageCollectWatches",
  tSet 0 "controllers[]",                  -- stNC → relE : Act.newCtl
  tRet 0]

def skipStart : List String :=
  ["set co.runtime.SkipNameValidation",    -- an option of the controller-runtime controller, no engine state
   "context.WithCancel"]                   -- creates the context; the model's Ctl starts with cancelled = false

/-- ControllerEngine.Stop -/
def flowStop : List Tok := [
  tCall 0 "mx.Lock",                       -- idle → spC / relE : acquire e.mx (W)
  tDefer 0 "mx.Unlock",                    -- relE → done
  tIf 0 "!running",                        -- idle: `aget n s.ctrls` is none → relE .ok
  tRet 1,
  tCall 0 "c.mx.Lock",                     -- spC → spLoop : acquire c.mx (W)
  tDefer 0 "c.mx.Unlock",                  -- relCE → relE
  tFor 0 "range c.sources",                -- spLoop: ch.pick = the source map iteration yields
  tCall 1 "w.Stop",                        -- spGI, spRH (StoppableSource.Stop)
  tIf 1 "err != nil",                      -- spGI / spRH with ch.fault → relCE .err
  tRet 2,
  tCall 1 "delete c.sources",              -- spRH → spLoop : Act.delReg
  tCall 0 "c.cancel",                      -- spLoop, no source left → relCE : Act.finishStop (cancelled := true)
  tSet 0 "c.stopped",                      --   … stopped := true
  tCall 0 "delete controllers",            --   … ctrls := adel n
  tRet 0]

/-- ControllerEngine.IsRunning -/
def flowIsRunning : List Tok := [
  tCall 0 "mx.RLock",                      -- idle → irRel : acquire e.mx (R), read e.controllers[name]
  tDefer 0 "mx.RUnlock",                   -- irRel → done
  tRet 0]

/-- ControllerEngine.StartWatches -/
def flowStartWatches : List Tok := [
  tCall 0 "mx.RLock",                      -- idle → swLU : acquire e.mx (R), read e.controllers[name]
  tCall 0 "mx.RUnlock",                    -- swLU → swAI / done
  tIf 0 "!running",                        -- swLU none → done .notRunning
  tRet 1,
  tFor 0 "range ws",                       -- – GVKs of the watched objects: kinds are numbers in the model
  tCall 1 "apiutil.GVKForObject",
  tIf 1 "err != nil",                      -- – assumption: GVKForObject succeeds
  tRet 2,
  tSet 1 "gvks[]",
  tCall 0 "infs.ActiveInformers",          -- swAI → swCR : a := s.tracked (parking point AI)
  tFor 0 "range a",                        -- – list → set
  tSet 1 "activeInformer[]",
  tCall 0 "c.mx.RLock",                    -- swCR → swCRrel : acquire c.mx (R); start := (swNext srcs a [] ws).isSome
  tFor 0 "range ws",                       --   swNext
  tIf 1 "watchExists && activeInformer[wid.GVK]",   --   swNext: (aget w srcs).isSome && a.contains w.gvk (st = [])
  tCont 2 0,
  tBreak 1 0,
  tCall 0 "c.mx.RUnlock",                  -- swCRrel → swCW / done
  tIf 0 "!start",                          -- swCRrel false → done .ok
  tRet 1,
  tCall 0 "c.mx.Lock",                     -- swCW → swAI2 / relC : acquire c.mx (W)
  tDefer 0 "c.mx.Unlock",                  -- relC → done
  tIf 0 "c.stopped",                       -- swCW: cfg.fixD12 && stoppedOf s cid → relC .notRunning
  tRet 1,
  tCall 0 "infs.ActiveInformers",          -- swAI2 (cfg.fixD2) : a := s.tracked
  tFor 0 "range a",
  tSet 1 "activeInformer[]",
  tFor 0 "range ws",                       -- swPc / swNext over the rest of ws
  tIf 1 "watchExists && (activeInformer[wid.GVK] || started[wid])",  -- swNext: … && (a.contains w.gvk || st.contains w)
  tCont 2 0,
  tCall 1 "NewStoppableSource",            -- – allocation
  tCall 1 "c.ctrl.Watch",                  -- swGI, swAH (StoppableSource.Start through the controller)
  tIf 1 "err != nil",                      -- swGI / swAH failing → relC .err
  tRet 2,
  tSet 1 "c.sources[]",                    -- swAH → … : Act.addReg (sources := aset wid reg)
  tSet 1 "started[]",                      -- swAH: st' := wid :: st (cfg.fixD2)
  tRet 0]

def skipStartWatches : List String :=
  ["apiutil.GVKForObject", "set gvks[]",   -- kinds are opaque numbers; assumption: GVKForObject succeeds
   "set activeInformer[]",                 -- the list → set conversion of `a`
   "NewStoppableSource"]                   -- allocation of the source object (its registration id is allocated by addReg)

/-- ControllerEngine.GetWatches -/
def flowGetWatches : List Tok := [
  tCall 0 "mx.RLock",                      -- idle → gwLU (gc1 → gcLU) : acquire e.mx (R)
  tCall 0 "mx.RUnlock",                    -- gwLU → gwCR / done
  tIf 0 "!running",                        -- gwLU none → done .notRunning (gcLU none → done .err)
  tRet 1,
  tCall 0 "c.mx.RLock",                    -- gwCR → gwCRrel : acquire c.mx (R); l := keys of sources
  tDefer 0 "c.mx.RUnlock",                 -- gwCRrel → done (gcCRrel → xw0 / done)
  tFor 0 "range c.sources",                --   (srcsOf s cid).map (·.1)
  tRet 0]

/-- ControllerEngine.StopWatches -/
def flowStopWatches : List Tok := [
  tCall 0 "mx.RLock",                      -- idle / xw0 → xwLU : acquire e.mx (R)
  tCall 0 "mx.RUnlock",                    -- xwLU → xwCR / done
  tIf 0 "!running",                        -- xwLU none → done .notRunning
  tRet 1,
  tCall 0 "c.mx.RLock",                    -- xwCR → xwCRrel : acquire c.mx (R); stop := (xwNext srcs ws).isSome
  tFor 0 "range ws",                       --   xwNext
  tIf 1 "watchExists",
  tBreak 2 0,
  tCall 0 "c.mx.RUnlock",                  -- xwCRrel → xwCW / done
  tIf 0 "!stop",                           -- xwCRrel false → done (count 0)
  tRet 1,
  tCall 0 "c.mx.Lock",                     -- xwCW → xwGI / relC : acquire c.mx (W)
  tDefer 0 "c.mx.Unlock",                  -- relC → done
  tFor 0 "range ws",                       -- xwPc / xwNext over the rest of ws
  tIf 1 "!watchExists",                    --   xwNext skips a watch without source
  tCont 2 0,
  tCall 1 "w.Stop",                        -- xwGI, xwRH (StoppableSource.Stop)
  tIf 1 "err != nil",                      -- xwGI / xwRH with ch.fault → relC (count k false)
  tRet 2,
  tCall 1 "delete c.sources",              -- xwRH → … : Act.delReg; k + 1
  tRet 0]

/-- ControllerEngine.GetCached / GetUncached: plain getters (the collector lists through GetCached) -/
def flowGetter : List Tok := [tRet 0]

/-- ControllerEngine.GarbageCollectCustomResourceInformers: the production caller of
RemoveInformer. The DeleteFunc closure is the model's `Op.removeInformer g` thread, one per
served version of the deleted CRD (the loop continues after a failing removal). -/
def flowGCInformers : List Tok := [
  tCall 0 "infs.GetInformer",              -- – the CRD informer (not one of the watched kinds)
  tIf 0 "err != nil",
  tRet 1,
  tFunc 0,                                 -- DeleteFunc: runs on the informer's goroutine, under no engine lock
  tIf 1 "ok",
  tIf 1 "!ok",
  tRet 2,
  tFor 1 "range crd.Spec.Versions",        -- one `Op.removeInformer g` per version
  tCall 2 "u.SetGroupVersionKind",
  tCall 2 "infs.RemoveInformer",           -- idle → done : Act.rmInformer g (parking point RI)
  tIf 2 "err != nil",
  tCont 3 1,
  tCall 0 "i.AddEventHandler",
  tIf 0 "err != nil",
  tRet 1,
  tFunc 0,
  tCall 1 "ctx.Done",
  tCall 1 "i.RemoveEventHandler",
  tIf 1 "err != nil",
  tRet 0]

/-- StoppableSource.Start -/
def flowSourceStart : List Tok := [
  tCall 0 "infs.GetInformer",              -- swGI → swAH : Act.getInformer (parking point GI)
  tIf 0 "err != nil",                      -- swGI, ch.fault → relC .err
  tRet 1,
  tCall 0 "NewEventHandler",               -- – wraps handler and predicates
  tCall 0 "NewEventHandler.HandlerFuncs",
  tCall 0 "i.AddEventHandler",             -- swAH (parking point AH); fails on a stopped informer
  tIf 0 "err != nil",                      -- swAH, ch.fault ∨ informer gone → relC .err
  tRet 1,
  tSet 0 "reg",                            -- swAH : Act.addReg (the registration id is the source)
  tRet 0]

def skipSourceStart : List String := ["NewEventHandler", "NewEventHandler.HandlerFuncs"]  -- pure wrappers

/-- StoppableSource.Stop -/
def flowSourceStop : List Tok := [
  tIf 0 "s.reg == nil",                    -- – never true for a recorded source (only a started source is recorded, a stopped one is deleted)
  tRet 1,
  tCall 0 "infs.GetInformer",              -- spGI → spRH / xwGI → xwRH : Act.getInformer (parking point GI)
  tIf 0 "err != nil",                      -- ch.fault → relCE / relC
  tRet 1,
  tCall 0 "i.RemoveEventHandler",          -- spRH / xwRH (parking point RH)
  tIf 0 "err != nil",
  tRet 1,
  tSet 0 "reg",                            -- Act.delReg
  tRet 0]

/-- GarbageCollector.GarbageCollectWatchesNow -/
def flowGCNow : List Tok := [
  tCall 0 "engine.GetCached",              -- idle (op gc): the cached client …
  tCall 0 "engine.GetCached.List",         -- … lists the XRs (parking point LS, fault point); → gc1 (refsOf xrs) / done .err
  tIf 0 "err != nil",
  tRet 1,
  tFor 0 "range l.Items",                  -- refsOf: every XR that exists, whatever its state
  tCall 1 "xr.GetResourceReferences",
  tFor 1 "range xr.GetResourceReferences()",
  tCall 2 "schema.FromAPIVersionAndKind",  --   a reference with an empty kind / apiVersion names no watched kind (`none`)
  tSet 2 "used[]",
  tCall 0 "engine.GetWatches",             -- gc1 → gcLU → gcCR → gcCRrel
  tIf 0 "err != nil",                      -- gcLU none → done .err
  tRet 1,
  tFor 0 "range running",                  -- gcStop
  tIf 1 "wid.Type != engine.WatchTypeComposedResource",   --   cfg.fixD3: decide (w.ty = .composed)
  tCont 2 0,
  tIf 1 "!used[wid]",                      --   !refs.contains w.gvk
  tIf 0 "len(stop) == 0",                  -- gcCRrel, gcStop = [] → done .ok
  tRet 1,
  tCall 0 "engine.StopWatches",            -- gcCRrel → xw0 (ch.perm: GetWatches' map order)
  tRet 0]

def skipGCNow : List String :=
  ["xr.GetResourceReferences", "schema.FromAPIVersionAndKind", "set used[]"]   -- `refsOf`, computed in the List step

/-- GarbageCollector.GarbageCollectWatches: the ticker loop; every tick is one `Op.gc` thread -/
def flowGCLoop : List Tok := [
  tDefer 0 "t.Stop",
  tFor 0 "",
  tCall 1 "ctx.Done",
  tCase 1,
  tRet 2,
  tCase 1,
  tCall 2 "GarbageCollectWatchesNow",
  tIf 2 "err != nil"]

/-! ### the anchored callers

What the definition, offered and composite reconcilers hand to the engine (source text of the
calls, regenerated). The model's scenarios rest on exactly these facts:
  * a controller's CompositeResource and CompositionRevision watches are started by the definition
    reconciler (Claim and CompositeResource watches of the claim controller by the offered
    reconciler), under the SAME name it starts the controller and builds its collector with;
  * the collector of controller `name` lists XRs of that XRD's composite kind (`xrGVK`): `Op.gc n xrs`
    carries the XRs of controller n's own kind;
  * the XR reconciler starts ComposedResource watches only, one per resource reference of the XR it
    reconciles, under its own controller name: the kinds the collector may stop are kinds some XR
    referenced. -/

def callsDefinition : List String := [
  "r.engine.Stop(ctx, composite.ControllerName(d.GetName()))",                -- XRD deleted: Op.stop n
  "o.SetGroupVersionKind(d.GetCompositeGroupVersionKind())",
  "l.SetGroupVersionKind(d.GetCompositeGroupVersionKind())",
  "r.engine.Stop(ctx, composite.ControllerName(d.GetName()))",                -- … after its CRD is gone
  "r.engine.Stop(ctx, composite.ControllerName(d.GetName()))",                -- referenceable version changed
  "r.engine.IsRunning(composite.ControllerName(d.GetName()))",                -- Op.isRunning n
  "xrGVK := d.GetCompositeGroupVersionKind()",
  "name := composite.ControllerName(d.GetName())",
  "watch.NewGarbageCollector(name, resource.CompositeKind(xrGVK), r.engine, watch.WithLogger(log))",   -- the collector of n lists n's XRs
  "r.engine.Start(name, co...)",                                              -- Op.start n
  "xr.SetGroupVersionKind(xrGVK)",
  "r.engine.StartWatches(name, engine.WatchFor(xr, engine.WatchTypeCompositeResource, &handler.EnqueueRequestForObject{}), engine.WatchFor(&v1.CompositionRevision{}, engine.WatchTypeCompositionRevision, crh))"]   -- Op.startWatches n [⟨.xr, _⟩, ⟨.rev, _⟩]

def callsDefinitionOptions : List String := [
  "composite.WithWatchStarter(composite.ControllerName(d.GetName()), h, r.engine)"]   -- the XR reconciler starts watches under the controller's own name

def callsOffered : List String := [
  "r.engine.Stop(ctx, claim.ControllerName(d.GetName()))",
  "l.SetGroupVersionKind(d.GetClaimGroupVersionKind())",
  "r.engine.Stop(ctx, claim.ControllerName(d.GetName()))",
  "r.engine.Stop(ctx, claim.ControllerName(d.GetName()))",
  "r.engine.IsRunning(claim.ControllerName(d.GetName()))",
  "r.engine.Start(claim.ControllerName(d.GetName()), engine.WithRuntimeOptions(ko))",   -- no collector for claim controllers
  "cm.SetGroupVersionKind(d.GetClaimGroupVersionKind())",
  "xr.SetGroupVersionKind(d.GetCompositeGroupVersionKind())",
  "r.engine.StartWatches(claim.ControllerName(d.GetName()), engine.WatchFor(cm, engine.WatchTypeClaim, &handler.EnqueueRequestForObject{}), engine.WatchFor(xr, engine.WatchTypeCompositeResource, &EnqueueRequestForClaim{}))"]   -- Op.startWatches n [⟨.claim, _⟩, ⟨.xr, _⟩]

def callsComposite : List String := [
  "xr.GetResourceReferences()",
  "xr.GetResourceReferences()",
  "engine.WatchFor(composed.New(composed.FromReference(ref)), engine.WatchTypeComposedResource, r.watchHandler)",   -- ⟨.composed, kind of the reference⟩
  "r.engine.StartWatches(r.controllerName, ws...)"]                            -- Op.startWatches n (composed watches only)

/-! ### schedules used by the `trace_…` theorems -/

def solo (i k : Nat) (ch : Choice := {}) : List (Nat × Choice) := List.replicate k (i, ch)

end Xp.C13

import Xp.Model.C07Upgrade
/-
C07 declared call skeletons: for every Go function the model mirrors, the ordered list of
EVERY call the function makes (selector calls except errors.* / fmt.*, the package-local
filters, the builtin `delete` on a key table), as the model was written against it. One
entry per call, with the model step that mirrors it. harness/main/c07_dump.go regenerates
the same lists from the current tree with go/ast (Xp.Gen.c07Skel…); Props/C07.lean states
`skeleton_* : Xp.Gen.c07Skel… = skel…`. A call inserted, removed or moved in one of these
functions breaks that obligation before any scenario is run.
-/
namespace Xp.C07
open Xp

/-- syncer_ssa.go `ServerSideCompositeSyncer.Sync` ↔ `ssaPatch`, `ssaClaim`, `ssaStatus`, `syncSSA` / `syncSSAW` -/
def skelSsaSync : List String := [
  -- xrPatch := composite.New(WithGroupVersionKind(xr.GroupVersionKind())): `ssaPatch` starts from an
  -- empty KObj (status := none); the group/version/kind is `Cfg.xrAPIVersion/xrKind`
  "composite.New", "composite.WithGroupVersionKind", "xr.GroupVersionKind",
  -- `ssaPatch.name`: `refName cmSpec`
  "cm.GetResourceReference", "xrPatch.SetName",
  -- `if n == "" then gen`: SetGenerateName is not modelled (metadata.generateName is not in the
  -- projection, level_note 4); `names.GenerateName` is the scenario's `gen`
  "xrPatch.GetName", "xrPatch.SetGenerateName", "cm.GetName", "names.GenerateName",
  -- `ssaPatch.en := extName xr`
  "meta.GetExternalName",
  -- `nonEmptyUnreserved cm.annotations` (the len(ann) > 0 test, then the same filter again)
  "withoutReservedK8sEntries", "cm.GetAnnotations", "meta.AddAnnotations", "withoutReservedK8sEntries", "cm.GetAnnotations",
  -- `ssaPatch.labels := addAll (withoutReserved cm.labels) (claimLabels c cm)`
  "meta.AddLabels", "withoutReservedK8sEntries", "cm.GetLabels", "meta.AddLabels", "cm.GetName", "cm.GetNamespace",
  -- `if en != "" then setAnn ann0 extNameKey en`
  "meta.SetExternalName",
  -- `claimFilter manual`: the claim table minus PropagateSpecProps (delete in a loop), minus
  -- compositionRevisionRef (second delete) when `policyOf (xrSpecFields xr) == some "Manual"`
  "xcrd.CompositeResourceClaimSpecProps", "delete", "xr.GetCompositionUpdatePolicy", "xr.GetCompositionUpdatePolicy", "delete",
  -- `specToXR`: `withoutKeys cmSpec (claimFilter manual)` then `aset "claimRef" (claimRefJ c cm)`
  "withoutKeys", "xcrd.GetPropFields", "xrPatch.SetClaimReference", "cm.GetReference",
  -- `ssaClaim.s1 := aset "resourceRef" (xrRefJ c name) cmSpec`
  "cm.SetResourceReference", "xrPatch.GetReference",
  -- `ssaClaim.annotations`: `if en != "" then setAnn cm.annotations extNameKey en`
  "meta.GetExternalName", "meta.SetExternalName",
  -- `ssaClaim.s2`: the XR's compositionRef when the claim has none
  "xr.GetCompositionReference", "cm.GetCompositionReference", "cm.SetCompositionReference",
  -- `ssaClaim.s3`: the XR's compositionRevisionRef under Automatic
  "xr.GetCompositionUpdatePolicy", "xr.GetCompositionRevisionReference", "cm.SetCompositionRevisionReference", "xr.GetCompositionRevisionReference",
  -- `Write.claimUpdate` / `claimWrite … storeClaimUpdate`
  "client.Update",
  -- `Write.xrApply` / `applySSA` (field manager Xp.Gen.fieldOwnerXR is the only applying manager)
  "client.Patch", "client.FieldOwner",
  -- `keepConditions` (the claim's own conditions) and `keepPublished` (its lastPublishedTime)
  "fieldpath.Pave.GetValueInto", "fieldpath.Pave", "cm.GetConnectionDetailsLastPublishedTime",
  -- `ssaStatus`: `withoutKeys xrStatus Xp.Gen.statusProps`
  "withoutKeys", "xcrd.GetPropFields", "xcrd.CompositeResourceStatusProps",
  -- `keepConditions`, `keepPublished`
  "cm.SetConditions", "cm.SetConnectionDetailsLastPublishedTime",
  -- `Write.claimStatus` / `claimWrite … storeClaimStatus`
  "client.Status.Update", "client.Status"]

/-- syncer_csa.go `ClientSideCompositeSyncer.Sync` ↔ `csaDesired`, `csaBind`, `csaApplyW`, `csaBackW` / `syncCSA` -/
def skelCsaSync : List String := [
  -- `csaDesired.en := extName xr`
  "meta.GetExternalName",
  -- `ann1 := addAnn x0.annotations (cm.annotations.map withoutReserved)`
  "meta.AddAnnotations", "withoutReservedK8sEntries", "cm.GetAnnotations",
  -- `lab := addAll (addAll x0.labels (withoutReserved cm.labels)) (claimLabels c cm)`
  "meta.AddLabels", "withoutReservedK8sEntries", "cm.GetLabels", "meta.AddLabels", "cm.GetName", "cm.GetNamespace",
  -- `ann2 := if xr.isSome && en != "" then setAnn ann1 extNameKey en`
  "meta.WasCreated", "meta.SetExternalName",
  -- `claimFilter manual` (as in the server-side syncer)
  "xcrd.CompositeResourceClaimSpecProps", "delete", "xr.GetCompositionUpdatePolicy", "xr.GetCompositionUpdatePolicy", "delete",
  -- `specToXR`
  "withoutKeys", "xcrd.GetPropFields", "xr.SetClaimReference", "cm.GetReference",
  -- `name1 := refName cmSpec`
  "cm.GetResourceReference", "xr.SetName",
  -- `name := if xr.isNone && name1 == "" then gen` (SetGenerateName not modelled, GenerateName = `gen`)
  "meta.WasCreated", "xr.SetGenerateName", "cm.GetName", "names.GenerateName",
  -- `refIs c d.name cmSpec` (cmp.Equal of the existing and the proposed reference), `csaBind`
  "cm.GetResourceReference", "xr.GetReference", "cmp.Equal", "cm.SetResourceReference",
  -- `Write.claimUpdate (csaBind …)` / `claimWrite … storeClaimUpdate`
  "client.Update",
  -- `csaApplyW` (crossplane-runtime APIPatchingApplicator.Apply: Get; Create | Patch unless
  -- `kobjEqv cur d` = the AllowUpdateIf(!cmp.Equal) hook; resource.Ignore(IsNotAllowed))
  "client.Apply", "resource.AllowUpdateIf", "cmp.Equal", "resource.Ignore",
  -- `csaMergeStatus`: mergeF true (WithOverride) of `withoutKeys x Xp.Gen.statusProps`
  "merge", "withMergeOptions", "withSrcFilter", "xcrd.GetPropFields", "xcrd.CompositeResourceStatusProps",
  -- `Write.claimStatus body2`
  "client.Status.Update", "client.Status",
  -- `csaBackW.ann`: `if en2 != "" then setAnn cm2.annotations extNameKey en2`
  "meta.GetExternalName", "meta.SetExternalName",
  -- `xrFilter`: the XR table minus PropagateSpecProps
  "xcrd.CompositeResourceSpecProps", "delete",
  -- `csaClaimSpec.cs1`: the XR's revision reference (or null) under Automatic
  "xr.GetCompositionUpdatePolicy", "xr.GetCompositionUpdatePolicy", "cm.SetCompositionRevisionReference", "xr.GetCompositionRevisionReference",
  -- `csaClaimSpec`: `mergeF false cs1 (withoutKeys xs xrFilter)`
  "merge", "withSrcFilter", "xcrd.GetPropFields",
  -- `Write.claimUpdate body3`
  "client.Update"]

/-- syncer_csa.go `NewClientSideCompositeSyncer`: the applicator `csaApplyW` mirrors -/
def skelNewCsa : List String := ["resource.NewAPIPatchingApplicator"]

/-- crossplane-runtime (the version go.mod requires) `APIPatchingApplicator.Apply` ↔ `csaApplyW`,
`csaGet`, `csaAfterGet` -/
def skelRuntimeApply : List String := [
  -- `if GetName() == "" && GetGenerateName() != "" { Create }`: not modelled - unreachable from Sync,
  -- which hands Apply an XR that always has a name (the claim's resourceRef, the XR as read, or `gen`)
  "m.GetName", "m.GetGenerateName", "client.Create",
  -- `d` is kept as the desired state while the Get overwrites the caller's object
  "o.DeepCopyObject",
  -- `csaGet` (API call k): the live store or the cache; NotFound of any origin means "create"
  "client.Get", "m.GetName", "m.GetNamespace", "kerrors.IsNotFound",
  -- `csaAfterGet none`: `Write.xrCreate d` (API call k+1)
  "client.Create",
  -- the ApplyOptions: AllowUpdateIf(!cmp.Equal) = `kobjEqv cur d` (with the version test of `csaAfterGet`)
  "fn",
  -- `csaAfterGet (some …)`: `Write.xrPatch d`, a JSON merge patch carrying the version read (`mergePatchXR`)
  "client.Patch"]

/-- syncer_ssa.go `PatchingManagedFieldsUpgrader.Upgrade` ↔ `upgradePlan`, `upgradeRun` -/
def skelUpgrade : List String := [
  -- `if !created then .nothing`
  "meta.WasCreated",
  -- `scan ssa mf 0 {}`
  "obj.GetManagedFields",
  -- `.removeAt a.idxBFA`: resourceVersion is not modelled for the upgrader; IgnoreNotFound = the
  -- `e == "notFound"` case of `upgradeRun`
  "obj.GetResourceVersion", "resource.IgnoreNotFound", "client.Patch", "client.RawPatch",
  -- `.clearAll`
  "obj.GetResourceVersion", "resource.IgnoreNotFound", "client.Patch", "client.RawPatch"]

/-- object.go `withoutReservedK8sEntries` ↔ `reserved`, `withoutReserved` -/
def skelWithoutReserved : List String := [
  -- `firstPart k`
  "strings.Split",
  -- `Xp.Gen.c07ReservedSuffixes.any …`
  "strings.HasSuffix", "strings.HasSuffix",
  -- `List.filter`
  "delete", "return"]
def shapeWithoutReserved : List String := ["range", "assign", "if", "call:delete", "return"]

/-- object.go `withoutKeys` ↔ `withoutKeys` (a filter by membership in `ks`): no calls, so
the statement shape is the regenerated fact -/
def skelWithoutKeys : List String := ["return"]
def shapeWithoutKeys : List String :=
  -- filter := {}; for k in keys { filter[k] = true }
  ["assign", "range", "assign-index",
  -- out := {}; for k, v in in { if filter[k] { continue }; out[k] = v }; return out
   "assign", "range", "if", "continue", "assign-index", "return"]

/-- object.go `merge` ↔ `csaMergeStatus` / `csaClaimSpec` + `csaBack`'s "mergeSpec" error -/
def skelMerge : List String := [
  -- dst == nil || src == nil: `csaMergeStatus none _`, `csaMergeStatus (some c) none`
  "return",
  -- the options: withMergeOptions (override := true) / withSrcFilter (the key list)
  "opt",
  -- dst not a map: "mergeStatus" / "mergeSpec"
  "return", "errors.New",
  -- src not a map: "mergeStatus" (the XR's spec is always a map when Sync gets there)
  "return", "errors.New",
  -- `mergeF ov dst (withoutKeys src filter)`
  "return", "mergo.Merge", "withoutKeys"]

/-- xcrd/schemas.go `GetPropFields`: the keys of the table (the model's key lists ARE the key sets) -/
def skelGetPropFields : List String := ["return"]
def shapeGetPropFields : List String := ["assign", "assign", "range", "assign-index", "incdec", "return"]

/-- the package-level values `ServerSideCompositeSyncer.Sync` refers to, source order -/
def refsSsaSync : List String := [
  -- `claimLabels`
  "xcrd.LabelKeyClaimName", "xcrd.LabelKeyClaimNamespace",
  -- `claimFilter`: minus Xp.Gen.propagateSpecProps; minus Xp.Gen.compositionRevisionRefKey when
  -- `policyOf … == some "Manual"` (claim → XR under Manual)
  "xcrd.PropagateSpecProps", "xpv1.UpdateManual", "xcrd.CompositionRevisionRef",
  -- `ssaClaim.s3`: `policyOf xs == some "Automatic"` (XR → claim under Automatic)
  "xpv1.UpdateAutomatic",
  -- `applySSA`: server-side apply, conflicts forced (the claim manager is the only applier in the model)
  "client.Apply", "client.ForceOwnership",
  -- `keepConditions`
  "xpv1.ConditionedStatus"]

/-- the package-level values `ClientSideCompositeSyncer.Sync` refers to, source order -/
def refsCsaSync : List String := [
  "xcrd.LabelKeyClaimName", "xcrd.LabelKeyClaimNamespace",
  "xcrd.PropagateSpecProps", "xpv1.UpdateManual", "xcrd.CompositionRevisionRef",
  -- `csaMergeStatus`: `mergeF true` - the ONLY merge option, and only on the status merge; the
  -- spec merge (`csaClaimSpec`: `mergeF false`) passes none. No WithAppendSlice /
  -- WithSliceDeepCopy anywhere: lists are atoms (`merge_lists_are_atoms`)
  "mergo.WithOverride",
  -- `xrFilter`; `csaClaimSpec.cs1` under "Automatic"
  "xcrd.PropagateSpecProps", "xpv1.UpdateAutomatic"]

/-! ### the API verbs of the declared skeletons are the model's writes -/

def isClientCall (s : String) : Bool :=
  s == "client.Update" || s == "client.Patch" || s == "client.Apply" || s == "client.Status.Update"

/-- the Go call a model write stands for -/
def Write.verb (ssa : Bool) : Write → String
  | .claimUpdate _ => "client.Update"
  | .claimStatus _ => "client.Status.Update"
  | .xrApply _ => "client.Patch"
  | .xrCreate _ => if ssa then "client.Create" else "client.Apply"
  | .xrPatch _ => if ssa then "client.Patch" else "client.Apply"

/-- a state on which every write of both syncers happens: an unbound claim, no XR yet
(client-side) / an XR with a status (server-side) -/
def skelStateCSA : St :=
  { cm := { name := "c", spec := some (.obj [("region", .str "cu")]), status := some (.obj []) } }

def skelStateSSA : St :=
  { cm := { name := "c", spec := some (.obj [("region", .str "cu"), ("resourceRef", xrRefJ wcfg "c-x")]) }
    xr := some { name := "c-x", spec := some (.obj [("claimRef", claimRefJ wcfg { name := "c" })]),
                 status := some (.obj [("ready", .bool true)]) } }

end Xp.C07

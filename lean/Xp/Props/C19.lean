import Xp.Model.C19
import Xp.Gen.C19
/-
C19 property theorems (work in progress: table obligations first).
-/
namespace Xp.C19

/-- The index value the webhook computes for an object (`IndexValueForObject`) and the one the
field indexer computes for a Usage referring to that object are both the model's `indexValue`,
on the whole probe universe (all versions of a group, core group, malformed apiVersions). -/
theorem index_key_shared_table :
    Xp.Gen.c19IndexProbe.all (fun (av, kind, name, obj, us) =>
      obj == indexValue av kind name && us == [indexValue av kind name]) = true := by decide

/-- a Usage whose `spec.of` is not resolved to a name is not indexed -/
theorem unresolved_not_indexed_table : Xp.Gen.c19IndexUnresolved = [] := by decide

/-- the field the webhook and the controller list by is the field the index is registered under -/
theorem index_field_table : Xp.Gen.c19IndexField = Xp.Gen.c19InUseIndexKey := by decide

/-- the webhook configuration selects exactly the objects carrying the label the controller
sets, for DELETE of every group, fails closed, and points at the path the handler is served on -/
theorem hook_config_table :
    Xp.Gen.c19HookSelector = [(Xp.Gen.c19InUseLabelKey, "true")] ∧
    Xp.Gen.c19InUseLabelKey = inUseLabelKey ∧
    Xp.Gen.c19HookOperations = ["DELETE"] ∧ Xp.Gen.c19HookGroups = ["*"] ∧
    Xp.Gen.c19HookFailClosed = true ∧ Xp.Gen.c19HookPathServed = true := by decide

end Xp.C19

import Xp.Proofs.C19Final
import Xp.Proofs.C19Owner
import Xp.Proofs.C19World
import Xp.Gen.C19
/-
C19 — an in-use resource cannot be deleted; protection ends exactly when use ends.

The system (`Xp/Model/C19.lean`) is a small-step machine: the state is the API
server's store plus the in-flight Usage reconciles; an `Action` is a user
create/delete of a Usage or a resource, a delete request (which passes through the
admission webhook when the object carries the in-use label), a Kubernetes GC step,
the start of a reconcile, or ONE API call of a reconcile under a fault outcome
(ok / server error / conflict / crash before / crash after). A `List Action` is
therefore an arbitrary interleaving together with an arbitrary fault plan, and the
theorems quantify over all of them.

Further actions (hardening round): `.er` — another writer (the XR composer patching a
composed resource, a provider, a user) edits the labels of a resource, which moves its
resourceVersion: part of every `listFresh` schedule, so all theorems below cover real
conflicts between a reconcile's read and its write; `.stepW` — one API call of a reconcile
answered by the world (`Call`): the informer cache's answer to the cached reads (`Get` of the
Usage, indexed `List` of Usages) and the error class of an injected failure; `.xaRaw` — the
composer re-applying a Usage through a version `RespectOwnerRefs` does not recognise.

Hypotheses that appear in statements:
* `listFresh as` — the plain world: every Usage read in the schedule (reconciler and webhook)
  is answered from the live store, no `.stepW`, no `.xaRaw`. Informer-cache staleness is outside
  the property's quantifier; the marker clauses are FALSE under cache lag even for one worker
  (`marker_fails_under_cache_lag`, `delete_allowed_under_cache_lag`: findings). Error classes
  are covered by `*_any_error_class` (schedules whose `.stepW` are classed failures).
* `Sys.init 1` — MaxConcurrentReconciles = 1 for the Usage controller. The marker
  clauses are FALSE for two overlapping reconciles of Usages of the same resource
  (`marker_fails_with_two_workers`, defect D16 of the unchanged tree); everything
  else is proved for every `maxc`.
-/
namespace Xp.C19

/-! ### obligations tying the model to tables regenerated from the source -/

/-- The index value the webhook computes for an object (`IndexValueForObject`) and the one the
field indexer registered by `SetupWebhookWithManager` computes for a Usage referring to that
object are both the model's `indexValue`, on the whole probe universe (all versions of a group,
the core group, empty and malformed apiVersions, dotted names). -/
theorem index_key_shared_table :
    Xp.Gen.c19IndexProbe.all (fun (av, kind, name, obj, us) =>
      obj == indexValue av kind name && us == [indexValue av kind name]) = true := by decide

/-- a Usage whose `spec.of` is not resolved to a name is not indexed -/
theorem unresolved_not_indexed_table : Xp.Gen.c19IndexUnresolved = [] := by decide

/-- the field the webhook and the controller list by is the field the index is registered under -/
theorem index_field_table : Xp.Gen.c19IndexField = Xp.Gen.c19InUseIndexKey := by decide

/-- the webhook configuration selects exactly the objects carrying the label the controller
sets, for DELETE of every group, fails closed, and points at the path the handler is served on -/
theorem hook_config_table :
    Xp.Gen.c19HookSelector = [(Xp.Gen.c19InUseLabelKey, "true")] ∧
    Xp.Gen.c19InUseLabelKey = inUseLabelKey ∧
    Xp.Gen.c19HookOperations = ["DELETE"] ∧ Xp.Gen.c19HookGroups = ["*"] ∧
    Xp.Gen.c19HookFailClosed = true ∧ Xp.Gen.c19HookPathServed = true := by decide

/-- the index key depends on the API group only, never on the version -/
theorem index_key_version_independent (av av' kind name : String) (h : groupOf av = groupOf av') :
    indexValue av kind name = indexValue av' kind name := by
  simp [indexValue, h]

/-! ### marker invariant (MaxConcurrentReconciles = 1) -/

/-- **marker_while_ready.** In every state reachable by any schedule and fault plan, every Usage
that is ready and whose deletion has not been requested has its used resource in the store,
carrying the in-use label. -/
theorem marker_while_ready (as : List Action) (hfresh : listFresh as) :
    ∀ u ∈ ((Sys.init 1).run as).store.usages, u.ready = true → u.deleting = false →
      (∃ r ∈ ((Sys.init 1).run as).store.res, u.names r = true) ∧
      ∀ r ∈ ((Sys.init 1).run as).store.res, u.names r = true → r.inUse = true :=
  fun u hu hr hd => (SerialInv.init.run as hfresh).marker u hu hr hd

/-- **marker_before_ready.** Whatever action makes a Usage ready (no Usage of that name was ready
before it), the in-use label was on the used resource already in the state BEFORE that action:
the marker is put before the Usage reports ready. -/
theorem marker_before_ready (as : List Action) (a : Action) (hfresh : listFresh (as ++ [a])) :
    ∀ u' ∈ (((Sys.init 1).run as).exec a).1.store.usages, u'.ready = true →
      (∀ u ∈ ((Sys.init 1).run as).store.usages, u.name = u'.name → u.ready = false) →
      (∃ r ∈ ((Sys.init 1).run as).store.res, u'.names r = true) ∧
      ∀ r ∈ ((Sys.init 1).run as).store.res, u'.names r = true → r.inUse = true := by
  have hpre : SerialInv ((Sys.init 1).run as) :=
    SerialInv.init.run as (fun b hb => hfresh b (List.mem_append_left _ hb))
  have hfa : a.fresh = true := hfresh a (List.mem_append_right _ List.mem_cons_self)
  generalize (Sys.init 1).run as = pre at hpre
  intro u' hu' hr hnone
  have old : u' ∈ pre.store.usages → False := fun h => by
    have := hnone u' h rfl; rw [hr] at this; cases this
  have from_ : ((∃ y ∈ pre.store.usages, y.name = u'.name ∧ y.of = u'.of ∧ y.ready = u'.ready) ∨ u'.ready = false) →
      False := by
    rintro (⟨y, hy, hn, _, hrd⟩ | h)
    · have := hnone y hy hn; rw [hrd, hr] at this; cases this
    · rw [hr] at h; cases h
  cases a with
  | cr g k n l iu c =>
    exact (old (by rw [← (SameUsages.createRes pre.store g k n l iu c).usages]; exact hu')).elim
  | cu n o b r c ct => exact (from_ (createUsage_from _ n o b r c ct u' hu')).elim
  | du n => exact (from_ (deleteUsage_from _ n u' hu')).elim
  | dr g k n p lo po st =>
    exact (old (by rw [← (SameUsages.deleteRes pre.store g k n p lo po st).usages]; exact hu')).elim
  | gcU n => exact (from_ (gcUsage_from _ n u' hu')).elim
  | xa n c => exact (from_ (reapplyUsage_from _ n c u' hu')).elim
  | gcR g k n => exact (old (by rw [← (SameUsages.gcRes pre.store g k n).usages]; exact hu')).elim
  | er g k n l => exact (old (by rw [← (SameUsages.touchRes pre.store g k n l).usages]; exact hu')).elim
  | stepW n o c => simp [Action.fresh] at hfa
  | xaRaw n c => simp [Action.fresh] at hfa
  | start n =>
    refine (old ?_).elim
    simp only [Sys.exec] at hu'
    split at hu'
    · exact hu'
    · split at hu' <;> exact hu'
  | step n o st =>
    have hst : st = none := by
      cases st with
      | none => rfl
      | some _ => simp [Action.fresh] at hfa
    subst hst
    rw [step_store] at hu'
    split at hu'
    · exact (old hu').elim
    · next t hsome =>
      obtain ⟨htm, _⟩ := thread?_some hsome
      have key := exec_newly_ready (hpre.base.threads t htm) (hpre.facts t htm)
      have fin : ∀ y' ∈ (pre.store.exec t.request).1.usages, y'.ready = true → y' = u' →
          (∃ r ∈ pre.store.res, u'.names r = true) ∧ ∀ r ∈ pre.store.res, u'.names r = true → r.inUse = true := by
        intro y' hy' hyr he
        subst he
        rcases key y' hy' hyr with ⟨y, hy, hn, hyr'⟩ | hl
        · have := hnone y hy hn; rw [hyr'] at this; cases this
        · exact hl
      unfold Thread.step at hu'
      cases o with
      | ok => exact fin u' hu' hr rfl
      | crashAfter => exact fin u' hu' hr rfl
      | fail => exact (old hu').elim
      | conflict => exact (old hu').elim
      | crashBefore => exact (old hu').elim

/-! ### admission: refused iff some Usage is indexed under the object's key -/

/-- **delete_refused.** For a DELETE of a stored object carrying the in-use label (so the webhook
is consulted), with a fresh List and no API fault: the request is denied iff some Usage is indexed
under the object's key; and when it is denied the object stays, keeps the label, and carries the
deletion-attempt annotation with the request's propagation policy (default Background). -/
theorem delete_refused (s : Store) (g k n p : String) (r : Res)
    (hg : s.getR g k n = some r) (hin : r.inUse = true) :
    ((s.deleteRes g k n p true true none).2 = .done true .denied ↔
      ∃ u ∈ s.usages, u.indexedBy (indexKey g k n) = true) ∧
    ((s.deleteRes g k n p true true none).2 = .done true .denied →
      ∃ r', (s.deleteRes g k n p true true none).1.getR g k n = some r' ∧
        r'.attempt = some (effPolicy p) ∧ r'.inUse = true) := by
  obtain ⟨hrm, rfl, rfl, rfl⟩ := getR_some hg
  have spec := deleteRes_spec s r.group r.kind r.name p true true none
  generalize (s.deleteRes r.group r.kind r.name p true true none).1 = s' at spec ⊢
  generalize (s.deleteRes r.group r.kind r.name p true true none).2 = res at spec ⊢
  cases spec with
  | notFound hg' => rw [hg] at hg'; cases hg'
  | unlabelled r0 hg' hin' => rw [hg] at hg'; cases hg'; rw [hin] at hin'; cases hin'
  | refused r0 v hg' _ hv hne =>
    rw [hg] at hg'; cases hg'
    have a := admitDelete_spec s r p true true none
    have hok := admitDelete_ok s r p none
    rw [hv] at a hok
    simp only [Option.getD_none] at a
    generalize (s.admitDelete r p true true none).1 = s1 at a ⊢
    cases a with
    | listFailed => exact absurd rfl hok
    | patchFailed _ _ => exact absurd rfl hok
    | allowed _ => exact absurd rfl hne
    | deniedRecorded hn ha =>
      exact ⟨⟨fun _ => countU_pos.mp hn, fun _ => rfl⟩, fun _ => ⟨r, hg, ha, hin⟩⟩
    | deniedPatched hn ha =>
      refine ⟨⟨fun _ => countU_pos.mp hn, fun _ => rfl⟩, fun _ => ?_⟩
      refine ⟨{ r with attempt := some (effPolicy p), rv := s.nextRv }, ?_, rfl, hin⟩
      exact getR_putR_self (s := s) (n := { r with attempt := some (effPolicy p), rv := s.nextRv })
        ⟨r, hrm, rfl, rfl, rfl⟩
  | admitted r0 hg' _ hv =>
    rw [hg] at hg'; cases hg'
    have a := admitDelete_spec s r p true true none
    rw [hv] at a
    simp only [Option.getD_none] at a
    generalize (s.admitDelete r p true true none).1 = s1 at a ⊢
    cases a with
    | allowed hn =>
      have hz := countU_zero.mp hn
      constructor
      · constructor
        · intro h; cases h
        · intro h
          obtain ⟨u, hu, hi⟩ := h
          rw [hz u hu] at hi; cases hi
      · intro h; cases h

/-- whichever API version the request names (`reqAv`) and whichever version the Usage names: a
Usage whose `spec.of` has the same group, kind and (resolved) name is indexed under the
request's key -/
theorem delete_refused_any_version (u : Usage) (reqAv kind name : String)
    (hname : u.of.name ≠ "") (hg : groupOf u.of.av = groupOf reqAv) (hk : u.of.kind = kind)
    (hn : u.of.name = name) : u.indexedBy (indexKey (groupOf reqAv) kind name) = true := by
  simp only [Usage.indexedBy_iff, indexValue]
  exact ⟨hname, by rw [hg, hk, hn]⟩

/-- **delete_refused_while_ready** (end to end, MaxConcurrentReconciles = 1). In every reachable
state, for a Usage that is ready and whose deletion has not been requested, every delete request
for its used resource — any API version of the same group, any propagation policy, with or
without faults of the webhook's own API calls — leaves the resource in the store, still labelled;
without faults the answer is "denied" and the attempt is recorded. -/
theorem delete_refused_while_ready (as : List Action) (hfresh : listFresh as)
    (u : Usage) (hu : u ∈ ((Sys.init 1).run as).store.usages) (hr : u.ready = true) (hd : u.deleting = false)
    (reqAv p : String) (lo po : Bool) (hgrp : groupOf reqAv = groupOf u.of.av) :
    let s := ((Sys.init 1).run as).store
    let res := s.deleteRes (groupOf reqAv) u.of.kind u.of.name p lo po none
    ((∃ r ∈ res.1.res, u.names r = true) ∧ ∀ r ∈ res.1.res, u.names r = true → r.inUse = true) ∧
    (lo = true → po = true → res.2 = .done true .denied ∧
      ∃ r', res.1.getR (groupOf reqAv) u.of.kind u.of.name = some r' ∧ r'.attempt = some (effPolicy p)) := by
  intro s res
  have hinv := SerialInv.init.run as hfresh
  have hl : Labelled s u := hinv.marker u hu hr hd
  refine ⟨hl.deleteRes ⟨u, hu, rfl⟩ _ _ _ p lo po, ?_⟩
  intro hlo hpo
  subst hlo; subst hpo
  obtain ⟨⟨r, hrm, hrn⟩, hall⟩ := hl
  have hrn' := (Usage.names_iff u r).mp hrn
  have hgsome : ∃ r0, s.getR (groupOf reqAv) u.of.kind u.of.name = some r0 := by
    cases hg : s.getR (groupOf reqAv) u.of.kind u.of.name with
    | some r0 => exact ⟨r0, rfl⟩
    | none =>
      exact absurd ⟨by rw [hgrp]; exact hrn'.2.1.symm, hrn'.2.2.1.symm, hrn'.2.2.2.symm⟩ (getR_none hg r hrm)
  obtain ⟨r0, hg0⟩ := hgsome
  have hr0 := getR_some hg0
  have hn0 : u.names r0 = true := by
    simp only [Usage.names_iff]
    exact ⟨hrn'.1, by rw [hr0.2.1, hgrp], hr0.2.2.1.symm, hr0.2.2.2.symm⟩
  have key := delete_refused s (groupOf reqAv) u.of.kind u.of.name p r0 hg0 (hall r0 hr0.1 hn0)
  have hden := key.1.mpr ⟨u, hu, delete_refused_any_version u reqAv _ _ hrn'.1 hgrp.symm rfl rfl⟩
  obtain ⟨r', h1, h2, _⟩ := key.2 hden
  exact ⟨hden, r', h1, h2⟩

/-- **delete_allowed_when_none.** When no Usage is indexed under the object's key, a delete
request (fresh List, no fault) is allowed and the object is gone — whether or not it still
carries the label. -/
theorem delete_allowed_when_none (s : Store) (g k n p : String) (r : Res) (hg : s.getR g k n = some r)
    (hnone : ∀ u ∈ s.usages, u.indexedBy (indexKey g k n) = false) :
    (∃ hook, (s.deleteRes g k n p true true none).2 = .done hook .allowed) ∧
    (s.deleteRes g k n p true true none).1.getR g k n = none := by
  have hr := getR_some hg
  have hkey : indexKey r.group r.kind r.name = indexKey g k n := by rw [hr.2.1, hr.2.2.1, hr.2.2.2]
  have hzero : s.countU (indexKey g k n) = 0 := countU_zero.mpr hnone
  have spec := deleteRes_spec s g k n p true true none
  generalize (s.deleteRes g k n p true true none).1 = s' at spec ⊢
  generalize (s.deleteRes g k n p true true none).2 = res at spec ⊢
  cases spec with
  | notFound hg' => rw [hg] at hg'; cases hg'
  | unlabelled r0 hg' hin' => exact ⟨⟨false, rfl⟩, getR_dropR s g k n⟩
  | refused r0 v hg' _ hv hne =>
    exfalso
    rw [hg] at hg'; cases hg'
    have a := admitDelete_spec s r p true true none
    have hok := admitDelete_ok s r p none
    rw [hv] at a hok
    simp only [Option.getD_none, hkey, hzero] at a
    generalize (s.admitDelete r p true true none).1 = s1 at a
    cases a with
    | listFailed => exact hok rfl
    | patchFailed h _ => exact absurd h (by omega)
    | deniedRecorded h _ => exact absurd h (by omega)
    | deniedPatched h _ => exact absurd h (by omega)
    | allowed _ => exact hne rfl
  | admitted r0 hg' _ hv => exact ⟨⟨true, rfl⟩, getR_dropR _ g k n⟩

/-- the same in terms of "names": if no Usage names the object and the rendered index keys of the
Usages present are separated from the object's (`hsep`; the rendering `group.kind.name` is not
injective in general, see `index_key_not_injective`), the delete is allowed -/
theorem delete_allowed_when_unnamed (s : Store) (g k n p : String) (r : Res) (hg : s.getR g k n = some r)
    (hnone : ∀ u ∈ s.usages, u.names r = false)
    (hsep : ∀ u ∈ s.usages, u.indexedBy (indexKey g k n) = true → u.names r = true) :
    (∃ hook, (s.deleteRes g k n p true true none).2 = .done hook .allowed) ∧
    (s.deleteRes g k n p true true none).1.getR g k n = none := by
  refine delete_allowed_when_none s g k n p r hg (fun u hu => ?_)
  cases hb : u.indexedBy (indexKey g k n) with
  | false => rfl
  | true => have := hsep u hu hb; rw [hnone u hu] at this; cases this

/-- observation (not a violation of the property's refusal clauses): the rendered key is not
injective, so a Usage of one resource can block the delete of another labelled resource -/
theorem index_key_not_injective : indexKey "a" "b" "c.d" = indexKey "a.b" "c" "d" := by decide

/-! ### the label is removed only with the last Usage -/

/-- **removed_only_with_last.** For EVERY number of concurrent reconciles, schedule and fault plan:
an action after which a stored resource no longer carries the label it carried before is one API
call (the label-removing Update) of the reconcile of a Usage `n` such that, when that reconcile
listed the Usages of the resource (`t.seen` is the store's Usages at that List), `n` named the
resource, `n`'s deletion had been requested, and no other Usage named the resource. -/
theorem removed_only_with_last (maxc : Nat) (as : List Action) (a : Action) (hfresh : listFresh (as ++ [a])) :
    ∀ r ∈ ((Sys.init maxc).run as).store.res, r.inUse = true →
    ∀ r' ∈ (((Sys.init maxc).run as).exec a).1.store.res,
      r'.group = r.group → r'.kind = r.kind → r'.name = r.name → r'.inUse = false →
      ∃ n o t used, a = .step n o none ∧ ((Sys.init maxc).run as).thread? n = some t ∧ t.pc = .dUnlabel used ∧
        (∃ x ∈ t.seen, x.name = n ∧ x.deleting = true ∧ x.names r = true) ∧
        (∀ y ∈ t.seen, y.names r = true → y.name = n) := by
  have hpre : SysInv ((Sys.init maxc).run as) :=
    (SysInv.init maxc).run as (fun b hb => hfresh b (List.mem_append_left _ hb))
  have hfa : a.fresh = true := hfresh a (List.mem_append_right _ List.mem_cons_self)
  generalize (Sys.init maxc).run as = pre at hpre
  intro r hr hin r' hr' h1 h2 h3 hno
  have old : r' ∈ pre.store.res → False := fun h => by
    have := hpre.store.resUniq r' h r hr h1 h2 h3
    rw [this, hin] at hno; cases hno
  have from_ : (r' ∈ pre.store.res ∨ ∃ x ∈ pre.store.res,
      x.group = r'.group ∧ x.kind = r'.kind ∧ x.name = r'.name ∧ x.inUse = r'.inUse) → False := by
    rintro (h | ⟨x, hx, e1, e2, e3, e4⟩)
    · exact old h
    · have := hpre.store.resUniq x hx r hr (e1.trans h1) (e2.trans h2) (e3.trans h3)
      rw [this, hin, hno] at e4; cases e4
  cases a with
  | cr g k n l iu c =>
    rcases createRes_res_from _ g k n l iu c r' hr' with h | h
    · exact (old h).elim
    · exact absurd ⟨h1.symm, h2.symm, h3.symm⟩ (h r hr)
  | cu n o b rs c ct => exact (old (by rw [← createUsage_res pre.store n o b rs c ct]; exact hr')).elim
  | du n => exact (old (by rw [← deleteUsage_res pre.store n]; exact hr')).elim
  | dr g k n p lo po st => exact (from_ (deleteRes_res_from _ g k n p lo po st r' hr')).elim
  | gcU n => exact (old (by rw [← gcUsage_res pre.store n]; exact hr')).elim
  | xa n c => exact (old (by rw [← reapplyUsage_res pre.store n c]; exact hr')).elim
  | gcR g k n => exact (from_ (gcRes_res_from _ g k n r' hr')).elim
  | er g k n l => exact (from_ (touchRes_res_from _ g k n l r' hr')).elim
  | stepW n o c => simp [Action.fresh] at hfa
  | xaRaw n c => simp [Action.fresh] at hfa
  | start n =>
    refine (old ?_).elim
    simp only [Sys.exec] at hr'
    split at hr'
    · exact hr'
    · split at hr' <;> exact hr'
  | step n o st =>
    have hst : st = none := by
      cases st with
      | none => rfl
      | some _ => simp [Action.fresh] at hfa
    subst hst
    rw [step_store] at hr'
    split at hr'
    · exact (old hr').elim
    · next t hsome =>
      obtain ⟨htm, htn⟩ := thread?_some hsome
      have fin : r' ∈ (pre.store.exec t.request).1.res →
          ∃ n' o' t' used, Action.step n o none = .step n' o' none ∧ pre.thread? n' = some t' ∧ t'.pc = .dUnlabel used ∧
            (∃ x ∈ t'.seen, x.name = n' ∧ x.deleting = true ∧ x.names r = true) ∧
            (∀ y ∈ t'.seen, y.names r = true → y.name = n') := fun hmem => by
        obtain ⟨used, hpc, hst⟩ := exec_unlabel hpre.store (t := t) r hr hin r' hmem h1 h2 h3 hno
        refine ⟨n, o, t, used, rfl, hsome, hpc, ?_⟩
        -- the new resource is `used` with the label removed: `r` has `used`'s key
        rw [hst] at hmem
        have hk : used.group = r.group ∧ used.kind = r.kind ∧ used.name = r.name := by
          rcases updR_res_from _ _ r' hmem with h | _
          · exact (old h).elim
          · have spec := updR_spec pre.store { used with inUse := false }
            generalize (pre.store.updR { used with inUse := false }).1 = s1 at spec hmem
            generalize (pre.store.updR { used with inUse := false }).2 = rp at spec
            cases spec with
            | notFound _ => exact (old hmem).elim
            | conflict _ _ _ => exact (old hmem).elim
            | noop _ _ _ _ => exact (old hmem).elim
            | put x hg hx =>
              rw [bump_res] at hmem
              rcases mem_putR.mp hmem with ⟨h, _⟩ | ⟨rfl, _⟩
              · exact (old h).elim
              · exact ⟨h1, h2, h3⟩
        rcases hpre.threads t htm with hget | ⟨hb, hf⟩
        · rw [hpc] at hget; cases hget
        · unfold PcFacts at hf
          rw [hpc] at hf
          obtain ⟨_, hne, huk, hseen⟩ := hf
          have hkeyr : groupOf t.u.of.av = r.group ∧ t.u.of.kind = r.kind ∧ t.u.of.name = r.name :=
            ⟨huk.1.symm.trans hk.1, huk.2.1.symm.trans hk.2.1, huk.2.2.symm.trans hk.2.2⟩
          constructor
          · obtain ⟨x, hx, hxn, hxd, hxo⟩ := hseen.self
            refine ⟨x, hx, hxn.trans htn, hxd, ?_⟩
            simp only [Usage.names_iff]
            rw [hxo]
            exact ⟨hne, hkeyr⟩
          · intro y hy hyn
            have hyi := names_indexedBy hyn
            have : indexKey r.group r.kind r.name = indexValue t.u.of.av t.u.of.kind t.u.of.name := by
              simp only [indexValue]
              rw [hkeyr.1, hkeyr.2.1, hkeyr.2.2]
            rw [this] at hyi
            exact (hseen.only y hy hyi).trans htn
      unfold Thread.step at hr'
      cases o with
      | ok => exact fin hr'
      | crashAfter => exact fin hr'
      | fail => exact (old hr').elim
      | conflict => exact (old hr').elim
      | crashBefore => exact (old hr').elim

/-- the removal is an rv-checked write: the label-removing Update changes the store only if the
resourceVersion the reconcile read is still the stored one -/
theorem removal_rv_checked (s : Store) (used x : Res)
    (hg : s.getR used.group used.kind used.name = some x) (hrv : x.rv ≠ used.rv) :
    (s.updR { used with inUse := false }).1 = s := by
  unfold Store.updR
  simp only [hg, hrv, ne_eq, not_false_eq_true, if_true]

/-! ### a Usage by a resource is owned by that resource -/

/-- **owned_by_using.** For EVERY number of concurrent reconciles, schedule and fault plan: a
ready Usage with `spec.by` carries an owner reference whose uid was assigned to a resource created
under the group/kind/name `spec.by` refers to (`born` is the ghost record of creations). -/
theorem owned_by_using (maxc : Nat) (as : List Action) (hfresh : listFresh as) :
    ∀ u ∈ ((Sys.init maxc).run as).store.usages, u.ready = true → ∀ b, u.by_ = some b →
      ∃ o ∈ u.owners, (o.uid, groupOf b.av, b.kind, b.name) ∈ ((Sys.init maxc).run as).store.born :=
  ((SysInv.init maxc).run as hfresh).store.owned

/-- deleting the user releases the used (Kubernetes GC half): once none of a Usage's owners is
alive, the GC's visit requests its deletion — afterwards the Usage is gone or terminating, which
is what lets its reconcile drop the label (`removed_only_with_last`). -/
theorem gc_deletes_orphaned_usage (s : Store) (hs : StoreInv s) (nm : String) (x : Usage)
    (hg : s.getU nm = some x) (hown : x.owners ≠ []) (hdead : ∀ o ∈ x.owners, s.alive o.uid = false) :
    ∀ y ∈ (s.gcUsage nm).1.usages, y.name = nm → y.deleting = true := by
  have hx := getU_some hg
  have hany : (x.owners.any fun o => s.alive o.uid) = false := by
    rw [List.any_eq_false]
    intro o ho
    simp [hdead o ho]
  unfold Store.gcUsage
  simp only [hg, hown, if_false, hany, Bool.false_eq_true]
  unfold Store.deleteUsage
  simp only [hg]
  intro y hy hyn
  split at hy
  · split at hy
    · next hdel =>
      have : y = x := hs.usageUniq y hy x hx.1 (hyn.trans hx.2.symm)
      rw [this]; exact hdel
    · rw [bump_usages] at hy
      rcases mem_putU.mp hy with ⟨_, hne⟩ | ⟨rfl, _⟩
      · exact absurd (hyn.trans hx.2.symm) hne
      · rfl
  · exact absurd hyn (mem_dropU.mp hy).2

/-- the XR composer re-applying a composed Usage (`RespectOwnerRefs`) keeps every owner reference
the stored Usage has — in particular the one to the using resource -/
theorem composer_keeps_owner_refs (s : Store) (hs : StoreInv s) (nm c : String) (x : Usage)
    (hg : s.getU nm = some x) :
    ∀ y ∈ (s.reapplyUsage nm c).1.usages, y.name = nm → ∀ o ∈ x.owners, o ∈ y.owners := by
  have hx := getU_some hg
  have same : ∀ y ∈ s.usages, y.name = nm → ∀ o ∈ x.owners, o ∈ y.owners := by
    intro y hy hyn o ho
    have : y = x := hs.usageUniq y hy x hx.1 (hyn.trans hx.2.symm)
    rw [this]; exact ho
  unfold Store.reapplyUsage
  simp only [hg]
  split
  · exact same
  · split
    · exact same
    · split
      · exact same
      · next hne =>
        have hnil : x.owners = [] := by simpa using hne
        intro y _ _ o ho
        rw [hnil] at ho; cases ho

/-! ### ownership is by uid: the Usage is owned by the CURRENT using resource -/

/-- **owned_by_current_user.** For EVERY number of workers, schedule and fault plan: take any
reachable state in which no reconcile of Usage `n` is in flight, and any continuation `bs`
followed by an API call of the reconcile of `n` that makes it return successfully ("poll") — so a
whole reconcile of `n` lies inside `bs`, interleaved at API-call granularity with anything else
(other reconciles, users, GC, the composer, faults). If throughout that continuation the Usage `n`
is the same object (uid `V`) naming `b` as its user and the resource `b` refers to is the same
object (uid `U`) — the Usage and its user exist throughout — then afterwards the stored Usage
carries an owner reference whose uid is `U`, the CURRENT uid of the stored using resource.
(`owned_by_using` only says the uid once belonged to a resource of that name: a reference with the
right name and the uid of an earlier incarnation is dangling for the garbage collector.) -/
theorem owned_by_current_user (maxc : Nat) (as bs : List Action) (o : Outcome) (hfresh : listFresh (as ++ bs))
    (n : String) (V : Nat) (b : RSpec) (U : Nat) (req : Req) (reply : Option Resp)
    (hidle : ((Sys.init maxc).run as).thread? n = none)
    (hheld : Along (Held n V b U) ((Sys.init maxc).run as) (bs ++ [.step n o none]))
    (hpoll : ((((Sys.init maxc).run as).run bs).exec (.step n o none)).2 = .call req reply (some .poll)) :
    ∃ y ∈ ((((Sys.init maxc).run as).run bs).exec (.step n o none)).1.store.usages,
      y.name = n ∧ y.uid = V ∧ y.by_ = some b ∧
      ∃ g, ((((Sys.init maxc).run as).run bs).exec (.step n o none)).1.store.getR (groupOf b.av) b.kind b.name = some g ∧
        g.uid = U ∧ ∃ ow ∈ y.owners, ow.uid = g.uid := by
  have hfa : listFresh as := fun a ha => hfresh a (List.mem_append_left _ ha)
  have hfb : listFresh bs := fun a ha => hfresh a (List.mem_append_right _ ha)
  have hinv0 : SysInv ((Sys.init maxc).run as) := (SysInv.init maxc).run as hfa
  generalize (Sys.init maxc).run as = s0 at hinv0 hidle hheld hpoll ⊢
  obtain ⟨hb, hpre, hpost⟩ := hheld.append
  have trk := trk_run hinv0 bs hfb hb (Trk.of_none hidle)
  have hinv1 : SysInv (s0.run bs) := hinv0.run bs hfb
  have hinv2 : SysInv ((s0.run bs).exec (.step n o none)).1 := hinv1.exec _ rfl
  obtain ⟨y, hy, hyn, ow, how, hou⟩ := trk_final hinv1 o hpre hpost trk req reply hpoll
  obtain ⟨⟨y1, hy1, h1n, h1u, h1b⟩, huser⟩ := hpost
  have : y1 = y := hinv2.store.usageUniq y1 hy1 y hy (h1n.trans hyn.symm)
  subst this
  cases hg : ((s0.run bs).exec (.step n o none)).1.store.getR (groupOf b.av) b.kind b.name with
  | none => rw [hg] at huser; cases huser
  | some g =>
    rw [hg] at huser
    have hgu : g.uid = U := by simpa using huser
    exact ⟨y1, hy1, h1n, h1u, h1b, g, rfl, hgu, ow, how, hou.trans hgu.symm⟩

/-- the Kubernetes GC does not collect a Usage one of whose owner references carries the uid of a
live object: the visit changes nothing -/
theorem gc_spares_usage_with_live_owner (s : Store) (nm : String) (x : Usage) (hg : s.getU nm = some x)
    (ow : OwnerRef) (how : ow ∈ x.owners) (halive : s.alive ow.uid = true) : s.gcUsage nm = (s, .owned) := by
  have hne : x.owners ≠ [] := fun h => by rw [h] at how; cases how
  have hany : (x.owners.any fun o => s.alive o.uid) = true := List.any_eq_true.mpr ⟨ow, how, halive⟩
  unfold Store.gcUsage
  simp only [hg, hne, if_false, hany, if_true]

/-- **not_collected_while_user_exists.** Under the hypotheses of `owned_by_current_user`, a GC
step right after the reconcile finds the Usage owned and leaves the whole system unchanged: the
Usage is not collected while its user exists. -/
theorem not_collected_while_user_exists (maxc : Nat) (as bs : List Action) (o : Outcome)
    (hfresh : listFresh (as ++ bs)) (n : String) (V : Nat) (b : RSpec) (U : Nat) (req : Req) (reply : Option Resp)
    (hidle : ((Sys.init maxc).run as).thread? n = none)
    (hheld : Along (Held n V b U) ((Sys.init maxc).run as) (bs ++ [.step n o none]))
    (hpoll : ((((Sys.init maxc).run as).run bs).exec (.step n o none)).2 = .call req reply (some .poll)) :
    (((((Sys.init maxc).run as).run bs).exec (.step n o none)).1.exec (.gcU n)) =
      (((((Sys.init maxc).run as).run bs).exec (.step n o none)).1, .gc .owned) := by
  obtain ⟨y, hy, hyn, _, _, g, hg, _, ow, how, hou⟩ :=
    owned_by_current_user maxc as bs o hfresh n V b U req reply hidle hheld hpoll
  have hfa : listFresh as := fun a ha => hfresh a (List.mem_append_left _ ha)
  have hfb : listFresh bs := fun a ha => hfresh a (List.mem_append_right _ ha)
  have hinv : SysInv ((((Sys.init maxc).run as).run bs).exec (.step n o none)).1 :=
    ((((SysInv.init maxc).run as hfa).run bs hfb).exec _ rfl)
  generalize ((((Sys.init maxc).run as).run bs).exec (.step n o none)).1 = post at hy hg hinv ⊢
  have hgu : post.store.getU n = some y := by
    cases hx : post.store.getU n with
    | none => exact absurd hyn (getU_none hx y hy)
    | some x =>
      have hx' := getU_some hx
      rw [hinv.store.usageUniq x hx'.1 y hy (hx'.2.trans hyn.symm)]
  have halive : post.store.alive ow.uid = true := by
    unfold Store.alive
    have : post.store.res.any (fun r => r.uid == ow.uid) = true :=
      List.any_eq_true.mpr ⟨g, (getR_some hg).1, by simp [hou]⟩
    simp [this]
  simp only [Sys.exec, gc_spares_usage_with_live_owner post.store n y hgu ow how halive]

/-- **used_protected_while_user_exists** (end to end, MaxConcurrentReconciles = 1). Under the
hypotheses of `owned_by_current_user`, after the reconcile and a GC step the Usage is still stored
as the same object, and — if it is ready and its deletion was not requested — every delete
request for the used resource (any API version of the group, any propagation policy) is denied and
recorded, the resource stays and keeps the label. -/
theorem used_protected_while_user_exists (as bs : List Action) (o : Outcome) (hfresh : listFresh (as ++ bs))
    (n : String) (V : Nat) (b : RSpec) (U : Nat) (req : Req) (reply : Option Resp)
    (hidle : ((Sys.init 1).run as).thread? n = none)
    (hheld : Along (Held n V b U) ((Sys.init 1).run as) (bs ++ [.step n o none]))
    (hpoll : ((((Sys.init 1).run as).run bs).exec (.step n o none)).2 = .call req reply (some .poll)) :
    let s := ((Sys.init 1).run (as ++ bs ++ [.step n o none, .gcU n])).store
    (∃ u ∈ s.usages, u.name = n ∧ u.uid = V) ∧
    ∀ u ∈ s.usages, u.name = n → u.ready = true → u.deleting = false →
      ∀ reqAv p, groupOf reqAv = groupOf u.of.av →
        (s.deleteRes (groupOf reqAv) u.of.kind u.of.name p true true none).2 = .done true .denied ∧
        (∃ r ∈ (s.deleteRes (groupOf reqAv) u.of.kind u.of.name p true true none).1.res, u.names r = true) ∧
        ∀ r ∈ (s.deleteRes (groupOf reqAv) u.of.kind u.of.name p true true none).1.res, u.names r = true → r.inUse = true := by
  intro s
  have hrun : (Sys.init 1).run (as ++ bs ++ [.step n o none, .gcU n]) =
      (((((Sys.init 1).run as).run bs).exec (.step n o none)).1.exec (.gcU n)).1 := by
    rw [run_append, run_append]; rfl
  have hsame := not_collected_while_user_exists 1 as bs o hfresh n V b U req reply hidle hheld hpoll
  have hfr : listFresh (as ++ bs ++ [.step n o none, .gcU n]) := by
    intro a ha
    rcases List.mem_append.mp ha with h | h
    · exact hfresh a h
    · simp only [List.mem_cons, List.mem_nil_iff, or_false] at h
      rcases h with rfl | rfl <;> rfl
  constructor
  · obtain ⟨y, hy, hyn, hyu, _⟩ := owned_by_current_user 1 as bs o hfresh n V b U req reply hidle hheld hpoll
    refine ⟨y, ?_, hyn, hyu⟩
    show y ∈ ((Sys.init 1).run (as ++ bs ++ [.step n o none, .gcU n])).store.usages
    rw [hrun, hsame]; exact hy
  · intro u hu _ hr hd reqAv p hgrp
    have key := delete_refused_while_ready _ hfr u hu hr hd reqAv p true true hgrp
    exact ⟨(key.2 rfl rfl).1, key.1.1, key.1.2⟩

/-- a concrete replacement: Usage u0 of r0 by r1 becomes ready (owned by r1, uid 2); r1 is deleted
and re-created under the same name (uid 4) -/
def replaceSchedule : List Action := [
  .cr "ex.org" "Thing" "r0" [] false "",
  .cr "ex.org" "Other" "r1" [] false "",
  .cu "u0" ⟨"ex.org/v1", "Thing", "r0", none⟩ (some ⟨"ex.org/v1", "Other", "r1", none⟩) none false "",
  .start "u0", .step "u0" .ok none, .step "u0" .ok none, .step "u0" .ok none, .step "u0" .ok none,
  .step "u0" .ok none, .step "u0" .ok none, .step "u0" .ok none, .step "u0" .ok none,
  .dr "ex.org" "Other" "r1" "" true true none,
  .cr "ex.org" "Other" "r1" [] false ""]

/-- the next poll of u0 up to (not including) its last API call -/
def pollSchedule : List Action := [
  .start "u0", .step "u0" .ok none, .step "u0" .ok none, .step "u0" .ok none, .step "u0" .ok none,
  .step "u0" .ok none]

/-- the hypotheses of `owned_by_current_user` are satisfiable: no reconcile in flight, the Usage
(uid 3) and the new r1 (uid 4) exist throughout the poll, the poll returns "poll" -/
example : ((Sys.init 1).run replaceSchedule).thread? "u0" = none := by decide

example : Along (Held "u0" 3 ⟨"ex.org/v1", "Other", "r1", none⟩ 4) ((Sys.init 1).run replaceSchedule)
    (pollSchedule ++ [.step "u0" .ok none]) := by decide

example : (match ((((Sys.init 1).run replaceSchedule).run pollSchedule).exec (.step "u0" .ok none)).2 with
    | .call _ _ (some .poll) => true
    | _ => false) = true := by decide

/-- before that poll the Usage's only owner reference is dangling (right name, uid of the deleted
r1): a GC visit at that moment collects the Usage although a resource named r1 exists — which is
why the reconcile must compare uids, not names -/
example : (((Sys.init 1).run replaceSchedule).store.gcUsage "u0").2 = .deletedUsage := by decide

/-- after the poll the GC finds it owned -/
example : (((((Sys.init 1).run replaceSchedule).run pollSchedule).exec (.step "u0" .ok none)).1.store.gcUsage "u0").2 =
    .owned := by decide

/-! ### the marker clauses fail for two overlapping reconciles (defect D16) -/

def raceThing : RSpec := ⟨"ex.org/v1", "Thing", "r0", none⟩

/-- u0 ready on r0; u0 deleted; its reconcile gets as far as having listed the Usages of r0
(only u0); u1 is created for r0 and fully reconciled (its label Update is a no-op, the
resourceVersion of r0 does not move) and reports ready; u0's reconcile then removes the label. -/
def raceSchedule : List Action := [
  .cr "ex.org" "Thing" "r0" [] false "",
  .cu "u0" raceThing none (some "a") false "",
  .start "u0", .step "u0" .ok none, .step "u0" .ok none, .step "u0" .ok none, .step "u0" .ok none,
  .step "u0" .ok none, .step "u0" .ok none,
  .du "u0",
  .start "u0", .step "u0" .ok none, .step "u0" .ok none, .step "u0" .ok none,
  .cu "u1" raceThing none (some "b") false "",
  .start "u1", .step "u1" .ok none, .step "u1" .ok none, .step "u1" .ok none, .step "u1" .ok none,
  .step "u1" .ok none, .step "u1" .ok none,
  .step "u0" .ok none, .step "u0" .ok none]

def unmarked (s : Store) : Bool :=
  s.usages.any fun u => u.ready && !u.deleting && s.res.any fun r => u.names r && !r.inUse

/-- with MaxConcurrentReconciles = 2 the unchanged reconciler reaches a state in which a ready,
not deleted Usage's used resource has lost the label, and the delete of that resource is allowed
without the webhook being consulted -/
theorem marker_fails_with_two_workers :
    listFresh raceSchedule ∧
    unmarked ((Sys.init 2).run raceSchedule).store = true ∧
    (((Sys.init 2).run raceSchedule).store.deleteRes "ex.org" "Thing" "r0" "" true true none).2 =
      .done false .allowed := by
  refine ⟨?_, by decide, by decide⟩
  intro a ha
  simp only [raceSchedule, List.mem_cons, List.mem_nil_iff, or_false] at ha
  rcases ha with rfl | rfl | rfl | rfl | rfl | rfl | rfl | rfl | rfl | rfl | rfl | rfl | rfl | rfl | rfl | rfl |
    rfl | rfl | rfl | rfl | rfl | rfl | rfl | rfl <;> rfl

/-- the same schedule with one worker never gets there (the second `start` is refused) -/
example : unmarked ((Sys.init 1).run raceSchedule).store = false := by decide

/-! ### the hypotheses are satisfiable by non-trivial states -/

/-- a reachable state with a ready, labelled, protected Usage by selector with a using resource -/
def demoSchedule : List Action := [
  .cr "ex.org" "Thing" "r0" [("app", "db")] false "",
  .cr "ex.org" "Other" "r1" [] false "",
  .cu "u0" ⟨"ex.org/v1beta1", "Thing", "", some ⟨[("app", "db")], false⟩⟩ (some ⟨"ex.org/v1", "Other", "r1", none⟩) none false "",
  .start "u0", .step "u0" .ok none, .step "u0" .ok none, .step "u0" .conflict none,
  .start "u0", .step "u0" .ok none, .step "u0" .ok none, .step "u0" .ok none, .step "u0" .ok none,
  .step "u0" .ok none, .step "u0" .ok none, .step "u0" .ok none, .step "u0" .ok none,
  .step "u0" .ok none, .step "u0" .ok none]

example : ((Sys.init 1).run demoSchedule).store.usages.any (fun u => u.ready && !u.deleting && u.owners != []) = true := by
  decide

example : (((Sys.init 1).run demoSchedule).store.deleteRes "ex.org" "Thing" "r0" "Foreground" true true none).2 =
    .done true .denied := by decide

/-! ## hardening round: error classes, informer cache, other writers, identity -/

/-! ### (d) error classes -/

/-- **error_class_irrelevant.** What the reconciler does with a failed call depends only on
`IsNotFound` / `IsConflict`: every other class (AlreadyExists, Invalid, and `.other` = Forbidden,
Timeout, ServiceUnavailable, a transport error, a context deadline) is handled like a generic error,
at every program counter. -/
theorem error_class_irrelevant (t : Thread) (seen : List Usage) (e : Err) (h1 : e ≠ .notFound) (h2 : e ≠ .conflict) :
    t.next seen (.err e) = t.next seen (.err .other) := next_err_class t seen e h1 h2

/-- **failed_call_ends_reconcile.** A failed call of ANY class ends the reconcile (nothing later in
the reconcile - in particular not the status update that reports Ready, nor the label removal - is
reached on the strength of a failed call), with one exception the code names: NotFound for the using
or the used resource of a Usage being deleted means "already gone". -/
theorem failed_call_ends_reconcile (t : Thread) (seen : List Usage) (e : Err) :
    (∃ r, t.next seen (.err e) = .done r) ∨ (e = .notFound ∧ (t.pc = .dGetUsing ∨ t.pc = .dGetUsed)) :=
  next_err_done t seen e

/-- a failed call never reports success -/
theorem failed_call_never_polls (t : Thread) (seen : List Usage) (e : Err) : t.next seen (.err e) ≠ .done .poll :=
  next_err_ne_poll t seen e

/-- **any_error_class.** A schedule in which injected failures carry arbitrary error classes (all
but NotFound, which a live read never returns for an object that exists) reaches exactly the
state the schedule with generic failures reaches - so every theorem stated over `listFresh`
schedules holds for it. -/
theorem any_error_class (sys : Sys) (as : List Action) (h : ∀ a ∈ as, Action.classOnly a = true) :
    sys.run as = sys.run (as.map Action.unclass) ∧ listFresh (as.map Action.unclass) := run_unclass sys as h

/-- `marker_while_ready` for every error class -/
theorem marker_while_ready_any_error_class (as : List Action) (h : ∀ a ∈ as, Action.classOnly a = true) :
    ∀ u ∈ ((Sys.init 1).run as).store.usages, u.ready = true → u.deleting = false →
      (∃ r ∈ ((Sys.init 1).run as).store.res, u.names r = true) ∧
      ∀ r ∈ ((Sys.init 1).run as).store.res, u.names r = true → r.inUse = true := by
  obtain ⟨h1, h2⟩ := run_unclass (Sys.init 1) as h
  rw [h1]
  exact marker_while_ready _ h2

/-- `owned_by_using` for every error class and every number of workers -/
theorem owned_by_using_any_error_class (maxc : Nat) (as : List Action) (h : ∀ a ∈ as, Action.classOnly a = true) :
    ∀ u ∈ ((Sys.init maxc).run as).store.usages, u.ready = true → ∀ b, u.by_ = some b →
      ∃ o ∈ u.owners, (o.uid, groupOf b.av, b.kind, b.name) ∈ ((Sys.init maxc).run as).store.born := by
  obtain ⟨h1, h2⟩ := run_unclass (Sys.init maxc) as h
  rw [h1]
  exact owned_by_using maxc _ h2

/-! ### (c) informer cache -/

/-- **lagging_usage_never_written.** A reconcile whose copy of the Usage is not the stored
version - the informer cache served an older one, or one of an object that is gone - changes no
Usage, whatever the outcome, the cache's answers and the error class of this call: every write of
the Usage carries the copy's resourceVersion. (What such a reconcile CAN still do is label or
unlabel the used resource; see below.) -/
theorem lagging_usage_never_written (s : Store) (t : Thread) (o : Outcome) (c : Call) (hn : t.u.name = t.uname)
    (h : ∀ x, s.getU t.uname = some x → x.rv ≠ t.u.rv) : (t.stepW o c s).store.usages = s.usages :=
  stepW_lagging s t o c hn h

/-- **removal_needs_served_count_below_two.** Whatever the world answers: the reconcile goes on to
the label-removing Update only when the List it was SERVED counted fewer than two Usages, and the
Update it then issues is for the resource version it read BEFORE that count (so a change of the
resource between the count and the removal is a Conflict, `removal_rv_checked`). -/
theorem removal_needs_served_count_below_two (t t' : Thread) (seen : List Usage) (used used' : Res) (n : Nat)
    (hpc : t.pc = .dList used) (h : t.next seen (.count n) = .cont t') (h' : t'.pc = .dUnlabel used') :
    n < 2 ∧ used' = used := by
  obtain ⟨uname, pc, u, orv, ord, sn⟩ := t
  simp only at hpc
  subst hpc
  simp only [Thread.next] at h
  split at h
  · next hn =>
    simp only [Thread.goto, After.cont.injEq] at h
    subst h
    simp only [Pc.dUnlabel.injEq] at h'
    exact ⟨hn, h'.symm⟩
  · simp only [Thread.afterUnlabel, Thread.goto] at h
    split at h
    · simp only [After.cont.injEq] at h
      subst h
      cases h'
    · cases h

/-- **delete_refused_served.** The webhook's verdict follows the List it is served (`cnt` = the
number of Usages the informer cache's index returns for the object's key): denied and recorded iff
that count is positive, allowed iff it is zero. `delete_refused` is the case of a fresh cache. -/
theorem delete_refused_served (s : Store) (g k n p : String) (r : Res) (cnt : Nat)
    (hg : s.getR g k n = some r) (hin : r.inUse = true) :
    ((s.deleteRes g k n p true true (some cnt)).2 = .done true .denied ↔ cnt > 0) ∧
    ((s.deleteRes g k n p true true (some cnt)).2 = .done true .allowed ↔ cnt = 0) := by
  have spec := deleteRes_spec s g k n p true true (some cnt)
  generalize (s.deleteRes g k n p true true (some cnt)).1 = s' at spec
  generalize (s.deleteRes g k n p true true (some cnt)).2 = res at spec ⊢
  cases spec with
  | notFound hg' => rw [hg] at hg'; cases hg'
  | unlabelled r0 hg' hin' => rw [hg] at hg'; cases hg'; rw [hin] at hin'; cases hin'
  | refused r0 v hg' _ hv hne =>
    rw [hg] at hg'; cases hg'
    have a := admitDelete_spec s r p true true (some cnt)
    have hok := admitDelete_ok s r p (some cnt)
    rw [hv] at a hok
    simp only [Option.getD_some] at a
    generalize (s.admitDelete r p true true (some cnt)).1 = s1 at a
    cases a with
    | listFailed => exact absurd rfl hok
    | patchFailed _ _ => exact absurd rfl hok
    | allowed _ => exact absurd rfl hne
    | deniedRecorded hn _ => exact ⟨⟨fun _ => hn, fun _ => rfl⟩, ⟨fun h => (by cases h), fun h => (by omega)⟩⟩
    | deniedPatched hn _ => exact ⟨⟨fun _ => hn, fun _ => rfl⟩, ⟨fun h => (by cases h), fun h => (by omega)⟩⟩
  | admitted r0 hg' _ hv =>
    rw [hg] at hg'; cases hg'
    have a := admitDelete_spec s r p true true (some cnt)
    rw [hv] at a
    simp only [Option.getD_some] at a
    generalize (s.admitDelete r p true true (some cnt)).1 = s1 at a
    cases a with
    | allowed hn => exact ⟨⟨fun h => (by cases h), fun h => (by omega)⟩, ⟨fun _ => hn, fun _ => rfl⟩⟩

/-- u0 (by reference) is ready on r0 and its user asks for its deletion; u1 selects r0 by labels,
is created, resolved and reconciled to Ready (ONE worker, one reconcile after the other). The
reconcile of u0 then lists the Usages of r0 through an informer cache that has not yet delivered
u1's resolution: it is served a count of 1 (the index value of an unresolved Usage is empty),
removes the label and lets u0 go. -/
def lagSchedule : List Action := [
  .cr "ex.org" "Thing" "r0" [("app", "db")] false "",
  .cu "u0" raceThing none (some "a") false "",
  .start "u0", .step "u0" .ok none, .step "u0" .ok none, .step "u0" .ok none, .step "u0" .ok none,
  .step "u0" .ok none, .step "u0" .ok none,
  .du "u0",
  .cu "u1" ⟨"ex.org/v1", "Thing", "", some ⟨[("app", "db")], false⟩⟩ none (some "b") false "",
  .start "u1", .step "u1" .ok none, .step "u1" .ok none, .step "u1" .ok none, .step "u1" .ok none,
  .step "u1" .ok none, .step "u1" .ok none, .step "u1" .ok none, .step "u1" .ok none,
  .start "u0", .step "u0" .ok none, .step "u0" .ok none,
  .stepW "u0" .ok { count := some 1 },
  .step "u0" .ok none, .step "u0" .ok none]

/-- **marker_fails_under_cache_lag** (finding). With ONE worker and no fault, a Usage List answered
by a lagging informer cache makes the unchanged reconciler remove the in-use label while a ready,
not deleted Usage names the resource; the delete of that resource is then allowed without the
webhook being consulted. The count served (1) is the index's count in an earlier state of the same
run - after u1 was created, before its selector was resolved -, which is also the newest state any
earlier cached read was answered from (u1's own reconcile read u1 unresolved). -/
theorem marker_fails_under_cache_lag :
    unmarked ((Sys.init 1).run lagSchedule).store = true ∧
    (((Sys.init 1).run lagSchedule).store.deleteRes "ex.org" "Thing" "r0" "" true true none).2 =
      .done false .allowed ∧
    ((Sys.init 1).run (lagSchedule.take 11)).store.countU (indexKey "ex.org" "Thing" "r0") = 1 := by
  refine ⟨by decide, by decide, by decide⟩

/-- with a fresh List the same schedule keeps the label -/
example : unmarked ((Sys.init 1).run (lagSchedule.map fun a =>
    match a with | .stepW n o _ => .step n o none | a => a)).store = false := by decide

/-- u1 selects r0 (which carries a left-over label) and is reconciled to Ready -/
def lagHookSchedule : List Action := [
  .cr "ex.org" "Thing" "r0" [("app", "db")] true "",
  .cu "u1" ⟨"ex.org/v1", "Thing", "", some ⟨[("app", "db")], false⟩⟩ none (some "b") false "",
  .start "u1", .step "u1" .ok none, .step "u1" .ok none, .step "u1" .ok none, .step "u1" .ok none,
  .step "u1" .ok none, .step "u1" .ok none, .step "u1" .ok none, .step "u1" .ok none]

/-- **delete_allowed_under_cache_lag** (finding). A ready, not deleted Usage names r0, r0 carries
the label, the webhook is consulted - and allows the delete, because its List is answered by an
informer cache that has not yet delivered the resolution of the Usage's selector (count 0, the
index's count in the state after the Usage was created). -/
theorem delete_allowed_under_cache_lag :
    ((Sys.init 1).run lagHookSchedule).store.usages.any (fun u => u.ready && !u.deleting &&
      ((Sys.init 1).run lagHookSchedule).store.res.any fun r => u.names r && r.inUse) = true ∧
    (((Sys.init 1).run lagHookSchedule).store.deleteRes "ex.org" "Thing" "r0" "" true true (some 0)).2 =
      .done true .allowed ∧
    ((Sys.init 1).run (lagHookSchedule.take 2)).store.countU (indexKey "ex.org" "Thing" "r0") = 0 ∧
    (((Sys.init 1).run lagHookSchedule).store.deleteRes "ex.org" "Thing" "r0" "" true true none).2 =
      .done true .denied := by
  refine ⟨by decide, by decide, by decide, by decide⟩

/-! ### (b) other writers -/

/-- **label_edit_keeps_marker.** Another writer's label edit never removes (or adds) the in-use
label: every resource afterwards is a resource from before or has the key and the in-use label of
one. (`.er` is part of every `listFresh` schedule: `marker_while_ready`, `removed_only_with_last`,
`delete_refused_while_ready`, ... hold with such edits - and the real Conflicts they cause -
anywhere between a reconcile's read and its write.) -/
theorem label_edit_keeps_marker (s : Store) (g k n : String) (l : Labels) :
    ∀ r' ∈ (s.touchRes g k n l).1.res,
      r' ∈ s.res ∨ ∃ x ∈ s.res, x.group = r'.group ∧ x.kind = r'.kind ∧ x.name = r'.name ∧ x.inUse = r'.inUse :=
  touchRes_res_from s g k n l

/-! ### (e) identity: the version of a composed Usage -/

/-- The composer's `RespectOwnerRefs` option, run on current objects of several apiVersions/kinds
(table regenerated from the tree): it keeps the owner references of a v1beta1 Usage, and of nothing
that is not a Usage of the apiextensions group. (Whether it recognises the OTHER served version of
the Usage kind is what `c19ComposerRespects` records; the driver follows the table.) -/
theorem composer_respects_table :
    Xp.Gen.c19ComposerRespects.all (fun (av, k, b) =>
      (!(av == "apiextensions.crossplane.io/v1beta1" && k == "Usage") || b) &&
      (!b || (groupOf av == "apiextensions.crossplane.io" && k == "Usage"))) = true := by decide

/-- a composed Usage u0 of r0 by r1 under XR x0, reconciled to Ready: owned by x0 and by r1 -/
def composedSchedule : List Action := [
  .cr "ex.org" "XR" "x0" [] false "",
  .cr "ex.org" "Thing" "r0" [] false "",
  .cr "ex.org" "Other" "r1" [] false "",
  .cu "u0" raceThing (some ⟨"ex.org/v1", "Other", "r1", none⟩) none true "x0",
  .start "u0", .step "u0" .ok none, .step "u0" .ok none, .step "u0" .ok none, .step "u0" .ok none,
  .step "u0" .ok none, .step "u0" .ok none, .step "u0" .ok none, .step "u0" .ok none]

def notOwnedByUser (s : Store) : Bool :=
  s.usages.any fun u => u.ready && match u.by_ with
    | some b => !(u.owners.any fun o => s.born.contains (o.uid, groupOf b.av, b.kind, b.name))
    | none => false

/-- **composer_drops_owner_refs_of_other_version** (the model variant `.xaRaw` of the composer
re-applying a Usage through a version `RespectOwnerRefs` does not recognise): the ready Usage loses
the owner reference to its using resource; re-applied through the recognised version it keeps it
(`composer_keeps_owner_refs`). -/
theorem composer_drops_owner_refs_of_other_version :
    notOwnedByUser ((Sys.init 1).run composedSchedule).store = false ∧
    notOwnedByUser ((Sys.init 1).run (composedSchedule ++ [.xa "u0" "x0"])).store = false ∧
    notOwnedByUser ((Sys.init 1).run (composedSchedule ++ [.xaRaw "u0" "x0"])).store = true := by
  refine ⟨by decide, by decide, by decide⟩

end Xp.C19

import Xp.Proofs.C18Sound
import Xp.Proofs.C18Rec
import Xp.Proofs.C18Interf
import Xp.Proofs.C18Ext
import Xp.Gen.C18Skel
/-
C18 property theorems: the RBAC manager grants nothing beyond what is allowed.
Helper lemmas live in Xp/Proofs/C18*.lean.
-/
namespace Xp.C18
open Xp.Gen

/-! ### requests are granted only if covered by the allow list

Full statement (FALSE on the unchanged tree, see the witnesses below):

    theorem tree_sound (A : List PolicyRule) (s : Sub) : granted A s = true → covers A s = true
-/

/-- **tree ⊑ Kubernetes covers.** For every allow list and every granular request: if the
rule tree grants it, Kubernetes' `ruleCovers` finds an allow-list rule covering it.
Excluded: an allow list with the literal resource name `*` (D8) or the empty non-resource
URL, a request for the empty non-resource URL (each refuted below); allow-list URL rules
carry no resource names (what the API server's ValidatePolicyRule enforces). -/
theorem tree_sound_partial (A : List PolicyRule) (s : Sub)
    (hStar : NoLiteralStar A) (hEmpty : NoEmptyURL A) (hValid : URLRulesNameless A) (hDom : s.InDomain) :
    granted A s = true → covers A s = true :=
  tree_sound_core A s hStar hEmpty hValid hDom

/-- **tree ⊑ authorizer.** Whatever request attributes the granted sub-rule would allow,
some allow-list rule already allows (RuleAllows). No well-formedness of the allow list is
needed beyond the two excluded shapes. -/
theorem tree_sound_semantic_partial (A : List PolicyRule) (s : Sub)
    (hStar : NoLiteralStar A) (hEmpty : NoEmptyURL A) (hDom : s.InDomain)
    (hg : granted A s = true) (a : Attr) :
    ruleAllows s.asRule a = true → ∃ o ∈ A, ruleAllows o a = true :=
  tree_sound_semantic_core A s hStar hEmpty hDom hg a

/-- **What the tree decides, exactly**: a granular request is granted iff one single
allow-list rule lists each of its components literally or as `*` (an empty name list
counting as `*`). This is the behaviour as it is, D8 included; the only exclusion is the
empty non-resource URL. -/
theorem tree_decision_exact (A : List PolicyRule) (s : Sub) (hEmpty : NoEmptyURL A) (hDom : s.InDomain) :
    granted A s = A.any (ruleGrants · s) :=
  granted_eq A s hEmpty hDom

/-- The validator as a whole: when it rejects nothing, every granular sub-rule
(Kubernetes' BreakdownRule) of every request is covered by the allow list, i.e.
Kubernetes' `Covers(allow, requests)` holds. -/
theorem nothing_rejected_means_covered_partial (A reqs : List PolicyRule)
    (hStar : NoLiteralStar A) (hEmpty : NoEmptyURL A) (hValid : URLRulesNameless A)
    (h : validate A reqs = []) :
    ∀ q ∈ reqs, ∀ s ∈ breakdown q, s.InDomain → covers A s = true :=
  fun q hq s hs hd =>
    tree_sound_core A s hStar hEmpty hValid hd (granted_of_validate_nil A reqs h q hq s hs)

/-- D8: the literal resource name `*` in the allow list (in Kubernetes: the object named
`*`) is treated as "all names"; a request for all names is granted although no allow-list
rule covers it, and the authorizer would refuse the allow list's holder that access. -/
theorem tree_sound_fails_on_unfixed_witness :
    let A : List PolicyRule := [⟨["get"], ["g"], ["r"], ["*"], []⟩]
    let s : Sub := .res "g" "r" none "get"
    granted A s = true ∧ covers A s = false ∧
      ruleAllows s.asRule (.res "get" "g" "r" "" "some-object") = true ∧
      A.all (fun o => !ruleAllows o (.res "get" "g" "r" "" "some-object")) = true := by decide

/-- second excluded shape, allow side: an allow-list rule for the empty non-resource URL
becomes the *resource* path `resource/""/""/""/verb` (Rule.path tests `NonResourceURL != ""`). -/
theorem tree_sound_fails_on_empty_allow_url_witness :
    let A : List PolicyRule := [⟨["get"], [], [], [], [""]⟩]
    let s : Sub := .res "" "" (some "") "get"
    granted A s = true ∧ covers A s = false := by decide

/-- second excluded shape, request side: a request for the empty non-resource URL is
looked up as a resource rule and granted by a resource wildcard. -/
theorem tree_sound_fails_on_empty_request_url_witness :
    let A : List PolicyRule := [⟨["*"], ["*"], ["*"], [], []⟩]
    let s : Sub := .url "" "get"
    granted A s = true ∧ covers A s = false := by decide

/-- why `URLRulesNameless` is assumed for `covers`: Kubernetes' ruleCovers refuses a URL
sub-rule against an owner rule that also lists resource names (a rule the API server does
not store); the authorizer-level statement needs no such assumption. -/
theorem covers_needs_valid_url_rules_witness :
    let A : List PolicyRule := [⟨["get"], [], [], ["n"], ["/x"]⟩]
    let s : Sub := .url "/x" "get"
    granted A s = true ∧ covers A s = false ∧ ruleAllows (A.head!) (.nonres "get" "/x") = true := by decide

/-- **A done context grants nothing.** Called with a context that is already done (deadline
exceeded, cancelled), the validator – with or without an allow-list – answers "nothing is
rejected" only when nothing at all was requested; otherwise it fails (and the reconciler
writes no role). Without a done context it is `validate` / `expand`. -/
theorem ctx_done_grants_nothing (allow requests : List PolicyRule) :
    (validateCtx true allow requests = some [] → expand requests = []) ∧
    (expandCtx true requests = some [] → expand requests = []) ∧
    validateCtx false allow requests = some (validate allow requests) ∧
    expandCtx false requests = some (expand requests) := by
  have hx : ∀ rs, expandCtx true rs = some [] → expand rs = [] := by
    intro rs h
    unfold expandCtx at h
    split at h
    · cases h
    · exact Option.some.inj h
  have hs : ∀ rs l, expandCtx true rs = some l → expand rs = [] := by
    intro rs l h
    unfold expandCtx at h
    split at h
    · cases h
    · rename_i hc
      simpa using hc
  refine ⟨?_, hx requests, by simp [validateCtx, expandCtx], by simp [expandCtx]⟩
  intro h
  unfold validateCtx at h
  split at h
  · rename_i hq
    exact hs requests _ hq
  · cases h

/-! non-vacuity: the hypotheses are met by an ordinary allow list, and both verdicts occur -/
example : let A : List PolicyRule := [⟨["get", "list"], ["g"], ["*"], [], []⟩, ⟨["get"], [], [], [], ["/metrics"]⟩]
    granted A (.res "g" "widgets" (some "x") "get") = true ∧ granted A (.res "g" "widgets" none "delete") = false ∧
    granted A (.url "/metrics" "get") = true ∧ granted A (.url "/healthz" "get") = false := by decide
example : NoLiteralStar [⟨["get"], ["g"], ["*"], ["a"], []⟩] := by
  intro o ho; simp at ho; subst ho; decide

/-! ### a rejected request means no role at all -/

/-- **Early return.** If the configured validator does not return an empty rejected list
for the revision's requests — some granular request is not allowed by the tree, or the
allow-list role cannot be read — then under EVERY fault plan the reconcile applies no
write, and the store is the same at every instant and at the end. -/
theorem reject_means_no_role (cfg : Cfg) (plan : Plan) (s : Store) (name : String)
    (h : ∀ p, s.prs.find? (·.name = name) = some p → rejectedIn cfg s p ≠ some []) :
    (∀ r ∈ applied sem plan 0 (reconcile cfg name) s, r.isWrite = false) ∧
    (∀ s' ∈ reach sem plan 0 (reconcile cfg name) s, s' = s) ∧
    (run sem plan 0 (reconcile cfg name) s).1 = s := by
  have hw : ∀ r ∈ applied sem plan 0 (reconcile cfg name) s, r.isWrite = false := by
    intro r hr
    have hq := applied_of_appliesOnly sem _ plan 0 _ s (reconcile_appliesOnly cfg name s) r hr
    cases r <;> first
      | rfl
      | (obtain ⟨p, hf, _, _, hrej, _⟩ := hq; exact absurd hrej (h p hf))
      | exact absurd hq id
  have hreach := reach_eq_of_applied_inert sem plan 0 (reconcile cfg name) s
    (fun r hr t => exec_read t r (hw r hr))
  exact ⟨hw, hreach, hreach _ (run_mem_reach sem plan 0 _ s)⟩

/-- ... and therefore no history of retries ever creates or updates a role while a request
stays rejected. -/
theorem reject_means_no_role_ever (cfg : Cfg) (plans : List Plan) (s : Store) (name : String)
    (h : ∀ p, s.prs.find? (·.name = name) = some p → rejectedIn cfg s p ≠ some []) :
    runPlans cfg name plans s = s := by
  induction plans with
  | nil => rfl
  | cons pl rest ih =>
    simp only [runPlans]
    rw [(reject_means_no_role cfg pl s name h).2.2]
    exact ih

/-- Every write the provider-revision reconciler applies, under every fault plan, creates or
updates a role rendered for the live (not paused, not deleted) revision of that name from
the resources of the store it read, and only when every request was granted; it never
writes a binding. -/
theorem writes_only_rendered (cfg : Cfg) (plan : Plan) (s : Store) (name : String) :
    ∀ r ∈ applied sem plan 0 (reconcile cfg name) s, RoleWrites (Grantable cfg s name) r :=
  applied_of_appliesOnly sem _ plan 0 _ s (reconcile_appliesOnly cfg name s)

/-- **Role contents.** Every rule of every role the reconciler writes (edit, view, system) is
one of: a rule over resources (and their `/status`) of ONE group, all defined by the CRDs in
`resourcesFor` (verbs from the edit/view/system tables); the `*/finalizers` update rule over
groups in which such a resource is defined; a rule of the baseline table; or one of the
revision's permission requests verbatim — and then every request was granted. -/
theorem system_role_contents (cfg : Cfg) (plan : Plan) (s : Store) (name : String) (x : Role)
    (hw : Req.createRole x ∈ applied sem plan 0 (reconcile cfg name) s ∨
          ∃ rv, Req.updateRole x rv ∈ applied sem plan 0 (reconcile cfg name) s) :
    ∃ p, s.prs.find? (·.name = name) = some p ∧ rejectedIn cfg s p = some [] ∧
      x.ctrl = some p.uid ∧
      ∀ ρ ∈ x.rules,
        IsResourceRule (resourcesFor s p) provVerbsEdit ρ ∨ IsResourceRule (resourcesFor s p) provVerbsView ρ ∨
        IsResourceRule (resourcesFor s p) provVerbsSystem ρ ∨ IsFinalizersRule (resourcesFor s p) ρ ∨
        ρ ∈ rulesSystemExtra ∨ ρ ∈ p.requests := by
  have hg : Grantable cfg s name x := by
    rcases hw with hw | ⟨rv, hw⟩
    · exact writes_only_rendered cfg plan s name _ hw
    · exact writes_only_rendered cfg plan s name _ hw
  obtain ⟨p, hf, _, _, hrej, hx⟩ := hg
  refine ⟨p, hf, hrej, ?_, fun ρ hρ => renderRoles_rules p _ x hx ρ hρ⟩
  unfold renderRoles at hx
  split at hx
  · simp at hx
  · simp only [List.mem_cons, List.not_mem_nil, or_false] at hx
    rcases hx with rfl | rfl | rfl <;> rfl

/-- the baseline table is the fixed one: secrets, config maps, events, leases of the core
and coordination groups, no URLs (stated over the table regenerated from roles.go) -/
theorem baseline_is_fixed :
    ∀ ρ ∈ rulesSystemExtra,
      (∀ g ∈ ρ.apiGroups, g ∈ ["", "coordination.k8s.io"]) ∧
      (∀ r ∈ ρ.resources, r ∈ ["secrets", "configmaps", "events", "leases"]) ∧
      ρ.nonResourceURLs = [] := by decide

/-- the verb tables grant what their names say -/
theorem verb_tables :
    (∀ v ∈ provVerbsView ++ xrdVerbsView ++ xrdVerbsBrowse, v ∈ ["get", "list", "watch"]) ∧
    (∀ v ∈ provVerbsSystem, v ∈ ["get", "list", "watch", "update", "patch", "create"]) ∧
    provVerbsUpdate = ["update"] ∧ xrdVerbsUpdate = ["update"] ∧
    provVerbsEdit = ["*"] ∧ xrdVerbsEdit = ["*"] := by decide

/-- **Family members need the same registry and org.** A resource handed to the renderer is
defined by a CRD the revision itself references, or by a CRD referenced by ANOTHER revision
carrying the same (non-empty) family label whose package parses to the same registry and
organisation as the revision's own (both parsable). -/
theorem family_needs_same_org (s : Store) (p : PR) (x : Resource) (hx : x ∈ resourcesFor s p) :
    x ∈ definedResources p.refs ∨
    (p.family ≠ "" ∧ ∃ m ∈ s.prs, m.family = p.family ∧ m.uid ≠ p.uid ∧
      (∃ o, p.org = some o ∧ m.org = some o) ∧ x ∈ definedResources m.refs) :=
  resourcesFor_origin s p x hx

/-- **Requests are granted only if covered** (end to end): whenever the reconciler applies
any role write, every granular sub-rule of every permission request of the revision is
covered by the allow-list role it read (and without an allow-list role there is no
granular request at all). Same exclusions as `tree_sound_partial`. -/
theorem granted_requests_are_covered_partial (cfg : Cfg) (plan : Plan) (s : Store) (name : String)
    (r : Req) (hr : r ∈ applied sem plan 0 (reconcile cfg name) s) (hwr : r.isWrite = true) :
    ∃ p, s.prs.find? (·.name = name) = some p ∧
      match cfg.allowRole with
      | none => ∀ q ∈ p.requests, breakdown q = []
      | some a => ∃ ar, s.roles.find? (·.name = a) = some ar ∧
          (NoLiteralStar ar.rules → NoEmptyURL ar.rules → URLRulesNameless ar.rules →
            ∀ q ∈ p.requests, ∀ sub ∈ breakdown q, sub.InDomain → covers ar.rules sub = true) := by
  have hq := writes_only_rendered cfg plan s name r hr
  have hg : ∃ x, Grantable cfg s name x := by
    cases r <;> first
      | exact ⟨_, hq⟩
      | exact absurd hq id
      | simp [Req.isWrite] at hwr
  obtain ⟨_, p, hf, _, _, hrej, _⟩ := hg
  refine ⟨p, hf, ?_⟩
  unfold rejectedIn at hrej
  cases ha : cfg.allowRole with
  | none =>
    simp only [ha, Option.some.injEq] at hrej
    intro q hq
    cases hb : breakdown q with
    | nil => rfl
    | cons sub _ =>
      have hm : sub.toRule ∈ expand p.requests :=
        (mem_expand _ _).2 ⟨q, hq, toRule_mem_expandOne q sub (by rw [hb]; exact List.mem_cons_self ..)⟩
      rw [hrej] at hm
      cases hm
  | some a =>
    simp only [ha] at hrej
    cases hfr : s.roles.find? (·.name = a) with
    | none => simp [hfr] at hrej
    | some ar =>
      simp only [hfr, Option.map_some, Option.some.injEq] at hrej
      exact ⟨ar, hfr, fun h1 h2 h4 => nothing_rejected_means_covered_partial ar.rules p.requests h1 h2 h4 hrej⟩

/-- **If any request is not covered, no role at all is created or updated** (the property's
sentence, end to end): with an allow-list role `ar` in the store, one granular sub-rule of
one permission request that Kubernetes' ruleCovers does not find covered by `ar` is enough
for the reconcile to apply no write, under every fault plan. Same exclusions as
`tree_sound_partial`. -/
theorem uncovered_request_means_no_role_partial (a : String) (plan : Plan) (s : Store) (name : String)
    (p : PR) (ar : Role) (hp : s.prs.find? (·.name = name) = some p)
    (har : s.roles.find? (·.name = a) = some ar)
    (hStar : NoLiteralStar ar.rules) (hEmpty : NoEmptyURL ar.rules) (hValid : URLRulesNameless ar.rules)
    (q : PolicyRule) (hq : q ∈ p.requests) (sub : Sub) (hsub : sub ∈ breakdown q) (hDom : sub.InDomain)
    (hnc : covers ar.rules sub = false) :
    (∀ r ∈ applied sem plan 0 (reconcile ⟨some a⟩ name) s, r.isWrite = false) ∧
    (run sem plan 0 (reconcile ⟨some a⟩ name) s).1 = s := by
  have h : ∀ p', s.prs.find? (·.name = name) = some p' → rejectedIn ⟨some a⟩ s p' ≠ some [] := by
    intro p' hp'
    have : p' = p := by rw [hp] at hp'; exact (Option.some.inj hp').symm
    subst this
    simp only [rejectedIn, har, Option.map_some, ne_eq, Option.some.injEq]
    intro hnil
    have := nothing_rejected_means_covered_partial ar.rules p'.requests hStar hEmpty hValid hnil q hq sub hsub hDom
    rw [hnc] at this
    exact absurd this (by decide)
  have := reject_means_no_role ⟨some a⟩ plan s name h
  exact ⟨this.1, this.2.2⟩

/-! ### XRD roles -/

/-- **XRD roles grant exactly the composite and claim resources.** Every rule of every role
derived for an XRD is over the XRD's group only and names only its composite plural or its
claim plural (with `/status`, or `/finalizers` with verb update); no names, no URLs. -/
theorem xrd_roles_exact (d : XRD) (x : Role) (hx : x ∈ renderXRDRoles d) (ρ : PolicyRule)
    (hρ : ρ ∈ x.rules) : IsXRDRule d ρ := by
  unfold renderXRDRoles at hx
  simp only [List.mem_cons, List.not_mem_nil, or_false] at hx
  cases hc : d.claim with
  | none =>
    rcases hx with rfl | rfl | rfl | rfl <;>
      simp only [hc, List.append_nil, List.mem_cons, List.not_mem_nil, or_false] at hρ
    · rcases hρ with rfl | rfl
      · exact ⟨rfl, rfl, rfl, d.plural, Or.inl rfl, Or.inl ⟨rfl, Or.inl rfl⟩⟩
      · exact ⟨rfl, rfl, rfl, d.plural, Or.inl rfl, Or.inr ⟨rfl, rfl⟩⟩
    · subst hρ; exact ⟨rfl, rfl, rfl, d.plural, Or.inl rfl, Or.inl ⟨rfl, Or.inl rfl⟩⟩
    · subst hρ; exact ⟨rfl, rfl, rfl, d.plural, Or.inl rfl, Or.inl ⟨rfl, Or.inr (Or.inl rfl)⟩⟩
    · subst hρ; exact ⟨rfl, rfl, rfl, d.plural, Or.inl rfl, Or.inl ⟨rfl, Or.inr (Or.inr rfl)⟩⟩
  | some c =>
    rcases hx with rfl | rfl | rfl | rfl <;>
      simp only [hc, List.cons_append, List.nil_append, List.mem_cons, List.not_mem_nil, or_false] at hρ
    · rcases hρ with rfl | rfl | rfl | rfl
      · exact ⟨rfl, rfl, rfl, d.plural, Or.inl rfl, Or.inl ⟨rfl, Or.inl rfl⟩⟩
      · exact ⟨rfl, rfl, rfl, d.plural, Or.inl rfl, Or.inr ⟨rfl, rfl⟩⟩
      · exact ⟨rfl, rfl, rfl, c, Or.inr hc, Or.inl ⟨rfl, Or.inl rfl⟩⟩
      · exact ⟨rfl, rfl, rfl, c, Or.inr hc, Or.inr ⟨rfl, rfl⟩⟩
    · rcases hρ with rfl | rfl
      · exact ⟨rfl, rfl, rfl, d.plural, Or.inl rfl, Or.inl ⟨rfl, Or.inl rfl⟩⟩
      · exact ⟨rfl, rfl, rfl, c, Or.inr hc, Or.inl ⟨rfl, Or.inl rfl⟩⟩
    · rcases hρ with rfl | rfl
      · exact ⟨rfl, rfl, rfl, d.plural, Or.inl rfl, Or.inl ⟨rfl, Or.inr (Or.inl rfl)⟩⟩
      · exact ⟨rfl, rfl, rfl, c, Or.inr hc, Or.inl ⟨rfl, Or.inr (Or.inl rfl)⟩⟩
    · subst hρ; exact ⟨rfl, rfl, rfl, d.plural, Or.inl rfl, Or.inl ⟨rfl, Or.inr (Or.inr rfl)⟩⟩

/-- ... and they do grant them: each of the four roles carries the composite rule, the first
three the claim rule when there is a claim, finalizers only in the first (system) role, and
the browse role never names the claim. -/
theorem xrd_roles_cover_composite_and_claim (d : XRD) :
    (renderXRDRoles d).length = 4 ∧
    (∀ x ∈ renderXRDRoles d, ∃ ρ ∈ x.rules, ρ.resources = [d.plural, d.plural ++ xrd_suffixStatus]) ∧
    (∀ c, d.claim = some c → ∀ x ∈ (renderXRDRoles d).take 3,
        ∃ ρ ∈ x.rules, ρ.resources = [c, c ++ xrd_suffixStatus]) ∧
    (∀ x ∈ (renderXRDRoles d).drop 3, ∀ ρ ∈ x.rules,
        ρ.resources = [d.plural, d.plural ++ xrd_suffixStatus] ∧ ρ.verbs = xrdVerbsBrowse) ∧
    (∀ x ∈ (renderXRDRoles d).drop 1, ∀ ρ ∈ x.rules, ρ.verbs ≠ xrdVerbsUpdate) := by
  have hne : xrdVerbsEdit ≠ xrdVerbsUpdate ∧ xrdVerbsView ≠ xrdVerbsUpdate ∧ xrdVerbsBrowse ≠ xrdVerbsUpdate := by decide
  obtain ⟨h1, h2, h3⟩ := hne
  refine ⟨rfl, ?_, ?_, ?_, ?_⟩
  · intro x hx
    simp only [renderXRDRoles, List.mem_cons, List.not_mem_nil, or_false] at hx
    rcases hx with rfl | rfl | rfl | rfl <;> exact ⟨_, List.mem_cons_self .., rfl⟩
  · intro c hc x hx
    simp only [renderXRDRoles, hc, List.take, List.mem_cons, List.not_mem_nil, or_false] at hx
    rcases hx with rfl | rfl | rfl
    · exact ⟨⟨xrdVerbsEdit, [d.group], [c, c ++ xrd_suffixStatus], [], []⟩, by simp, rfl⟩
    · exact ⟨⟨xrdVerbsEdit, [d.group], [c, c ++ xrd_suffixStatus], [], []⟩, by simp, rfl⟩
    · exact ⟨⟨xrdVerbsView, [d.group], [c, c ++ xrd_suffixStatus], [], []⟩, by simp, rfl⟩
  · intro x hx ρ hρ
    simp only [renderXRDRoles, List.drop, List.mem_cons, List.not_mem_nil, or_false] at hx
    subst hx
    simp only [List.mem_cons, List.not_mem_nil, or_false] at hρ
    subst hρ
    exact ⟨rfl, rfl⟩
  · intro x hx ρ hρ
    simp only [renderXRDRoles, List.drop, List.mem_cons, List.not_mem_nil, or_false] at hx
    cases hc : d.claim <;> rcases hx with rfl | rfl | rfl <;>
      simp only [hc, List.append_nil, List.cons_append, List.nil_append, List.mem_cons, List.not_mem_nil, or_false] at hρ <;>
      (try rcases hρ with rfl | rfl) <;> (try subst hρ) <;> assumption

/-- every write the XRD reconciler applies, under every fault plan, is one of the roles
rendered for the live XRD of that name -/
theorem xrd_writes_only_rendered (plan : Plan) (s : Store) (name : String) :
    ∀ r ∈ applied sem plan 0 (reconcileXRD name) s, RoleWrites (GrantableXRD s name) r :=
  applied_of_appliesOnly sem _ plan 0 _ s (reconcileXRD_appliesOnly name s)

/-! ### the binding -/

/-- every write the binding reconciler applies, under every fault plan, is the one binding
named after the live revision's system role, referring to that very role, controlled by the
revision, whose subjects are computed from the deployments in the store; it never writes a role -/
theorem binding_exact (plan : Plan) (s : Store) (name : String) :
    ∀ r ∈ applied sem plan 0 (reconcileBinding name) s, BindingWrites (GrantableBinding s name) r :=
  applied_of_appliesOnly sem _ plan 0 _ s (reconcileBinding_appliesOnly name s)

/-- ... and each subject is the service account of a deployment that carries an owner
reference with the revision's UID -/
theorem binding_subjects_owned (uid : String) (ds : List Deployment) (sj : Subject)
    (h : sj ∈ subjectsFor uid ds) : ∃ d ∈ ds, uid ∈ d.owners ∧ sj = ⟨d.ns, d.sa⟩ := by
  simp only [subjectsFor, List.mem_flatMap, List.mem_map, List.mem_filter, decide_eq_true_eq] at h
  obtain ⟨d, hd, o, ⟨ho, rfl⟩, rfl⟩ := h
  exact ⟨d, hd, ho, rfl⟩

/-! ### non-vacuity: a store on which the reconciler does write, and one on which it is refused -/

example : ((applied sem Plan.allOk 0 (reconcile ⟨some "allow"⟩ "p") (exStore [⟨["get"], ["g"], ["r"], ["n"], []⟩])).filter Req.isWrite).length = 3 := by decide
example : ((applied sem Plan.allOk 0 (reconcile ⟨some "allow"⟩ "p") (exStore [⟨["get", "list"], ["g"], ["r"], [], []⟩])).filter Req.isWrite).length = 0 := by decide
example : rejectedIn ⟨some "allow"⟩ (exStore [⟨["get", "list"], ["g"], ["r"], [], []⟩]) (exPR [⟨["get", "list"], ["g"], ["r"], [], []⟩]) ≠ some [] := by decide

/-! ### every single requested rule is judged on its own -/

/-- **Every expanded request is looked up, and judged independently of the others.** The
rejected list is exactly the expanded requests the tree refuses, in request order: a rule is
rejected iff it is requested and refused; nothing is rejected iff every expanded request is
allowed; and the verdict on a list of requests is the concatenation of the verdicts on its
parts (no request is skipped, de-duplicated or influenced by another one). -/
theorem every_request_is_judged (A : List PolicyRule) :
    (∀ reqs r, r ∈ validate A reqs ↔ r ∈ expand reqs ∧ (tree A).allowed r.path = false) ∧
    (∀ reqs, validate A reqs = [] ↔ ∀ r ∈ expand reqs, (tree A).allowed r.path = true) ∧
    (∀ r1 r2, validate A (r1 ++ r2) = validate A r1 ++ validate A r2) ∧
    (∀ q reqs, validate A (q :: reqs) = validate A [q] ++ validate A reqs) := by
  refine ⟨?_, ?_, ?_, ?_⟩
  · intro reqs r
    simp [validate, List.mem_filter]
  · intro reqs
    simp [validate, List.filter_eq_nil_iff]
  · intro r1 r2
    simp [validate, expand, List.flatMap_append, List.filter_append]
  · intro q reqs
    simp [validate, expand, List.flatMap_cons, List.filter_append]

/-- **The verdict does not depend on the order (or multiplicity) of the allow-list rules or of the
requests**: allow lists with the same rules build trees that allow the same paths, and request
lists with the same requests have the same set of rejected rules – in particular the same
"nothing rejected" decision the reconciler acts on. (The seeded change C18-6 breaks exactly this:
swapping two requests changes its verdict.) -/
theorem verdict_is_order_independent (A A' reqs reqs' : List PolicyRule)
    (hA : ∀ o, o ∈ A ↔ o ∈ A') (hR : ∀ q, q ∈ reqs ↔ q ∈ reqs') :
    (∀ p, (tree A).allowed p = (tree A').allowed p) ∧
    (∀ r, r ∈ validate A reqs ↔ r ∈ validate A' reqs') ∧
    (validate A reqs = [] ↔ validate A' reqs' = []) := by
  have hexp : ∀ (X X' : List PolicyRule), (∀ o, o ∈ X ↔ o ∈ X') → ∀ r, r ∈ expand X ↔ r ∈ expand X' := by
    intro X X' h r
    simp only [mem_expand]
    exact ⟨fun ⟨o, ho, hr⟩ => ⟨o, (h o).1 ho, hr⟩, fun ⟨o, ho, hr⟩ => ⟨o, (h o).2 ho, hr⟩⟩
  have h1 : ∀ p, (tree A).allowed p = (tree A').allowed p := by
    intro p
    rw [tree_allowed, tree_allowed]
    exact any_congr_mem _ _ _ (hexp A A' hA)
  have h2 : ∀ r, r ∈ validate A reqs ↔ r ∈ validate A' reqs' := by
    intro r
    simp only [validate, List.mem_filter, h1, hexp reqs reqs' hR r]
  refine ⟨h1, h2, ?_⟩
  simp only [List.eq_nil_iff_forall_not_mem]
  exact ⟨fun h r hr => h r ((h2 r).2 hr), fun h r hr => h r ((h2 r).1 hr)⟩

example : (∀ q : PolicyRule, q ∈ [⟨["get"], ["g"], ["r"], [], []⟩, ⟨["list"], ["g"], ["r"], [], []⟩] ↔
      q ∈ [⟨["list"], ["g"], ["r"], [], []⟩, ⟨["get"], ["g"], ["r"], [], []⟩, ⟨["list"], ["g"], ["r"], [], []⟩]) := by
  intro q; simp only [List.mem_cons, List.not_mem_nil, or_false]
  constructor
  · rintro (h | h)
    · exact Or.inr (Or.inl h)
    · exact Or.inl h
  · rintro (h | h | h)
    · exact Or.inr h
    · exact Or.inl h
    · exact Or.inr h

/-- **The tree path identifies the granular rule**: two rules Expand produces (from whatever
PolicyRules) with the same path are the same rule – the path, as a LIST of components, is a faithful
key; no two different requested rules share a tree lookup. (A key that joins the components into one
string is not: seeded C18-6.) -/
theorem path_identifies_rule (X Y : List PolicyRule) (r1 r2 : Rule)
    (h1 : r1 ∈ expand X) (h2 : r2 ∈ expand Y) (hp : r1.path = r2.path) : r1 = r2 :=
  path_injective r1 r2 (expand_normal X r1 h1) (expand_normal Y r2 h2) hp

example : (⟨"", "pods", "exec/*", "", "create"⟩ : Rule).path ≠ (⟨"", "pods/exec", "*", "", "create"⟩ : Rule).path ∧
    "/".intercalate (⟨"", "pods", "exec/*", "", "create"⟩ : Rule).path = "/".intercalate (⟨"", "pods/exec", "*", "", "create"⟩ : Rule).path := by
  decide

/-- the two requests of the seeded change C18-6 (`pods` named `exec/*`, and `pods/exec`) are
different rules with different paths; with only the first one allowed the second is rejected,
in either order -/
example :
    let A : List PolicyRule := [⟨["create"], [""], ["pods"], ["exec/*"], []⟩]
    let q1 : PolicyRule := ⟨["create"], [""], ["pods"], ["exec/*"], []⟩
    let q2 : PolicyRule := ⟨["create"], [""], ["pods/exec"], [], []⟩
    validate A [q1, q2] = [⟨"", "pods/exec", "*", "", "create"⟩] ∧
    validate A [q2, q1] = [⟨"", "pods/exec", "*", "", "create"⟩] ∧ validate A [q1] = [] := by decide

/-! ### DefinedResources, OrgDiffer over `String` (schema.ParseGroupVersion, strings.Cut, strings.Split) -/

/-- **DefinedResources, exactly.** A resource (group, plural) is handed on iff some reference has
kind CustomResourceDefinition, an apiVersion that is literally `apiextensions.k8s.io/<version>`
(one '/', nothing else: neither a longer group nor a second '/'), and the name
`<plural>.<group>` where `<plural>` is everything before the FIRST '.'. -/
theorem defined_resources_exact (refs : List Ref) (x : Resource) :
    x ∈ definedResources refs ↔
      ∃ ref ∈ refs, ref.kind = "CustomResourceDefinition" ∧
        (∃ v : String, ref.apiVersion = crdGroupName ++ "/" ++ v ∧ '/' ∉ v.toList) ∧
        ref.name = x.plural ++ "." ++ x.group ∧ '.' ∉ x.plural.toList := by
  have hne : crdGroupName ≠ "" := by decide
  have hns : '/' ∉ crdGroupName.toList := by decide
  simp only [definedResources, List.mem_filterMap]
  constructor
  · rintro ⟨ref, href, h⟩
    split at h
    · cases h
    · rename_i hc
      have hc' := not_or.1 hc
      obtain ⟨v, hv, _, hnv⟩ := (groupOfAPIVersion_eq _ _ hne).1 (Classical.not_not.1 hc'.1)
      cases hcd : cutDot ref.name with
      | none => simp [hcd] at h
      | some pg =>
        obtain ⟨p, g⟩ := pg
        simp only [hcd, Option.map_some, Option.some.injEq] at h
        subst h
        obtain ⟨hn, hp⟩ := (cutDot_eq _ _ _).1 hcd
        exact ⟨ref, href, Classical.not_not.1 hc'.2, ⟨v, hv, hnv⟩, hn, hp⟩
  · rintro ⟨ref, href, hk, ⟨v, hv, hnv⟩, hn, hp⟩
    refine ⟨ref, href, ?_⟩
    have hg : groupOfAPIVersion ref.apiVersion = crdGroupName :=
      (groupOfAPIVersion_eq _ _ hne).2 ⟨v, hv, hns, hnv⟩
    have hcd : cutDot ref.name = some (x.plural, x.group) := (cutDot_eq _ _ _).2 ⟨hn, hp⟩
    simp [hg, hk, hcd]

example : definedResources [⟨"apiextensions.k8s.io/v1", "CustomResourceDefinition", "widgets.acme.example.org"⟩,
    ⟨"apiextensions.k8s.io/v1/x", "CustomResourceDefinition", "a.b"⟩, ⟨"v1", "CustomResourceDefinition", "a.b"⟩,
    ⟨"apiextensions.k8s.io.evil/v1", "CustomResourceDefinition", "a.b"⟩, ⟨"apiextensions.k8s.io/v1", "CustomResourceDefinition", "nodot"⟩]
    = [⟨"acme.example.org", "widgets"⟩] := by decide

/-- **The organisation is the first element of the repository path** (`strings.Split(repo, "/")[0]`):
it contains no '/', and the repository is that element alone or that element, '/', and a rest;
a '/'-free repository is its own organisation and `org/rest` has organisation `org`. -/
theorem org_is_first_path_element (repo : String) :
    '/' ∉ (firstSeg repo).toList ∧
    (firstSeg repo = repo ∨ ∃ rest : String, repo = firstSeg repo ++ "/" ++ rest) ∧
    ('/' ∉ repo.toList → firstSeg repo = repo) ∧
    (∀ org rest : String, '/' ∉ org.toList → repo = org ++ "/" ++ rest → firstSeg repo = org) :=
  ⟨(firstSeg_spec repo).1, (firstSeg_spec repo).2, firstSeg_of_no_slash repo,
   fun org rest h e => e ▸ firstSeg_of_slash org rest h⟩

/-- **OrgDiffer.Differs, exactly**, over the parser's answers: two packages do NOT differ iff both
references parse, the registry strings are equal, and the first elements of the repository paths
are equal – and this is the `orgDiffers` on (registry, organisation) pairs the reconciler model
(`memberResources`) uses. -/
theorem org_differs_exact (a b : Option Parsed) :
    (orgDiffersParsed a b = false ↔
      ∃ x y, a = some x ∧ b = some y ∧ x.registry = y.registry ∧ firstSeg x.repo = firstSeg y.repo) ∧
    orgDiffersParsed a b = orgDiffers (a.map Parsed.orgKey) (b.map Parsed.orgKey) :=
  ⟨orgDiffersParsed_false a b, orgDiffersParsed_eq a b⟩

/-- **Family members need the same registry and first path element**, over the parsed references:
when the revisions' `org` fields are what the parser's answers give (`Parsed.orgKey`), a resource
handed to the renderer is the revision's own or comes from another member of the family whose
reference parsed to the same registry and to a repository with the same first path element. -/
theorem family_needs_same_org_parsed (s : Store) (p : PR) (parsed : PR → Option Parsed)
    (hparsed : ∀ q, q = p ∨ q ∈ s.prs → q.org = (parsed q).map Parsed.orgKey)
    (x : Resource) (hx : x ∈ resourcesFor s p) :
    x ∈ definedResources p.refs ∨
    (p.family ≠ "" ∧ ∃ m ∈ s.prs, m.family = p.family ∧ m.uid ≠ p.uid ∧
      (∃ a b, parsed p = some a ∧ parsed m = some b ∧ a.registry = b.registry ∧ firstSeg a.repo = firstSeg b.repo) ∧
      x ∈ definedResources m.refs) := by
  rcases resourcesFor_origin s p x hx with h | ⟨hf, m, hm, hfam, huid, ⟨o, hpo, hmo⟩, hxm⟩
  · exact Or.inl h
  · refine Or.inr ⟨hf, m, hm, hfam, huid, ?_, hxm⟩
    have h1 := hparsed p (Or.inl rfl)
    have h2 := hparsed m (Or.inr hm)
    have hd : orgDiffersParsed (parsed p) (parsed m) = false := by
      rw [orgDiffersParsed_eq, ← h1, ← h2, hpo, hmo]
      simp [orgDiffers]
    exact (orgDiffersParsed_false _ _).1 hd

/-- the hypothesis of `family_needs_same_org_parsed` is met by the example store: its revision's
`org` is what the parser's answer (registry r, repository o/x) gives -/
example : ∀ q, q = exPR [] ∨ q ∈ (exStore []).prs →
    q.org = ((fun _ : PR => some (⟨"r", "o/x"⟩ : Parsed)) q).map Parsed.orgKey := by
  intro q h
  have : q = exPR [] := by
    rcases h with h | h
    · exact h
    · simpa [exStore] using h
  subst this
  decide

example : orgDiffersParsed (some ⟨"xpkg.upbound.io", "acme/provider-a"⟩) (some ⟨"xpkg.upbound.io", "acme/nested/provider-d"⟩) = false ∧
    orgDiffersParsed (some ⟨"xpkg.upbound.io", "acme/provider-a"⟩) (some ⟨"xpkg.upbound.io", "acme-evil/provider-a"⟩) = true ∧
    orgDiffersParsed (some ⟨"xpkg.upbound.io", "acme/provider-a"⟩) (some ⟨"xpkg.upbound.io:443", "acme/provider-a"⟩) = true ∧
    orgDiffersParsed (some ⟨"ghcr.io", "provider-x"⟩) (some ⟨"ghcr.io", "provider-y"⟩) = true ∧
    orgDiffersParsed (some ⟨"ghcr.io", "provider-x"⟩) none = true := by decide

/-! ### RenderClusterRoles: the grants do not depend on the order sort.Slice leaves -/

/-- `renderRoles` is `renderRolesOrdered` on the sorted resources -/
theorem render_is_ordered (p : PR) (rs : List Resource) :
    renderRoles p rs = if rs.isEmpty then [] else renderRolesOrdered p (isort resourceLT rs) :=
  renderRoles_ordered p rs

/-- **Set semantics of the rendered rules.** Whatever order the sort leaves the resources in
(stable or not, any permutation – indeed any list with the same members), the three roles have
the same names, labels and controller, and the RBAC authorizer (RuleAllows over the role's rules)
gives the same answer for EVERY request attribute: no assumption on sort.Slice is needed for what
a provider is granted. In particular `renderRoles` grants exactly what rendering the unsorted
list grants. -/
theorem render_grants_order_independent (p : PR) (l1 l2 : List Resource) (h : ∀ x, x ∈ l1 ↔ x ∈ l2) :
    (renderRolesOrdered p l1).map (fun x => (x.name, x.labels, x.ctrl)) =
      (renderRolesOrdered p l2).map (fun x => (x.name, x.labels, x.ctrl)) ∧
    ∀ a : Attr, (renderRolesOrdered p l1).map (fun x => rulesAllow x.rules a) =
      (renderRolesOrdered p l2).map (fun x => rulesAllow x.rules a) := by
  refine ⟨rfl, fun a => ?_⟩
  simp only [renderRolesOrdered, List.map_cons, List.map_nil, groupRules_allow_congr l1 l2 h,
    systemRules_allow_congr p l1 l2 h]

theorem render_grants_sort_independent (p : PR) (rs : List Resource) (hne : rs.isEmpty = false) (a : Attr) :
    (renderRoles p rs).map (fun x => rulesAllow x.rules a) =
      (renderRolesOrdered p rs).map (fun x => rulesAllow x.rules a) := by
  rw [render_is_ordered, hne]
  exact (render_grants_order_independent p _ rs (fun x => mem_isort _ x rs)).2 a

def exRes : List Resource := [⟨"g", "b"⟩, ⟨"h", "a"⟩, ⟨"g", "a"⟩]
example : (∀ x, x ∈ exRes.reverse ↔ x ∈ exRes) ∧
    renderRolesOrdered (exPR []) exRes ≠ renderRolesOrdered (exPR []) exRes.reverse ∧
    (renderRolesOrdered (exPR []) exRes).map (fun x => rulesAllow x.rules (.res "get" "h" "a" "status" "n")) = [true, true, true] ∧
    (renderRolesOrdered (exPR []) exRes).map (fun x => rulesAllow x.rules (.res "delete" "h" "a" "" "n")) = [true, false, false] :=
  ⟨fun _ => List.mem_reverse, by decide, by decide, by decide⟩

/-! ### regenerated facts: the modelled Go functions still have the modelled call skeleton

`Xp.Gen.c18Skel*` are extracted from the CURRENT tree with go/ast on every run
(harness/main/c18_skel.go); the right-hand sides are declared, entry by entry with the model step
that mirrors each call, in Xp/Model/C18Skel.lean. -/

theorem skeleton_reconcile : Xp.Gen.c18SkelReconcile = skelReconcile := by decide
theorem skeleton_reconcile_xrd : Xp.Gen.c18SkelReconcileXRD = skelReconcileXRD := by decide
theorem skeleton_reconcile_binding : Xp.Gen.c18SkelReconcileBinding = skelReconcileBinding := by decide
theorem skeleton_new_reconciler : Xp.Gen.c18SkelNewReconciler = skelNewReconciler := by decide
theorem skeleton_apply : Xp.Gen.c18SkelApply = skelApply := by decide
theorem skeleton_defined_resources : Xp.Gen.c18SkelDefinedResources = skelDefinedResources := by decide
theorem skeleton_cluster_roles_differ :
    Xp.Gen.c18SkelClusterRolesDiffer = skelClusterRolesDiffer ∧
    Xp.Gen.c18SkelXRDClusterRolesDiffer = skelClusterRolesDiffer := by decide
theorem skeleton_bindings_differ : Xp.Gen.c18SkelBindingsDiffer = skelBindingsDiffer := by decide
theorem skeleton_org_differs : Xp.Gen.c18SkelOrgDiffers = skelOrgDiffers := by decide
theorem skeleton_validate : Xp.Gen.c18SkelValidate = skelValidate := by decide
theorem skeleton_very_secure : Xp.Gen.c18SkelVerySecure = skelVerySecure := by decide
theorem skeleton_expand : Xp.Gen.c18SkelExpand = skelExpand := by decide
theorem skeleton_node_allow : Xp.Gen.c18SkelNodeAllow = skelNodeAllow := by decide
theorem skeleton_node_allowed : Xp.Gen.c18SkelNodeAllowed = skelNodeAllowed := by decide
theorem skeleton_rule_path : Xp.Gen.c18SkelRulePath = skelRulePath := by decide
theorem skeleton_render_cluster_roles : Xp.Gen.c18SkelRenderClusterRoles = skelRenderClusterRoles := by decide
theorem skeleton_with_verbs : Xp.Gen.c18SkelWithVerbs = skelWithVerbs := by decide
theorem skeleton_render_xrd_roles : Xp.Gen.c18SkelRenderXRDRoles = skelRenderXRDRoles := by decide

/-! #### the API-level entries of the declared skeletons are the steps of the model programs -/

/-- a revision in a family, an allow-list role, one family member; an XRD; a deployment -/
def exWorld : Store :=
  { prs := [{ exPR [⟨["get"], ["g"], ["r"], ["n"], []⟩] with family := "f" },
            { exPR [] with name := "q", uid := "v", family := "f" }],
    xrds := [⟨"x", "ux", false, "g", "xs", some "cs"⟩],
    deploys := [⟨"ns", "d", "sa", ["u"]⟩],
    roles := [⟨"allow", [], [⟨["get"], ["g"], ["r"], [], []⟩], none⟩], bindings := [] }

/-- `Reconcile` (provider roles): Get, List, ValidatePermissionRequests, Apply(×3) are the requests
`reconcile` issues on a granted revision with a family: getPR, listPRs, getRole allow, then per
role getRole + createRole -/
theorem skeleton_reconcile_from_model :
    collapse ((applied sem Plan.allOk 0 (reconcile ⟨some "allow"⟩ "p") exWorld).map (stepOf (some "allow")))
      = apiSteps skelReconcile ∧
    ((applied sem Plan.allOk 0 (reconcile ⟨some "allow"⟩ "p") exWorld).filter Req.isWrite).length = 3 := by decide

theorem skeleton_reconcile_xrd_from_model :
    collapse ((applied sem Plan.allOk 0 (reconcileXRD "x") exWorld).map (stepOf none)) = apiSteps skelReconcileXRD ∧
    ((applied sem Plan.allOk 0 (reconcileXRD "x") exWorld).filter Req.isWrite).length = 4 := by decide

theorem skeleton_reconcile_binding_from_model :
    collapse ((applied sem Plan.allOk 0 (reconcileBinding "p") exWorld).map (stepOf none)) = apiSteps skelReconcileBinding ∧
    ((applied sem Plan.allOk 0 (reconcileBinding "p") exWorld).filter Req.isWrite).length = 1 := by decide

/-- `APIUpdatingApplicator.Apply` = [the nameless-object Create,] Get + Create (NotFound), Get +
Update (found, controllable, differs): the two paths of one `applyRoles` step -/
theorem skeleton_apply_from_model :
    let r : Role := ⟨"r", [], [], some "u"⟩
    let s0 : Store := { exWorld with roles := [] }
    let s1 : Store := { exWorld with roles := [⟨"r", [("k", "v")], [], some "u"⟩] }
    (skelApply.filter (fun c => c == "client.Get" || c == "client.Create" || c == "client.Update")).drop 1 =
      (applied sem Plan.allOk 0 (applyRoles "u" [r]) s0).filterMap applyStepOf ++
      ((applied sem Plan.allOk 0 (applyRoles "u" [r]) s1).filterMap applyStepOf).drop 1 := by decide

/-! ### other writers, a lagging informer cache, error classes

Everything above is the `World.plain` case (`world_plain_is_run`).  In a `World` other
clients change the store right before ANY API call (`env`), every read is answered from
whatever the informer cache serves at that moment (`view`: fresh, older, lacking objects),
and any call may fail with any error class (`inj`: NotFound, AlreadyExists, Conflict, other).
The statements are about the program's own applied calls `ownW` – each paired with the store
it was answered from – and say that every write is justified by what the reads of THIS
reconcile were served. -/

/-- the plain world (no other writer, fresh cache, no injected class) is `run`/`applied` -/
theorem world_plain_is_run (plan : Plan) (p : P) (s : Store) :
    runW (World.plain plan) 0 p s = run sem plan 0 p s ∧
    (ownW (World.plain plan) 0 p s).map (·.2) = applied sem plan 0 p s :=
  ⟨runW_plain plan 0 p s, ownW_plain plan 0 p s⟩

/-- **Every role write is justified by this reconcile's own reads, in every world.** Whatever
other writers do between any two calls, whatever the cache serves and whichever calls fail
with whichever class: a Create/Update of a role `x` by the provider-revision reconciler
happens only after a `getPR` was served a live revision `p`, `x` is rendered for `p` from its
own CRD references plus those of the members a `listPRs` of its family was served, and (with
an allow-list configured) only after a read of the allow-list role was served a version under
which no request of `p` is rejected; an Update moreover carries the resourceVersion of a
served version of that role that `p` may control and that differed (no retry on a decision
made for another version). No binding is ever written. -/
theorem writes_justified_by_reads_interf (cfg : Cfg) (name : String) (w : World) (s : Store)
    (pre : Hist) (x : Store × Req) (post : Hist)
    (h : ownW w 0 (reconcile cfg name) s = pre ++ x :: post) :
    RoleQ (Justified cfg name) pre x.2 := by
  simpa using ownW_ownOnly _ w 0 _ s [] (reconcile_ownOnly cfg name) pre x post h

/-- **If every allow-list version this reconcile is served leaves some request rejected – or
none is served at all (NotFound, Forbidden, timeout, a cache miss …) – no role is created or
updated**, in every world. -/
theorem uncovered_means_no_role_interf (a : String) (name : String) (w : World) (s : Store)
    (hrej : ∀ s1 p s3 ar, (s1, Req.getPR name) ∈ ownW w 0 (reconcile ⟨some a⟩ name) s →
        s1.prs.find? (·.name = name) = some p →
        (s3, Req.getRole a) ∈ ownW w 0 (reconcile ⟨some a⟩ name) s →
        s3.roles.find? (·.name = a) = some ar → validate ar.rules p.requests ≠ []) :
    ∀ x ∈ ownW w 0 (reconcile ⟨some a⟩ name) s, x.2.isWrite = false := by
  intro x hx
  obtain ⟨pre, post, e⟩ := List.append_of_mem hx
  have hq := writes_justified_by_reads_interf ⟨some a⟩ name w s pre x post e
  have sub : ∀ y ∈ pre, y ∈ ownW w 0 (reconcile ⟨some a⟩ name) s := by
    intro y hy; rw [e]; exact List.mem_append_left _ hy
  have no : ∀ r, Justified ⟨some a⟩ name pre r → False := by
    intro r ⟨p, ⟨s1, h1, hf⟩, _, _, _, hv⟩
    simp only [] at hv
    obtain ⟨s3, ar, h3, hfa, hval⟩ := hv
    exact hrej s1 p s3 ar (sub _ h1) hf (sub _ h3) hfa hval
  obtain ⟨st, r⟩ := x
  cases r <;> first
    | rfl
    | exact (no _ hq).elim
    | exact (no _ hq.1).elim
    | exact hq.elim

/-- ... and without an allow-list a revision with any granular request never gets a role. -/
theorem requests_without_allow_list_mean_no_role_interf (name : String) (w : World) (s : Store)
    (hreq : ∀ s1 p, (s1, Req.getPR name) ∈ ownW w 0 (reconcile ⟨none⟩ name) s →
        s1.prs.find? (·.name = name) = some p → expand p.requests ≠ []) :
    ∀ x ∈ ownW w 0 (reconcile ⟨none⟩ name) s, x.2.isWrite = false := by
  intro x hx
  obtain ⟨pre, post, e⟩ := List.append_of_mem hx
  have hq := writes_justified_by_reads_interf ⟨none⟩ name w s pre x post e
  have sub : ∀ y ∈ pre, y ∈ ownW w 0 (reconcile ⟨none⟩ name) s := by
    intro y hy; rw [e]; exact List.mem_append_left _ hy
  have no : ∀ r, Justified ⟨none⟩ name pre r → False := by
    intro r ⟨p, ⟨s1, h1, hf⟩, _, _, _, hv⟩
    exact hreq s1 p (sub _ h1) hf hv
  obtain ⟨st, r⟩ := x
  cases r <;> first
    | rfl
    | exact (no _ hq).elim
    | exact (no _ hq.1).elim
    | exact hq.elim

/-- **Role contents in every world.** Every rule of a role written in any world is a
resource rule over CRDs referenced by the served revision `p` or by a member `m` of the served
family list with another UID and the same (parsable) registry and organisation, the
finalizers rule of those groups, the baseline table, or a request of `p` verbatim; the role
is controlled by `p`. -/
theorem role_contents_interf (cfg : Cfg) (name : String) (h : Hist) (x : Role) (hj : Justified cfg name h x) :
    ∃ p ms, (∃ s1, (s1, Req.getPR name) ∈ h ∧ s1.prs.find? (·.name = name) = some p) ∧
      (p.family = "" ∨ ∃ s2, (s2, Req.listPRs p.family) ∈ h ∧ ms = s2.prs.filter (·.family = p.family)) ∧
      x.ctrl = some p.uid ∧
      (∀ ρ ∈ x.rules,
        IsResourceRule (resourcesOf p ms) provVerbsEdit ρ ∨ IsResourceRule (resourcesOf p ms) provVerbsView ρ ∨
        IsResourceRule (resourcesOf p ms) provVerbsSystem ρ ∨ IsFinalizersRule (resourcesOf p ms) ρ ∨
        ρ ∈ rulesSystemExtra ∨ ρ ∈ p.requests) ∧
      (∀ res ∈ resourcesOf p ms, res ∈ definedResources p.refs ∨
        (p.family ≠ "" ∧ ∃ m ∈ ms, m.uid ≠ p.uid ∧ (∃ o, p.org = some o ∧ m.org = some o) ∧
          res ∈ definedResources m.refs)) := by
  obtain ⟨p, h1, _, _, ⟨ms, hms, hx⟩, _⟩ := hj
  exact ⟨p, ms, h1, hms, renderRoles_ctrl p _ x hx, fun ρ hρ => renderRoles_rules p _ x hx ρ hρ,
    fun res hres => resourcesOf_origin p ms res hres⟩

/-- **Requests are granted only if covered, in every world**: a justified role means some
served version of the allow-list role covers every granular sub-rule of every request of the
served revision (same exclusions as `tree_sound_partial`). -/
theorem granted_requests_are_covered_interf_partial (a : String) (name : String) (h : Hist) (x : Role)
    (hj : Justified ⟨some a⟩ name h x) :
    ∃ p s3 ar, (s3, Req.getRole a) ∈ h ∧ s3.roles.find? (·.name = a) = some ar ∧
      (NoLiteralStar ar.rules → NoEmptyURL ar.rules → URLRulesNameless ar.rules →
        ∀ q ∈ p.requests, ∀ sub ∈ breakdown q, sub.InDomain → covers ar.rules sub = true) ∧
      (∃ s1, (s1, Req.getPR name) ∈ h ∧ s1.prs.find? (·.name = name) = some p) := by
  obtain ⟨p, h1, _, _, _, hv⟩ := hj
  simp only [] at hv
  obtain ⟨s3, ar, h3, hfa, hval⟩ := hv
  exact ⟨p, s3, ar, h3, hfa,
    fun a1 a2 a3 => nothing_rejected_means_covered_partial ar.rules p.requests a1 a2 a3 hval, h1⟩

/-- the XRD reconciler in every world: every role write is a role rendered for the live XRD a
`getXRD` was served (hence `xrd_roles_exact` applies to it); Updates carry a checked version -/
theorem xrd_writes_justified_by_reads_interf (name : String) (w : World) (s : Store)
    (pre : Hist) (x : Store × Req) (post : Hist)
    (h : ownW w 0 (reconcileXRD name) s = pre ++ x :: post) :
    RoleQ (JustifiedXRD name) pre x.2 := by
  simpa using ownW_ownOnly _ w 0 _ s [] (reconcileXRD_ownOnly name) pre x post h

/-- the binding reconciler in every world: the only write is THE binding of the live revision
it was served, to its own system role, with the service accounts of the deployments it was
served that carry an owner reference with the revision's UID; Updates carry a checked version -/
theorem binding_writes_justified_by_reads_interf (name : String) (w : World) (s : Store)
    (pre : Hist) (x : Store × Req) (post : Hist)
    (h : ownW w 0 (reconcileBinding name) s = pre ++ x :: post) :
    BindingQ name pre x.2 := by
  simpa using ownW_ownOnly _ w 0 _ s [] (reconcileBinding_ownOnly name) pre x post h

/-! non-vacuity: a world in which the allow-list is narrowed right before the validator's read
(call 1) refuses the roles the plain world writes; a world in which another writer takes the
system role over between the Apply's Get and its Update makes that Update a Conflict -/
example : ((ownW (World.plain Plan.allOk) 0 (reconcile ⟨some "allow"⟩ "p") (exStore [⟨["get"], ["g"], ["r"], ["n"], []⟩])).filter (·.2.isWrite)).length = 3 := by decide
example : ((ownW ⟨Plan.allOk, fun k s => if k = 1 then applyEdit s (.setRole ⟨"allow", [], [], none⟩) else s, fun _ s => s, fun _ => none⟩
    0 (reconcile ⟨some "allow"⟩ "p") (exStore [⟨["get"], ["g"], ["r"], ["n"], []⟩])).filter (·.2.isWrite)).length = 0 := by decide

end Xp.C18

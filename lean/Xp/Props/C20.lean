import Xp.Proofs.C20Ex
import Xp.Proofs.C20Peer
import Xp.Proofs.C20World
import Xp.Gen.C20Init
import Xp.Gen.C20Skel
import Xp.Model.C20Skel
import Xp.Proofs.C20Src
import Xp.Proofs.C20Parsed
/-
C20 property theorems: initialisation is idempotent and never duplicates or
clobbers existing state. Statements only; the lemmas live in Xp/Proofs/C20*.lean.

Vocabulary (defined in Model/Proofs):
* `runSteps g steps n d` – Initializer.Init over a step list, `initSteps cfg` – the
  step list of core.initCommand.Run, `g` – the certificate generator parameter,
  `n` – the id of the next generated key pair;
* `reach sem plan k p s` – every store visible at any instant of running `p` from
  `s` under fault plan `plan` (any outcome at any API call); `history g steps runs
  s` – the same over a sequence of runs, each with its own plan;
* `evalOk p s` – the result of a fault-free run;
* interference (last section): `Env Store` – what OTHER clients (a concurrent peer initialiser) do to the store
  right before our API call number k; `runE sem env plan 0 p s` / `runP g steps env plan n s` – the run under that
  interference; `ownE sem env plan 0 p s` – our own applied calls, each with the store at the moment it was
  applied; `KeptFrom cas a b` – every secret that is `Protected` in `a` (complete; or not a CA secret and holding
  any of tls.crt / tls.key / ca.crt) is unchanged in `b`; `PeerKeeps cas env` – the rely: the peer never rewrites
  a protected secret. Every theorem above this section is about `run` = the case `Env.none` (`no_peer_is_plain_run`);
* other writers on every object and error classes (very last section): `semK e` – refused calls are answered with an
  error of class `e` (`sem` = `semK .other`), `semAny er` – with any reply whatsoever; `Untouched a b` – existing
  defaults, custom resources and undeclared fields of `a` are the same in `b`; `PeerUntouches env` – the rely for
  them; `x.2.pkgTarget` – the (kind, object name, reference) a package write goes to; `x.2.bundles` – the caBundles
  a CRD / webhook-configuration write carries; `bundleRefs steps` – the webhook TLS secrets they are read from.
-/
namespace Xp.C20
open Xp

/-! ### tie to the source -/

/-- The step list of `initSteps` was written from this transcript of core.initCommand.Run; the
right-hand side is regenerated from cmd/crossplane/core/init.go on every run. -/
theorem init_skeleton_matches : initSkeleton = Xp.Gen.c20InitSkeleton := by rfl

/-- initializer.DNSNamesForService, probed on the current tree. -/
theorem dns_names_for_service_matches : dnsNamesForService "svc" "ns" = Xp.Gen.c20DnsProbe := by decide

/-! ### regenerated call skeletons: every Go function the model mirrors still has the modelled calls

Left: extracted with go/ast from the current tree on every run (harness/main/c20_skel.go). Right: declared in
Model/C20Skel.lean, every entry with the model step that mirrors it. -/

theorem skeleton_init : Xp.Gen.c20SkelInit = skelInit := by decide
theorem skeleton_step_func_run : Xp.Gen.c20SkelStepFuncRun = skelStepFuncRun := by decide
theorem skeleton_tls_run : Xp.Gen.c20SkelTlsRun = skelTlsRun := by decide
theorem skeleton_load_or_generate_ca : Xp.Gen.c20SkelLoadOrGenerateCA = skelLoadOrGenerateCA := by decide
theorem skeleton_ensure_server_certificate : Xp.Gen.c20SkelEnsureServer = skelEnsureLeaf := by decide
/-- the client certificate goes the same way as the server certificate (one model function `ensureLeaf`) -/
theorem skeleton_ensure_client_certificate : Xp.Gen.c20SkelEnsureClient = skelEnsureLeaf := by decide
theorem skeleton_parse_certificate_signer : Xp.Gen.c20SkelParseSigner = skelParseSigner := by decide
/-- CertGenerator.Generate (the real generator) is what `stdGen` mirrors … -/
theorem skeleton_generate : Xp.Gen.c20SkelGenerate = skelGenerate := by decide
/-- … it signs the certificate asked for, for the fresh key, with the signer's key (`Generator.Sound`) … -/
theorem skeleton_create_certificate_args : Xp.Gen.c20CreateCertificateArgs = createCertificateArgs := by decide
/-- … and tls.go asks it for a self-signed CA named crossplane-root-ca, resp. for non-CA certificates with the
configured server / client names signed by the signer that was loaded or generated -/
theorem skeleton_generator_calls :
    Xp.Gen.c20GenCallCA = genCallCA ∧ Xp.Gen.c20GenCallServer = genCallServer ∧ Xp.Gen.c20GenCallClient = genCallClient := by decide
/-- the generator these lists describe meets the assumption every certificate theorem makes of its generator -/
theorem cert_generator_model_sound : stdGen.Sound := by
  refine ⟨?_, ?_, ?_⟩
  · intro dns ca sg n kp c h
    cases sg with
    | none => simp [stdGen] at h; obtain ⟨rfl, rfl⟩ := h; exact ⟨rfl, rfl, rfl⟩
    | some sg =>
      simp only [stdGen] at h
      split at h
      · simp at h; obtain ⟨rfl, rfl⟩ := h; exact ⟨rfl, rfl, rfl⟩
      · cases h
  · intro dns ca n kp c h
    simp [stdGen] at h; obtain ⟨rfl, rfl⟩ := h; rfl
  · intro dns ca sg n kp c h
    simp only [stdGen] at h
    split at h
    · rename_i hk
      simp at h; obtain ⟨rfl, rfl⟩ := h; exact ⟨rfl, hk⟩
    · cases h
theorem skeleton_apply : Xp.Gen.c20SkelApply = skelApply := by decide
theorem skeleton_crds_run : Xp.Gen.c20SkelCrdsRun = skelCrdsRun := by decide
theorem skeleton_webhook_configurations_run : Xp.Gen.c20SkelWhcsRun = skelWhcsRun := by decide
theorem skeleton_migrator_run : Xp.Gen.c20SkelMigratorRun = skelMigratorRun := by decide
theorem skeleton_lock_run : Xp.Gen.c20SkelLockRun = skelLockRun := by decide
theorem skeleton_store_config_run : Xp.Gen.c20SkelStoreConfigRun = skelCreateIfAbsent := by decide
theorem skeleton_deployment_runtime_config : Xp.Gen.c20SkelDrcRun = skelCreateIfAbsent := by decide
/-- the only error class the two create-if-absent steps tolerate is AlreadyExists -/
theorem skeleton_ignored_errors : Xp.Gen.c20IgnoredErrors = ignoredErrors := by decide
theorem skeleton_installer_run : Xp.Gen.c20SkelInstallerRun = skelInstallerRun := by decide
theorem skeleton_build_pack : Xp.Gen.c20SkelBuildPack = skelBuildPack := by decide
theorem skeleton_parse_package_source : Xp.Gen.c20SkelParseSource = skelParseSource := by decide
theorem skeleton_to_dns_label : Xp.Gen.c20SkelToDNSLabel = skelToDNSLabel := by decide

/-! #### the API calls of the declared skeletons are the request sequences of the model's own programs

`pathVerbs pre reply fuel p` lists the client verbs of the requests program `p` issues when every call is answered
by `reply` (`replyAbsent`: nothing exists; `replyPresent old`: everything exists, empty); `apiOnly pre l` keeps the
client calls of a declared skeleton. Create and Update / Patch are the two branches after the same Get. -/

/-- CoreCRDsMigrator.Run: Get, List, Patch (per resource), Status().Patch, Get – the whole of `migrateStep` -/
theorem skeleton_migrator_from_model :
    apiOnly "kube." skelMigratorRun
      = pathVerbs "kube." (replyPresent "v1alpha1") 9 (migrateStep "locks.pkg.crossplane.io" "v1alpha1") := by decide

/-- loadOrGenerateCA: Get + Create (no secret) and Get + Update (incomplete secret) of `loadOrGenerateCA` -/
theorem skeleton_load_or_generate_ca_from_model :
    apiOnly "kube." skelLoadOrGenerateCA
      = pathVerbs "kube." replyAbsent 9 (loadOrGenerateCA stdGen "ca" 7)
        ++ (pathVerbs "kube." (replyPresent "") 9 (loadOrGenerateCA stdGen "ca" 7)).drop 1 := by decide

/-- ensureServerCertificate / ensureClientCertificate: Get + Create and Get + Update of `ensureLeaf` -/
theorem skeleton_ensure_leaf_from_model :
    apiOnly "kube." skelEnsureLeaf
      = pathVerbs "kube." replyAbsent 9 (ensureLeaf stdGen ⟨"tls", ["svc"]⟩ ⟨7, ⟨7, 7, [], true⟩⟩ 8)
        ++ (pathVerbs "kube." (replyPresent "") 9 (ensureLeaf stdGen ⟨"tls", ["svc"]⟩ ⟨7, ⟨7, 7, [], true⟩⟩ 8)).drop 1 := by decide

/-- APIPatchingApplicator.Apply: [the nameless-object Create,] Get + Create and Get + Patch – the same for the four
users `applyCrd`, `applyWhc`, `applyPkg`, `lockStep` -/
theorem skeleton_apply_from_model :
    let viaCrd := fun reply => pathVerbs "client." reply 9 (applyCrd ⟨"c", 1, [("v1", true)], false⟩ .empty)
    let viaWhc := fun reply => pathVerbs "client." reply 9 (applyWhc ⟨.validating, "w", ["h"]⟩ .empty ⟨"s", "ns", 1⟩)
    let viaPkg := fun reply => pathVerbs "client." reply 9 (applyPkg .provider ("p", ⟨"", "a/b", "", false, "a/b", "a/b"⟩))
    let viaLock := fun reply => pathVerbs "client." reply 9 lockStep
    ∀ via ∈ [viaCrd, viaWhc, viaPkg, viaLock],
      apiOnly "client." skelApply = "client.Create" :: (via replyAbsent ++ (via (replyPresent "")).drop 1) := by decide

/-- StoreConfigObject.Run / DefaultDeploymentRuntimeConfig: the one Create of `createIfAbsent` -/
theorem skeleton_create_if_absent_from_model :
    apiOnly "kube." skelCreateIfAbsent = pathVerbs "kube." replyAbsent 9 (scStep "ns") ∧
    apiOnly "kube." skelCreateIfAbsent = pathVerbs "kube." replyAbsent 9 drcStep := by decide

/-- PackageInstaller.Run: the three Lists of `installWith` (the applies are `skeleton_apply_from_model`) -/
theorem skeleton_installer_from_model :
    apiOnly "kube." skelInstallerRun = pathVerbs "kube." replyAbsent 9 (installStep [] [] []) := by decide

/-- CoreCRDs.Run / WebhookConfigurations.Run: the Get of the webhook TLS secret (`getBundle`), first -/
theorem skeleton_bundle_from_model :
    apiOnly "kube." skelCrdsRun = pathVerbs "kube." replyAbsent 9 (crdsStep (some "tls") ⟨false, []⟩) ∧
    apiOnly "kube." skelWhcsRun = pathVerbs "kube." replyAbsent 9 (whcsStep "tls" ⟨"s", "ns", 1⟩ ⟨false, []⟩) := by decide

/-! ### existing TLS material is kept (for every fault plan, over every history of runs) -/

/-- An existing, complete certificate authority is never regenerated: at every instant of every
sequence of runs (each aborted anywhere or not) the CA secret – any secret holding both tls.crt and
tls.key – is exactly what it was. -/
theorem ca_kept (g : Generator) (steps : List Step) (runs : List (Plan × Nat)) (s : Store)
    (ca : String) (sec : Secret) (h : findSecret s ca = some sec) (hc : isComplete sec = true) :
    ∀ x ∈ history g steps runs s, findSecret x ca = some sec := by
  intro x hx
  exact kept_history g steps runs s x hx ca sec h (Or.inl hc)

/-- Existing TLS certificates are kept: a secret (other than a CA secret) that holds any of
tls.crt / tls.key / ca.crt is never rewritten. -/
theorem certs_kept (g : Generator) (steps : List Step) (runs : List (Plan × Nat)) (s : Store)
    (name : String) (sec : Secret) (hn : name ∉ caNames steps)
    (h : findSecret s name = some sec) (hm : hasMaterial sec = true) :
    ∀ x ∈ history g steps runs s, findSecret x name = some sec := by
  intro x hx
  refine kept_history g steps runs s x hx name sec h (Or.inr ⟨?_, hm⟩)
  have : sec.name = name := find_name h
  rw [this]; exact hn

/-! ### default objects and foreign fields are left untouched -/

/-- Lock, default StoreConfig and default DeploymentRuntimeConfig that already exist are left
exactly as they are; custom resources are never changed; the fields of packages, CRDs and webhook
configurations that the initializer does not declare survive every run. -/
theorem defaults_untouched (g : Generator) (steps : List Step) (runs : List (Plan × Nat)) (s : Store) :
    ∀ x ∈ history g steps runs s,
      (∀ v, s.lock = some v → x.lock = some v) ∧
      (∀ v, s.sc = some v → x.sc = some v) ∧
      (∀ v, s.drc = some v → x.drc = some v) ∧
      x.crs = s.crs ∧
      (∀ k n p, findPkg s k n = some p → ∃ p', findPkg x k n = some p' ∧ p'.extra = p.extra) ∧
      (∀ n c, findCrd s n = some c → ∃ c', findCrd x n = some c' ∧ c'.extra = c.extra) ∧
      (∀ k n w, findWhc s k n = some w → ∃ w', findWhc x k n = some w' ∧ w'.extra = w.extra) :=
  untouched_history g steps runs s

/-! ### packages -/

/-- The repaired lookup: an image whose source is installed (under any object name) resolves to
the name of an installed package with that source. -/
theorem requested_image_resolves_to_installed_name (pl : List Pkg) (r : Ref)
    (h : ∃ q ∈ pl, ∃ r', q.ref = some r' ∧ r'.src = r.src) :
    ∃ q ∈ pl, (∃ r', q.ref = some r' ∧ r'.src = r.src) ∧ resolve (buildIndex pl) r = q.name :=
  resolve_hits pl r h

/-- A requested image whose source is already installed is never installed a second time: at every
instant of the installer step, under every fault plan, every package whose source was installed
at the start carries the name of a package that existed at the start. -/
theorem no_second_package (plan : Plan) (k : Nat) (s : Store) (p c f : List Img) :
    ∀ x ∈ reach sem plan k (installStep p c f) s,
      ∀ q ∈ x.pkgs, ∀ r, q.ref = some r →
        (∃ q' ∈ s.pkgs, q'.kind = q.kind ∧ ∃ r', q'.ref = some r' ∧ r'.src = r.src) →
        ∃ q0 ∈ s.pkgs, q0.kind = q.kind ∧ q0.name = q.name :=
  installStep_noSecond plan k s p c f

/-- D9 (installer.go at the pinned commit): the index is keyed by the parsed source but looked up
by the repository only, so a host-qualified image installed under a custom name is installed a
second time. Witness: provider `my-aws` = xpkg.upbound.io/crossplane/provider-aws:v1.0.0, request
xpkg.upbound.io/crossplane/provider-aws:v1.1.0. -/
theorem no_second_package_fails_on_unfixed_witness :
    let r0 : Ref := ⟨"xpkg.upbound.io", "crossplane/provider-aws", "v1.0.0", false,
      "xpkg.upbound.io/crossplane/provider-aws:v1.0.0", "xpkg.upbound.io/crossplane/provider-aws"⟩
    let r1 : Ref := ⟨"xpkg.upbound.io", "crossplane/provider-aws", "v1.1.0", false,
      "xpkg.upbound.io/crossplane/provider-aws:v1.1.0", "xpkg.upbound.io/crossplane/provider-aws"⟩
    let s : Store := ⟨[], [⟨.provider, "my-aws", r0.str, some r0, 3⟩], [], [], [], none, none, none⟩
    let x := (evalOk (installStepDefective [⟨r1.str, some r1⟩] [] []) s).1
    ¬ (∀ q ∈ x.pkgs, ∀ r, q.ref = some r →
        (∃ q' ∈ s.pkgs, q'.kind = q.kind ∧ ∃ r', q'.ref = some r' ∧ r'.src = r.src) →
        ∃ q0 ∈ s.pkgs, q0.kind = q.kind ∧ q0.name = q.name) := by
  intro r0 r1 s x h
  have hx : x.pkgs = [⟨.provider, "my-aws", r0.str, some r0, 3⟩,
      ⟨.provider, "crossplane-provider-aws", r1.str, some r1, 0⟩] := by decide
  have := h ⟨.provider, "crossplane-provider-aws", r1.str, some r1, 0⟩ (by rw [hx]; simp) r1 rfl
    ⟨⟨.provider, "my-aws", r0.str, some r0, 3⟩, by simp [s], rfl, r0, rfl, rfl⟩
  obtain ⟨q0, hq0, _, hn⟩ := this
  simp [s] at hq0
  subst hq0
  simp at hn

/-! #### the package source (xpkg.ParsePackageSourceFromReference) is `[host/]path`: inside the model

`Ref.src` is no longer an input: the driver computes it with `parseSource` (the Go function's string logic over
ref.String(), the reference as written) and the observation compares it with the real function for every image
and every installed package. `Written` = the parts of a reference as written, `[host/]path[:tag][@digest]`. -/

/-- **The source is the reference without its identifier, nothing else changed** – with a tag, a digest, both or
neither, with or without a registry host, with or without a port (D14 lived here: a tag survived next to a digest). -/
theorem parse_source_strips_identifier (w : Written) (h : w.WF) :
    parseSource (String.ofList w.chars) = String.ofList w.repoChars := by
  simp [parseSource, parseSourceChars_written w h]

/-- Same host and same repository path as written – any tags, any digests – same source … -/
theorem same_repository_same_source (w w' : Written) (h : w.WF) (h' : w'.WF) (hh : w.host = w'.host) (hp : w.path = w'.path) :
    parseSource (String.ofList w.chars) = parseSource (String.ofList w'.chars) := by
  simp [parseSource, parseSourceChars_same_repository w w' h h' hh hp]

/-- … and only then: the source determines host and path. -/
theorem same_source_same_repository (w w' : Written) (h : w.WF) (h' : w'.WF)
    (he : parseSource (String.ofList w.chars) = parseSource (String.ofList w'.chars)) : w.repoChars = w'.repoChars := by
  simp only [parseSource, String.toList_ofList] at he
  exact parseSourceChars_injective w w' h h' (String.ofList_injective he)

/-- **No second package, over the reference as written**: a requested image whose host and repository path – whatever
its tag and / or digest, and whatever theirs – are those of a listed package is applied to the object name of a
listed package of that source: under any object name, for any registry host, for every reference form. -/
theorem no_second_package_for_any_reference_form (pl : List Pkg) (r r' : Ref) (w w' : Written) (q : Pkg)
    (hq : q ∈ pl) (hqr : q.ref = some r')
    (hs : r.src = parseSource r.str) (hs' : r'.src = parseSource r'.str)
    (hw : r.str = String.ofList w.chars) (hw' : r'.str = String.ofList w'.chars)
    (h : w.WF) (h' : w'.WF) (hh : w.host = w'.host) (hp : w.path = w'.path) :
    ∃ q ∈ pl, (∃ r'', q.ref = some r'' ∧ r''.src = r.src) ∧ resolve (buildIndex pl) r = q.name :=
  requested_image_resolves_to_installed_name pl r
    ⟨q, hq, r', hqr, by rw [hs, hs', hw, hw']; exact same_repository_same_source w' w h' h hh.symm hp.symm⟩

/-- … and over the whole run, at every instant, under every fault plan: every package in the store whose reference –
as written: any host, any tag and / or digest – names a repository that a package of that kind named at the start
(again: whatever its tag / digest) has the object name of a package that existed at the start. -/
theorem no_second_package_written (plan : Plan) (k : Nat) (s : Store) (p c f : List Img) :
    ∀ x ∈ reach sem plan k (installStep p c f) s,
      ∀ q ∈ x.pkgs, ∀ r, q.ref = some r → r.src = parseSource r.str →
        ∀ w : Written, w.WF → r.str = String.ofList w.chars →
        (∃ q' ∈ s.pkgs, q'.kind = q.kind ∧ ∃ r', ∃ w' : Written, q'.ref = some r' ∧ r'.src = parseSource r'.str ∧ w'.WF ∧
            r'.str = String.ofList w'.chars ∧ w'.host = w.host ∧ w'.path = w.path) →
        ∃ q0 ∈ s.pkgs, q0.kind = q.kind ∧ q0.name = q.name := by
  intro x hx q hq r hr hs w hw hstr ⟨q', hq', hk, r', w', hr', hs', hw', hstr', hh, hp⟩
  exact no_second_package plan k s p c f x hx q hq r hr
    ⟨q', hq', hk, r', hr', by rw [hs, hs', hstr, hstr']; exact same_repository_same_source w' w hw' hw hh hp⟩

/-- The hypothesis `r.src = parseSource r.str` (`Ref.Parsed`) of the theorems above is an invariant of the installer:
it holds of every package in the store at every instant of its run, under every fault plan, if it holds of the
packages the run starts from and of the requested images (the driver builds both that way: `refOf`). -/
theorem package_sources_stay_parsed (plan : Plan) (k : Nat) (s : Store) (p c f : List Img)
    (hs : ParsedStore s) (hp : ParsedImgs p) (hc : ParsedImgs c) (hf : ParsedImgs f) :
    ∀ x ∈ reach sem plan k (installStep p c f) s, ParsedStore x :=
  installStep_parsed plan k s p c f hs hp hc hf

/-- non-vacuity: `a/b:v1@s:0` installed, `a/b` requested, sources computed -/
example :
    let r' : Ref := ⟨"", "a/b", "s:0", true, String.ofList ['a','/','b',':','v','1','@','s',':','0'], String.ofList ['a','/','b']⟩
    let r : Ref := ⟨"", "a/b", "latest", false, String.ofList ['a','/','b'], String.ofList ['a','/','b']⟩
    ParsedStore { (default : Store) with pkgs := [⟨.provider, "mine", r'.str, some r', 3⟩] } ∧ ParsedImgs [⟨r.str, some r⟩] := by
  refine ⟨?_, ?_⟩
  · intro q hq r hr
    simp at hq; subst hq; simp at hr; subst hr
    simp only [Ref.Parsed, parseSource, String.toList_ofList]
    exact congrArg String.ofList (by decide)
  · intro i hi r hr
    simp at hi; subst hi; simp at hr; subst hr
    simp only [Ref.Parsed, parseSource, String.toList_ofList]
    exact congrArg String.ofList (by decide)

/-- D14 (repaired by fixes/D14.diff, which `parseSource` mirrors): the function as found at the pinned commit keeps
the tag of a reference that carries a tag and a digest (`a/b:v1@s:0`, identifier = the digest `s:0`), and trims the
default identifier off an untagged repository that ends in it (`a/latest`, identifier `latest`) – in both cases the
source differs from the one of the same repository written without identifier. -/
theorem parse_source_fails_on_unfixed_witness :
    parseSourceCharsDefective ['a','/','b',':','v','1','@','s',':','0'] ['s',':','0'] ≠ parseSourceCharsDefective ['a','/','b'] ['l','a','t','e','s','t'] ∧
    parseSourceChars ['a','/','b',':','v','1','@','s',':','0'] = parseSourceChars ['a','/','b'] ∧
    parseSourceCharsDefective ['a','/','l','a','t','e','s','t'] ['l','a','t','e','s','t'] ≠ ['a','/','l','a','t','e','s','t'] ∧
    parseSourceChars ['a','/','l','a','t','e','s','t'] = ['a','/','l','a','t','e','s','t'] := by decide

/-- non-vacuity: `r.io:5/x/aws:v1@sha:0a` (port, tag AND digest) installed and `r.io:5/x/aws` (no identifier)
requested – both well-formed, sources computed -/
example :
    let host := ['r','.','i','o',':','5']
    let path := ['x','/','a','w','s']
    let w' : Written := ⟨host, path, some ['v','1'], some ['s','h','a',':','0','a']⟩
    let w : Written := ⟨host, path, none, none⟩
    w.WF ∧ w'.WF ∧ parseSourceChars w'.chars = host ++ '/' :: path ∧ parseSourceChars w.chars = host ++ '/' :: path := by
  refine ⟨⟨by decide, by decide, by decide, by decide, by intro t ht; cases ht⟩,
    ⟨by decide, by decide, by decide, by decide, by intro t ht; cases ht; decide⟩, by decide, by decide⟩

/-! ### newly issued certificates chain to the stored CA and cover the DNS names -/

/-- Newly issued certificates chain to the stored authority: whenever a TLS secret (other than the
CA secret) differs from what it was at the start – at any instant of any sequence of runs, each
under any fault plan – it holds a certificate signed by the key pair of the certificate stored,
complete, in the CA secret, its private key, and that very CA certificate as ca.crt.
(`g.Sound`: the generator signs with the signer it is given; x509 itself is checked by test only.) -/
theorem new_certs_chain_to_stored_ca (g : Generator) (hg : g.Sound) (steps : List Step) (ca : String)
    (hca : ∀ c ∈ caNames steps, c = ca) (runs : List (Plan × Nat)) (s : Store) :
    ∀ x ∈ history g steps runs s, ∀ name, name ≠ ca → findSecret x name ≠ findSecret s name →
      ∃ sec C l c, findSecret x ca = some sec ∧ isComplete sec = true ∧ sec.crt = .cert C ∧
        findSecret x name = some l ∧ l.crt = .cert c ∧ l.key = .key c.kp ∧ l.ca = .cert C ∧ c.signedBy = C.kp := by
  intro x hx name hn hne
  obtain ⟨sec, C, l, c, _, h1, h2, h3, h4, h5, h6, h7, h8, _⟩ := issued_history g hg steps ca hca runs s x hx name hn hne
  exact ⟨sec, C, l, c, h1, h2, h3, h4, h5, h6, h7, h8⟩

/-- ... and cover the service's DNS names: the certificate of such a secret carries exactly the DNS
names some TLS step of the list configures for that secret. -/
theorem dns_covered (g : Generator) (hg : g.Sound) (steps : List Step) (ca : String)
    (hca : ∀ c ∈ caNames steps, c = ca) (runs : List (Plan × Nat)) (s : Store) :
    ∀ x ∈ history g steps runs s, ∀ name, name ≠ ca → findSecret x name ≠ findSecret s name →
      ∃ l c ref, findSecret x name = some l ∧ l.crt = .cert c ∧ ref ∈ leafRefs steps ∧ ref.name = name ∧ c.dns = ref.dns := by
  intro x hx name hn hne
  obtain ⟨_, _, l, c, ref, _, _, _, h4, h5, _, _, _, h9, h10, h11⟩ := issued_history g hg steps ca hca runs s x hx name hn hne
  exact ⟨l, c, ref, h4, h5, h9, h10, h11⟩

/-- For the step list of core.initCommand.Run the CA is `cfg.ca` and the webhook server certificate is
issued for DNSNamesForService(service, namespace). -/
theorem init_tls_names (cfg : Cfg) :
    (∀ c ∈ caNames (initSteps cfg), c = cfg.ca) ∧
    (∀ ref ∈ leafRefs (initSteps cfg), ref.name = cfg.server → cfg.server ≠ cfg.client → cfg.server ≠ cfg.ess →
      ref.dns = dnsNamesForService cfg.svcName cfg.svcNs) := by
  unfold initSteps
  cases hw : cfg.webhook <;> by_cases he : cfg.ess = "" <;>
    simp [hw, he, migrators, caNames, leafRefs, optRefs] <;> (try intro ref h) <;>
    (try rcases h with rfl | rfl | rfl) <;> simp_all

/-! ### idempotence -/

/-- Every step is idempotent: after a completed run of the step, running it again (with any nonce)
returns success, generates nothing (the nonce comes back unchanged) and leaves the store exactly
as it is at every instant – no write changes anything.
(`StepHyp`: a CRD / webhook directory declares every object once; the requested packages are
pairwise distinct and not already installed twice.) -/
theorem step_idempotent (g : Generator) (st : Step) (s t : Store) (n n' : Nat) (hyp : StepHyp st s)
    (h : run sem Plan.allOk 0 (st.prog g n) s = (t, some (Res.ok, n'))) :
    ∀ m, run sem Plan.allOk 0 (st.prog g m) t = (t, some (Res.ok, m)) ∧
         ∀ x ∈ reach sem Plan.allOk 0 (st.prog g m) t, x = t := by
  rw [run_allOk] at h
  have h' : evalOk (st.prog g n) s = (t, (Res.ok, n')) := by
    simp only [Prod.mk.injEq, Option.some.injEq] at h
    exact Prod.ext h.1 h.2
  intro m
  obtain ⟨f1, f2⟩ := step_fix g m st t (step_establishes g n n' st s t hyp h')
  rw [run_allOk, reach_allOk, f1]
  exact ⟨rfl, f2⟩

/-- Initialisation is idempotent: after a completed run of Crossplane's initialisation (from ANY
cluster state) a second run yields the same store, completes, generates no certificate, and no
write of it changes anything at any instant. -/
theorem init_idempotent (g : Generator) (cfg : Cfg) (s t : Store) (n n' d : Nat) (hyp : InitHyp cfg s)
    (h : run sem Plan.allOk 0 (initProg g cfg n) s = (t, some (Res.ok, n', d))) :
    ∀ m, run sem Plan.allOk 0 (initProg g cfg m) t = (t, some (Res.ok, m, d)) ∧
         ∀ x ∈ reach sem Plan.allOk 0 (initProg g cfg m) t, x = t := by
  rw [run_allOk] at h
  have h' : evalOk (initProg g cfg n) s = (t, (Res.ok, n', d)) := by
    simp only [Prod.mk.injEq, Option.some.injEq] at h
    exact Prod.ext h.1 h.2
  obtain ⟨hd, hlen⟩ := init_done g cfg s t n n' d hyp h'
  intro m
  obtain ⟨f1, f2⟩ := runSteps_fix g (initSteps cfg) t hd m 0
  rw [run_allOk, reach_allOk]
  unfold initProg
  rw [f1]
  exact ⟨by simp [hlen], f2⟩

/-- The post-condition of a completed step survives every later step that is `okAfter` it (all
pairs of core.initCommand.Run are), at every instant and under every fault plan: an error, a
conflict or a crash of a later step never destroys what an earlier step established. -/
theorem completed_steps_stay_done (g : Generator) (n : Nat) (a b : Step) (h : okAfter a b = true)
    (plan : Plan) (k : Nat) (s : Store) (hd : StepDone a s) :
    ∀ x ∈ reach sem plan k (b.prog g n) s, StepDone a x :=
  done_stable g n a b h plan k s hd

/-- The hypotheses of idempotence are themselves stable: they hold at every instant of every
(aborted) initialisation run of a cluster that satisfies them – a crash in the middle of the package
installer never leaves a store in which the requested images collide or a source is installed twice. -/
theorem hypotheses_survive_any_abort (g : Generator) (cfg : Cfg) (plan : Plan) (n : Nat) (s : Store) (hyp : InitHyp cfg s) :
    ∀ x ∈ reach sem plan 0 (initProg g cfg n) s, InitHyp cfg x :=
  initHyp_reach g cfg plan 0 n 0 s hyp

/-- Crash, then re-run: let a run be aborted anywhere (any outcome at any API call: error, conflict,
crash before or after the call took effect) and let a fault-free run from the store it left behind
complete. Then that run reaches the same post-condition as an undisturbed initialisation – every
step's `StepDone` – which is a fixpoint of the initialisation; existing TLS material of the original
cluster is still in place, and defaults / foreign fields are untouched.
(That the re-run completes whenever the undisturbed run would is checked by monitor only.) -/
theorem crash_then_rerun (g : Generator) (cfg : Cfg) (s : Store) (plan : Plan) (n m m' d : Nat) (t : Store)
    (hyp : InitHyp cfg s)
    (h : run sem Plan.allOk 0 (initProg g cfg m) (run sem plan 0 (initProg g cfg n) s).1 = (t, some (Res.ok, m', d))) :
    (∀ a ∈ initSteps cfg, StepDone a t) ∧
    (∀ k, run sem Plan.allOk 0 (initProg g cfg k) t = (t, some (Res.ok, k, d))) ∧
    KeptFrom (caNames (initSteps cfg)) s t ∧ Untouched s t := by
  have hyp' : InitHyp cfg (run sem plan 0 (initProg g cfg n) s).1 :=
    initHyp_reach g cfg plan 0 n 0 s hyp _ (run_mem_reach sem plan 0 _ s)
  have hmem : t ∈ history g (initSteps cfg) [(plan, n), (Plan.allOk, m)] s := by
    simp only [history, List.mem_append, List.mem_singleton]
    right; left
    have := run_mem_reach sem Plan.allOk 0 (initProg g cfg m) (run sem plan 0 (initProg g cfg n) s).1
    rw [h] at this
    exact this
  have h0 := h
  rw [run_allOk] at h0
  have h' : evalOk (initProg g cfg m) (run sem plan 0 (initProg g cfg n) s).1 = (t, (Res.ok, m', d)) := by
    simp only [Prod.mk.injEq, Option.some.injEq] at h0
    exact Prod.ext h0.1 h0.2
  obtain ⟨hd, _⟩ := init_done g cfg _ t m m' d hyp' h'
  exact ⟨hd, fun k => (init_idempotent g cfg _ t m m' d hyp' h k).1,
    kept_history g (initSteps cfg) _ s t hmem, untouched_history g (initSteps cfg) _ s t hmem⟩

/-! ### the CA bundle -/

/-- Core CRDs and webhook configurations end up carrying the current CA bundle: after a completed
initialisation with webhooks enabled the webhook TLS secret holds a non-empty tls.crt, every declared
CRD with webhook conversion carries it as caBundle, and every declared webhook configuration (that
declares webhooks) consists of exactly its declared webhooks, each with that bundle and the
configured service. -/
theorem ca_bundle_injected (g : Generator) (cfg : Cfg) (s t : Store) (n n' d : Nat) (hyp : InitHyp cfg s)
    (hw : cfg.webhook = true)
    (h : run sem Plan.allOk 0 (initProg g cfg n) s = (t, some (Res.ok, n', d))) :
    ∃ sec, findSecret t cfg.server = some sec ∧ sec.crt ≠ .empty ∧
      (∀ f, FileObj.crd f ∈ cfg.crdDir.objs → f.conv = true →
        ∃ c, findCrd t f.name = some c ∧ c.conv = true ∧ c.bundle = sec.crt) ∧
      (∀ f, FileObj.whc f ∈ cfg.whcDir.objs → f.hooks ≠ [] →
        ∃ w, findWhc t f.kind (whcName f) = some w ∧
          w.hooks = desiredHooks f sec.crt ⟨cfg.svcName, cfg.svcNs, cfg.svcPort⟩) := by
  rw [run_allOk] at h
  have h' : evalOk (initProg g cfg n) s = (t, (Res.ok, n', d)) := by
    simp only [Prod.mk.injEq, Option.some.injEq] at h
    exact Prod.ext h.1 h.2
  obtain ⟨hd, _⟩ := init_done g cfg s t n n' d hyp h'
  have hc : StepDone (.crds (some cfg.server) cfg.crdDir) t := hd _ (by simp [initSteps, hw])
  have hwh : StepDone (.whcs cfg.server ⟨cfg.svcName, cfg.svcNs, cfg.svcPort⟩ cfg.whcDir) t := hd _ (by simp [initSteps, hw])
  obtain ⟨cb, ⟨sec, hs, hcrt, hne⟩, _, hobjs⟩ := hc
  obtain ⟨cb', ⟨sec', hs', hcrt', _⟩, _, hobjs'⟩ := hwh
  rw [hs] at hs'; cases hs'
  refine ⟨sec, hs, hcrt ▸ hne, ?_, ?_⟩
  · intro f hf hconv
    obtain ⟨f', e, _, hfix⟩ := hobjs _ hf
    cases e
    rw [hcrt]
    exact crdFix_injected hfix hconv
  · intro f hf hh
    obtain ⟨f', e, hfix⟩ := hobjs' _ hf
    cases e
    rw [hcrt']
    exact whcFix_injected hfix hh

/-! ### non-vacuity -/

/-- the repaired installer on the D9 witness updates `my-aws` in place -/
example :
    let r0 : Ref := ⟨"xpkg.upbound.io", "crossplane/provider-aws", "v1.0.0", false,
      "xpkg.upbound.io/crossplane/provider-aws:v1.0.0", "xpkg.upbound.io/crossplane/provider-aws"⟩
    let r1 : Ref := ⟨"xpkg.upbound.io", "crossplane/provider-aws", "v1.1.0", false,
      "xpkg.upbound.io/crossplane/provider-aws:v1.1.0", "xpkg.upbound.io/crossplane/provider-aws"⟩
    let s : Store := ⟨[], [⟨.provider, "my-aws", r0.str, some r0, 3⟩], [], [], [], none, none, none⟩
    (evalOk (installStep [⟨r1.str, some r1⟩] [] []) s).1.pkgs = [⟨.provider, "my-aws", r1.str, some r1, 3⟩] := by
  decide


/-- the generator used to replay real runs satisfies the soundness assumption -/
example : stdGen.Sound := by
  refine ⟨?_, ?_, ?_⟩
  · intro dns ca sg n kp c h
    cases sg with
    | none => simp [stdGen] at h; obtain ⟨rfl, rfl⟩ := h; exact ⟨rfl, rfl, rfl⟩
    | some sg =>
      simp only [stdGen] at h
      split at h
      · simp at h; obtain ⟨rfl, rfl⟩ := h; exact ⟨rfl, rfl, rfl⟩
      · cases h
  · intro dns ca n kp c h
    simp [stdGen] at h; obtain ⟨rfl, rfl⟩ := h; rfl
  · intro dns ca sg n kp c h
    simp only [stdGen] at h
    split at h
    · rename_i hk
      simp at h; obtain ⟨rfl, rfl⟩ := h; exact ⟨rfl, hk⟩
    · cases h

/-- `exCfg` / `exStore` (Proofs/C20Ex.lean): webhooks on, one CRD with webhook conversion, two webhook
configurations, a host-qualified provider already installed under a custom name, a partially initialised
cluster. The hypotheses of `init_idempotent` / `ca_bundle_injected` hold for it and the run completes. -/
example : (run sem Plan.allOk 0 (initProg stdGen exCfg 100) exStore).2.map (·.1) = some Res.ok := by decide

example : InitHyp exCfg exStore := by
  refine ⟨fun _ => by decide, by decide, by decide, ?_, ?_, ?_, ?_⟩
  · intro l hl
    have : buildAll resolve (buildIndex (listing exStore .provider)) exCfg.p = some [("my-aws", ⟨"xpkg.upbound.io", "crossplane/provider-aws", "v1.1.0", false,
      "xpkg.upbound.io/crossplane/provider-aws:v1.1.0", "xpkg.upbound.io/crossplane/provider-aws"⟩)] := by decide
    rw [this] at hl; cases hl; decide
  · intro l hl
    have : buildAll resolve (buildIndex (listing exStore .configuration)) exCfg.c = some [] := by decide
    rw [this] at hl; cases hl; decide
  · intro l hl
    have : buildAll resolve (buildIndex (listing exStore .function)) exCfg.f = some [] := by decide
    rw [this] at hl; cases hl; decide
  · intro q hq q' hq' _ _ _ _
    simp [exStore] at hq hq'
    rw [hq, hq']

/-- ... it updates `my-aws` in place, keeps the CA, issues a server certificate chained to it with the
service's DNS names, and a run crashed after its 8th API call and then repeated completes with the
same packages, CRDs and webhook configurations -/
example :
    let t := (run sem Plan.allOk 0 (initProg stdGen exCfg 100) exStore).1
    let r := run sem Plan.allOk 0 (initProg stdGen exCfg 200) (run sem (Plan.at 7 .crashAfter) 0 (initProg stdGen exCfg 100) exStore).1
    t.pkgs.map (fun p => (p.name, p.raw, p.extra)) = [("my-aws", "xpkg.upbound.io/crossplane/provider-aws:v1.1.0", 3)] ∧
    findSecret t "crossplane-root-ca" = findSecret exStore "crossplane-root-ca" ∧
    (findSecret t "crossplane-tls-server").map (·.crt) = some (.cert ⟨100, 1, ["crossplane-webhooks", "crossplane-webhooks.crossplane-system", "crossplane-webhooks.crossplane-system.svc"], false⟩) ∧
    r.2.map (·.1) = some Res.ok ∧ r.1.pkgs = t.pkgs ∧ r.1.crds = t.crds ∧ r.1.whcs.map (·.name) = t.whcs.map (·.name) := by
  decide

/-! ### interference by a concurrent peer initialiser

Crossplane runs this initialisation in several pods at once (core and rbac-manager init containers,
replicas, old and new pod of a rolling update). An `AlreadyExists` answer to a Create – after a Get that
said NotFound – can only come from such a peer, and so can a Conflict answer to an Update that nobody
injected. The theorems of this section quantify over ALL stores, fault plans and peer interference
(`Env Store`: any change of the store before any of our calls).

What survives and what does not:
* (a) `own_writes_never_clobber` holds for EVERY environment – it is the guarantee of our own calls;
* `ca_kept` / `certs_kept` survive under the rely `PeerKeeps` (`existing_tls_kept_under_interference`) and
  are false without it (example with `pxRogue` below): they are a joint property of all initialisers;
* `new_certs_chain_to_stored_ca` / `dns_covered` ("every secret that differs from the start is chained")
  do NOT survive, even under the rely: a secret may differ because the peer filled it (example with
  `pxForeign`). Their replacement is (b) `own_certs_chain_under_interference`, about the secrets WE wrote;
* "a run completes whenever the undisturbed run would" (monitor C20:rerun-failed, assumed by
  `crash_then_rerun`) does NOT survive: the run whose Create is refused aborts (example with `pxPeer`) – that is
  the intended behaviour; what holds instead is (c) `rerun_after_peer_abort_converges`;
* `step_idempotent` / `init_idempotent` / `ca_bundle_injected` / `completed_steps_stay_done` speak about
  interference-free runs and are unaffected as stated; read with a peer acting during the second run they
  fail trivially (the peer's writes change the store). `defaults_untouched` and `no_second_package` as stated do
  not survive a writer that touches packages / defaults; their replacements are in the LAST section
  (`defaults_untouched_under_interference`, `no_second_package_under_interference`). -/

/-- The interference-free semantics is the special case of no peer: every theorem above is a theorem
about `runP … Env.none`. -/
theorem no_peer_is_plain_run (g : Generator) (steps : List Step) (plan : Plan) (n : Nat) (s : Store) :
    runP g steps Env.none plan n s = run sem plan 0 (runSteps g steps n 0) s :=
  runE_none sem plan 0 _ s

/-- (a) An existing CA and existing certificates are never overwritten – stated about the write requests
the run issues, for EVERY store, fault plan and EVERY interference (no rely): each own applied call
leaves every secret that is protected AT THE MOMENT OF THE CALL exactly as it is; and an own secret write
that changes the store is either a Create of an object that is absent at that moment, or an Update of
exactly the object this run read (unchanged since: the resourceVersion precondition), which was not
protected – an incomplete CA secret, or a certificate secret without any material. -/
theorem own_writes_never_clobber (g : Generator) (steps : List Step) (env : Env Store) (plan : Plan) (n : Nat) (s : Store) :
    ∀ x ∈ ownE sem env plan 0 (runSteps g steps n 0) s,
      KeptFrom (caNames steps) x.1 (exec x.1 x.2).1 ∧
      ((exec x.1 x.2).1 ≠ x.1 →
        (∀ new, x.2 = .createSecret new → findSecret x.1 new.name = none) ∧
        (∀ old new, x.2 = .updateSecret old new →
          findSecret x.1 new.name = some old ∧ ¬ Protected (caNames steps) old)) :=
  fun x hx => ⟨own_step_keeps g steps env plan n s x hx, own_write_shape g steps env plan n s x hx⟩

/-- `ca_kept` / `certs_kept` under interference: if the peer obeys the same rule (never rewrites a
protected secret – `initialiser_peer_obeys_rely`: a peer that is an initialiser does), then whenever the
run ends – under every fault plan, i.e. at every instant – every secret that was protected at the start is
exactly what it was. -/
theorem existing_tls_kept_under_interference (g : Generator) (steps : List Step) (env : Env Store)
    (henv : PeerKeeps (caNames steps) env) (plan : Plan) (n : Nat) (s : Store) :
    KeptFrom (caNames steps) s (runP g steps env plan n s).1 :=
  kept_under_interference g steps env henv plan n s

/-- (b) Newly issued certificates chain to the stored authority, under interference: every secret other
than the CA secret that THIS run wrote (the write was applied) is, when the run ends – whatever the fault
plan and whatever a rely-obeying peer did in between – still exactly what was written, signed by the key
pair of the certificate stored, complete, in the CA secret at that moment, carries that certificate as
ca.crt and names the configured DNS names. (Holds for aborted runs too, hence for runs that report success.) -/
theorem own_certs_chain_under_interference (g : Generator) (hg : g.Sound) (steps : List Step) (ca : String)
    (hca : ∀ c ∈ caNames steps, c = ca) (env : Env Store) (henv : PeerKeeps [ca] env)
    (plan : Plan) (n : Nat) (s : Store) :
    ∀ x ∈ ownE sem env plan 0 (runSteps g steps n 0) s, ∀ new, x.2.writes = some new → new.name ≠ ca →
      (exec x.1 x.2).2 = .ok →
      ∃ sec C c ref, findSecret (runP g steps env plan n s).1 ca = some sec ∧ isComplete sec = true ∧ sec.crt = .cert C ∧
        findSecret (runP g steps env plan n s).1 new.name = some new ∧
        new.crt = .cert c ∧ new.key = .key c.kp ∧ new.ca = .cert C ∧ c.signedBy = C.kp ∧
        ref ∈ leafRefs steps ∧ ref.name = new.name ∧ c.dns = ref.dns := by
  intro x hx new hw hne hok
  obtain ⟨hf, sec, C, l, c, ref, h1, h2, h3, h4, h5, h6, h7, h8, h9, h10, h11⟩ :=
    own_leaves_chain g hg steps ca hca env henv plan n s x hx new hw hne hok
  have e : l = new := by
    have := hf.symm.trans h4
    simpa using this.symm
  subst e
  exact ⟨sec, C, c, ref, h1, h2, h3, h4, h5, h6, h7, h8, h9, h10, h11⟩

/-- (c) Re-running after an abort caused by the peer converges: let a run of the TLS steps be disturbed by
any peer interference that keeps the CA secret loadable (`PeerWellFormed`: true of a peer that is an
initialiser) and by any fault plan – in particular let its Create be refused with AlreadyExists, or its
Update with Conflict. Then a fault-free, interference-free re-run from whatever store that run left
behind COMPLETES (every step), and keeps every protected secret it finds: the CA that is stored is the CA
afterwards. (`Generator.Total`: the generator does not fail on a self-signed request or on a signer whose
key matches its certificate; `TlsOnly`: the step list consists of TLS steps for `ca` with non-empty DNS
names; `CAWellFormed ca s`: the CA secret of the original cluster, if complete, loads.) -/
theorem rerun_after_peer_abort_converges (g : Generator) (hg : g.Sound) (ht : g.Total) (ca : String)
    (steps : List Step) (hsteps : TlsOnly ca steps) (env : Env Store) (hw : PeerWellFormed ca env)
    (plan : Plan) (n m : Nat) (s : Store) (hs : CAWellFormed ca s) :
    ∃ t' m', run sem Plan.allOk 0 (runSteps g steps m 0) (runP g steps env plan n s).1 =
        (t', some (Res.ok, m', steps.length)) ∧
      KeptFrom (caNames steps) (runP g steps env plan n s).1 t' :=
  rerun_succeeds g hg ht ca steps hsteps env hw plan n m s hs

/-- The rely is met by the peer we care about: another initialiser – any step list over the same CA
names, any generator, any nonce, run to completion before any one of our calls – never rewrites a
protected secret, and (sound generator) never stores a CA secret that does not load. -/
theorem initialiser_peer_obeys_rely (g : Generator) (steps : List Step) (cas : List String)
    (h : ∀ ca ∈ caNames steps, ca ∈ cas) (n k0 : Nat) :
    PeerKeeps cas (peerInit g steps n k0) ∧ (g.Sound → ∀ ca, PeerWellFormed ca (peerInit g steps n k0)) :=
  ⟨peerInit_keeps g steps cas h n k0, fun hg ca => peerInit_wf g hg steps ca n k0⟩

/-! #### non-vacuity and counterexamples (concrete peers of Proofs/C20Peer.lean) -/

/-- A concrete peer (pod B = `pxPeer`: the same initialisation, completing right before our Create of the
CA secret on a cluster without TLS secrets). Our Get said NotFound, our Create is refused: the run ABORTS,
having written nothing; pod B's CA is stored; the repeated run loads it, completes and changes nothing.
This also is the counterexample to "a run completes whenever the undisturbed run would". -/
example :
    let r := runP stdGen pxSteps pxPeer Plan.allOk 100 pxFresh
    let again := run sem Plan.allOk 0 (runSteps stdGen pxSteps 200 0) r.1
    (run sem Plan.allOk 0 (runSteps stdGen pxSteps 100 0) pxFresh).2.map (·.1) = some Res.ok ∧
    r.2.map (·.1) = some (Res.err "tls: signer") ∧
    (callLogE sem pxPeer Plan.allOk 0 (runSteps stdGen pxSteps 100 0) pxFresh).map (fun x => (x.2.1, x.2.2.map fun y => match y with | .err e => some e | _ => none)) =
      [(.ok, some (some .notFound)), (.ok, some (some .alreadyExists))] ∧
    (ownE sem pxPeer Plan.allOk 0 (runSteps stdGen pxSteps 100 0) pxFresh).all (fun x => decide ((exec x.1 x.2).1 = x.1)) = true ∧
    (findSecret r.1 "crossplane-root-ca").map (·.crt) = some (.cert ⟨500, 500, ["crossplane-root-ca"], true⟩) ∧
    (findSecret r.1 "crossplane-tls-server").map (fun l => (l.crt, l.ca)) =
      some (.cert ⟨501, 500, ["crossplane-webhooks", "crossplane-webhooks.crossplane-system", "crossplane-webhooks.crossplane-system.svc"], false⟩,
            .cert ⟨500, 500, ["crossplane-root-ca"], true⟩) ∧
    again.2.map (·.1) = some Res.ok ∧ again.1 = r.1 := by
  decide

/-- the hypotheses of (b) and (c) are satisfiable by that peer -/
example : PeerKeeps ["crossplane-root-ca"] pxPeer ∧ PeerWellFormed "crossplane-root-ca" pxPeer ∧
    TlsOnly "crossplane-root-ca" pxSteps ∧ CAWellFormed "crossplane-root-ca" pxFresh := by
  refine ⟨peerInit_keeps stdGen pxSteps _ (by simp [pxSteps, caNames]) 500 1, peerInit_wf stdGen ?_ pxSteps _ 500 1, ?_, ?_⟩
  · refine ⟨?_, ?_, ?_⟩
    · intro dns ca sg n kp c h
      cases sg with
      | none => simp [stdGen] at h; obtain ⟨rfl, rfl⟩ := h; exact ⟨rfl, rfl, rfl⟩
      | some sg =>
        simp only [stdGen] at h
        split at h
        · simp at h; obtain ⟨rfl, rfl⟩ := h; exact ⟨rfl, rfl, rfl⟩
        · cases h
    · intro dns ca n kp c h
      simp [stdGen] at h; obtain ⟨rfl, rfl⟩ := h; rfl
    · intro dns ca sg n kp c h
      simp only [stdGen] at h
      split at h
      · rename_i hk
        simp at h; obtain ⟨rfl, rfl⟩ := h; exact ⟨rfl, hk⟩
      · cases h
  · intro st hst
    simp [pxSteps] at hst
    subst hst
    exact ⟨_, _, rfl, fun r h => by cases h; simp, fun r h => by cases h; simp⟩
  · intro sec h
    simp [pxFresh, findSecret] at h

/-- the generator used to replay real runs is total in the sense of (c) -/
example : stdGen.Total :=
  ⟨fun _ _ _ => rfl, fun dns ca sg n h => by simp [stdGen, h]⟩

/-- `new_certs_chain_to_stored_ca` does not survive interference, even by a peer that obeys the rely:
`pxForeign` fills the (absent) server secret with a certificate of another authority before our first
call; our run keeps it (as it must), so at the end a secret differs from the start and is not chained. -/
example : PeerKeeps ["crossplane-root-ca"] pxForeign ∧
    findSecret (runP stdGen pxSteps pxForeign Plan.allOk 100 pxFresh).1 "crossplane-tls-server" ≠
      findSecret pxFresh "crossplane-tls-server" ∧
    ¬ Chained "crossplane-root-ca" (leafRefs pxSteps) (runP stdGen pxSteps pxForeign Plan.allOk 100 pxFresh).1 "crossplane-tls-server" := by
  refine ⟨pxForeign_keeps, by decide, ?_⟩
  rintro ⟨sec, C, l, c, ref, h1, _, h3, h4, _, _, h7, _⟩
  have hl : (findSecret (runP stdGen pxSteps pxForeign Plan.allOk 100 pxFresh).1 "crossplane-tls-server").map (·.ca) =
      some (.cert ⟨9, 9, ["crossplane-root-ca"], true⟩) := by decide
  have hc : (findSecret (runP stdGen pxSteps pxForeign Plan.allOk 100 pxFresh).1 "crossplane-root-ca").map (·.crt) =
      some (.cert ⟨100, 100, ["crossplane-root-ca"], true⟩) := by decide
  rw [h4] at hl
  rw [h1] at hc
  simp only [Option.map_some, Option.some.injEq] at hl hc
  rw [h7] at hl
  rw [h3] at hc
  cases hl
  cases hc

/-- `ca_kept` needs the rely: a peer that overwrites the complete CA secret (which no initialiser does)
leaves another CA behind – our own calls still clobber nothing (`own_writes_never_clobber` needs no rely). -/
example :
    findSecret (runP stdGen pxSteps pxRogue Plan.allOk 100 pxWithCA).1 "crossplane-root-ca" ≠
      findSecret pxWithCA "crossplane-root-ca" := by
  decide

/-! ### other writers on every object, every class of error

The environment of the previous section may do ANYTHING to the store (`Env Store`), not only write secrets: the
differential harness lets a concurrent initialiser of the same or of another release (complete, or crashed
half-way) and a user / another controller / the garbage collector create, edit and delete packages, CRDs, webhook
configurations, custom resources, the Lock, the default objects and unprotected secrets right before any of our
calls. And a refused call is answered with an error of ANY class: `semK e` (NotFound / AlreadyExists / Conflict /
everything else: Forbidden, Invalid, Unauthorized, TooManyRequests, a timeout, a Temporary() transport error, a
context deadline) – or, for the guarantees that do not depend on it, with ANY reply whatsoever (`semAny er`:
even a made-up success or a made-up object). `sem` is `semK .other`. -/

/-- the semantics of all earlier theorems is the case "an error of no particular class" -/
theorem error_class_other_is_plain_sem : semK .other = sem := rfl

/-- (a), for every class of error and every made-up reply: an existing CA and existing certificates are never
overwritten by our own calls – whatever refused calls are answered with, whatever any other writer does. -/
theorem own_writes_never_clobber_any_reply (er : Outcome → Req → Resp) (g : Generator) (steps : List Step)
    (env : Env Store) (plan : Plan) (n : Nat) (s : Store) :
    ∀ x ∈ ownE (semAny er) env plan 0 (runSteps g steps n 0) s,
      KeptFrom (caNames steps) x.1 (exec x.1 x.2).1 ∧
      ((exec x.1 x.2).1 ≠ x.1 →
        (∀ new, x.2 = .createSecret new → findSecret x.1 new.name = none) ∧
        (∀ old new, x.2 = .updateSecret old new →
          findSecret x.1 new.name = some old ∧ ¬ Protected (caNames steps) old)) :=
  fun x hx => ⟨own_step_keeps_any er g steps env plan n s x hx, own_write_shape_any er g steps env plan n s x hx⟩

/-- `ca_kept` / `certs_kept` under interference, for every class of error and every made-up reply. -/
theorem existing_tls_kept_any_reply (er : Outcome → Req → Resp) (g : Generator) (steps : List Step) (env : Env Store)
    (henv : PeerKeeps (caNames steps) env) (plan : Plan) (n : Nat) (s : Store) :
    KeptFrom (caNames steps) s (runE (semAny er) env plan 0 (runSteps g steps n 0) s).1 :=
  kept_under_interference_any er g steps env henv plan n s

/-- Default objects that already exist are left untouched – the guarantee of EVERY call the initializer can
issue, on EVERY store (the one the other writers left at that moment): an existing Lock / default StoreConfig /
default DeploymentRuntimeConfig, every custom resource and the undeclared fields of every existing package, CRD
and webhook configuration are the same after the call. (The call vocabulary `Req` is tied to the real run call by
call: an Update / Delete of such an object has no counterpart and shows as a difference.) -/
theorem every_call_leaves_defaults_untouched (s : Store) (r : Req) : Untouched s (exec s r).1 :=
  exec_untouched r (untouched_refl s)

/-- `defaults_untouched` under interference: if the other writers leave the default objects and foreign fields
alone too (`PeerUntouches`; true of a peer that is an initialiser), they are what they were whenever the run ends –
under every fault plan, for every class of error and every made-up reply. -/
theorem defaults_untouched_under_interference (er : Outcome → Req → Resp) (g : Generator) (steps : List Step)
    (env : Env Store) (henv : PeerUntouches env) (plan : Plan) (n : Nat) (s : Store) :
    Untouched s (runE (semAny er) env plan 0 (runSteps g steps n 0) s).1 :=
  untouched_under_interference er env henv plan 0 _ s

theorem initialiser_peer_leaves_defaults_untouched (g : Generator) (steps : List Step) (n k0 : Nat) :
    PeerUntouches (peerInit g steps n k0) :=
  peerInit_untouches g steps n k0

/-- `no_second_package` under interference: "already installed" is judged against what OUR List call of that kind
returned – the store at the moment of that call, after whatever another writer did before it and regardless of
what it does afterwards (a package somebody installs between our List and our Create is a race nobody can win).
For every interference, fault plan and class of error `e`: every package write of the installer (Create or Patch)
for a reference `r` goes to object name `n` such that, if a package of that kind with the source of `r` was
installed at the moment of our List, `n` is the name of a package that existed at that moment – never a second
name. (`e = .notFound`: a List refused with NotFound – "the kind is not served" – counts as an empty list.) -/
theorem no_second_package_under_interference (e : Err) (env : Env Store) (plan : Plan) (s : Store) (p c f : List Img) :
    ∀ x ∈ ownE (semK e) env plan 0 (installStep p c f) s, ∀ kd n r, x.2.pkgTarget = some (kd, n, r) →
      e = .notFound ∨
      ∃ y ∈ ownE (semK e) env plan 0 (installStep p c f) s, y.2 = .listPkgs kd ∧
        (InstalledSrc y.1 kd r.src → ∃ q0 ∈ y.1.pkgs, q0.kind = kd ∧ q0.name = n) :=
  install_no_second_at_list_time e env plan 0 s p c f

/-- Core CRDs and webhook configurations carry the CURRENT CA bundle, under interference: every caBundle our run
writes into a CRD (webhook conversion) or a webhook configuration is tls.crt – non-empty – of the webhook TLS
secret as it is stored AT THE MOMENT of that write, and that secret still holds exactly that certificate when the
run ends. For every fault plan, every class of error, every interference that never rewrites a protected secret
(`PeerKeeps`), provided the webhook TLS secret is not the CA secret. -/
theorem ca_bundle_current_at_every_write (e : Err) (g : Generator) (steps : List Step) (env : Env Store)
    (henv : PeerKeeps (caNames steps) env) (hrefs : ∀ ref ∈ bundleRefs steps, ref ∉ caNames steps)
    (plan : Plan) (n : Nat) (s : Store) :
    ∀ x ∈ ownE (semK e) env plan 0 (runSteps g steps n 0) s, ∀ cb ∈ x.2.bundles,
      ∃ ref ∈ bundleRefs steps, ∃ sec, findSecret x.1 ref = some sec ∧ sec.crt = cb ∧ cb ≠ .empty ∧
        findSecret (runE (semK e) env plan 0 (runSteps g steps n 0) s).1 ref = some sec :=
  own_bundles_current e g steps env henv hrefs plan n s

/-- for the step list of core.initCommand.Run the bundle comes from `cfg.server` -/
theorem init_bundle_refs (cfg : Cfg) : ∀ ref ∈ bundleRefs (initSteps cfg), ref = cfg.server := by
  rw [bundleRefs_init]
  split <;> simp

/-- The webhook-configuration step REPLACES the whole `webhooks` list (a JSON merge patch replaces a list; it does
not merge it entry by entry): after a completed step – from ANY store, whatever entries the stored configurations
held before (entries of another Crossplane version or of a third party, another order, stale bundles, another
service) – the webhook TLS secret holds a non-empty tls.crt and every declared configuration that declares
webhooks consists of EXACTLY the manifest's entries, in the manifest's order, each with that certificate as
caBundle and the configured service. (`(whcKeys d.objs).Nodup`: every configuration is declared once.) -/
theorem webhook_entries_are_the_manifests (g : Generator) (ref : String) (svc : Svc) (d : Dir) (s t : Store) (n n' : Nat)
    (hyp : (whcKeys d.objs).Nodup)
    (h : run sem Plan.allOk 0 ((Step.whcs ref svc d).prog g n) s = (t, some (Res.ok, n'))) :
    ∃ sec, findSecret t ref = some sec ∧ sec.crt ≠ .empty ∧
      ∀ f, FileObj.whc f ∈ d.objs → f.hooks ≠ [] →
        ∃ w, findWhc t f.kind (whcName f) = some w ∧ w.hooks = desiredHooks f sec.crt svc := by
  rw [run_allOk] at h
  have h' : evalOk ((Step.whcs ref svc d).prog g n) s = (t, (Res.ok, n')) := by
    simp only [Prod.mk.injEq, Option.some.injEq] at h
    exact Prod.ext h.1 h.2
  have hd : StepDone (.whcs ref svc d) t := step_establishes g n n' (.whcs ref svc d) s t hyp h'
  obtain ⟨cb, ⟨sec, hs, hcrt, hne⟩, _, hobjs⟩ := hd
  refine ⟨sec, hs, hcrt ▸ hne, ?_⟩
  intro f hf hh
  obtain ⟨f', e, hfix⟩ := hobjs _ hf
  cases e
  rw [hcrt]
  exact whcFix_injected hfix hh

/-! #### non-vacuity: concrete other writers and error classes -/

/-- Somebody installs the requested provider as `their-own` BEFORE our List: it is updated in place. Somebody does
so right AFTER our List (before our Get): the race is lost, the provider exists twice – `no_second_package` as
stated for interference-free runs fails, the list-time statement holds. -/
example :
    let req : List Img := [⟨wxR1.str, some wxR1⟩]
    (runE sem (wxUser 0) Plan.allOk 0 (installStep req [] []) wxEmpty).1.pkgs.map (fun p => (p.name, p.raw, p.extra)) =
      [("their-own", wxR1.str, 2)] ∧
    (runE sem (wxUser 3) Plan.allOk 0 (installStep req [] []) wxEmpty).1.pkgs.map (fun p => (p.name, p.raw)) =
      [("their-own", wxR0.str), ("crossplane-provider-aws", wxR1.str)] := by
  decide

/-- Error classes are told apart where the code tells them apart: a Get refused with NotFound makes the Lock
step Create (the Lock exists: AlreadyExists, the step fails and nothing changes); refused with any other class
the step fails at once; a Create of the default StoreConfig refused with AlreadyExists is tolerated, refused
with any other class it is an error. -/
example :
    let s : Store := { wxEmpty with lock := some 3 }
    (callLogE (semK .notFound) Env.none (Plan.at 0 .fail) 0 lockStep s).map (fun x => reqLineTag x.1) = ["getLock", "createLock"] ∧
    (runE (semK .notFound) Env.none (Plan.at 0 .fail) 0 lockStep s) = (s, some (Res.err "lock: create")) ∧
    (callLogE (semK .other) Env.none (Plan.at 0 .fail) 0 lockStep s).map (fun x => reqLineTag x.1) = ["getLock"] ∧
    (runE (semK .alreadyExists) Env.none (Plan.at 0 .fail) 0 (scStep "ns") wxEmpty) = (wxEmpty, some Res.ok) ∧
    (runE (semK .other) Env.none (Plan.at 0 .fail) 0 (scStep "ns") wxEmpty) = (wxEmpty, some (Res.err "sc")) := by
  decide

/-- An existing `crossplane` webhook configuration holds an entry the manifest lacks (left by a third party, stale
bundle, another service) in front of a stale entry of ours: after the step exactly the manifest's entry is stored,
with the server certificate as bundle and the configured service. -/
example :
    let crt : Blob := .cert ⟨11, 1, ["x"], false⟩
    let s : Store := { wxEmpty with
      secrets := [⟨"srv", crt, .key 11, .empty, 0, 0⟩],
      whcs := [⟨.mutating, "crossplane", [⟨"thirdparty.example.org", .junk 8, ⟨"theirs", "kube-system", 8443⟩⟩,
        ⟨"h0.crossplane.io", .junk 8, ⟨"old", "old", 443⟩⟩], 3⟩] }
    let d : Dir := ⟨false, [.whc ⟨.mutating, "mutating-webhook-configuration", ["h0.crossplane.io"]⟩]⟩
    (run sem Plan.allOk 0 ((Step.whcs "srv" ⟨"hooks", "xp", 9443⟩ d).prog stdGen 100) s).1.whcs =
      [⟨.mutating, "crossplane", [⟨"h0.crossplane.io", crt, ⟨"hooks", "xp", 9443⟩⟩], 3⟩] := by
  decide

/-- the relies of this section are satisfiable: no interference; a peer that is an initialiser -/
example : PeerUntouches Env.none ∧ PeerUntouches (peerInit stdGen pxSteps 500 1) :=
  ⟨fun _ s => untouched_refl s, peerInit_untouches _ _ _ _⟩

end Xp.C20

import Xp.Proofs.C20Install
import Xp.Gen.C20Init
/-
C20 property theorems: initialisation is idempotent and never duplicates or
clobbers existing state. Statements only; the lemmas live in Xp/Proofs/C20*.lean.

Vocabulary (defined in Model/Proofs):
* `runSteps g steps n d` – Initializer.Init over a step list, `initSteps cfg` – the
  step list of core.initCommand.Run, `g` – the certificate generator parameter,
  `n` – the id of the next generated key pair;
* `reach sem plan k p s` – every store visible at any instant of running `p` from
  `s` under fault plan `plan` (any outcome at any API call); `history g steps runs
  s` – the same over a sequence of runs, each with its own plan;
* `evalOk p s` – the result of a fault-free run.
-/
namespace Xp.C20
open Xp

/-! ### tie to the source -/

/-- The step list of `initSteps` was written from this transcript of core.initCommand.Run; the
right-hand side is regenerated from cmd/crossplane/core/init.go on every run. -/
theorem init_skeleton_matches : initSkeleton = Xp.Gen.c20InitSkeleton := by rfl

/-- initializer.DNSNamesForService, probed on the current tree. -/
theorem dns_names_for_service_matches : dnsNamesForService "svc" "ns" = Xp.Gen.c20DnsProbe := by decide

/-! ### existing TLS material is kept (for every fault plan, over every history of runs) -/

/-- An existing, complete certificate authority is never regenerated: at every instant of every
sequence of runs (each aborted anywhere or not) the CA secret is exactly what it was. -/
theorem ca_kept (g : Generator) (steps : List Step) (runs : List (Plan × Nat)) (s : Store)
    (ca : String) (sec : Secret) (hca : ca ∈ caNames steps)
    (h : findSecret s ca = some sec) (hc : isComplete sec = true) :
    ∀ x ∈ history g steps runs s, findSecret x ca = some sec := by
  intro x hx
  exact kept_history g steps runs s x hx ca sec h (Or.inl hc)

/-- Existing TLS certificates are kept: a secret (other than a CA secret) that holds any of
tls.crt / tls.key / ca.crt is never rewritten. -/
theorem certs_kept (g : Generator) (steps : List Step) (runs : List (Plan × Nat)) (s : Store)
    (name : String) (sec : Secret) (hn : name ∉ caNames steps)
    (h : findSecret s name = some sec) (hm : hasMaterial sec = true) :
    ∀ x ∈ history g steps runs s, findSecret x name = some sec := by
  intro x hx
  refine kept_history g steps runs s x hx name sec h (Or.inr ⟨?_, hm⟩)
  have : sec.name = name := find_name h
  rw [this]; exact hn

/-! ### default objects and foreign fields are left untouched -/

/-- Lock, default StoreConfig and default DeploymentRuntimeConfig that already exist are left
exactly as they are; custom resources are never changed; the fields of packages, CRDs and webhook
configurations that the initializer does not declare survive every run. -/
theorem defaults_untouched (g : Generator) (steps : List Step) (runs : List (Plan × Nat)) (s : Store) :
    ∀ x ∈ history g steps runs s,
      (∀ v, s.lock = some v → x.lock = some v) ∧
      (∀ v, s.sc = some v → x.sc = some v) ∧
      (∀ v, s.drc = some v → x.drc = some v) ∧
      x.crs = s.crs ∧
      (∀ k n p, findPkg s k n = some p → ∃ p', findPkg x k n = some p' ∧ p'.extra = p.extra) ∧
      (∀ n c, findCrd s n = some c → ∃ c', findCrd x n = some c' ∧ c'.extra = c.extra) ∧
      (∀ k n w, findWhc s k n = some w → ∃ w', findWhc x k n = some w' ∧ w'.extra = w.extra) :=
  untouched_history g steps runs s

/-! ### packages -/

/-- The repaired lookup: an image whose source is installed (under any object name) resolves to
the name of an installed package with that source. -/
theorem requested_image_resolves_to_installed_name (pl : List Pkg) (r : Ref)
    (h : ∃ q ∈ pl, ∃ r', q.ref = some r' ∧ r'.src = r.src) :
    ∃ q ∈ pl, (∃ r', q.ref = some r' ∧ r'.src = r.src) ∧ resolve (buildIndex pl) r = q.name :=
  resolve_hits pl r h

/-- A requested image whose source is already installed is never installed a second time: at every
instant of the installer step, under every fault plan, every package whose source was installed
at the start carries the name of a package that existed at the start. -/
theorem no_second_package (plan : Plan) (k : Nat) (s : Store) (p c f : List Img) :
    ∀ x ∈ reach sem plan k (installStep p c f) s,
      ∀ q ∈ x.pkgs, ∀ r, q.ref = some r →
        (∃ q' ∈ s.pkgs, q'.kind = q.kind ∧ ∃ r', q'.ref = some r' ∧ r'.src = r.src) →
        ∃ q0 ∈ s.pkgs, q0.kind = q.kind ∧ q0.name = q.name :=
  installStep_noSecond plan k s p c f

/-- D9 (installer.go at the pinned commit): the index is keyed by the parsed source but looked up
by the repository only, so a host-qualified image installed under a custom name is installed a
second time. Witness: provider `my-aws` = xpkg.upbound.io/crossplane/provider-aws:v1.0.0, request
xpkg.upbound.io/crossplane/provider-aws:v1.1.0. -/
theorem no_second_package_fails_on_unfixed_witness :
    let r0 : Ref := ⟨"xpkg.upbound.io", "crossplane/provider-aws", "v1.0.0", false,
      "xpkg.upbound.io/crossplane/provider-aws:v1.0.0", "xpkg.upbound.io/crossplane/provider-aws"⟩
    let r1 : Ref := ⟨"xpkg.upbound.io", "crossplane/provider-aws", "v1.1.0", false,
      "xpkg.upbound.io/crossplane/provider-aws:v1.1.0", "xpkg.upbound.io/crossplane/provider-aws"⟩
    let s : Store := ⟨[], [⟨.provider, "my-aws", r0.str, some r0, 3⟩], [], [], [], none, none, none⟩
    let x := (evalOk (installStepDefective [⟨r1.str, some r1⟩] [] []) s).1
    ¬ (∀ q ∈ x.pkgs, ∀ r, q.ref = some r →
        (∃ q' ∈ s.pkgs, q'.kind = q.kind ∧ ∃ r', q'.ref = some r' ∧ r'.src = r.src) →
        ∃ q0 ∈ s.pkgs, q0.kind = q.kind ∧ q0.name = q.name) := by
  intro r0 r1 s x h
  have hx : x.pkgs = [⟨.provider, "my-aws", r0.str, some r0, 3⟩,
      ⟨.provider, "crossplane-provider-aws", r1.str, some r1, 0⟩] := by decide
  have := h ⟨.provider, "crossplane-provider-aws", r1.str, some r1, 0⟩ (by rw [hx]; simp) r1 rfl
    ⟨⟨.provider, "my-aws", r0.str, some r0, 3⟩, by simp [s], rfl, r0, rfl, rfl⟩
  obtain ⟨q0, hq0, _, hn⟩ := this
  simp [s] at hq0
  subst hq0
  simp at hn

/-! ### non-vacuity -/

/-- the repaired installer on the D9 witness updates `my-aws` in place -/
example :
    let r0 : Ref := ⟨"xpkg.upbound.io", "crossplane/provider-aws", "v1.0.0", false,
      "xpkg.upbound.io/crossplane/provider-aws:v1.0.0", "xpkg.upbound.io/crossplane/provider-aws"⟩
    let r1 : Ref := ⟨"xpkg.upbound.io", "crossplane/provider-aws", "v1.1.0", false,
      "xpkg.upbound.io/crossplane/provider-aws:v1.1.0", "xpkg.upbound.io/crossplane/provider-aws"⟩
    let s : Store := ⟨[], [⟨.provider, "my-aws", r0.str, some r0, 3⟩], [], [], [], none, none, none⟩
    (evalOk (installStep [⟨r1.str, some r1⟩] [] []) s).1.pkgs = [⟨.provider, "my-aws", r1.str, some r1, 3⟩] := by
  decide

end Xp.C20

import Xp.Proofs.C20Ex
import Xp.Gen.C20Init
/-
C20 property theorems: initialisation is idempotent and never duplicates or
clobbers existing state. Statements only; the lemmas live in Xp/Proofs/C20*.lean.

Vocabulary (defined in Model/Proofs):
* `runSteps g steps n d` – Initializer.Init over a step list, `initSteps cfg` – the
  step list of core.initCommand.Run, `g` – the certificate generator parameter,
  `n` – the id of the next generated key pair;
* `reach sem plan k p s` – every store visible at any instant of running `p` from
  `s` under fault plan `plan` (any outcome at any API call); `history g steps runs
  s` – the same over a sequence of runs, each with its own plan;
* `evalOk p s` – the result of a fault-free run.
-/
namespace Xp.C20
open Xp

/-! ### tie to the source -/

/-- The step list of `initSteps` was written from this transcript of core.initCommand.Run; the
right-hand side is regenerated from cmd/crossplane/core/init.go on every run. -/
theorem init_skeleton_matches : initSkeleton = Xp.Gen.c20InitSkeleton := by rfl

/-- initializer.DNSNamesForService, probed on the current tree. -/
theorem dns_names_for_service_matches : dnsNamesForService "svc" "ns" = Xp.Gen.c20DnsProbe := by decide

/-! ### existing TLS material is kept (for every fault plan, over every history of runs) -/

/-- An existing, complete certificate authority is never regenerated: at every instant of every
sequence of runs (each aborted anywhere or not) the CA secret – any secret holding both tls.crt and
tls.key – is exactly what it was. -/
theorem ca_kept (g : Generator) (steps : List Step) (runs : List (Plan × Nat)) (s : Store)
    (ca : String) (sec : Secret) (h : findSecret s ca = some sec) (hc : isComplete sec = true) :
    ∀ x ∈ history g steps runs s, findSecret x ca = some sec := by
  intro x hx
  exact kept_history g steps runs s x hx ca sec h (Or.inl hc)

/-- Existing TLS certificates are kept: a secret (other than a CA secret) that holds any of
tls.crt / tls.key / ca.crt is never rewritten. -/
theorem certs_kept (g : Generator) (steps : List Step) (runs : List (Plan × Nat)) (s : Store)
    (name : String) (sec : Secret) (hn : name ∉ caNames steps)
    (h : findSecret s name = some sec) (hm : hasMaterial sec = true) :
    ∀ x ∈ history g steps runs s, findSecret x name = some sec := by
  intro x hx
  refine kept_history g steps runs s x hx name sec h (Or.inr ⟨?_, hm⟩)
  have : sec.name = name := find_name h
  rw [this]; exact hn

/-! ### default objects and foreign fields are left untouched -/

/-- Lock, default StoreConfig and default DeploymentRuntimeConfig that already exist are left
exactly as they are; custom resources are never changed; the fields of packages, CRDs and webhook
configurations that the initializer does not declare survive every run. -/
theorem defaults_untouched (g : Generator) (steps : List Step) (runs : List (Plan × Nat)) (s : Store) :
    ∀ x ∈ history g steps runs s,
      (∀ v, s.lock = some v → x.lock = some v) ∧
      (∀ v, s.sc = some v → x.sc = some v) ∧
      (∀ v, s.drc = some v → x.drc = some v) ∧
      x.crs = s.crs ∧
      (∀ k n p, findPkg s k n = some p → ∃ p', findPkg x k n = some p' ∧ p'.extra = p.extra) ∧
      (∀ n c, findCrd s n = some c → ∃ c', findCrd x n = some c' ∧ c'.extra = c.extra) ∧
      (∀ k n w, findWhc s k n = some w → ∃ w', findWhc x k n = some w' ∧ w'.extra = w.extra) :=
  untouched_history g steps runs s

/-! ### packages -/

/-- The repaired lookup: an image whose source is installed (under any object name) resolves to
the name of an installed package with that source. -/
theorem requested_image_resolves_to_installed_name (pl : List Pkg) (r : Ref)
    (h : ∃ q ∈ pl, ∃ r', q.ref = some r' ∧ r'.src = r.src) :
    ∃ q ∈ pl, (∃ r', q.ref = some r' ∧ r'.src = r.src) ∧ resolve (buildIndex pl) r = q.name :=
  resolve_hits pl r h

/-- A requested image whose source is already installed is never installed a second time: at every
instant of the installer step, under every fault plan, every package whose source was installed
at the start carries the name of a package that existed at the start. -/
theorem no_second_package (plan : Plan) (k : Nat) (s : Store) (p c f : List Img) :
    ∀ x ∈ reach sem plan k (installStep p c f) s,
      ∀ q ∈ x.pkgs, ∀ r, q.ref = some r →
        (∃ q' ∈ s.pkgs, q'.kind = q.kind ∧ ∃ r', q'.ref = some r' ∧ r'.src = r.src) →
        ∃ q0 ∈ s.pkgs, q0.kind = q.kind ∧ q0.name = q.name :=
  installStep_noSecond plan k s p c f

/-- D9 (installer.go at the pinned commit): the index is keyed by the parsed source but looked up
by the repository only, so a host-qualified image installed under a custom name is installed a
second time. Witness: provider `my-aws` = xpkg.upbound.io/crossplane/provider-aws:v1.0.0, request
xpkg.upbound.io/crossplane/provider-aws:v1.1.0. -/
theorem no_second_package_fails_on_unfixed_witness :
    let r0 : Ref := ⟨"xpkg.upbound.io", "crossplane/provider-aws", "v1.0.0", false,
      "xpkg.upbound.io/crossplane/provider-aws:v1.0.0", "xpkg.upbound.io/crossplane/provider-aws"⟩
    let r1 : Ref := ⟨"xpkg.upbound.io", "crossplane/provider-aws", "v1.1.0", false,
      "xpkg.upbound.io/crossplane/provider-aws:v1.1.0", "xpkg.upbound.io/crossplane/provider-aws"⟩
    let s : Store := ⟨[], [⟨.provider, "my-aws", r0.str, some r0, 3⟩], [], [], [], none, none, none⟩
    let x := (evalOk (installStepDefective [⟨r1.str, some r1⟩] [] []) s).1
    ¬ (∀ q ∈ x.pkgs, ∀ r, q.ref = some r →
        (∃ q' ∈ s.pkgs, q'.kind = q.kind ∧ ∃ r', q'.ref = some r' ∧ r'.src = r.src) →
        ∃ q0 ∈ s.pkgs, q0.kind = q.kind ∧ q0.name = q.name) := by
  intro r0 r1 s x h
  have hx : x.pkgs = [⟨.provider, "my-aws", r0.str, some r0, 3⟩,
      ⟨.provider, "crossplane-provider-aws", r1.str, some r1, 0⟩] := by decide
  have := h ⟨.provider, "crossplane-provider-aws", r1.str, some r1, 0⟩ (by rw [hx]; simp) r1 rfl
    ⟨⟨.provider, "my-aws", r0.str, some r0, 3⟩, by simp [s], rfl, r0, rfl, rfl⟩
  obtain ⟨q0, hq0, _, hn⟩ := this
  simp [s] at hq0
  subst hq0
  simp at hn

/-! ### newly issued certificates chain to the stored CA and cover the DNS names -/

/-- Newly issued certificates chain to the stored authority: whenever a TLS secret (other than the
CA secret) differs from what it was at the start – at any instant of any sequence of runs, each
under any fault plan – it holds a certificate signed by the key pair of the certificate stored,
complete, in the CA secret, its private key, and that very CA certificate as ca.crt.
(`g.Sound`: the generator signs with the signer it is given; x509 itself is checked by test only.) -/
theorem new_certs_chain_to_stored_ca (g : Generator) (hg : g.Sound) (steps : List Step) (ca : String)
    (hca : ∀ c ∈ caNames steps, c = ca) (runs : List (Plan × Nat)) (s : Store) :
    ∀ x ∈ history g steps runs s, ∀ name, name ≠ ca → findSecret x name ≠ findSecret s name →
      ∃ sec C l c, findSecret x ca = some sec ∧ isComplete sec = true ∧ sec.crt = .cert C ∧
        findSecret x name = some l ∧ l.crt = .cert c ∧ l.key = .key c.kp ∧ l.ca = .cert C ∧ c.signedBy = C.kp := by
  intro x hx name hn hne
  obtain ⟨sec, C, l, c, _, h1, h2, h3, h4, h5, h6, h7, h8, _⟩ := issued_history g hg steps ca hca runs s x hx name hn hne
  exact ⟨sec, C, l, c, h1, h2, h3, h4, h5, h6, h7, h8⟩

/-- ... and cover the service's DNS names: the certificate of such a secret carries exactly the DNS
names some TLS step of the list configures for that secret. -/
theorem dns_covered (g : Generator) (hg : g.Sound) (steps : List Step) (ca : String)
    (hca : ∀ c ∈ caNames steps, c = ca) (runs : List (Plan × Nat)) (s : Store) :
    ∀ x ∈ history g steps runs s, ∀ name, name ≠ ca → findSecret x name ≠ findSecret s name →
      ∃ l c ref, findSecret x name = some l ∧ l.crt = .cert c ∧ ref ∈ leafRefs steps ∧ ref.name = name ∧ c.dns = ref.dns := by
  intro x hx name hn hne
  obtain ⟨_, _, l, c, ref, _, _, _, h4, h5, _, _, _, h9, h10, h11⟩ := issued_history g hg steps ca hca runs s x hx name hn hne
  exact ⟨l, c, ref, h4, h5, h9, h10, h11⟩

/-- For the step list of core.initCommand.Run the CA is `cfg.ca` and the webhook server certificate is
issued for DNSNamesForService(service, namespace). -/
theorem init_tls_names (cfg : Cfg) :
    (∀ c ∈ caNames (initSteps cfg), c = cfg.ca) ∧
    (∀ ref ∈ leafRefs (initSteps cfg), ref.name = cfg.server → cfg.server ≠ cfg.client → cfg.server ≠ cfg.ess →
      ref.dns = dnsNamesForService cfg.svcName cfg.svcNs) := by
  unfold initSteps
  cases hw : cfg.webhook <;> by_cases he : cfg.ess = "" <;>
    simp [hw, he, migrators, caNames, leafRefs, optRefs] <;> (try intro ref h) <;>
    (try rcases h with rfl | rfl | rfl) <;> simp_all

/-! ### idempotence -/

/-- Every step is idempotent: after a completed run of the step, running it again (with any nonce)
returns success, generates nothing (the nonce comes back unchanged) and leaves the store exactly
as it is at every instant – no write changes anything.
(`StepHyp`: a CRD / webhook directory declares every object once; the requested packages are
pairwise distinct and not already installed twice.) -/
theorem step_idempotent (g : Generator) (st : Step) (s t : Store) (n n' : Nat) (hyp : StepHyp st s)
    (h : run sem Plan.allOk 0 (st.prog g n) s = (t, some (Res.ok, n'))) :
    ∀ m, run sem Plan.allOk 0 (st.prog g m) t = (t, some (Res.ok, m)) ∧
         ∀ x ∈ reach sem Plan.allOk 0 (st.prog g m) t, x = t := by
  rw [run_allOk] at h
  have h' : evalOk (st.prog g n) s = (t, (Res.ok, n')) := by
    simp only [Prod.mk.injEq, Option.some.injEq] at h
    exact Prod.ext h.1 h.2
  intro m
  obtain ⟨f1, f2⟩ := step_fix g m st t (step_establishes g n n' st s t hyp h')
  rw [run_allOk, reach_allOk, f1]
  exact ⟨rfl, f2⟩

/-- Initialisation is idempotent: after a completed run of Crossplane's initialisation (from ANY
cluster state) a second run yields the same store, completes, generates no certificate, and no
write of it changes anything at any instant. -/
theorem init_idempotent (g : Generator) (cfg : Cfg) (s t : Store) (n n' d : Nat) (hyp : InitHyp cfg s)
    (h : run sem Plan.allOk 0 (initProg g cfg n) s = (t, some (Res.ok, n', d))) :
    ∀ m, run sem Plan.allOk 0 (initProg g cfg m) t = (t, some (Res.ok, m, d)) ∧
         ∀ x ∈ reach sem Plan.allOk 0 (initProg g cfg m) t, x = t := by
  rw [run_allOk] at h
  have h' : evalOk (initProg g cfg n) s = (t, (Res.ok, n', d)) := by
    simp only [Prod.mk.injEq, Option.some.injEq] at h
    exact Prod.ext h.1 h.2
  obtain ⟨hd, hlen⟩ := init_done g cfg s t n n' d hyp h'
  intro m
  obtain ⟨f1, f2⟩ := runSteps_fix g (initSteps cfg) t hd m 0
  rw [run_allOk, reach_allOk]
  unfold initProg
  rw [f1]
  exact ⟨by simp [hlen], f2⟩

/-- The post-condition of a completed step survives every later step that is `okAfter` it (all
pairs of core.initCommand.Run are), at every instant and under every fault plan: an error, a
conflict or a crash of a later step never destroys what an earlier step established. -/
theorem completed_steps_stay_done (g : Generator) (n : Nat) (a b : Step) (h : okAfter a b = true)
    (plan : Plan) (k : Nat) (s : Store) (hd : StepDone a s) :
    ∀ x ∈ reach sem plan k (b.prog g n) s, StepDone a x :=
  done_stable g n a b h plan k s hd

/-- The hypotheses of idempotence are themselves stable: they hold at every instant of every
(aborted) initialisation run of a cluster that satisfies them – a crash in the middle of the package
installer never leaves a store in which the requested images collide or a source is installed twice. -/
theorem hypotheses_survive_any_abort (g : Generator) (cfg : Cfg) (plan : Plan) (n : Nat) (s : Store) (hyp : InitHyp cfg s) :
    ∀ x ∈ reach sem plan 0 (initProg g cfg n) s, InitHyp cfg x :=
  initHyp_reach g cfg plan 0 n 0 s hyp

/-- Crash, then re-run: let a run be aborted anywhere (any outcome at any API call: error, conflict,
crash before or after the call took effect) and let a fault-free run from the store it left behind
complete. Then that run reaches the same post-condition as an undisturbed initialisation – every
step's `StepDone` – which is a fixpoint of the initialisation; existing TLS material of the original
cluster is still in place, and defaults / foreign fields are untouched.
(That the re-run completes whenever the undisturbed run would is checked by monitor only.) -/
theorem crash_then_rerun (g : Generator) (cfg : Cfg) (s : Store) (plan : Plan) (n m m' d : Nat) (t : Store)
    (hyp : InitHyp cfg s)
    (h : run sem Plan.allOk 0 (initProg g cfg m) (run sem plan 0 (initProg g cfg n) s).1 = (t, some (Res.ok, m', d))) :
    (∀ a ∈ initSteps cfg, StepDone a t) ∧
    (∀ k, run sem Plan.allOk 0 (initProg g cfg k) t = (t, some (Res.ok, k, d))) ∧
    KeptFrom (caNames (initSteps cfg)) s t ∧ Untouched s t := by
  have hyp' : InitHyp cfg (run sem plan 0 (initProg g cfg n) s).1 :=
    initHyp_reach g cfg plan 0 n 0 s hyp _ (run_mem_reach sem plan 0 _ s)
  have hmem : t ∈ history g (initSteps cfg) [(plan, n), (Plan.allOk, m)] s := by
    simp only [history, List.mem_append, List.mem_singleton]
    right; left
    have := run_mem_reach sem Plan.allOk 0 (initProg g cfg m) (run sem plan 0 (initProg g cfg n) s).1
    rw [h] at this
    exact this
  have h0 := h
  rw [run_allOk] at h0
  have h' : evalOk (initProg g cfg m) (run sem plan 0 (initProg g cfg n) s).1 = (t, (Res.ok, m', d)) := by
    simp only [Prod.mk.injEq, Option.some.injEq] at h0
    exact Prod.ext h0.1 h0.2
  obtain ⟨hd, _⟩ := init_done g cfg _ t m m' d hyp' h'
  exact ⟨hd, fun k => (init_idempotent g cfg _ t m m' d hyp' h k).1,
    kept_history g (initSteps cfg) _ s t hmem, untouched_history g (initSteps cfg) _ s t hmem⟩

/-! ### the CA bundle -/

/-- Core CRDs and webhook configurations end up carrying the current CA bundle: after a completed
initialisation with webhooks enabled the webhook TLS secret holds a non-empty tls.crt, every declared
CRD with webhook conversion carries it as caBundle, and every declared webhook configuration (that
declares webhooks) consists of exactly its declared webhooks, each with that bundle and the
configured service. -/
theorem ca_bundle_injected (g : Generator) (cfg : Cfg) (s t : Store) (n n' d : Nat) (hyp : InitHyp cfg s)
    (hw : cfg.webhook = true)
    (h : run sem Plan.allOk 0 (initProg g cfg n) s = (t, some (Res.ok, n', d))) :
    ∃ sec, findSecret t cfg.server = some sec ∧ sec.crt ≠ .empty ∧
      (∀ f, FileObj.crd f ∈ cfg.crdDir.objs → f.conv = true →
        ∃ c, findCrd t f.name = some c ∧ c.conv = true ∧ c.bundle = sec.crt) ∧
      (∀ f, FileObj.whc f ∈ cfg.whcDir.objs → f.hooks ≠ [] →
        ∃ w, findWhc t f.kind (whcName f) = some w ∧
          w.hooks = desiredHooks f sec.crt ⟨cfg.svcName, cfg.svcNs, cfg.svcPort⟩) := by
  rw [run_allOk] at h
  have h' : evalOk (initProg g cfg n) s = (t, (Res.ok, n', d)) := by
    simp only [Prod.mk.injEq, Option.some.injEq] at h
    exact Prod.ext h.1 h.2
  obtain ⟨hd, _⟩ := init_done g cfg s t n n' d hyp h'
  have hc : StepDone (.crds (some cfg.server) cfg.crdDir) t := hd _ (by simp [initSteps, hw])
  have hwh : StepDone (.whcs cfg.server ⟨cfg.svcName, cfg.svcNs, cfg.svcPort⟩ cfg.whcDir) t := hd _ (by simp [initSteps, hw])
  obtain ⟨cb, ⟨sec, hs, hcrt, hne⟩, _, hobjs⟩ := hc
  obtain ⟨cb', ⟨sec', hs', hcrt', _⟩, _, hobjs'⟩ := hwh
  rw [hs] at hs'; cases hs'
  refine ⟨sec, hs, hcrt ▸ hne, ?_, ?_⟩
  · intro f hf hconv
    obtain ⟨f', e, _, hfix⟩ := hobjs _ hf
    cases e
    rw [hcrt]
    exact crdFix_injected hfix hconv
  · intro f hf hh
    obtain ⟨f', e, hfix⟩ := hobjs' _ hf
    cases e
    rw [hcrt']
    exact whcFix_injected hfix hh

/-! ### non-vacuity -/

/-- the repaired installer on the D9 witness updates `my-aws` in place -/
example :
    let r0 : Ref := ⟨"xpkg.upbound.io", "crossplane/provider-aws", "v1.0.0", false,
      "xpkg.upbound.io/crossplane/provider-aws:v1.0.0", "xpkg.upbound.io/crossplane/provider-aws"⟩
    let r1 : Ref := ⟨"xpkg.upbound.io", "crossplane/provider-aws", "v1.1.0", false,
      "xpkg.upbound.io/crossplane/provider-aws:v1.1.0", "xpkg.upbound.io/crossplane/provider-aws"⟩
    let s : Store := ⟨[], [⟨.provider, "my-aws", r0.str, some r0, 3⟩], [], [], [], none, none, none⟩
    (evalOk (installStep [⟨r1.str, some r1⟩] [] []) s).1.pkgs = [⟨.provider, "my-aws", r1.str, some r1, 3⟩] := by
  decide


/-- the generator used to replay real runs satisfies the soundness assumption -/
example : stdGen.Sound := by
  refine ⟨?_, ?_, ?_⟩
  · intro dns ca sg n kp c h
    cases sg with
    | none => simp [stdGen] at h; obtain ⟨rfl, rfl⟩ := h; exact ⟨rfl, rfl, rfl⟩
    | some sg =>
      simp only [stdGen] at h
      split at h
      · simp at h; obtain ⟨rfl, rfl⟩ := h; exact ⟨rfl, rfl, rfl⟩
      · cases h
  · intro dns ca n kp c h
    simp [stdGen] at h; obtain ⟨rfl, rfl⟩ := h; rfl
  · intro dns ca sg n kp c h
    simp only [stdGen] at h
    split at h
    · rename_i hk
      simp at h; obtain ⟨rfl, rfl⟩ := h; exact ⟨rfl, hk⟩
    · cases h

/-- `exCfg` / `exStore` (Proofs/C20Ex.lean): webhooks on, one CRD with webhook conversion, two webhook
configurations, a host-qualified provider already installed under a custom name, a partially initialised
cluster. The hypotheses of `init_idempotent` / `ca_bundle_injected` hold for it and the run completes. -/
example : (run sem Plan.allOk 0 (initProg stdGen exCfg 100) exStore).2.map (·.1) = some Res.ok := by decide

example : InitHyp exCfg exStore := by
  refine ⟨fun _ => by decide, by decide, by decide, ?_, ?_, ?_, ?_⟩
  · intro l hl
    have : buildAll resolve (buildIndex (listing exStore .provider)) exCfg.p = some [("my-aws", ⟨"xpkg.upbound.io", "crossplane/provider-aws", "v1.1.0", false,
      "xpkg.upbound.io/crossplane/provider-aws:v1.1.0", "xpkg.upbound.io/crossplane/provider-aws"⟩)] := by decide
    rw [this] at hl; cases hl; decide
  · intro l hl
    have : buildAll resolve (buildIndex (listing exStore .configuration)) exCfg.c = some [] := by decide
    rw [this] at hl; cases hl; decide
  · intro l hl
    have : buildAll resolve (buildIndex (listing exStore .function)) exCfg.f = some [] := by decide
    rw [this] at hl; cases hl; decide
  · intro q hq q' hq' _ _ _ _
    simp [exStore] at hq hq'
    rw [hq, hq']

/-- ... it updates `my-aws` in place, keeps the CA, issues a server certificate chained to it with the
service's DNS names, and a run crashed after its 8th API call and then repeated completes with the
same packages, CRDs and webhook configurations -/
example :
    let t := (run sem Plan.allOk 0 (initProg stdGen exCfg 100) exStore).1
    let r := run sem Plan.allOk 0 (initProg stdGen exCfg 200) (run sem (Plan.at 7 .crashAfter) 0 (initProg stdGen exCfg 100) exStore).1
    t.pkgs.map (fun p => (p.name, p.raw, p.extra)) = [("my-aws", "xpkg.upbound.io/crossplane/provider-aws:v1.1.0", 3)] ∧
    findSecret t "crossplane-root-ca" = findSecret exStore "crossplane-root-ca" ∧
    (findSecret t "crossplane-tls-server").map (·.crt) = some (.cert ⟨100, 1, ["crossplane-webhooks", "crossplane-webhooks.crossplane-system", "crossplane-webhooks.crossplane-system.svc"], false⟩) ∧
    r.2.map (·.1) = some Res.ok ∧ r.1.pkgs = t.pkgs ∧ r.1.crds = t.crds ∧ r.1.whcs.map (·.name) = t.whcs.map (·.name) := by
  decide

end Xp.C20

import Xp.Model.C20
import Xp.Gen.C20Init
/-
C20 property theorems (work in progress: the remaining theorems are added below).
-/
namespace Xp.C20

/-- The step list of `initSteps` was written from this transcript of core.initCommand.Run; the
right-hand side is regenerated from cmd/crossplane/core/init.go on every run. -/
theorem init_skeleton_matches : initSkeleton = Xp.Gen.c20InitSkeleton := by rfl

/-- initializer.DNSNamesForService, probed on the current tree. -/
theorem dns_names_for_service_matches : dnsNamesForService "svc" "ns" = Xp.Gen.c20DnsProbe := by decide

end Xp.C20

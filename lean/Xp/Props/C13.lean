import Xp.Proofs.C13i
import Xp.Proofs.C13j
import Xp.Model.C13Skel
import Xp.Gen.C13
import Xp.Gen.C13Skel
/-
C13 — dynamic controllers and watches stay consistent under any interleaving.

All theorems quantify over every list of engine calls `ops` (any number of goroutines, any
controllers, any kinds, any watch lists, any XR reference sets) and every state `s` with
`Reachable Cfg.fixed ops s`, i.e. every interleaving of the calls at lock granularity, every
fault of the calls that leave the engine, and every Go map iteration order.
Kinds (`Wid.gvk`, the XRs' references, `removeInformer`) and controller names are opaque
numbers: the harness maps every (group, version, kind) triple — also look-alikes that differ in
the version, the API group, the case or by a suffix only — and every controller name to its own
number, so "the same kind" below always means the same group, version AND kind. Every step's
`Choice` carries the class of the error a failing call returns (`error_class_irrelevant`).
A collector call is a thread of its own with the XRs ITS List returned: the theorems about the
collector hold for each call whatever earlier calls of the same (long-lived) collector saw.
`Cfg.fixed` is the tree with fixes/D2.diff, fixes/D3.diff and fixes/D12.diff applied; the
`…_fails_on_unfixed_witness` theorems exhibit, on `Cfg.asFound` (the pinned commit), a
reachable state that breaks the clause.  Data races in the sense of the Go memory model are
outside this model (they are about unsynchronised memory accesses, the model has only the
lock protocol): `writes_hold_locks` is the lock-discipline half of "does not race".
-/
namespace Xp.C13

/-! ### the generated constants the harness maps to the model's watch types -/

theorem watch_type_table :
    Xp.Gen.c13WatchTypes = ["claim=Claim", "composed=ComposedResource", "rev=CompositionRevision", "xr=CompositeResource"] ∧
    Xp.Gen.c13ComposedWatchType = "ComposedResource" := by decide

/-! ### no deadlock, lock order -/

/-- Mutual exclusion: at no time do two goroutines hold conflicting locks
(`e.mx` or the same controller's `c.mx`, one of them for writing). -/
theorem mutual_exclusion {cfg : Cfg} {ops : List Op} {s : Sys} (h : Reachable cfg ops s)
    {i j : Nat} {ti tj : Thread} (hij : i ≠ j) (hi : s.threads[i]? = some ti) (hj : s.threads[j]? = some tj) :
    ti.pc.held.compat tj.pc.held = true :=
  Mutex_reachable h i j ti tj hij hi hj

/-- No deadlock: in every reachable state in which some call has not returned, some
goroutine can take a step (both code variants). -/
theorem no_deadlock {cfg : Cfg} {ops : List Op} {s : Sys} (h : Reachable cfg ops s)
    (hunfinished : ∃ (i : Nat) (t : Thread), s.threads[i]? = some t ∧ ¬ t.finished) :
    ∃ i ch s', step cfg s i ch = some s' :=
  progress_of_mutex (Mutex_reachable h) hunfinished

/-- Lock order `e.mx ≺ c.mx`: a goroutine that holds a controller's lock never waits. -/
theorem controller_lock_holder_never_waits {cfg : Cfg} {s : Sys} {i : Nat} {t : Thread}
    (hc : t.pc.held.c ≠ none) : ∃ ch r, next cfg s i t ch = some r :=
  ctl_lock_holder_can_step hc

/-- A goroutine that holds a read lock never waits; hence Go's writer preference (a pending
writer blocks new readers), which the model's plain reader/writer lock omits, cannot
introduce a deadlock. -/
theorem read_sections_never_wait {cfg : Cfg} {s : Sys} {i : Nat} {t : Thread}
    (hr : t.pc.held.e = .r ∨ ∃ cid, t.pc.held.c = some (cid, .r)) : ∃ ch r, next cfg s i t ch = some r :=
  reader_can_step hr

/-- Lock discipline of writes: a step that changes `e.controllers` is taken holding `e.mx`
for writing; a step that changes a controller's sources or stopped flag, or registers a
handler for it, is taken holding that controller's `c.mx` for writing. -/
theorem writes_hold_locks {cfg : Cfg} {s s' : Sys} {i : Nat} {ch : Choice} {t : Thread}
    (ht : s.threads[i]? = some t) (h : step cfg s i ch = some s') :
    (s'.ctrls ≠ s.ctrls → t.pc.held.e = .w) ∧
    (∀ cid, (srcsOf s' cid ≠ srcsOf s cid ∨ stoppedOf s' cid ≠ stoppedOf s cid ∨
        ∃ r ∈ s'.regs, r.cid = cid ∧ r ∉ s.regs) → t.pc.held.c = some (cid, .w)) := by
  obtain ⟨t', pc', act, ht', hn, hs⟩ := step_unpack h
  rw [ht] at ht'; cases ht'
  subst hs
  exact act_frame hn _

/-! ### IsRunning -/

/-- `IsRunning n` answers `true` exactly when the last acknowledged `Start n`/`Stop n` before
it (in the linearisation order given by `e.mx`) is a `Start`: for every IsRunning answer in
the history, whatever happened before and after. -/
theorem running_iff {cfg : Cfg} {ops : List Op} {s : Sys} (h : Reachable cfg ops s)
    {later earlier : List Ev} {n : Nat} {b : Bool} (hlog : s.log = later ++ .isRunning n b :: earlier) :
    b = runningPer earlier n := by
  have := (RunInv_reachable h).log
  rw [hlog] at this
  exact LogOk_split this

/-- and the engine's map agrees with that history at every instant -/
theorem controllers_map_iff_history {cfg : Cfg} {ops : List Op} {s : Sys} (h : Reachable cfg ops s) (n : Nat) :
    (aget n s.ctrls).isSome = runningPer s.log n :=
  (RunInv_reachable h).map n

/-! ### one live watch, no orphan -/

/-- At most one live handler registration per controller object, watch type and kind. -/
theorem one_live_watch {ops : List Op} {s : Sys} (h : Reachable Cfg.fixed ops s)
    {r1 r2 : Reg} (h1 : r1 ∈ s.regs) (h2 : r2 ∈ s.regs) (hc : r1.cid = r2.cid) (hw : r1.wid = r2.wid) : r1 = r2 := by
  have hinv := Inv_reachable h
  have o1 := hinv.own r1 h1
  have o2 := hinv.own r2 h2
  rw [hc, hw, o2] at o1
  exact hinv.regUniq r1 h1 r2 h2 (Option.some.inj o1).symm

/-- Every live registration is the one recorded in its controller's `sources` (what
`GetWatches` reports and what `Stop`/`StopWatches` will remove): no orphaned handler. -/
theorem live_registrations_are_recorded {ops : List Op} {s : Sys} (h : Reachable Cfg.fixed ops s)
    {r : Reg} (hr : r ∈ s.regs) : aget r.wid (srcsOf s r.cid) = some r.id ∧ aget r.wid.gvk s.live = some r.gen :=
  ⟨(Inv_reachable h).own r hr, (Inv_reachable h).regLive r hr⟩

/-! ### Stop -/

/-- After `Stop` returned nil for a controller object (the `stopOk` step sets `stopped`): it
is cancelled, has no source, no live handler registration is owned by it, `e.controllers` no
longer maps any name to it — at that moment and at every later state, whatever other
goroutines (including a `StartWatches` that looked the controller up before the stop) do. -/
theorem stop_cleans {ops : List Op} {s : Sys} (h : Reachable Cfg.fixed ops s)
    {cid : Nat} {c : Ctl} (hc : s.objs[cid]? = some c) (hs : c.stopped = true) :
    c.cancelled = true ∧ c.sources = [] ∧ (∀ r ∈ s.regs, r.cid ≠ cid) ∧ (∀ n, aget n s.ctrls ≠ some cid) := by
  have hinv := Inv_reachable h
  obtain ⟨h1, h2, h3⟩ := hinv.stopClean cid c hc hs
  refine ⟨h1, h2, h3, ?_⟩
  intro n hn
  have := (hinv.ctlValid n cid hn).2
  simp only [stoppedOf, hc] at this
  rw [hs] at this
  cases this

/-- a controller is cancelled only by a successful Stop -/
theorem cancelled_only_by_stop {ops : List Op} {s : Sys} (h : Reachable Cfg.fixed ops s)
    {cid : Nat} {c : Ctl} (hc : s.objs[cid]? = some c) : c.cancelled = c.stopped :=
  (Inv_reachable h).cancelStop cid c hc

/-- the name of a running controller refers to a live (not stopped, not cancelled) object -/
theorem running_controller_not_cancelled {ops : List Op} {s : Sys} (h : Reachable Cfg.fixed ops s)
    {n cid : Nat} (hn : aget n s.ctrls = some cid) : ∃ c, s.objs[cid]? = some c ∧ c.cancelled = false := by
  have hinv := Inv_reachable h
  obtain ⟨hv, hst⟩ := hinv.ctlValid n cid hn
  refine ⟨s.objs[cid], List.getElem?_eq_getElem hv, ?_⟩
  have hcs := hinv.cancelStop cid s.objs[cid] (List.getElem?_eq_getElem hv)
  simp only [stoppedOf, List.getElem?_eq_getElem hv] at hst
  rw [hcs, hst]

/-! ### the collector -/

/-- The collector's decision, for EVERY list of XRs its List call can return — XRs that are
being deleted (deletionTimestamp set, finalizer pending), paused, without a composition
reference, not ready, not synced, with no references, with duplicate or malformed references,
with references to several versions of one kind: it asks to stop exactly the running watches
(as GetWatches listed them) of type ComposedResource whose kind none of these XRs references.
An XR references a kind as long as it is listed, whatever state it is in. -/
theorem gc_decision (running : List Wid) (xrs : List XR) (w : Wid) :
    w ∈ gcStop Cfg.fixed running (refsOf xrs) ↔
      w ∈ running ∧ w.ty = .composed ∧ ∀ x ∈ xrs, some w.gvk ∉ x.refs := by
  rw [gcStop_fixed_iff]
  simp only [Collectable, mem_refsOf, not_exists, not_and]

/-- The decision depends on the XRs' references only: two lists of XRs that differ in any of
the other fields (deleting, paused, composition reference, composition REVISION reference, ready,
synced) but carry the same references lead to the same decision (both code variants). In
particular the collector may not take one XR as representative of the others on its revision. -/
theorem gc_decision_ignores_xr_state (cfg : Cfg) (running : List Wid) (xrs xrs' : List XR)
    (h : xrs.map (·.refs) = xrs'.map (·.refs)) :
    gcStop cfg running (refsOf xrs) = gcStop cfg running (refsOf xrs') := by
  simp only [refsOf, h]

/-- XRs that share a composition revision are each inspected: a kind that ANY listed XR references is
kept, wherever in the list that XR stands and whatever an earlier XR on the same revision references
(nothing yet, other kinds). Monitors `C13:gc-stopped-referenced-watch`, `C13:gc-wrong-set`. -/
theorem gc_inspects_every_xr_of_a_revision (running : List Wid) (pre mid post : List XR) (x y : XR) (w : Wid)
    (_hrev : x.rev = y.rev) (href : some w.gvk ∈ y.refs) :
    w ∉ gcStop Cfg.fixed running (refsOf (pre ++ x :: mid ++ y :: post)) ∧
    w ∉ gcStop Cfg.fixed running (refsOf (pre ++ y :: mid ++ x :: post)) := by
  constructor
  · intro hw
    exact ((gc_decision running _ w).1 hw).2.2 y (by simp) href
  · intro hw
    exact ((gc_decision running _ w).1 hw).2.2 y (by simp) href

/-- a new XR without references listed before an XR on the same revision that composes kind 1: the
watch on kind 1 is kept, only the unreferenced kind 2 is stopped -/
example : gcStop Cfg.fixed [⟨.composed, 1⟩, ⟨.composed, 2⟩, ⟨.xr, 9⟩]
    (refsOf [{ deleting := false, paused := false, hasCompositionRef := true, ready := false, synced := true, refs := [], rev := some 1 },
             { deleting := false, paused := false, hasCompositionRef := true, ready := true, synced := true, refs := [some 1], rev := some 1 },
             { deleting := false, paused := false, hasCompositionRef := false, ready := true, synced := true, refs := [none], rev := none }]) =
    [⟨.composed, 2⟩] := by decide

/-- the case the property names: a watch whose kind only a deleting XR references is kept -/
theorem gc_keeps_watch_referenced_by_deleting_xr (running : List Wid) (xrs : List XR) (x : XR) (w : Wid)
    (hx : x ∈ xrs) (_hdel : x.deleting = true) (href : some w.gvk ∈ x.refs) :
    w ∉ gcStop Cfg.fixed running (refsOf xrs) := by
  intro hw
  exact ((gc_decision running xrs w).1 hw).2.2 x hx href

/-- Whatever a step of `GarbageCollectWatchesNow` removes from any controller's sources is a
composed-resource watch on a kind none of the listed XRs (in whatever state) references —
under every interleaving with other calls. -/
theorem gc_only_unreferenced_composed {ops : List Op} {s s' : Sys} (h : Reachable Cfg.fixed ops s)
    {i : Nat} {ch : Choice} {t : Thread} {n : Nat} {xrs : List XR}
    (ht : s.threads[i]? = some t) (hop : t.op = .gc n xrs) (hstep : step Cfg.fixed s i ch = some s')
    {cid : Nat} {w : Wid} {reg : Nat}
    (hbefore : aget w (srcsOf s cid) = some reg) (hafter : aget w (srcsOf s' cid) = none) :
    w.ty = .composed ∧ ∀ x ∈ xrs, some w.gvk ∉ x.refs := by
  have hc := gc_step_removes_collectable (GcInv_reachable h) ht hop hstep cid w reg hbefore hafter
  refine ⟨hc.1, ?_⟩
  intro x hx href
  exact hc.2 ((mem_refsOf xrs w.gvk).2 ⟨x, hx, href⟩)

/-- in particular it never stops the watch on the XRs or on composition revisions -/
theorem gc_never_stops_xr_or_revision_watch {ops : List Op} {s s' : Sys} (h : Reachable Cfg.fixed ops s)
    {i : Nat} {ch : Choice} {t : Thread} {n : Nat} {xrs : List XR}
    (ht : s.threads[i]? = some t) (hop : t.op = .gc n xrs) (hstep : step Cfg.fixed s i ch = some s')
    {cid : Nat} {w : Wid} {reg : Nat} (hw : w.ty = .xr ∨ w.ty = .rev ∨ w.ty = .claim)
    (hbefore : aget w (srcsOf s cid) = some reg) : aget w (srcsOf s' cid) ≠ none := by
  intro hafter
  have := (gc_only_unreferenced_composed h ht hop hstep hbefore hafter).1
  rw [this] at hw
  rcases hw with h | h | h <;> cases h

/-- A collector call acts on the XRs IT listed and on nothing remembered from an earlier call:
kinds that only OTHER lists reference (the XRs an earlier run of the same collector saw, the XRs
of another composite kind, another version / API group / spelling of a kind — every such kind is
a different number) do not keep a watch. A running composed-resource watch whose exact kind none
of the XRs of this call references is in the stop set, whatever else is referenced. -/
theorem gc_reference_to_another_kind_keeps_nothing (running : List Wid) (xrs : List XR) (w : Wid)
    (hrun : w ∈ running) (hty : w.ty = .composed) (hother : ∀ x ∈ xrs, ∀ g, some g ∈ x.refs → g ≠ w.gvk) :
    w ∈ gcStop Cfg.fixed running (refsOf xrs) :=
  (gc_decision running xrs w).2 ⟨hrun, hty, fun x hx href => hother x hx w.gvk href rfl⟩

/-! ### error classes -/

/-- No step looks at the class of the error a failing call returns (NotFound, Conflict,
AlreadyExists, Invalid, Forbidden, TooManyRequests, NoKindMatch, a Temporary() transport error, a
context deadline or cancellation, anything else): every theorem above that says "for every
fault" holds for every fault of every class, and a failing call has the same effect whatever its
class (both code variants). -/
theorem error_class_irrelevant (cfg : Cfg) (s : Sys) (i : Nat) (ch : Choice) (c : ErrClass) :
    step cfg s i { ch with cls := c } = step cfg s i ch := by
  unfold step
  cases s.threads[i]? with
  | none => rfl
  | some t =>
    have : next cfg s i t { ch with cls := c } = next cfg s i t ch := by
      obtain ⟨op, pc⟩ := t
      cases pc <;> first | rfl | (cases op <;> rfl)
    simp only [this]

/-- A collector whose List of the XRs failed — with an error of ANY class, also NotFound or
NoKindMatch ("the XRs' CRD is gone") — has seen no XR and stops nothing: the call ends with that
error and nothing else changes. -/
theorem gc_failed_list_changes_nothing {cfg : Cfg} {s s' : Sys} {i n : Nat} {xrs : List XR} {ch : Choice}
    (ht : s.threads[i]? = some ⟨.gc n xrs, .idle⟩) (hf : ch.fault = true) (h : step cfg s i ch = some s') :
    s' = { s with threads := s.threads.set i ⟨.gc n xrs, .done .err⟩ } := by
  unfold step at h
  rw [ht] at h
  simp only [next, hf, if_true, Option.some.injEq] at h
  exact h.symm

/-! ### restart after informer loss -/

/-- A watch lost with its informer is re-established by the next start request — for a
request that runs without interference: take any reachable state in which a `StartWatches n ws`
call has not begun, controller `n` runs, and no other goroutine holds a lock (others may be
anywhere between their lock sections). Let the call run alone and without faults. It returns
nil, and every requested watch whose kind has no active informer (its informer was removed,
or never existed) — or that has no source yet — then has a live handler registration that is
recorded as the controller's source. (With interference the clause is false: finding D13,
`restart_not_guaranteed_when_informer_shared_witness` below.) -/
theorem restart_after_informer_loss {ops : List Op} {s : Sys} (h : Reachable Cfg.fixed ops s)
    {i n cid : Nat} {ws : List Wid}
    (ht : s.threads[i]? = some ⟨.startWatches n ws, .idle⟩) (hn : aget n s.ctrls = some cid)
    (hquiet : ∀ (j : Nat) (u : Thread), s.threads[j]? = some u → j ≠ i → u.pc.held = ⟨.n, none⟩) :
    ∃ k s', runThread Cfg.fixed s i k = some s' ∧ Reachable Cfg.fixed ops s' ∧
      s'.threads[i]? = some ⟨.startWatches n ws, .done .ok⟩ ∧
      ∀ w ∈ ws, (w.gvk ∉ s.tracked ∨ aget w (srcsOf s cid) = none) →
        ∃ r ∈ s'.regs, r.cid = cid ∧ r.wid = w ∧ aget w.gvk s'.live = some r.gen ∧
          aget w (srcsOf s' cid) = some r.id := by
  have hinv := Inv_reachable h
  obtain ⟨hv, hst⟩ := hinv.ctlValid n cid hn
  obtain ⟨k, s', hrun, hdone, hregs⟩ := sw_alone (s := s) ⟨hquiet, hv, hst⟩ ht hn
  have hr' := reachable_of_runThread h hrun
  refine ⟨k, s', hrun, hr', hdone, ?_⟩
  intro w hw hc
  obtain ⟨r, hr, h1, h2⟩ := hregs w hw (hc.symm)
  have hinv' := Inv_reachable hr'
  refine ⟨r, hr, h1, h2, ?_, ?_⟩
  · rw [← h2]; exact hinv'.regLive r hr
  · rw [← h2, ← h1]; exact hinv'.own r hr

/-! ### the breaks on the pinned commit (negation witnesses) -/

def cW (g : Nat) : Wid := ⟨.composed, g⟩
/-- a live, ready XR referencing the given kinds -/
def xrLive (gs : List Nat) : XR := ⟨false, false, true, true, true, gs.map some, none⟩
def rep (i k : Nat) : List (Nat × Choice) := List.replicate k (i, {})

/-- D2, concurrent form: two StartWatches calls for the same watch; the second takes its
ActiveInformers snapshot while the first is inside GetInformer. -/
def opsD2 : List Op := [.start 0, .startWatches 0 [cW 0], .startWatches 0 [cW 0], .stop 0]
def schedD2 : List (Nat × Choice) := rep 0 3 ++ rep 1 6 ++ rep 2 3 ++ rep 1 3 ++ rep 2 6
def schedD2stop : List (Nat × Choice) := schedD2 ++ rep 3 2 ++ [(3, { pick := cW 0 })] ++ rep 3 5

theorem one_live_watch_fails_on_unfixed_witness :
    ∃ s, Reachable Cfg.asFound opsD2 s ∧
      ∃ r1 ∈ s.regs, ∃ r2 ∈ s.regs, r1.cid = r2.cid ∧ r1.wid = r2.wid ∧ r1 ≠ r2 := by
  have hrun : (runSched Cfg.asFound (init opsD2) schedD2).isSome = true := by decide
  obtain ⟨s, hs⟩ := Option.isSome_iff_exists.1 hrun
  refine ⟨s, reachable_of_runSched .init hs, ?_⟩
  have hregs : (runSched Cfg.asFound (init opsD2) schedD2).map (·.regs) =
      some [⟨1, 0, cW 0, 0⟩, ⟨0, 0, cW 0, 0⟩] := by decide
  rw [hs] at hregs
  simp only [Option.map_some, Option.some.injEq] at hregs
  rw [hregs]
  exact ⟨⟨1, 0, cW 0, 0⟩, by simp, ⟨0, 0, cW 0, 0⟩, by simp, rfl, rfl, by decide⟩

/-- D2 continued: after `Stop` returned nil one registration of the stopped controller survives. -/
theorem stop_cleans_fails_on_unfixed_witness_D2 :
    ∃ s, Reachable Cfg.asFound opsD2 s ∧
      ∃ cid c, s.objs[cid]? = some c ∧ c.stopped = true ∧ ∃ r ∈ s.regs, r.cid = cid := by
  have hrun : (runSched Cfg.asFound (init opsD2) schedD2stop).isSome = true := by decide
  obtain ⟨s, hs⟩ := Option.isSome_iff_exists.1 hrun
  refine ⟨s, reachable_of_runSched .init hs, 0, ⟨0, [], true, true⟩, ?_⟩
  have hst : (runSched Cfg.asFound (init opsD2) schedD2stop).map (fun s => (s.objs, s.regs)) =
      some ([⟨0, [], true, true⟩], [⟨0, 0, cW 0, 0⟩]) := by decide
  rw [hs] at hst
  simp only [Option.map_some, Option.some.injEq, Prod.mk.injEq] at hst
  rw [hst.1, hst.2]
  exact ⟨rfl, rfl, ⟨0, 0, cW 0, 0⟩, by simp, rfl⟩

/-- D2, sequential form: one call that names the same watch twice (an XR composing two
resources of one kind whose informer is not active yet). -/
def opsDup : List Op := [.start 0, .startWatches 0 [cW 0, cW 0]]
def schedDup : List (Nat × Choice) := rep 0 3 ++ rep 1 11

theorem one_live_watch_fails_on_unfixed_witness_sequential :
    ∃ s, Reachable Cfg.asFound opsDup s ∧
      ∃ r1 ∈ s.regs, ∃ r2 ∈ s.regs, r1.cid = r2.cid ∧ r1.wid = r2.wid ∧ r1 ≠ r2 := by
  have hrun : (runSched Cfg.asFound (init opsDup) schedDup).isSome = true := by decide
  obtain ⟨s, hs⟩ := Option.isSome_iff_exists.1 hrun
  refine ⟨s, reachable_of_runSched .init hs, ?_⟩
  have hregs : (runSched Cfg.asFound (init opsDup) schedDup).map (·.regs) =
      some [⟨1, 0, cW 0, 0⟩, ⟨0, 0, cW 0, 0⟩] := by decide
  rw [hs] at hregs
  simp only [Option.map_some, Option.some.injEq] at hregs
  rw [hregs]
  exact ⟨⟨1, 0, cW 0, 0⟩, by simp, ⟨0, 0, cW 0, 0⟩, by simp, rfl, rfl, by decide⟩

/-- D12: StartWatches looked the controller up, Stop completed, StartWatches then registered
a handler for the stopped controller. -/
def opsD12 : List Op := [.start 0, .startWatches 0 [cW 0], .stop 0]
def schedD12 : List (Nat × Choice) := rep 0 3 ++ rep 1 2 ++ rep 2 5 ++ rep 1 7

theorem stop_cleans_fails_on_unfixed_witness :
    ∃ s, Reachable Cfg.asFound opsD12 s ∧
      ∃ cid c, s.objs[cid]? = some c ∧ c.stopped = true ∧ c.sources ≠ [] ∧ ∃ r ∈ s.regs, r.cid = cid := by
  have hrun : (runSched Cfg.asFound (init opsD12) schedD12).isSome = true := by decide
  obtain ⟨s, hs⟩ := Option.isSome_iff_exists.1 hrun
  refine ⟨s, reachable_of_runSched .init hs, 0, ⟨0, [(cW 0, 0)], true, true⟩, ?_⟩
  have hst : (runSched Cfg.asFound (init opsD12) schedD12).map (fun s => (s.objs, s.regs)) =
      some ([⟨0, [(cW 0, 0)], true, true⟩], [⟨0, 0, cW 0, 0⟩]) := by decide
  rw [hs] at hst
  simp only [Option.map_some, Option.some.injEq, Prod.mk.injEq] at hst
  rw [hst.1, hst.2]
  exact ⟨rfl, rfl, by simp, ⟨0, 0, cW 0, 0⟩, by simp, rfl⟩

/-- the same schedule on the fixed code: StartWatches reports that the controller is not running -/
example : (runSched Cfg.fixed (init opsD12) (rep 0 3 ++ rep 1 2 ++ rep 2 5 ++ rep 1 5)).map
    (fun s => (s.regs, s.threads.map (·.pc))) = some ([], [.done .ok, .done .notRunning, .done .ok]) := by decide

/-- D3: the collector of the pinned commit stops the XR and the CompositionRevision watch. -/
def opsD3 : List Op := [.start 0, .startWatches 0 [⟨.xr, 0⟩, ⟨.rev, 1⟩, cW 1], .gc 0 [xrLive [1]]]
def schedD3 : List (Nat × Choice) :=
  rep 0 3 ++ rep 1 13 ++ rep 2 4 ++ [(2, { perm := [⟨.xr, 0⟩, ⟨.rev, 1⟩] })] ++ rep 2 10

theorem gc_decision_fails_on_unfixed_witness :
    gcStop Cfg.asFound [⟨.xr, 0⟩, ⟨.rev, 1⟩, cW 1] [1] = [⟨.xr, 0⟩, ⟨.rev, 1⟩] := by decide

theorem gc_only_unreferenced_composed_fails_on_unfixed_witness :
    ∃ s, Reachable Cfg.asFound opsD3 s ∧ srcsOf s 0 = [(cW 1, 2)] := by
  have hrun : (runSched Cfg.asFound (init opsD3) schedD3).isSome = true := by decide
  obtain ⟨s, hs⟩ := Option.isSome_iff_exists.1 hrun
  refine ⟨s, reachable_of_runSched .init hs, ?_⟩
  have hst : (runSched Cfg.asFound (init opsD3) schedD3).map (fun s => srcsOf s 0) = some [(cW 1, 2)] := by decide
  rw [hs] at hst
  simpa using hst

/-- D13 (recorded as a finding, present in the fixed code as well): an informer shared by two
controllers is removed; the first controller to call StartWatches re-creates it; the second
controller's StartWatches then sees "watch exists and informer active", skips, and keeps a
source whose handler died with the old informer. -/
def opsD13 : List Op := [.start 0, .start 1, .startWatches 0 [cW 0], .startWatches 1 [cW 0], .removeInformer 0,
  .startWatches 1 [cW 0], .startWatches 0 [cW 0]]
def schedD13 : List (Nat × Choice) := rep 0 3 ++ rep 1 3 ++ rep 2 10 ++ rep 3 10 ++ rep 4 1 ++ rep 5 10 ++ rep 6 5

theorem restart_not_guaranteed_when_informer_shared_witness :
    ∃ s, Reachable Cfg.fixed opsD13 s ∧ (∀ t ∈ s.threads, t.finished) ∧
      aget (cW 0) (srcsOf s 0) = some 0 ∧ ∀ r ∈ s.regs, r.cid ≠ 0 := by
  have hrun : (runSched Cfg.fixed (init opsD13) schedD13).isSome = true := by decide
  obtain ⟨s, hs⟩ := Option.isSome_iff_exists.1 hrun
  refine ⟨s, reachable_of_runSched .init hs, ?_⟩
  have hst : (runSched Cfg.fixed (init opsD13) schedD13).map (fun s => (s.threads.map (·.pc), srcsOf s 0, s.regs)) =
      some (List.replicate 7 (.done .ok), [(cW 0, 0)], [⟨2, 1, cW 0, 1⟩]) := by decide
  rw [hs] at hst
  simp only [Option.map_some, Option.some.injEq, Prod.mk.injEq] at hst
  obtain ⟨h1, h2, h3⟩ := hst
  refine ⟨?_, ?_, ?_⟩
  · intro t ht
    have : t.pc ∈ s.threads.map (·.pc) := List.mem_map_of_mem ht
    rw [h1] at this
    exact ⟨.ok, (List.mem_replicate.1 this).2⟩
  · rw [h2]; decide
  · rw [h3]; intro r hr; simp at hr; subst hr; decide

/-! ### non-vacuity: the hypotheses are met by busy states -/

/-- a reachable state of the fixed engine with two controllers, three live registrations on
two informers, after a concurrent mix of calls -/
example : ∃ s, Reachable Cfg.fixed
    [.start 0, .start 1, .startWatches 0 [⟨.xr, 0⟩, cW 1], .startWatches 1 [cW 1], .gc 0 [xrLive [1]]] s ∧
    s.regs.length = 3 ∧ s.ctrls.length = 2 := by
  have hrun : (runSched Cfg.fixed (init [.start 0, .start 1, .startWatches 0 [⟨.xr, 0⟩, cW 1], .startWatches 1 [cW 1], .gc 0 [xrLive [1]]])
      (rep 0 3 ++ rep 1 3 ++ rep 2 12 ++ rep 3 10 ++ rep 4 5)).isSome = true := by decide
  obtain ⟨s, hs⟩ := Option.isSome_iff_exists.1 hrun
  refine ⟨s, reachable_of_runSched .init hs, ?_⟩
  have hst : (runSched Cfg.fixed (init [.start 0, .start 1, .startWatches 0 [⟨.xr, 0⟩, cW 1], .startWatches 1 [cW 1], .gc 0 [xrLive [1]]])
      (rep 0 3 ++ rep 1 3 ++ rep 2 12 ++ rep 3 10 ++ rep 4 5)).map (fun s => (s.regs.length, s.ctrls.length)) = some (3, 2) := by decide
  rw [hs] at hst
  simpa using hst

/-- restart after informer loss, concretely: a controller with two watches (XR and composed) on
one kind loses the informer; one StartWatches call re-establishes both on the new informer
(generation 1), none is skipped because the other one re-created the informer -/
example : (runSched Cfg.fixed
      (init [.start 0, .startWatches 0 [⟨.xr, 0⟩, cW 0], .removeInformer 0, .startWatches 0 [⟨.xr, 0⟩, cW 0]])
      (rep 0 3 ++ rep 1 12 ++ rep 2 1 ++ rep 3 12)).map
    (fun s => (s.regs.map (fun r => (r.wid, r.gen)), s.threads.map (·.pc))) =
    some ([(cW 0, 1), (⟨.xr, 0⟩, 1)], [.done .ok, .done .ok, .done .ok, .done .ok]) := by decide

/-- the collector with a deleting, paused, unready XR that alone references kind 0, a live XR
referencing version 2 of kind 1 (kind number 1001) and a malformed reference: the watch on kind
0 is kept, the watch on (version 1 of) kind 1 is stopped, the XR watch is kept -/
example : (runSched Cfg.fixed
      (init [.start 0, .startWatches 0 [⟨.xr, 7⟩, cW 0, cW 1],
             .gc 0 [⟨true, true, false, false, false, [some 0, some 0], some 1⟩, ⟨false, false, true, true, true, [some 1001, none], some 1⟩]])
      (rep 0 3 ++ rep 1 14 ++ rep 2 4 ++ [(2, { perm := [cW 1] })] ++ rep 2 8)).map
    (fun s => ((srcsOf s 0).map (·.1), s.threads.map (·.pc))) =
    some ([cW 0, ⟨.xr, 7⟩], [.done .ok, .done .ok, .done (.count 1 true)]) := by decide

/-- the D2 schedule is not a run of the fixed engine's model at all: the second call re-reads the
active informers under the lock, finds the kind active, and does not start a second source -/
example : (runSched Cfg.fixed (init opsD2) (rep 0 3 ++ rep 1 7 ++ rep 2 3 ++ rep 1 3 ++ rep 2 5)).map
    (fun s => s.regs.length) = some 1 := by decide

/-! ### regenerated control-flow skeletons (tie "a")

`Xp.Gen.c13Flow…` is extracted from the CURRENT source by harness/main/c13_dump.go on every run:
lock operations, deferred unlocks, early returns, loops with their break / continue, the calls that
leave the engine, the writes to the engine's maps and flags, and the text of every condition.
`skeleton_<fn>`: it equals the skeleton declared in Model/C13Skel.lean, where every entry names the
model step that mirrors it. `trace_<fn>`: the sequences of lock operations (DERIVED from `Pc.held`,
the lock state all the theorems above are about), calls and writes that the model performs for that
function — on the longest path, on every early return and on the error paths — are paths of the
regenerated skeleton (`accepts`: deferred calls run last-in-first-out at the return). Moving an
unlock before a call, dropping the re-check under the write lock, releasing `e.mx` early in `Stop`,
swapping two acquisitions, or a new early return between them breaks one of these. -/

theorem skeleton_start : Xp.Gen.c13FlowStart = flowStart := by decide
theorem skeleton_stop : Xp.Gen.c13FlowStop = flowStop := by decide
theorem skeleton_isRunning : Xp.Gen.c13FlowIsRunning = flowIsRunning := by decide
theorem skeleton_startWatches : Xp.Gen.c13FlowStartWatches = flowStartWatches := by decide
theorem skeleton_getWatches : Xp.Gen.c13FlowGetWatches = flowGetWatches := by decide
theorem skeleton_stopWatches : Xp.Gen.c13FlowStopWatches = flowStopWatches := by decide
theorem skeleton_getCached : Xp.Gen.c13FlowGetCached = flowGetter ∧ Xp.Gen.c13FlowGetUncached = flowGetter := by decide
theorem skeleton_gcInformers : Xp.Gen.c13FlowGCInformers = flowGCInformers := by decide
theorem skeleton_sourceStart : Xp.Gen.c13FlowSourceStart = flowSourceStart := by decide
theorem skeleton_sourceStop : Xp.Gen.c13FlowSourceStop = flowSourceStop := by decide
theorem skeleton_gcNow : Xp.Gen.c13FlowGCNow = flowGCNow := by decide
theorem skeleton_gcLoop : Xp.Gen.c13FlowGCLoop = flowGCLoop := by decide

/-- The anchored callers hand the engine what the scenarios assume: XR and revision watches and the
collector under the controller's own name and XR kind (definition reconciler), claim and XR watches
without a collector (offered reconciler), composed-resource watches only, one per resource
reference (XR reconciler). -/
theorem callers_engine_calls :
    Xp.Gen.c13CallsDefinition = callsDefinition ∧ Xp.Gen.c13CallsDefinitionOptions = callsDefinitionOptions ∧
    Xp.Gen.c13CallsOffered = callsOffered ∧ Xp.Gen.c13CallsComposite = callsComposite := by
  refine ⟨?_, ?_, ?_, ?_⟩ <;> (set_option maxRecDepth 20000 in decide)

/-- One sequential story that takes every engine function through its branches: a start; a
StartWatches that starts two watches and skips the one the caller supplied twice; one that finds
nothing to start; a StopWatches that skips a watch without source and stops one; a Stop with one
source left; calls for a controller that does not run; a Start that is repeated. -/
def opsSeq : List Op :=
  [.start 0, .startWatches 0 [cW 0, cW 0, cW 1], .startWatches 0 [cW 0], .stopWatches 0 [cW 5, cW 0],
   .stop 0, .startWatches 0 [cW 0], .stopWatches 0 [cW 0], .getWatches 0, .start 0, .start 0,
   .isRunning 0, .getWatches 0, .stopWatches 0 [cW 3], .stop 1]
def schedSeq : List (Nat × Choice) :=
  solo 0 3 ++ solo 1 12 ++ solo 2 5 ++ solo 3 8 ++ solo 4 8 { pick := cW 1 } ++ solo 5 2 ++ solo 6 2 ++
  solo 7 2 ++ solo 8 3 ++ solo 9 2 ++ solo 10 2 ++ solo 11 4 ++ solo 12 4 ++ solo 13 2

/-- the error paths: NewControllerFn fails; GetInformer fails in Start-, Stop- and StopWatches;
AddEventHandler / RemoveEventHandler fail -/
def opsErr : List Op :=
  [.start 0, .start 0, .startWatches 0 [cW 0], .startWatches 0 [cW 0], .startWatches 0 [cW 0],
   .stopWatches 0 [cW 0], .stopWatches 0 [cW 0], .stop 0, .stop 0]
def flt : Choice := { fault := true, pick := cW 0 }
def schedErr : List (Nat × Choice) :=
  solo 0 1 ++ [(0, flt)] ++ solo 0 1 ++ solo 1 3 ++
  solo 2 7 ++ [(2, flt)] ++ solo 2 1 ++             -- GetInformer fails in StoppableSource.Start
  solo 3 8 ++ [(3, flt)] ++ solo 3 1 ++             -- AddEventHandler fails
  solo 4 10 ++                                      -- succeeds
  solo 5 5 ++ [(5, flt)] ++ solo 5 1 ++             -- GetInformer fails in StoppableSource.Stop
  solo 6 6 ++ [(6, flt)] ++ solo 6 1 ++             -- RemoveEventHandler fails
  solo 7 3 { pick := cW 0 } ++ [(7, flt)] ++ solo 7 2 ++    -- Stop: GetInformer fails
  solo 8 4 { pick := cW 0 } ++ [(8, flt)] ++ solo 8 2       -- Stop: RemoveEventHandler fails

/-- D12's interleaving: Stop runs between the read section and the write section of StartWatches -/
def opsStraddle : List Op := [.start 0, .startWatches 0 [cW 0], .stop 0]
def schedStraddle : List (Nat × Choice) := solo 0 3 ++ solo 1 5 ++ solo 2 4 ++ solo 1 2

/-- the collector: stops one watch; finds nothing to stop; controller not running; List fails -/
def opsGc : List Op :=
  [.start 0, .startWatches 0 [⟨.xr, 7⟩, cW 0, cW 1], .gc 0 [xrLive [0]], .gc 0 [xrLive [0]], .gc 1 [], .gc 0 []]
def schedGc : List (Nat × Choice) :=
  solo 0 3 ++ solo 1 14 ++ solo 2 13 { perm := [cW 1] } ++ solo 3 5 ++ solo 4 3 ++ [(5, { fault := true })]

/-- the schedules above are executable and end where they should (so the traces are traces of
complete calls) -/
example : (runTrace Cfg.fixed (init opsSeq) schedSeq).map (fun r => r.1.threads.map (·.pc)) =
    some [.done .ok, .done .ok, .done .ok, .done (.count 1 true), .done .ok, .done .notRunning, .done .notRunning,
          .done .notRunning, .done .ok, .done .ok, .done (.bool true), .done (.watches []), .done (.count 0 true), .done .ok] := by decide
example : (runTrace Cfg.fixed (init opsErr) schedErr).map (fun r => r.1.threads.map (·.pc)) =
    some [.done .err, .done .ok, .done .err, .done .err, .done .ok, .done (.count 0 false), .done (.count 0 false),
          .done .err, .done .err] := by decide
example : (runTrace Cfg.fixed (init opsStraddle) schedStraddle).map (fun r => r.1.threads.map (·.pc)) =
    some [.done .ok, .done .notRunning, .relE .ok] := by decide
example : (runTrace Cfg.fixed (init opsGc) schedGc).map (fun r => r.1.threads.map (·.pc)) =
    some [.done .ok, .done .ok, .done (.count 1 true), .done .ok, .done .err, .done .err] := by decide

/-- `Start`: new controller; already running (early return under the deferred unlock); NewControllerFn fails -/
theorem trace_start :
    isPath skipStart Xp.Gen.c13FlowStart (traceOf Cfg.fixed opsSeq schedSeq 0 .start) = true ∧
    isPath skipStart Xp.Gen.c13FlowStart (traceOf Cfg.fixed opsSeq schedSeq 9 .start) = true ∧
    isPath skipStart Xp.Gen.c13FlowStart (traceOf Cfg.fixed opsErr schedErr 0 .start) = true ∧
    traceOf Cfg.fixed opsSeq schedSeq 0 .start = some ["mx.Lock", "co.nc", "set controllers[]", "mx.Unlock"] := by decide

/-- `Stop`: `e.mx` then `c.mx`, sources stopped and deleted one by one, cancel / stopped / delete
under both locks, released in reverse order; not running; a failing source Stop returns with the
controller still registered -/
theorem trace_stop :
    isPath [] Xp.Gen.c13FlowStop (traceOf Cfg.fixed opsSeq schedSeq 4 .stop) = true ∧
    isPath [] Xp.Gen.c13FlowStop (traceOf Cfg.fixed opsSeq schedSeq 13 .stop) = true ∧
    isPath [] Xp.Gen.c13FlowStop (traceOf Cfg.fixed opsErr schedErr 7 .stop) = true ∧
    isPath [] Xp.Gen.c13FlowStop (traceOf Cfg.fixed opsErr schedErr 8 .stop) = true ∧
    traceOf Cfg.fixed opsSeq schedSeq 4 .stop =
      some ["mx.Lock", "c.mx.Lock", "w.Stop", "delete c.sources", "c.cancel", "set c.stopped", "delete controllers",
            "c.mx.Unlock", "mx.Unlock"] := by decide

theorem trace_isRunning :
    isPath [] Xp.Gen.c13FlowIsRunning (traceOf Cfg.fixed opsSeq schedSeq 10 .isRunning) = true ∧
    traceOf Cfg.fixed opsSeq schedSeq 10 .isRunning = some ["mx.RLock", "mx.RUnlock"] := by decide

/-- `StartWatches`: two watches started and a duplicate skipped; nothing to start (returns after
the read section); not running; D12's re-check under the write lock; the three error returns -/
theorem trace_startWatches :
    isPath skipStartWatches Xp.Gen.c13FlowStartWatches (traceOf Cfg.fixed opsSeq schedSeq 1 .startWatches) = true ∧
    isPath skipStartWatches Xp.Gen.c13FlowStartWatches (traceOf Cfg.fixed opsSeq schedSeq 2 .startWatches) = true ∧
    isPath skipStartWatches Xp.Gen.c13FlowStartWatches (traceOf Cfg.fixed opsSeq schedSeq 5 .startWatches) = true ∧
    isPath skipStartWatches Xp.Gen.c13FlowStartWatches (traceOf Cfg.fixed opsStraddle schedStraddle 1 .startWatches) = true ∧
    isPath skipStartWatches Xp.Gen.c13FlowStartWatches (traceOf Cfg.fixed opsErr schedErr 2 .startWatches) = true ∧
    isPath skipStartWatches Xp.Gen.c13FlowStartWatches (traceOf Cfg.fixed opsErr schedErr 3 .startWatches) = true ∧
    traceOf Cfg.fixed opsSeq schedSeq 1 .startWatches =
      some ["mx.RLock", "mx.RUnlock", "infs.ActiveInformers", "c.mx.RLock", "c.mx.RUnlock", "c.mx.Lock",
            "infs.ActiveInformers", "c.ctrl.Watch", "set c.sources[]", "set started[]", "c.ctrl.Watch",
            "set c.sources[]", "set started[]", "c.mx.Unlock"] ∧
    traceOf Cfg.fixed opsStraddle schedStraddle 1 .startWatches =
      some ["mx.RLock", "mx.RUnlock", "infs.ActiveInformers", "c.mx.RLock", "c.mx.RUnlock", "c.mx.Lock", "c.mx.Unlock"] := by decide

theorem trace_getWatches :
    isPath [] Xp.Gen.c13FlowGetWatches (traceOf Cfg.fixed opsSeq schedSeq 11 .getWatches) = true ∧
    isPath [] Xp.Gen.c13FlowGetWatches (traceOf Cfg.fixed opsSeq schedSeq 7 .getWatches) = true ∧
    isPath [] Xp.Gen.c13FlowGetWatches (traceOf Cfg.fixed opsGc schedGc 2 .getWatches) = true ∧
    isPath [] Xp.Gen.c13FlowGetWatches (traceOf Cfg.fixed opsGc schedGc 4 .getWatches) = true ∧
    traceOf Cfg.fixed opsSeq schedSeq 11 .getWatches = some ["mx.RLock", "mx.RUnlock", "c.mx.RLock", "c.mx.RUnlock"] := by decide

/-- `StopWatches`: a watch without source skipped and one stopped; nothing to stop; not running;
the collector's call; a failing source Stop -/
theorem trace_stopWatches :
    isPath [] Xp.Gen.c13FlowStopWatches (traceOf Cfg.fixed opsSeq schedSeq 3 .stopWatches) = true ∧
    isPath [] Xp.Gen.c13FlowStopWatches (traceOf Cfg.fixed opsSeq schedSeq 12 .stopWatches) = true ∧
    isPath [] Xp.Gen.c13FlowStopWatches (traceOf Cfg.fixed opsSeq schedSeq 6 .stopWatches) = true ∧
    isPath [] Xp.Gen.c13FlowStopWatches (traceOf Cfg.fixed opsGc schedGc 2 .stopWatches) = true ∧
    isPath [] Xp.Gen.c13FlowStopWatches (traceOf Cfg.fixed opsErr schedErr 5 .stopWatches) = true ∧
    isPath [] Xp.Gen.c13FlowStopWatches (traceOf Cfg.fixed opsErr schedErr 6 .stopWatches) = true ∧
    traceOf Cfg.fixed opsSeq schedSeq 3 .stopWatches =
      some ["mx.RLock", "mx.RUnlock", "c.mx.RLock", "c.mx.RUnlock", "c.mx.Lock", "w.Stop", "delete c.sources", "c.mx.Unlock"] := by decide

/-- `StoppableSource.Start` / `Stop`, as run inside StartWatches, StopWatches and Stop -/
theorem trace_source :
    isPath skipSourceStart Xp.Gen.c13FlowSourceStart (traceOf Cfg.fixed opsErr schedErr 4 .srcStart) = true ∧
    isPath skipSourceStart Xp.Gen.c13FlowSourceStart (traceOf Cfg.fixed opsErr schedErr 2 .srcStart) = true ∧
    isPath skipSourceStart Xp.Gen.c13FlowSourceStart (traceOf Cfg.fixed opsErr schedErr 3 .srcStart) = true ∧
    isPath [] Xp.Gen.c13FlowSourceStop (traceOf Cfg.fixed opsSeq schedSeq 3 .srcStop) = true ∧
    isPath [] Xp.Gen.c13FlowSourceStop (traceOf Cfg.fixed opsSeq schedSeq 4 .srcStop) = true ∧
    isPath [] Xp.Gen.c13FlowSourceStop (traceOf Cfg.fixed opsErr schedErr 5 .srcStop) = true ∧
    isPath [] Xp.Gen.c13FlowSourceStop (traceOf Cfg.fixed opsErr schedErr 6 .srcStop) = true ∧
    traceOf Cfg.fixed opsErr schedErr 4 .srcStart = some ["infs.GetInformer", "i.AddEventHandler", "set reg"] ∧
    traceOf Cfg.fixed opsSeq schedSeq 4 .srcStop = some ["infs.GetInformer", "i.RemoveEventHandler", "set reg"] := by decide

/-- `GarbageCollectWatchesNow`: List through the cached client, GetWatches, StopWatches; nothing
to stop; GetWatches fails; List fails -/
theorem trace_gcNow :
    isPath skipGCNow Xp.Gen.c13FlowGCNow (traceOf Cfg.fixed opsGc schedGc 2 .gcNow) = true ∧
    isPath skipGCNow Xp.Gen.c13FlowGCNow (traceOf Cfg.fixed opsGc schedGc 3 .gcNow) = true ∧
    isPath skipGCNow Xp.Gen.c13FlowGCNow (traceOf Cfg.fixed opsGc schedGc 4 .gcNow) = true ∧
    isPath skipGCNow Xp.Gen.c13FlowGCNow (traceOf Cfg.fixed opsGc schedGc 5 .gcNow) = true ∧
    traceOf Cfg.fixed opsGc schedGc 2 .gcNow =
      some ["engine.GetCached", "engine.GetCached.List", "engine.GetWatches", "engine.StopWatches"] := by decide

/-- the interpreter discriminates: `Stop` releasing `e.mx` before `c.mx`, a `Stop` that cancels
before it stopped the source, a StartWatches that does not list the active informers again under
the write lock, and one that keeps holding the read lock while it takes the write lock are NOT
paths of the skeletons -/
example : accepts [] 400 flowStop [] ["mx.Lock", "c.mx.Lock", "w.Stop", "delete c.sources", "c.cancel", "set c.stopped",
    "delete controllers", "mx.Unlock", "c.mx.Unlock"] = false := by decide
example : accepts [] 400 flowStop [] ["mx.Lock", "c.mx.Lock", "c.cancel", "w.Stop", "delete c.sources", "set c.stopped",
    "delete controllers", "c.mx.Unlock", "mx.Unlock"] = false := by decide
example : accepts skipStartWatches 400 flowStartWatches [] ["mx.RLock", "mx.RUnlock", "infs.ActiveInformers", "c.mx.RLock",
    "c.mx.RUnlock", "c.mx.Lock", "c.ctrl.Watch", "set c.sources[]", "set started[]", "c.mx.Unlock"] = false := by decide
example : accepts skipStartWatches 400 flowStartWatches [] ["mx.RLock", "mx.RUnlock", "infs.ActiveInformers", "c.mx.RLock",
    "c.mx.Lock", "c.mx.RUnlock", "c.mx.Unlock"] = false := by decide

/-- Every step of the model that changes the shared state is an event of some Go function: no
model step is without a counterpart in the skeletons (the ghost log of IsRunning aside). -/
theorem state_changing_steps_are_events {cfg : Cfg} {s : Sys} {i : Nat} {t : Thread} {ch : Choice} {pc' : Pc} {act : Act}
    (h : next cfg s i t ch = some (pc', act)) (hact : act ≠ .nop) (hlog : ∀ e, act ≠ .logEv e) :
    callEvents cfg t pc' act ≠ [] := by
  unfold next at h
  unfold callEvents
  unfold acquire at h
  split at h <;> (try split at h) <;> (try split at h) <;> (try split at h) <;> simp_all <;>
    (try (obtain ⟨rfl, rfl⟩ := h)) <;> simp_all

/-! ### the tracking set is exact at the engine's level -/

/-- `RemoveInformer g` (one step of the engine model; `cache_ops_are_atomic` justifies the single
step): afterwards the kind is not active, its informer is gone and no handler sits on it — so the
next `StartWatches` sees the kind as not active and restarts the watch. Monitors
`C13:removed-informer-still-active`, `C13:removed-informer-still-live` on the real cache. -/
theorem remove_informer_effect {cfg : Cfg} {s s' : Sys} {i g : Nat} {ch : Choice}
    (ht : s.threads[i]? = some ⟨.removeInformer g, .idle⟩) (h : step cfg s i ch = some s') :
    g ∉ s'.tracked ∧ aget g s'.live = none ∧ ∀ r ∈ s'.regs, r.wid.gvk ≠ g := by
  unfold step at h
  simp only [ht, next, Option.some.injEq] at h
  subst h
  refine ⟨?_, ?_, ?_⟩
  · simp [Act.apply]
  · simp only [Act.apply]; exact aget_adel_self g _
  · intro r hr
    simp only [Act.apply, List.mem_filter, decide_eq_true_eq] at hr
    exact hr.2

/-- Get / List / GetInformer / GetInformerForKind through the tracking cache mark the kind active,
also when the wrapped cache fails (cache.go writes `active` before it calls it). Monitor
`C13:read-informer-not-active`. -/
theorem cache_read_marks_active {cfg : Cfg} {s s' : Sys} {i g : Nat} {ch : Choice}
    (ht : s.threads[i]? = some ⟨.cacheRead g, .idle⟩) (h : step cfg s i ch = some s') :
    g ∈ s'.tracked := by
  unfold step at h
  simp only [ht, next, Option.some.injEq] at h
  subst h
  rw [getInformer_eq, underGet_tracked]
  simp only [markActive]
  by_cases hc : g ∈ s.tracked
  · simp [hc]
  · simp [hc]

example : (runSched Cfg.fixed (init [.cacheRead 3, .removeInformer 3, .cacheRead 4]) [(0, {}), (1, {}), (2, { fault := true })]).map
    (fun s => (s.tracked, s.live)) = some ([4], []) := by decide

/-! ### cache.go at lock granularity: the tracking cache's operations are atomic

Model/C13Cache.lean splits every entry point of InformerTrackingCache at each acquire / release of
the cache's own RW lock (read section, the gap between `RUnlock` and `Lock`, write section that
writes `active` without looking again). The theorems quantify over every initial cache state `b`,
every list of operations `ops` (any number of goroutines, any kinds), every interleaving and every
fault of the wrapped cache. They discharge, inside the model, the assumption under which the
engine model above treats `Act.getInformer` / `Act.rmInformer` / the read of `tracked` as single
steps. -/

/-- no reader and writer, and no two writers, of `active` at the same time -/
theorem cache_mutual_exclusion {b : Sys} {ops : List COp} {s : CSys} (h : CReach b ops s)
    {i j : Nat} {ti tj : CThread} (hij : i ≠ j) (hi : s.threads[i]? = some ti) (hj : s.threads[j]? = some tj) :
    ti.pc.held.compat tj.pc.held = true :=
  (CInv_reach h).mutex i j ti tj hij hi hj

/-- `active` is written only by a goroutine that holds the write lock before and after the write -/
theorem cache_writes_hold_lock {s s' : CSys} {i : Nat} {f : Bool} {t : CThread}
    (ht : s.threads[i]? = some t) (h : cstep s i f = some s') (hw : s'.base.tracked ≠ s.base.tracked) :
    t.pc.held = .w ∧ ∃ t', s'.threads[i]? = some t' ∧ t'.pc.held = .w := by
  unfold cstep at h
  simp only [ht] at h
  cases hn : cnext s i t f with
  | none => simp [hn] at h
  | some p =>
    obtain ⟨pc', b'⟩ := p
    simp only [hn, Option.some.injEq] at h
    subst h
    have hlt : i < s.threads.length := by
      rcases Nat.lt_or_ge i s.threads.length with hl | hl
      · exact hl
      · rw [List.getElem?_eq_none hl] at ht; cases ht
    rcases cnext_tracked hn with htr | hwr
    · exact absurd htr hw
    · refine ⟨by rw [hwr]; rfl, { t with pc := pc' }, by simp [List.getElem?_set_self hlt], ?_⟩
      unfold cnext at hn
      rw [hwr] at hn
      simp only at hn
      split at hn <;> (cases hn; rfl)

/-- The lock dance cannot deadlock: in EVERY state with an unfinished operation some goroutine can
take a step (a holder of the lock never waits; when nobody holds it every waiter may take it). -/
theorem cache_no_deadlock {s : CSys} {k : Nat} {tk : CThread}
    (hk : s.threads[k]? = some tk) (hnd : ∀ f, tk.pc ≠ .done f) :
    ∃ i f s', cstep s i f = some s' := by
  by_cases hh : ∃ (j : Nat) (u : CThread), s.threads[j]? = some u ∧ u.pc.held ≠ .n
  · obtain ⟨j, u, hu, hheld⟩ := hh
    have : ∃ p, cnext s j u false = some p := by
      unfold cnext
      cases hpc : u.pc <;> simp only [hpc, CPc.held, ne_eq, not_true_eq_false] at hheld ⊢
      · cases u.op <;> simp <;> split <;> simp
      · cases u.op <;> simp
      · simp
      · simp
    obtain ⟨p, hp⟩ := this
    exact ⟨j, false, { base := p.2, threads := s.threads.set j { u with pc := p.1 } }, by simp [cstep, hu, hp]⟩
  · have hfree : ∀ m, cfree s k m = true := by
      intro m
      apply cfree_of
      intro j u hu _
      have : u.pc.held = .n := by
        by_cases hn : u.pc.held = .n
        · exact hn
        · exact absurd ⟨j, u, hu, hn⟩ hh
      rw [this]; exact Mode.compat_n m
    have : ∃ p, cnext s k tk false = some p := by
      unfold cnext
      cases hpc : tk.pc <;> simp only [hfree, if_true]
      · cases tk.op <;> simp
      · cases tk.op <;> simp <;> split <;> simp
      · simp
      · cases tk.op <;> simp
      · simp
      · simp
      · exact absurd hpc (hnd _)
    obtain ⟨p, hp⟩ := this
    exact ⟨k, false, { base := p.2, threads := s.threads.set k { tk with pc := p.1 } }, by simp [cstep, hk, hp]⟩

/-- Every step of an entry point either leaves the cache state alone, or is THE step of that call
(it has exactly one: `applied` turns true and never back) and changes the state exactly as the single
step of the engine model does: `Act.getInformer g fault` for Get / List / GetInformer /
GetInformerForKind, `Act.rmInformer g` for RemoveInformer, nothing for ActiveInformers — on the
fast path under the read lock as well as after the upgrade to the write lock, whatever other
goroutines did in the gap. -/
theorem cache_ops_are_atomic {b : Sys} {ops : List COp} {s s' : CSys} (h : CReach b ops s)
    {i : Nat} {f : Bool} {t : CThread} (ht : s.threads[i]? = some t) (hs : cstep s i f = some s') :
    ∃ t', s'.threads[i]? = some t' ∧ t'.op = t.op ∧
      ((t'.pc.applied = t.pc.applied ∧ s'.base = s.base) ∨
       (t.pc.applied = false ∧ t'.pc.applied = true ∧ s'.base = (atomicAct t.op f).apply s.base)) := by
  unfold cstep at hs
  simp only [ht] at hs
  cases hn : cnext s i t f with
  | none => simp [hn] at hs
  | some p =>
    obtain ⟨pc', b'⟩ := p
    simp only [hn, Option.some.injEq] at hs
    subst hs
    have hlt : i < s.threads.length := by
      rcases Nat.lt_or_ge i s.threads.length with hl | hl
      · exact hl
      · rw [List.getElem?_eq_none hl] at ht; cases ht
    exact ⟨{ t with pc := pc' }, by simp [List.getElem?_set_self hlt], rfl, cnext_atomic (CInv_reach h) ht hn⟩

/-- Linearizability: at every moment of every run the state of the cache is the result of applying,
one after the other in some order, the single-step operations of exactly those calls that have
passed their step — each once. -/
theorem cache_linearizable {b : Sys} {ops : List COp} {s : CSys} (h : CReach b ops s) :
    ∃ acts : List (Nat × Bool),
      s.base = applyAll ops b acts ∧ (acts.map (·.1)).Nodup ∧
      ∀ i, i ∈ acts.map (·.1) ↔ ∃ t, s.threads[i]? = some t ∧ t.pc.applied = true := by
  obtain ⟨acts, hl⟩ := Lin_reach h
  exact ⟨acts, hl.base, hl.nodup, hl.applied⟩

/-- a state in which all of this is non-trivial: a reader of an inactive kind sits in the gap
between its two lock sections while a remover of the same kind and a second reader race it -/
def cacheOps : List COp := [.read 0, .remove 0, .read 0, .active, .read 1]
def cacheB0 : Sys := { init [] with tracked := [1], live := [(1, 0)], nextGen := 1 }
def cacheSched : List (Nat × Bool) :=
  [(0, false), (0, false),                         -- reader 0: RLock, sees "inactive", RUnlock  (now in the gap)
   (2, false), (2, false), (2, false), (2, false), (2, false),   -- reader 2 goes all the way: marks kind 0 active, creates the informer
   (1, false), (1, false), (1, false), (1, false), (1, false),   -- the remover sees "active", upgrades, deletes
   (0, false), (0, false), (0, false),             -- reader 0 takes the write lock and marks the kind active again
   (3, false), (3, false),                         -- ActiveInformers
   (4, false), (4, true), (4, false)]              -- fast path, the wrapped call fails
example : (cRunTrace "Get" (cinit cacheB0 cacheOps) cacheSched).map (fun r => (r.1.base.tracked, r.1.base.live, r.1.threads.map (·.pc))) =
    some ([0, 1], [(0, 2), (1, 0)], [.done false, .done false, .done false, .done false, .done true]) := by decide
def cacheS1 : CSys := ⟨cacheB0, [⟨.read 0, .rd false⟩, ⟨.remove 0, .idle⟩, ⟨.read 0, .idle⟩, ⟨.active, .idle⟩, ⟨.read 1, .idle⟩]⟩
def cacheS2 : CSys := ⟨cacheB0, [⟨.read 0, .gap⟩, ⟨.remove 0, .idle⟩, ⟨.read 0, .idle⟩, ⟨.active, .idle⟩, ⟨.read 1, .idle⟩]⟩
example : CReach cacheB0 cacheOps cacheS2 ∧ cacheS2.threads[0]? = some ⟨.read 0, .gap⟩ ∧ cacheS2.threads[2]? = some ⟨.read 0, .idle⟩ :=
  ⟨.step 0 false (.step (s' := cacheS1) 0 false .init (by decide)) (by decide), by decide, by decide⟩

theorem skeleton_activeInformers : Xp.Gen.c13FlowActiveInformers = flowActiveInformers := by decide
theorem skeleton_cacheGet : Xp.Gen.c13FlowCacheGet = flowCacheRead preGVK "Get" := by decide
theorem skeleton_cacheList : Xp.Gen.c13FlowCacheList = flowCacheRead preList "List" := by decide
theorem skeleton_cacheGetInformer : Xp.Gen.c13FlowCacheGetInformer = flowCacheRead preGVK "GetInformer" := by decide
theorem skeleton_cacheGetInformerForKind : Xp.Gen.c13FlowCacheGetInformerForKind = flowCacheRead [] "GetInformerForKind" := by decide
theorem skeleton_cacheRemoveInformer : Xp.Gen.c13FlowCacheRemoveInformer = flowCacheRemove := by decide

/-- the model's lock operations, writes and wrapped calls are paths of cache.go: slow path (reader 0,
through the gap), slow path of the remover, fast path with a failing call, ActiveInformers; and the
fast path of the remover (kind not active) -/
theorem trace_cache :
    isPath skipCache Xp.Gen.c13FlowCacheGet (cTraceOf "Get" cacheB0 cacheOps cacheSched 0) = true ∧
    isPath skipCache Xp.Gen.c13FlowCacheList (cTraceOf "List" cacheB0 cacheOps cacheSched 2) = true ∧
    isPath skipCache Xp.Gen.c13FlowCacheGetInformer (cTraceOf "GetInformer" cacheB0 cacheOps cacheSched 4) = true ∧
    isPath skipCache Xp.Gen.c13FlowCacheGetInformerForKind (cTraceOf "GetInformerForKind" cacheB0 cacheOps cacheSched 0) = true ∧
    isPath skipCache Xp.Gen.c13FlowCacheRemoveInformer (cTraceOf "Get" cacheB0 cacheOps cacheSched 1) = true ∧
    isPath skipCache Xp.Gen.c13FlowCacheRemoveInformer
      (cTraceOf "Get" cacheB0 [.remove 5] [(0, false), (0, false), (0, false)] 0) = true ∧
    isPath skipCache Xp.Gen.c13FlowActiveInformers (cTraceOf "Get" cacheB0 cacheOps cacheSched 3) = true ∧
    cTraceOf "Get" cacheB0 cacheOps cacheSched 0 =
      some ["mx.RLock", "mx.RUnlock", "mx.Lock", "set active[]", "Cache.Get", "mx.Unlock"] ∧
    cTraceOf "GetInformer" cacheB0 cacheOps cacheSched 4 = some ["mx.RLock", "Cache.GetInformer", "mx.RUnlock"] := by decide

/-- a fast path that lets go of the read lock before it calls the wrapped cache is not a path of cache.go -/
example : accepts skipCache 400 (flowCacheRead preGVK "GetInformer") [] ["mx.RLock", "mx.RUnlock", "Cache.GetInformer"] = false := by decide

end Xp.C13

import Xp.Proofs.C13i
import Xp.Gen.C13
/-
C13 — dynamic controllers and watches stay consistent under any interleaving.

All theorems quantify over every list of engine calls `ops` (any number of goroutines, any
controllers, any kinds, any watch lists, any XR reference sets) and every state `s` with
`Reachable Cfg.fixed ops s`, i.e. every interleaving of the calls at lock granularity, every
fault of the calls that leave the engine, and every Go map iteration order.
Kinds (`Wid.gvk`, the XRs' references, `removeInformer`) and controller names are opaque
numbers: the harness maps every (group, version, kind) triple — also look-alikes that differ in
the version, the API group, the case or by a suffix only — and every controller name to its own
number, so "the same kind" below always means the same group, version AND kind. Every step's
`Choice` carries the class of the error a failing call returns (`error_class_irrelevant`).
A collector call is a thread of its own with the XRs ITS List returned: the theorems about the
collector hold for each call whatever earlier calls of the same (long-lived) collector saw.
`Cfg.fixed` is the tree with fixes/D2.diff, fixes/D3.diff and fixes/D12.diff applied; the
`…_fails_on_unfixed_witness` theorems exhibit, on `Cfg.asFound` (the pinned commit), a
reachable state that breaks the clause.  Data races in the sense of the Go memory model are
outside this model (they are about unsynchronised memory accesses, the model has only the
lock protocol): `writes_hold_locks` is the lock-discipline half of "does not race".
-/
namespace Xp.C13

/-! ### the generated constants the harness maps to the model's watch types -/

theorem watch_type_table :
    Xp.Gen.c13WatchTypes = ["claim=Claim", "composed=ComposedResource", "rev=CompositionRevision", "xr=CompositeResource"] ∧
    Xp.Gen.c13ComposedWatchType = "ComposedResource" := by decide

/-! ### no deadlock, lock order -/

/-- Mutual exclusion: at no time do two goroutines hold conflicting locks
(`e.mx` or the same controller's `c.mx`, one of them for writing). -/
theorem mutual_exclusion {cfg : Cfg} {ops : List Op} {s : Sys} (h : Reachable cfg ops s)
    {i j : Nat} {ti tj : Thread} (hij : i ≠ j) (hi : s.threads[i]? = some ti) (hj : s.threads[j]? = some tj) :
    ti.pc.held.compat tj.pc.held = true :=
  Mutex_reachable h i j ti tj hij hi hj

/-- No deadlock: in every reachable state in which some call has not returned, some
goroutine can take a step (both code variants). -/
theorem no_deadlock {cfg : Cfg} {ops : List Op} {s : Sys} (h : Reachable cfg ops s)
    (hunfinished : ∃ (i : Nat) (t : Thread), s.threads[i]? = some t ∧ ¬ t.finished) :
    ∃ i ch s', step cfg s i ch = some s' :=
  progress_of_mutex (Mutex_reachable h) hunfinished

/-- Lock order `e.mx ≺ c.mx`: a goroutine that holds a controller's lock never waits. -/
theorem controller_lock_holder_never_waits {cfg : Cfg} {s : Sys} {i : Nat} {t : Thread}
    (hc : t.pc.held.c ≠ none) : ∃ ch r, next cfg s i t ch = some r :=
  ctl_lock_holder_can_step hc

/-- A goroutine that holds a read lock never waits; hence Go's writer preference (a pending
writer blocks new readers), which the model's plain reader/writer lock omits, cannot
introduce a deadlock. -/
theorem read_sections_never_wait {cfg : Cfg} {s : Sys} {i : Nat} {t : Thread}
    (hr : t.pc.held.e = .r ∨ ∃ cid, t.pc.held.c = some (cid, .r)) : ∃ ch r, next cfg s i t ch = some r :=
  reader_can_step hr

/-- Lock discipline of writes: a step that changes `e.controllers` is taken holding `e.mx`
for writing; a step that changes a controller's sources or stopped flag, or registers a
handler for it, is taken holding that controller's `c.mx` for writing. -/
theorem writes_hold_locks {cfg : Cfg} {s s' : Sys} {i : Nat} {ch : Choice} {t : Thread}
    (ht : s.threads[i]? = some t) (h : step cfg s i ch = some s') :
    (s'.ctrls ≠ s.ctrls → t.pc.held.e = .w) ∧
    (∀ cid, (srcsOf s' cid ≠ srcsOf s cid ∨ stoppedOf s' cid ≠ stoppedOf s cid ∨
        ∃ r ∈ s'.regs, r.cid = cid ∧ r ∉ s.regs) → t.pc.held.c = some (cid, .w)) := by
  obtain ⟨t', pc', act, ht', hn, hs⟩ := step_unpack h
  rw [ht] at ht'; cases ht'
  subst hs
  exact act_frame hn _

/-! ### IsRunning -/

/-- `IsRunning n` answers `true` exactly when the last acknowledged `Start n`/`Stop n` before
it (in the linearisation order given by `e.mx`) is a `Start`: for every IsRunning answer in
the history, whatever happened before and after. -/
theorem running_iff {cfg : Cfg} {ops : List Op} {s : Sys} (h : Reachable cfg ops s)
    {later earlier : List Ev} {n : Nat} {b : Bool} (hlog : s.log = later ++ .isRunning n b :: earlier) :
    b = runningPer earlier n := by
  have := (RunInv_reachable h).log
  rw [hlog] at this
  exact LogOk_split this

/-- and the engine's map agrees with that history at every instant -/
theorem controllers_map_iff_history {cfg : Cfg} {ops : List Op} {s : Sys} (h : Reachable cfg ops s) (n : Nat) :
    (aget n s.ctrls).isSome = runningPer s.log n :=
  (RunInv_reachable h).map n

/-! ### one live watch, no orphan -/

/-- At most one live handler registration per controller object, watch type and kind. -/
theorem one_live_watch {ops : List Op} {s : Sys} (h : Reachable Cfg.fixed ops s)
    {r1 r2 : Reg} (h1 : r1 ∈ s.regs) (h2 : r2 ∈ s.regs) (hc : r1.cid = r2.cid) (hw : r1.wid = r2.wid) : r1 = r2 := by
  have hinv := Inv_reachable h
  have o1 := hinv.own r1 h1
  have o2 := hinv.own r2 h2
  rw [hc, hw, o2] at o1
  exact hinv.regUniq r1 h1 r2 h2 (Option.some.inj o1).symm

/-- Every live registration is the one recorded in its controller's `sources` (what
`GetWatches` reports and what `Stop`/`StopWatches` will remove): no orphaned handler. -/
theorem live_registrations_are_recorded {ops : List Op} {s : Sys} (h : Reachable Cfg.fixed ops s)
    {r : Reg} (hr : r ∈ s.regs) : aget r.wid (srcsOf s r.cid) = some r.id ∧ aget r.wid.gvk s.live = some r.gen :=
  ⟨(Inv_reachable h).own r hr, (Inv_reachable h).regLive r hr⟩

/-! ### Stop -/

/-- After `Stop` returned nil for a controller object (the `stopOk` step sets `stopped`): it
is cancelled, has no source, no live handler registration is owned by it, `e.controllers` no
longer maps any name to it — at that moment and at every later state, whatever other
goroutines (including a `StartWatches` that looked the controller up before the stop) do. -/
theorem stop_cleans {ops : List Op} {s : Sys} (h : Reachable Cfg.fixed ops s)
    {cid : Nat} {c : Ctl} (hc : s.objs[cid]? = some c) (hs : c.stopped = true) :
    c.cancelled = true ∧ c.sources = [] ∧ (∀ r ∈ s.regs, r.cid ≠ cid) ∧ (∀ n, aget n s.ctrls ≠ some cid) := by
  have hinv := Inv_reachable h
  obtain ⟨h1, h2, h3⟩ := hinv.stopClean cid c hc hs
  refine ⟨h1, h2, h3, ?_⟩
  intro n hn
  have := (hinv.ctlValid n cid hn).2
  simp only [stoppedOf, hc] at this
  rw [hs] at this
  cases this

/-- a controller is cancelled only by a successful Stop -/
theorem cancelled_only_by_stop {ops : List Op} {s : Sys} (h : Reachable Cfg.fixed ops s)
    {cid : Nat} {c : Ctl} (hc : s.objs[cid]? = some c) : c.cancelled = c.stopped :=
  (Inv_reachable h).cancelStop cid c hc

/-- the name of a running controller refers to a live (not stopped, not cancelled) object -/
theorem running_controller_not_cancelled {ops : List Op} {s : Sys} (h : Reachable Cfg.fixed ops s)
    {n cid : Nat} (hn : aget n s.ctrls = some cid) : ∃ c, s.objs[cid]? = some c ∧ c.cancelled = false := by
  have hinv := Inv_reachable h
  obtain ⟨hv, hst⟩ := hinv.ctlValid n cid hn
  refine ⟨s.objs[cid], List.getElem?_eq_getElem hv, ?_⟩
  have hcs := hinv.cancelStop cid s.objs[cid] (List.getElem?_eq_getElem hv)
  simp only [stoppedOf, List.getElem?_eq_getElem hv] at hst
  rw [hcs, hst]

/-! ### the collector -/

/-- The collector's decision, for EVERY list of XRs its List call can return — XRs that are
being deleted (deletionTimestamp set, finalizer pending), paused, without a composition
reference, not ready, not synced, with no references, with duplicate or malformed references,
with references to several versions of one kind: it asks to stop exactly the running watches
(as GetWatches listed them) of type ComposedResource whose kind none of these XRs references.
An XR references a kind as long as it is listed, whatever state it is in. -/
theorem gc_decision (running : List Wid) (xrs : List XR) (w : Wid) :
    w ∈ gcStop Cfg.fixed running (refsOf xrs) ↔
      w ∈ running ∧ w.ty = .composed ∧ ∀ x ∈ xrs, some w.gvk ∉ x.refs := by
  rw [gcStop_fixed_iff]
  simp only [Collectable, mem_refsOf, not_exists, not_and]

/-- The decision depends on the XRs' references only: two lists of XRs that differ in any of
the state fields (deleting, paused, composition reference, ready, synced) but carry the same
references lead to the same decision (both code variants). -/
theorem gc_decision_ignores_xr_state (cfg : Cfg) (running : List Wid) (xrs xrs' : List XR)
    (h : xrs.map (·.refs) = xrs'.map (·.refs)) :
    gcStop cfg running (refsOf xrs) = gcStop cfg running (refsOf xrs') := by
  simp only [refsOf, h]

/-- the case the property names: a watch whose kind only a deleting XR references is kept -/
theorem gc_keeps_watch_referenced_by_deleting_xr (running : List Wid) (xrs : List XR) (x : XR) (w : Wid)
    (hx : x ∈ xrs) (_hdel : x.deleting = true) (href : some w.gvk ∈ x.refs) :
    w ∉ gcStop Cfg.fixed running (refsOf xrs) := by
  intro hw
  exact ((gc_decision running xrs w).1 hw).2.2 x hx href

/-- Whatever a step of `GarbageCollectWatchesNow` removes from any controller's sources is a
composed-resource watch on a kind none of the listed XRs (in whatever state) references —
under every interleaving with other calls. -/
theorem gc_only_unreferenced_composed {ops : List Op} {s s' : Sys} (h : Reachable Cfg.fixed ops s)
    {i : Nat} {ch : Choice} {t : Thread} {n : Nat} {xrs : List XR}
    (ht : s.threads[i]? = some t) (hop : t.op = .gc n xrs) (hstep : step Cfg.fixed s i ch = some s')
    {cid : Nat} {w : Wid} {reg : Nat}
    (hbefore : aget w (srcsOf s cid) = some reg) (hafter : aget w (srcsOf s' cid) = none) :
    w.ty = .composed ∧ ∀ x ∈ xrs, some w.gvk ∉ x.refs := by
  have hc := gc_step_removes_collectable (GcInv_reachable h) ht hop hstep cid w reg hbefore hafter
  refine ⟨hc.1, ?_⟩
  intro x hx href
  exact hc.2 ((mem_refsOf xrs w.gvk).2 ⟨x, hx, href⟩)

/-- in particular it never stops the watch on the XRs or on composition revisions -/
theorem gc_never_stops_xr_or_revision_watch {ops : List Op} {s s' : Sys} (h : Reachable Cfg.fixed ops s)
    {i : Nat} {ch : Choice} {t : Thread} {n : Nat} {xrs : List XR}
    (ht : s.threads[i]? = some t) (hop : t.op = .gc n xrs) (hstep : step Cfg.fixed s i ch = some s')
    {cid : Nat} {w : Wid} {reg : Nat} (hw : w.ty = .xr ∨ w.ty = .rev ∨ w.ty = .claim)
    (hbefore : aget w (srcsOf s cid) = some reg) : aget w (srcsOf s' cid) ≠ none := by
  intro hafter
  have := (gc_only_unreferenced_composed h ht hop hstep hbefore hafter).1
  rw [this] at hw
  rcases hw with h | h | h <;> cases h

/-- A collector call acts on the XRs IT listed and on nothing remembered from an earlier call:
kinds that only OTHER lists reference (the XRs an earlier run of the same collector saw, the XRs
of another composite kind, another version / API group / spelling of a kind — every such kind is
a different number) do not keep a watch. A running composed-resource watch whose exact kind none
of the XRs of this call references is in the stop set, whatever else is referenced. -/
theorem gc_reference_to_another_kind_keeps_nothing (running : List Wid) (xrs : List XR) (w : Wid)
    (hrun : w ∈ running) (hty : w.ty = .composed) (hother : ∀ x ∈ xrs, ∀ g, some g ∈ x.refs → g ≠ w.gvk) :
    w ∈ gcStop Cfg.fixed running (refsOf xrs) :=
  (gc_decision running xrs w).2 ⟨hrun, hty, fun x hx href => hother x hx w.gvk href rfl⟩

/-! ### error classes -/

/-- No step looks at the class of the error a failing call returns (NotFound, Conflict,
AlreadyExists, Invalid, Forbidden, TooManyRequests, NoKindMatch, a Temporary() transport error, a
context deadline or cancellation, anything else): every theorem above that says "for every
fault" holds for every fault of every class, and a failing call has the same effect whatever its
class (both code variants). -/
theorem error_class_irrelevant (cfg : Cfg) (s : Sys) (i : Nat) (ch : Choice) (c : ErrClass) :
    step cfg s i { ch with cls := c } = step cfg s i ch := by
  unfold step
  cases s.threads[i]? with
  | none => rfl
  | some t =>
    have : next cfg s i t { ch with cls := c } = next cfg s i t ch := by
      obtain ⟨op, pc⟩ := t
      cases pc <;> first | rfl | (cases op <;> rfl)
    simp only [this]

/-- A collector whose List of the XRs failed — with an error of ANY class, also NotFound or
NoKindMatch ("the XRs' CRD is gone") — has seen no XR and stops nothing: the call ends with that
error and nothing else changes. -/
theorem gc_failed_list_changes_nothing {cfg : Cfg} {s s' : Sys} {i n : Nat} {xrs : List XR} {ch : Choice}
    (ht : s.threads[i]? = some ⟨.gc n xrs, .idle⟩) (hf : ch.fault = true) (h : step cfg s i ch = some s') :
    s' = { s with threads := s.threads.set i ⟨.gc n xrs, .done .err⟩ } := by
  unfold step at h
  rw [ht] at h
  simp only [next, hf, if_true, Option.some.injEq] at h
  exact h.symm

/-! ### restart after informer loss -/

/-- A watch lost with its informer is re-established by the next start request — for a
request that runs without interference: take any reachable state in which a `StartWatches n ws`
call has not begun, controller `n` runs, and no other goroutine holds a lock (others may be
anywhere between their lock sections). Let the call run alone and without faults. It returns
nil, and every requested watch whose kind has no active informer (its informer was removed,
or never existed) — or that has no source yet — then has a live handler registration that is
recorded as the controller's source. (With interference the clause is false: finding D13,
`restart_not_guaranteed_when_informer_shared_witness` below.) -/
theorem restart_after_informer_loss {ops : List Op} {s : Sys} (h : Reachable Cfg.fixed ops s)
    {i n cid : Nat} {ws : List Wid}
    (ht : s.threads[i]? = some ⟨.startWatches n ws, .idle⟩) (hn : aget n s.ctrls = some cid)
    (hquiet : ∀ (j : Nat) (u : Thread), s.threads[j]? = some u → j ≠ i → u.pc.held = ⟨.n, none⟩) :
    ∃ k s', runThread Cfg.fixed s i k = some s' ∧ Reachable Cfg.fixed ops s' ∧
      s'.threads[i]? = some ⟨.startWatches n ws, .done .ok⟩ ∧
      ∀ w ∈ ws, (w.gvk ∉ s.tracked ∨ aget w (srcsOf s cid) = none) →
        ∃ r ∈ s'.regs, r.cid = cid ∧ r.wid = w ∧ aget w.gvk s'.live = some r.gen ∧
          aget w (srcsOf s' cid) = some r.id := by
  have hinv := Inv_reachable h
  obtain ⟨hv, hst⟩ := hinv.ctlValid n cid hn
  obtain ⟨k, s', hrun, hdone, hregs⟩ := sw_alone (s := s) ⟨hquiet, hv, hst⟩ ht hn
  have hr' := reachable_of_runThread h hrun
  refine ⟨k, s', hrun, hr', hdone, ?_⟩
  intro w hw hc
  obtain ⟨r, hr, h1, h2⟩ := hregs w hw (hc.symm)
  have hinv' := Inv_reachable hr'
  refine ⟨r, hr, h1, h2, ?_, ?_⟩
  · rw [← h2]; exact hinv'.regLive r hr
  · rw [← h2, ← h1]; exact hinv'.own r hr

/-! ### the breaks on the pinned commit (negation witnesses) -/

def cW (g : Nat) : Wid := ⟨.composed, g⟩
/-- a live, ready XR referencing the given kinds -/
def xrLive (gs : List Nat) : XR := ⟨false, false, true, true, true, gs.map some⟩
def rep (i k : Nat) : List (Nat × Choice) := List.replicate k (i, {})

/-- D2, concurrent form: two StartWatches calls for the same watch; the second takes its
ActiveInformers snapshot while the first is inside GetInformer. -/
def opsD2 : List Op := [.start 0, .startWatches 0 [cW 0], .startWatches 0 [cW 0], .stop 0]
def schedD2 : List (Nat × Choice) := rep 0 3 ++ rep 1 6 ++ rep 2 3 ++ rep 1 3 ++ rep 2 6
def schedD2stop : List (Nat × Choice) := schedD2 ++ rep 3 2 ++ [(3, { pick := cW 0 })] ++ rep 3 5

theorem one_live_watch_fails_on_unfixed_witness :
    ∃ s, Reachable Cfg.asFound opsD2 s ∧
      ∃ r1 ∈ s.regs, ∃ r2 ∈ s.regs, r1.cid = r2.cid ∧ r1.wid = r2.wid ∧ r1 ≠ r2 := by
  have hrun : (runSched Cfg.asFound (init opsD2) schedD2).isSome = true := by decide
  obtain ⟨s, hs⟩ := Option.isSome_iff_exists.1 hrun
  refine ⟨s, reachable_of_runSched .init hs, ?_⟩
  have hregs : (runSched Cfg.asFound (init opsD2) schedD2).map (·.regs) =
      some [⟨1, 0, cW 0, 0⟩, ⟨0, 0, cW 0, 0⟩] := by decide
  rw [hs] at hregs
  simp only [Option.map_some, Option.some.injEq] at hregs
  rw [hregs]
  exact ⟨⟨1, 0, cW 0, 0⟩, by simp, ⟨0, 0, cW 0, 0⟩, by simp, rfl, rfl, by decide⟩

/-- D2 continued: after `Stop` returned nil one registration of the stopped controller survives. -/
theorem stop_cleans_fails_on_unfixed_witness_D2 :
    ∃ s, Reachable Cfg.asFound opsD2 s ∧
      ∃ cid c, s.objs[cid]? = some c ∧ c.stopped = true ∧ ∃ r ∈ s.regs, r.cid = cid := by
  have hrun : (runSched Cfg.asFound (init opsD2) schedD2stop).isSome = true := by decide
  obtain ⟨s, hs⟩ := Option.isSome_iff_exists.1 hrun
  refine ⟨s, reachable_of_runSched .init hs, 0, ⟨0, [], true, true⟩, ?_⟩
  have hst : (runSched Cfg.asFound (init opsD2) schedD2stop).map (fun s => (s.objs, s.regs)) =
      some ([⟨0, [], true, true⟩], [⟨0, 0, cW 0, 0⟩]) := by decide
  rw [hs] at hst
  simp only [Option.map_some, Option.some.injEq, Prod.mk.injEq] at hst
  rw [hst.1, hst.2]
  exact ⟨rfl, rfl, ⟨0, 0, cW 0, 0⟩, by simp, rfl⟩

/-- D2, sequential form: one call that names the same watch twice (an XR composing two
resources of one kind whose informer is not active yet). -/
def opsDup : List Op := [.start 0, .startWatches 0 [cW 0, cW 0]]
def schedDup : List (Nat × Choice) := rep 0 3 ++ rep 1 11

theorem one_live_watch_fails_on_unfixed_witness_sequential :
    ∃ s, Reachable Cfg.asFound opsDup s ∧
      ∃ r1 ∈ s.regs, ∃ r2 ∈ s.regs, r1.cid = r2.cid ∧ r1.wid = r2.wid ∧ r1 ≠ r2 := by
  have hrun : (runSched Cfg.asFound (init opsDup) schedDup).isSome = true := by decide
  obtain ⟨s, hs⟩ := Option.isSome_iff_exists.1 hrun
  refine ⟨s, reachable_of_runSched .init hs, ?_⟩
  have hregs : (runSched Cfg.asFound (init opsDup) schedDup).map (·.regs) =
      some [⟨1, 0, cW 0, 0⟩, ⟨0, 0, cW 0, 0⟩] := by decide
  rw [hs] at hregs
  simp only [Option.map_some, Option.some.injEq] at hregs
  rw [hregs]
  exact ⟨⟨1, 0, cW 0, 0⟩, by simp, ⟨0, 0, cW 0, 0⟩, by simp, rfl, rfl, by decide⟩

/-- D12: StartWatches looked the controller up, Stop completed, StartWatches then registered
a handler for the stopped controller. -/
def opsD12 : List Op := [.start 0, .startWatches 0 [cW 0], .stop 0]
def schedD12 : List (Nat × Choice) := rep 0 3 ++ rep 1 2 ++ rep 2 5 ++ rep 1 7

theorem stop_cleans_fails_on_unfixed_witness :
    ∃ s, Reachable Cfg.asFound opsD12 s ∧
      ∃ cid c, s.objs[cid]? = some c ∧ c.stopped = true ∧ c.sources ≠ [] ∧ ∃ r ∈ s.regs, r.cid = cid := by
  have hrun : (runSched Cfg.asFound (init opsD12) schedD12).isSome = true := by decide
  obtain ⟨s, hs⟩ := Option.isSome_iff_exists.1 hrun
  refine ⟨s, reachable_of_runSched .init hs, 0, ⟨0, [(cW 0, 0)], true, true⟩, ?_⟩
  have hst : (runSched Cfg.asFound (init opsD12) schedD12).map (fun s => (s.objs, s.regs)) =
      some ([⟨0, [(cW 0, 0)], true, true⟩], [⟨0, 0, cW 0, 0⟩]) := by decide
  rw [hs] at hst
  simp only [Option.map_some, Option.some.injEq, Prod.mk.injEq] at hst
  rw [hst.1, hst.2]
  exact ⟨rfl, rfl, by simp, ⟨0, 0, cW 0, 0⟩, by simp, rfl⟩

/-- the same schedule on the fixed code: StartWatches reports that the controller is not running -/
example : (runSched Cfg.fixed (init opsD12) (rep 0 3 ++ rep 1 2 ++ rep 2 5 ++ rep 1 5)).map
    (fun s => (s.regs, s.threads.map (·.pc))) = some ([], [.done .ok, .done .notRunning, .done .ok]) := by decide

/-- D3: the collector of the pinned commit stops the XR and the CompositionRevision watch. -/
def opsD3 : List Op := [.start 0, .startWatches 0 [⟨.xr, 0⟩, ⟨.rev, 1⟩, cW 1], .gc 0 [xrLive [1]]]
def schedD3 : List (Nat × Choice) :=
  rep 0 3 ++ rep 1 13 ++ rep 2 4 ++ [(2, { perm := [⟨.xr, 0⟩, ⟨.rev, 1⟩] })] ++ rep 2 10

theorem gc_decision_fails_on_unfixed_witness :
    gcStop Cfg.asFound [⟨.xr, 0⟩, ⟨.rev, 1⟩, cW 1] [1] = [⟨.xr, 0⟩, ⟨.rev, 1⟩] := by decide

theorem gc_only_unreferenced_composed_fails_on_unfixed_witness :
    ∃ s, Reachable Cfg.asFound opsD3 s ∧ srcsOf s 0 = [(cW 1, 2)] := by
  have hrun : (runSched Cfg.asFound (init opsD3) schedD3).isSome = true := by decide
  obtain ⟨s, hs⟩ := Option.isSome_iff_exists.1 hrun
  refine ⟨s, reachable_of_runSched .init hs, ?_⟩
  have hst : (runSched Cfg.asFound (init opsD3) schedD3).map (fun s => srcsOf s 0) = some [(cW 1, 2)] := by decide
  rw [hs] at hst
  simpa using hst

/-- D13 (recorded as a finding, present in the fixed code as well): an informer shared by two
controllers is removed; the first controller to call StartWatches re-creates it; the second
controller's StartWatches then sees "watch exists and informer active", skips, and keeps a
source whose handler died with the old informer. -/
def opsD13 : List Op := [.start 0, .start 1, .startWatches 0 [cW 0], .startWatches 1 [cW 0], .removeInformer 0,
  .startWatches 1 [cW 0], .startWatches 0 [cW 0]]
def schedD13 : List (Nat × Choice) := rep 0 3 ++ rep 1 3 ++ rep 2 10 ++ rep 3 10 ++ rep 4 1 ++ rep 5 10 ++ rep 6 5

theorem restart_not_guaranteed_when_informer_shared_witness :
    ∃ s, Reachable Cfg.fixed opsD13 s ∧ (∀ t ∈ s.threads, t.finished) ∧
      aget (cW 0) (srcsOf s 0) = some 0 ∧ ∀ r ∈ s.regs, r.cid ≠ 0 := by
  have hrun : (runSched Cfg.fixed (init opsD13) schedD13).isSome = true := by decide
  obtain ⟨s, hs⟩ := Option.isSome_iff_exists.1 hrun
  refine ⟨s, reachable_of_runSched .init hs, ?_⟩
  have hst : (runSched Cfg.fixed (init opsD13) schedD13).map (fun s => (s.threads.map (·.pc), srcsOf s 0, s.regs)) =
      some (List.replicate 7 (.done .ok), [(cW 0, 0)], [⟨2, 1, cW 0, 1⟩]) := by decide
  rw [hs] at hst
  simp only [Option.map_some, Option.some.injEq, Prod.mk.injEq] at hst
  obtain ⟨h1, h2, h3⟩ := hst
  refine ⟨?_, ?_, ?_⟩
  · intro t ht
    have : t.pc ∈ s.threads.map (·.pc) := List.mem_map_of_mem ht
    rw [h1] at this
    exact ⟨.ok, (List.mem_replicate.1 this).2⟩
  · rw [h2]; decide
  · rw [h3]; intro r hr; simp at hr; subst hr; decide

/-! ### non-vacuity: the hypotheses are met by busy states -/

/-- a reachable state of the fixed engine with two controllers, three live registrations on
two informers, after a concurrent mix of calls -/
example : ∃ s, Reachable Cfg.fixed
    [.start 0, .start 1, .startWatches 0 [⟨.xr, 0⟩, cW 1], .startWatches 1 [cW 1], .gc 0 [xrLive [1]]] s ∧
    s.regs.length = 3 ∧ s.ctrls.length = 2 := by
  have hrun : (runSched Cfg.fixed (init [.start 0, .start 1, .startWatches 0 [⟨.xr, 0⟩, cW 1], .startWatches 1 [cW 1], .gc 0 [xrLive [1]]])
      (rep 0 3 ++ rep 1 3 ++ rep 2 12 ++ rep 3 10 ++ rep 4 5)).isSome = true := by decide
  obtain ⟨s, hs⟩ := Option.isSome_iff_exists.1 hrun
  refine ⟨s, reachable_of_runSched .init hs, ?_⟩
  have hst : (runSched Cfg.fixed (init [.start 0, .start 1, .startWatches 0 [⟨.xr, 0⟩, cW 1], .startWatches 1 [cW 1], .gc 0 [xrLive [1]]])
      (rep 0 3 ++ rep 1 3 ++ rep 2 12 ++ rep 3 10 ++ rep 4 5)).map (fun s => (s.regs.length, s.ctrls.length)) = some (3, 2) := by decide
  rw [hs] at hst
  simpa using hst

/-- restart after informer loss, concretely: a controller with two watches (XR and composed) on
one kind loses the informer; one StartWatches call re-establishes both on the new informer
(generation 1), none is skipped because the other one re-created the informer -/
example : (runSched Cfg.fixed
      (init [.start 0, .startWatches 0 [⟨.xr, 0⟩, cW 0], .removeInformer 0, .startWatches 0 [⟨.xr, 0⟩, cW 0]])
      (rep 0 3 ++ rep 1 12 ++ rep 2 1 ++ rep 3 12)).map
    (fun s => (s.regs.map (fun r => (r.wid, r.gen)), s.threads.map (·.pc))) =
    some ([(cW 0, 1), (⟨.xr, 0⟩, 1)], [.done .ok, .done .ok, .done .ok, .done .ok]) := by decide

/-- the collector with a deleting, paused, unready XR that alone references kind 0, a live XR
referencing version 2 of kind 1 (kind number 1001) and a malformed reference: the watch on kind
0 is kept, the watch on (version 1 of) kind 1 is stopped, the XR watch is kept -/
example : (runSched Cfg.fixed
      (init [.start 0, .startWatches 0 [⟨.xr, 7⟩, cW 0, cW 1],
             .gc 0 [⟨true, true, false, false, false, [some 0, some 0]⟩, ⟨false, false, true, true, true, [some 1001, none]⟩]])
      (rep 0 3 ++ rep 1 14 ++ rep 2 4 ++ [(2, { perm := [cW 1] })] ++ rep 2 8)).map
    (fun s => ((srcsOf s 0).map (·.1), s.threads.map (·.pc))) =
    some ([cW 0, ⟨.xr, 7⟩], [.done .ok, .done .ok, .done (.count 1 true)]) := by decide

/-- the D2 schedule is not a run of the fixed engine's model at all: the second call re-reads the
active informers under the lock, finds the kind active, and does not start a second source -/
example : (runSched Cfg.fixed (init opsD2) (rep 0 3 ++ rep 1 7 ++ rep 2 3 ++ rep 1 3 ++ rep 2 5)).map
    (fun s => s.regs.length) = some 1 := by decide

end Xp.C13

import Xp.Model.C09
import Xp.Model.C09Skel
import Xp.Proofs.C09World
import Xp.Gen.C09Skel
/-
C09 — connection details reach only their owner's secret, filtered, from the right XR.
Theorems over Xp/Model/C09.lean for ALL detail maps, key filters and pre-existing secrets, and
over Xp/Model/C09World.lean for all stores of secrets, owners, fault plans (every API error class
at every call, lost answers, cache misses, a concurrent writer) and sequences of operations of
the long-lived publisher / propagator, and for the composers' flow with any number of templates.
Maps are association lists; "is a map" = no duplicate keys (`Nodup`), as Go maps are.

Clauses of the property and where they are proved (monitors: props/C09.json level_note):
 1 only keys the XRD allows ........ publish_keys, publish_keys_allowed_history, publishA_write_keys, stepW_pub_keys
 2 only values of this XR's composition  extract_provenance, foldDetails_provenance, flow_values_provenance,
                                    flow_pt_foreign_blocks, flow_fn_foreign_invisible, pt_foreign_not_published
 3 written only if asked ........... publish_only_if_asked, propagate_only_if_asked, stepW_unasked
 4 claim secret = exact copy ....... propagate_exact, propagateE_exact, propagateA_copy, stepW_prop_copy
 5 only from a secret the XR controls  propagate_needs_controller, propagateA_source_error, stepW_prop_copy
 6 identical data never rewritten .. publish_no_rewrite, publish_idempotent, propagate_idempotent,
                                    stepW_pub_no_rewrite, stepW_pub_idempotent
 7 only the owner's secret ......... publish_guard, publishA_guard, propagateA_guard, stepW_frame, stepW_guard,
                                    stepW_owner, runW_foreign_untouched, runW_frame, flow_frame, flow_guard
-/
namespace Xp.C09

/-! ### association-list lemmas -/

theorem dget_dset_self (d : Data) (k v : String) : dget (dset d k v) k = some v := by
  induction d with
  | nil => simp [dset, dget]
  | cons p ps ih =>
    unfold dset
    split
    · simp [dget]
    · rename_i h
      simp only [dget, List.find?, h, decide_false] at ih ⊢
      exact ih

theorem dget_dset_ne (d : Data) (k k' v : String) (h : k' ≠ k) : dget (dset d k v) k' = dget d k' := by
  induction d with
  | nil => simp [dset, dget, Ne.symm h]
  | cons p ps ih =>
    unfold dset
    split
    · rename_i hp
      have : ¬ p.1 = k' := fun e => h (e ▸ hp)
      simp [dget, List.find?, Ne.symm h, this]
    · simp only [dget, List.find?] at ih ⊢
      split
      · rfl
      · exact ih

theorem dget_none_of_not_mem (d : Data) (k : String) (h : k ∉ d.map (·.1)) : dget d k = none := by
  induction d with
  | nil => rfl
  | cons p ps ih =>
    simp only [List.map_cons, List.mem_cons, not_or] at h
    simp only [dget, List.find?, Ne.symm h.1, decide_false]
    exact ih h.2

/-- merge patch: a published key takes the published value, every other key keeps its old one -/
theorem dget_mergeData (cur desired : Data) (hn : (desired.map (·.1)).Nodup) (k : String) :
    dget (mergeData cur desired) k = (dget desired k).orElse (fun _ => dget cur k) := by
  induction desired generalizing cur with
  | nil => simp [mergeData, dget]
  | cons p ps ih =>
    simp only [List.map_cons, List.nodup_cons] at hn
    have := ih (dset cur p.1 p.2) hn.2
    simp only [mergeData, List.foldl_cons] at this ⊢
    rw [this]
    by_cases hk : p.1 = k
    · subst hk
      rw [dget_none_of_not_mem ps p.1 hn.1, dget_dset_self]
      simp [dget]
    · have h1 : dget (p :: ps) k = dget ps k := by simp [dget, List.find?, hk]
      rw [h1, dget_dset_ne cur p.1 k p.2 (Ne.symm hk)]

theorem dget_desiredData (filter : List String) (details : Data) (k : String) :
    dget (desiredData filter details) k = if allowed filter k then dget details k else none := by
  induction details with
  | nil => simp [desiredData, dget]
  | cons p ps ih =>
    simp only [desiredData, List.filter_cons] at ih ⊢
    by_cases ha : allowed filter p.1 = true
    · simp only [ha, if_true, dget, List.find?]
      by_cases hk : p.1 = k
      · subst hk; simp [ha]
      · simp only [hk, decide_false]; exact ih
    · simp only [ha, Bool.false_eq_true, if_false]
      by_cases hk : p.1 = k
      · subst hk
        simp only [dget, List.find?, decide_true] at ih ⊢
        rw [ih]; simp [ha]
      · simp only [dget, List.find?, hk, decide_false] at ih ⊢
        exact ih

theorem desiredData_nodup (filter : List String) (details : Data) (hn : (details.map (·.1)).Nodup) :
    ((desiredData filter details).map (·.1)).Nodup :=
  (List.filter_sublist.map _).nodup hn

/-! ### publishing -/

/-- An XR that does not ask for a connection secret gets none: nothing is written. -/
theorem publish_only_if_asked (filter : List String) (details : Data) (slot : Slot) :
    publish false filter details slot = ⟨slot, false, false, 0⟩ := rfl

/-- the data of a slot ([] when absent) -/
def slotData : Slot → Data
  | none => []
  | some s => s.data

/-- **Keys written.** After a successful publish, a key holds the composition's value iff the
filter allows it and the composition produced it; every other key of the secret is exactly
what it was. -/
theorem publish_keys (filter : List String) (details : Data) (hn : (details.map (·.1)).Nodup) (slot : Slot)
    (hp : (publish true filter details slot).published = true) (k : String) :
    dget (slotData (publish true filter details slot).slot) k =
      (if allowed filter k then dget details k else none).orElse (fun _ => dget (slotData slot) k) := by
  unfold publish at hp ⊢
  simp only [Bool.not_true, Bool.false_eq_true, if_false] at hp ⊢
  cases slot with
  | none =>
    simp only [slotData]
    rw [dget_desiredData]
    cases (if allowed filter k = true then dget details k else none) <;> simp [dget]
  | some s =>
    simp only [] at hp ⊢
    by_cases hc : controllable s .owner = true
    · simp only [hc, Bool.not_true, Bool.false_eq_true, if_false] at hp ⊢
      by_cases hu : needsUpdate s.data (desiredData filter details) = true
      · simp only [hu, Bool.not_true, Bool.false_eq_true, if_false, slotData]
        rw [dget_mergeData _ _ (desiredData_nodup filter details hn), dget_desiredData]
      · simp [hu] at hp
    · simp [hc] at hp

/-- By induction from an absent secret: whatever sequence of detail maps is published with a
fixed filter, the secret only ever contains allowed keys. -/
theorem publish_keys_allowed_history (filter : List String) (hist : List Data)
    (hn : ∀ d ∈ hist, (d.map (·.1)).Nodup) (k : String) :
    let final := hist.foldl (fun slot d => (publish true filter d slot).slot) none
    dget (slotData final) k ≠ none → allowed filter k = true := by
  intro final
  have inv : ∀ (slot : Slot), (∀ k, dget (slotData slot) k ≠ none → allowed filter k = true) →
      ∀ k, dget (slotData (hist.foldl (fun slot d => (publish true filter d slot).slot) slot)) k ≠ none →
        allowed filter k = true := by
    induction hist with
    | nil => intro slot h; simpa using h
    | cons d ds ih =>
      intro slot h
      simp only [List.foldl_cons]
      apply ih (fun d' hd' => hn d' (List.mem_cons_of_mem _ hd'))
      intro k' hk'
      by_cases hp : (publish true filter d slot).published = true
      · rw [publish_keys filter d (hn d (List.mem_cons_self ..)) slot hp k'] at hk'
        by_cases ha : allowed filter k' = true
        · exact ha
        · simp only [ha, Bool.false_eq_true, if_false, Option.orElse_none] at hk'
          exact absurd (h k' hk') ha
      · -- nothing was written
        have : (publish true filter d slot).slot = slot := by
          unfold publish at hp ⊢
          simp only [Bool.not_true, Bool.false_eq_true, if_false] at hp ⊢
          cases slot with
          | none => simp at hp
          | some s =>
            simp only [] at hp ⊢
            split
            · rfl
            · split
              · rfl
              · rename_i h1 h2; simp [h1, h2] at hp
        rw [this] at hk'
        exact h k' hk'
  exact inv none (by intro k h; simp [slotData, dget] at h) k

/-- **Guard.** A destination controlled by someone else, or uncontrolled and not of the
connection type, is neither created, updated nor adopted; the conflict surfaces as an error. -/
theorem publish_guard (filter : List String) (details : Data) (s : Secret)
    (h : controllable s .owner = false) :
    publish true filter details (some s) = ⟨some s, false, true, 0⟩ := by
  simp [publish, h]

theorem controllable_spec (s : Secret) :
    controllable s .owner = true ↔ (s.ctrl = .owner ∨ ((s.ctrl = .none ∨ s.ctrl = .xrPlain) ∧ s.conn = true)) := by
  cases s with
  | mk conn ctrl data => cases ctrl <;> simp [controllable]

/-- **Identical data is never rewritten.** If every key that would be published is already
stored with that value, no write request is issued and nothing is reported as published. -/
theorem publish_no_rewrite (filter : List String) (details : Data) (s : Secret)
    (h : ∀ kv ∈ desiredData filter details, dget s.data kv.1 = some kv.2) :
    (publish true filter details (some s)).writes = 0 ∧ (publish true filter details (some s)).published = false ∧
    (publish true filter details (some s)).slot = some s := by
  have hnu : needsUpdate s.data (desiredData filter details) = false := by
    simp only [needsUpdate, List.any_eq_false, ne_eq, decide_eq_true_eq]
    intro kv hkv hne
    exact hne (h kv hkv)
  unfold publish
  simp only [Bool.not_true, Bool.false_eq_true, if_false]
  by_cases hc : controllable s .owner = true
  · simp [hc, hnu]
  · simp [hc]

/-- Publishing the same details again right after a successful publish writes nothing. -/
theorem publish_idempotent (filter : List String) (details : Data) (hn : (details.map (·.1)).Nodup) (slot : Slot)
    (hp : (publish true filter details slot).published = true) :
    (publish true filter details (publish true filter details slot).slot).writes = 0 := by
  have hkeys := publish_keys filter details hn slot hp
  cases hs : (publish true filter details slot).slot with
  | none =>
    -- a successful publish always leaves a secret behind
    unfold publish at hp hs
    simp only [Bool.not_true, Bool.false_eq_true, if_false] at hp hs
    cases slot with
    | none => simp at hs
    | some s =>
      simp only [] at hp hs
      split at hs
      · simp at hs
      · split at hs <;> simp at hs
  | some s' =>
    apply (publish_no_rewrite filter details s' _).1
    intro kv hkv
    have := hkeys kv.1
    rw [hs] at this
    simp only [slotData] at this
    rw [this]
    have hd : dget (desiredData filter details) kv.1 = some kv.2 := by
      have hnd := desiredData_nodup filter details hn
      clear this hkeys hp hs
      generalize desiredData filter details = dd at hkv hnd
      induction dd with
      | nil => cases hkv
      | cons p ps ih =>
        simp only [List.map_cons, List.nodup_cons] at hnd
        rcases List.mem_cons.mp hkv with rfl | hm
        · simp [dget]
        · have hne : p.1 ≠ kv.1 := by
            intro e; exact hnd.1 (e ▸ List.mem_map.mpr ⟨kv, hm, rfl⟩)
          simp only [dget, List.find?, hne, decide_false]
          exact ih hm hnd.2
    rw [dget_desiredData] at hd
    by_cases ha : allowed filter kv.1 = true
    · simp only [ha, if_true] at hd ⊢; rw [hd]; rfl
    · simp [ha] at hd

/-! ### propagation to the claim -/

/-- **Exact copy.** A successful propagation leaves the claim's secret with exactly the XR
secret's data (a replace, not a merge), controlled by the claim. -/
theorem propagate_exact (src dst : Slot) (h : (propagate true true src dst).published = true) :
    ∃ fs, src = some fs ∧ fs.ctrl = .xr ∧ (propagate true true src dst).slot = some ⟨true, .owner, fs.data⟩ := by
  unfold propagate at h ⊢
  simp only [Bool.not_true, Bool.or_self, Bool.false_eq_true, if_false] at h ⊢
  cases src with
  | none => simp at h
  | some fs =>
    simp only [] at h ⊢
    by_cases hx : fs.ctrl = .xr
    · refine ⟨fs, rfl, hx, ?_⟩
      simp only [hx, ne_eq, not_true_eq_false, if_false] at h ⊢
      cases dst with
      | none => rfl
      | some d =>
        simp only [] at h ⊢
        split at h
        · simp at h
        · split at h
          · simp at h
          · rename_i h1 h2; simp [h1, h2]
    · simp [hx] at h

/-- **Provenance.** If the source secret is missing or not controlled by the bound XR, the
propagation fails and the claim's secret is not touched: a claim cannot use Crossplane to
read a secret its XR does not own. -/
theorem propagate_needs_controller (src dst : Slot) (h : ∀ fs, src = some fs → fs.ctrl ≠ .xr) :
    propagate true true src dst = ⟨dst, false, true, 0⟩ := by
  unfold propagate
  simp only [Bool.not_true, Bool.or_self, Bool.false_eq_true, if_false]
  cases src with
  | none => rfl
  | some fs => simp [h fs rfl]

/-- Either side not asking for a secret: nothing happens. -/
theorem propagate_only_if_asked (fw tw : Bool) (src dst : Slot) (h : fw = false ∨ tw = false) :
    propagate fw tw src dst = ⟨dst, false, false, 0⟩ := by
  unfold propagate
  rcases h with rfl | rfl <;> simp

/-- The claim's destination is guarded like the XR's. -/
theorem propagate_guard (fs d : Secret) (hx : fs.ctrl = .xr) (h : controllable d .owner = false) :
    propagate true true (some fs) (some d) = ⟨some d, false, true, 0⟩ := by
  simp [propagate, hx, h]

/-! ### both writers in an environment: informer-cache misses and a concurrent writer -/

theorem publishE_no_env (wants : Bool) (filter : List String) (details : Data) (slot : Slot) :
    publishE {} wants filter details slot = publish wants filter details slot := by
  unfold publishE
  cases slot with
  | none => cases wants <;> simp [publish]
  | some s => cases wants <;> simp [publish]

theorem propagateE_no_env (fw tw : Bool) (src dst : Slot) :
    propagateE {} fw tw src dst = propagate fw tw src dst := by
  unfold propagateE propagate
  by_cases h : (!fw || !tw) = true
  · simp [h]
  · simp only [h]
    cases src with
    | none => rfl
    | some fs =>
      by_cases hx : fs.ctrl = .xr
      · cases dst with
        | none => simp [hx]
        | some d => simp [hx]
      · simp [hx]

/-- **An existing secret the cache has not seen is never overwritten**: whatever it is (own,
foreign, uncontrolled), the publisher's Create is refused and the secret stays as it was. -/
theorem publishE_miss_keeps (e : Env) (he : e.miss = true) (wants : Bool) (filter : List String) (details : Data) (s : Secret) :
    (publishE e wants filter details (some s)).slot = some s ∧ (publishE e wants filter details (some s)).published = false := by
  unfold publishE
  cases wants <;> simp [he]

/-- **The guard holds in every environment**: a destination the XR may not control is left
exactly as it was and nothing is reported published, with or without a cache miss. -/
theorem publishE_guard (e : Env) (filter : List String) (details : Data) (s : Secret)
    (h : controllable s .owner = false) :
    (publishE e true filter details (some s)).slot = some s ∧ (publishE e true filter details (some s)).published = false := by
  unfold publishE
  cases hm : e.miss
  · simp [publish, h]
  · simp

/-- **Exact copy and provenance in every environment**: whenever the propagation reports
success, the claim's secret holds exactly the data of the source secret that was read and
checked to be controlled by the bound XR. -/
theorem propagateE_exact (e : Env) (src dst : Slot) (h : (propagateE e true true src dst).published = true) :
    ∃ fs, src = some fs ∧ fs.ctrl = .xr ∧ (propagateE e true true src dst).slot = some ⟨true, .owner, fs.data⟩ := by
  unfold propagateE at h ⊢
  simp only [Bool.not_true, Bool.or_self, Bool.false_eq_true, if_false] at h ⊢
  cases src with
  | none => simp at h
  | some fs =>
    simp only [] at h ⊢
    by_cases hx : fs.ctrl = .xr
    · refine ⟨fs, rfl, hx, ?_⟩
      simp only [hx, ne_eq, not_true_eq_false, if_false] at h ⊢
      cases dst with
      | none => rfl
      | some d =>
        simp only [] at h ⊢
        split at h
        · simp at h
        · split at h
          · simp at h
          · split at h
            · simp at h
            · split at h
              · simp at h
              · rename_i h1 h2 h3 h4; simp [h1, h2, h3, h4]
    · simp [hx] at h

/-- **Whatever the environment, a claim's secret changes only by such a copy**: if the
destination differs afterwards, the propagation reported success (so `propagateE_exact`
applies); in particular a Conflict caused by a concurrent writer, a cache miss, a foreign
destination or an unowned source leave it exactly as it was. -/
theorem propagateE_changes_only_by_copy (e : Env) (fw tw : Bool) (src dst : Slot)
    (h : (propagateE e fw tw src dst).slot ≠ dst) : (propagateE e fw tw src dst).published = true ∧ fw = true ∧ tw = true := by
  unfold propagateE at h ⊢
  by_cases hw : (!fw || !tw) = true
  · simp [hw] at h
  · have hfw : fw = true := by cases fw <;> simp_all
    have htw : tw = true := by cases tw <;> simp_all
    subst hfw; subst htw
    simp only [Bool.not_true, Bool.or_self, Bool.false_eq_true, if_false] at h ⊢
    cases src with
    | none => simp at h
    | some fs =>
      simp only [] at h ⊢
      by_cases hx : fs.ctrl = .xr
      · simp only [hx, ne_eq, not_true_eq_false, if_false] at h ⊢
        cases dst with
        | none => simp
        | some d =>
          simp only [] at h ⊢
          split at h
          · simp at h
          · split at h
            · simp at h
            · split at h
              · simp at h
              · split at h
                · simp at h
                · rename_i h1 h2 h3 h4; simp [h1, h2, h3, h4]
      · simp [hx] at h

/-- non-vacuity: a concurrent writer turns the update into a Conflict and the claim's secret
keeps its old data; without it the same call copies the XR's data -/
example :
    (propagateE { swap := true } true true (some ⟨true, .xr, [("user", "u")]⟩) (some ⟨true, .owner, [("user", "old")]⟩)).slot
      = some ⟨true, .owner, [("user", "old")]⟩ ∧
    (propagateE {} true true (some ⟨true, .xr, [("user", "u")]⟩) (some ⟨true, .owner, [("user", "old")]⟩)).slot
      = some ⟨true, .owner, [("user", "u")]⟩ := by decide

theorem dataEq_self (a : Data) (hn : (a.map (·.1)).Nodup) : dataEq a a = true := by
  have : ∀ kv ∈ a, dget a kv.1 = some kv.2 := by
    induction a with
    | nil => intro kv h; cases h
    | cons p ps ih =>
      simp only [List.map_cons, List.nodup_cons] at hn
      intro kv hkv
      rcases List.mem_cons.mp hkv with rfl | hm
      · simp [dget]
      · have hne : p.1 ≠ kv.1 := by
          intro e; exact hn.1 (e ▸ List.mem_map.mpr ⟨kv, hm, rfl⟩)
        simp only [dget, List.find?, hne, decide_false]
        exact ih hn.2 kv hm
  simp only [dataEq, Bool.and_self, List.all_eq_true, decide_eq_true_eq]
  exact this

/-- Identical data is never rewritten: propagating again after a successful propagation
issues no write. -/
theorem propagate_idempotent (src dst : Slot) (hn : ∀ fs, src = some fs → (fs.data.map (·.1)).Nodup)
    (h : (propagate true true src dst).published = true) :
    (propagate true true src (propagate true true src dst).slot).writes = 0 := by
  obtain ⟨fs, rfl, hx, hs⟩ := propagate_exact src dst h
  rw [hs]
  simp [propagate, hx, controllable, dataEq_self fs.data (hn fs rfl)]

/-! ### extraction -/

/-- a fixed value is always extracted under its name; a missing value is an error -/
theorem extract_fromValue (conn : Data) (f : String → Option String) (name : String) (v : Option String) (acc : Data)
    (hn : name ≠ "") :
    extract conn f [⟨"FromValue", name, none, none, v⟩] acc = v.map (fun x => dset acc name x) := by
  cases v <;> simp [extract, hn]

/-- a connection-secret key that is not (yet) there is omitted, not an error; an unset key is an error -/
theorem extract_fromKey (conn : Data) (f : String → Option String) (name : String) (k : Option String) (acc : Data)
    (hn : name ≠ "") :
    extract conn f [⟨"FromConnectionSecretKey", name, k, none, none⟩] acc =
      k.map (fun key => match dget conn key with | some v => dset acc name v | none => acc) := by
  cases k with
  | none => simp [extract, hn]
  | some key => cases h : dget conn key <;> simp [extract, hn, h]

/-- a field path that cannot be read is omitted, not an error; an unset path is an error -/
theorem extract_fromPath (conn : Data) (f : String → Option String) (name : String) (p : Option String) (acc : Data)
    (hn : name ≠ "") :
    extract conn f [⟨"FromFieldPath", name, none, p, none⟩] acc =
      p.map (fun path => match f path with | some v => dset acc name v | none => acc) := by
  cases p with
  | none => simp [extract, hn]
  | some path => cases h : f path <;> simp [extract, hn, h]

/-- a detail without a name is an error, whatever its type -/
theorem extract_needs_name (conn : Data) (f : String → Option String) (c : Cfg) (cs : List Cfg) (acc : Data)
    (h : c.name = "") : extract conn f (c :: cs) acc = none := by
  simp [extract, h]

/-- **Provenance through the composer.** The connection secret of a composed resource that the
XR does not control is never read into the XR's secret: the reconcile fails on that resource
(MustBeControllableBy) before any detail is extracted, nothing is published and the resource is
not reported as applied. -/
theorem pt_foreign_not_published (cdSecret : Option Data) (key : String) (xrSecret : Slot) :
    ptFlow .other cdSecret key xrSecret = (⟨xrSecret, false, true, 0⟩, false) := by
  simp [ptFlow]

/-- When the XR does control the resource, exactly the requested key of that resource's own
connection secret is published (filtered like any other detail). -/
theorem pt_own_published (c : Ctrl) (hc : c ≠ .other) (conn : Data) (key v : String) (hk : key ≠ "")
    (hv : dget conn key = some v) :
    (ptFlow c (some conn) key none).1.slot = some ⟨true, .owner, [(key, v)]⟩ := by
  simp [ptFlow, hc, extract, hk, hv, publish, desiredData, allowed, dset]

/-! ### non-vacuity -/
example : (publish true ["user"] [("user", "1"), ("pass", "2")] (some ⟨true, .owner, [("stale", "x")]⟩)).slot =
    some ⟨true, .owner, [("stale", "x"), ("user", "1")]⟩ := by decide
example : (propagate true true (some ⟨true, .xr, [("user", "1")]⟩) (some ⟨true, .owner, [("old", "x")]⟩)).slot =
    some ⟨true, .owner, [("user", "1")]⟩ := by decide

/-! ### the long-lived writers: every API error class at every call -/

/-- without faults `publishA` is `publish` -/
theorem publishA_none (wants : Bool) (filter : List String) (details : Data) (slot : Slot) :
    (publishA none wants filter details slot).res slot = publish wants filter details slot := by
  unfold publishA publish Out.res
  cases wants with
  | false => simp [Out.nop]
  | true =>
    simp only [Bool.not_true, Bool.false_eq_true, if_false, faultAt]
    cases slot with
    | none => simp [writeOut, faultAt]
    | some s =>
      simp only []
      by_cases hc : controllable s .owner = true
      · by_cases hu : needsUpdate s.data (desiredData filter details) = true
        · simp [hc, hu, writeOut, faultAt]
        · simp [hc, hu, Out.nop]
      · simp [hc, Out.fail]

/-- the informer-cache miss of `publishE` is a NotFound answer to the Get (call 0) -/
theorem publishA_miss (lost wants : Bool) (filter : List String) (details : Data) (slot : Slot) :
    (publishA (some ⟨0, .notFound, lost⟩) wants filter details slot).res slot =
      publishE { miss := true } wants filter details slot := by
  unfold publishA publishE Out.res
  cases wants with
  | false => simp [Out.nop]
  | true =>
    cases slot with
    | none => simp [faultAt, writeOut, publish]
    | some s => simp [faultAt, Out.fail]

/-- the environment of `propagateE` as a fault plan: a cache miss of the claim's secret is a
NotFound answer to its Get (call 1) -/
def envOf (e : Env) : EnvW := ⟨if e.miss then some ⟨1, .notFound, false⟩ else none, e.swap⟩

theorem propagateA_env (e : Env) (fw tw : Bool) (src dst : Slot) :
    (propagateA (envOf e) fw tw src dst).res dst = propagateE e fw tw src dst := by
  unfold propagateA propagateE Out.res envOf
  by_cases hw : (!fw || !tw) = true
  · simp [hw, Out.nop]
  · simp only [hw, Bool.false_eq_true, if_false]
    cases hm : e.miss with
    | false =>
      simp only [Bool.false_eq_true, if_false, faultAt]
      cases src with
      | none => simp [Out.fail]
      | some fs =>
        by_cases hx : fs.ctrl = .xr
        · simp only [hx, ne_eq, not_true_eq_false, if_false]
          cases dst with
          | none => simp [writeOut, faultAt]
          | some d =>
            simp only []
            by_cases hc : controllable d .owner = true
            · by_cases hd : dataEq d.data fs.data = true
              · simp [hc, hd, Out.nop]
              · by_cases hs : e.swap = true
                · simp [hc, hd, hs, Out.fail]
                · simp [hc, hd, hs, writeOut, faultAt]
            · simp [hc, Out.fail]
        · simp [hx, Out.fail]
    | true =>
      simp only [if_true, faultAt]
      cases src with
      | none => simp [Out.fail]
      | some fs =>
        by_cases hx : fs.ctrl = .xr
        · cases dst with
          | none => simp [hx, writeOut, faultAt]
          | some d => simp [hx, Out.fail]
        · simp [hx, Out.fail]

/-- **Keys and values under every fault plan.** Whatever call fails with whatever error class
(also when the answer to a write that took effect is lost): the data a publish stores holds, for
every key, the composition's value if the filter allows the key and the composition produced it,
and the previously stored value otherwise. -/
theorem publishA_write_keys (f : Option Fault) (filter : List String) (details : Data)
    (hn : (details.map (·.1)).Nodup) (slot : Slot) (d' : Data)
    (h : (publishA f true filter details slot).write = some d') (k : String) :
    dget d' k = (if allowed filter k then dget details k else none).orElse (fun _ => dget (slotData slot) k) := by
  obtain ⟨_, hc⟩ := publishA_write_cases f true filter details slot d' h
  rcases hc with ⟨rfl, rfl⟩ | ⟨s, rfl, _, _, _, rfl⟩
  · simp only [slotData]
    rw [dget_desiredData]
    cases (if allowed filter k = true then dget details k else none) <;> simp [dget]
  · simp only [slotData]
    rw [dget_mergeData _ _ (desiredData_nodup filter details hn), dget_desiredData]

/-- **The guard under every fault plan**: a secret the writer may not control is never written
and nothing is reported published, whichever call fails with whichever class. -/
theorem publishA_guard (f : Option Fault) (wants : Bool) (filter : List String) (details : Data) (s : Secret)
    (h : controllable s .owner = false) :
    (publishA f wants filter details (some s)).write = none ∧ (publishA f wants filter details (some s)).published = false := by
  have hw : (publishA f wants filter details (some s)).write = none := by
    cases hq : (publishA f wants filter details (some s)).write with
    | none => rfl
    | some d' =>
      obtain ⟨_, hc⟩ := publishA_write_cases f wants filter details (some s) d' hq
      rcases hc with ⟨h0, _⟩ | ⟨s', h0, hc', _⟩
      · cases h0
      · cases h0; simp [h] at hc'
  refine ⟨hw, ?_⟩
  cases hp : (publishA f wants filter details (some s)).published with
  | false => rfl
  | true =>
    obtain ⟨⟨d, hd⟩, _⟩ := publishA_published f wants filter details (some s) hp
    simp [hw] at hd

/-- **No error class is swallowed.** If some call of a publish fails (and the request did not
take effect), success is reported only in one case: the Get answered NotFound for a secret that
really does not exist, and the Create that followed succeeded. -/
theorem publishA_published_under_fault (x : Fault) (hl : x.lost = false) (hi : x.idx ≤ 1)
    (filter : List String) (details : Data) (slot : Slot)
    (h : (publishA (some x) true filter details slot).published = true) :
    x.idx = 0 ∧ x.cls = .notFound ∧ slot = none := by
  unfold publishA at h
  simp only [Bool.not_true, Bool.false_eq_true, if_false, faultAt] at h
  by_cases h0 : x.idx = 0
  · simp only [h0, if_true] at h
    by_cases hc : x.cls = .notFound
    · cases slot with
      | none => exact ⟨h0, hc, rfl⟩
      | some s => simp [hc, Out.fail] at h
    · simp [hc, Out.fail] at h
  · have h1 : x.idx = 1 := by omega
    simp only [h0, if_false] at h
    cases slot with
    | none => simp [writeOut, faultAt, h1, hl] at h
    | some s =>
      simp only [] at h
      by_cases hc : controllable s .owner = true
      · by_cases hu : needsUpdate s.data (desiredData filter details) = true
        · simp [hc, hu, writeOut, faultAt, h1, hl] at h
        · simp [hc, hu, Out.nop] at h
      · simp [hc, Out.fail] at h

/-- **Provenance and exact copy under every fault plan and concurrent writer**: whatever a
propagation stores is exactly the data of the source secret, which was read without error and is
controlled by the bound XR. -/
theorem propagateA_copy (e : EnvW) (fw tw : Bool) (src dst : Slot) (d' : Data)
    (h : (propagateA e fw tw src dst).write = some d') :
    ∃ fs, src = some fs ∧ fs.ctrl = .xr ∧ d' = fs.data := by
  obtain ⟨_, _, _, fs, h1, h2, h3, _⟩ := propagateA_write_cases e fw tw src dst d' h
  exact ⟨fs, h1, h2, h3⟩

/-- an error of ANY class on the read of the XR's secret (NotFound, Forbidden, a timeout, …)
ends the propagation: nothing is written -/
theorem propagateA_source_error (e : EnvW) (x : Fault) (he : e.fault = some x) (hx : x.idx = 0)
    (fw tw : Bool) (src dst : Slot) :
    (propagateA e fw tw src dst).write = none ∧ (propagateA e fw tw src dst).published = false := by
  unfold propagateA
  by_cases hw : (!fw || !tw) = true
  · simp [hw, Out.nop]
  · simp [hw, he, faultAt, hx, Out.fail]

/-- the claim's destination is guarded under every fault plan -/
theorem propagateA_guard (e : EnvW) (fw tw : Bool) (src : Slot) (d : Secret) (h : controllable d .owner = false) :
    (propagateA e fw tw src (some d)).write = none := by
  cases hq : (propagateA e fw tw src (some d)).write with
  | none => rfl
  | some d' =>
    obtain ⟨_, _, _, fs, _, _, _, hc⟩ := propagateA_write_cases e fw tw src (some d) d' hq
    rcases hc with h0 | ⟨d0, h0, hc', _⟩
    · cases h0
    · cases h0; simp [h] at hc'

/-! ### one publisher and one propagator serving many owners over a store of many secrets -/

/-- the data stored under a key ([] when there is no such secret) -/
def dataAt (w : World) (k : Key) : Data := ((wget w k).map (·.data)).getD []

/-- **Only the addressed secret.** An operation changes no secret but the one its owner
references — not a secret of the same name in another namespace, not one whose name extends
it, not the source it reads — in every environment. -/
theorem stepW_frame (filter : List String) (e : EnvW) (w : World) (op : Op) (k : Key)
    (h : op.target ≠ some k) : wget (stepW filter e w op).1 k = wget w k := by
  cases op with
  | pub me ref details =>
    cases ref with
    | none => rfl
    | some k0 =>
      have : k ≠ k0 := fun e' => h (by simp [Op.target, e'])
      exact applyOut_get_ne _ _ _ _ _ this
  | prop me cns cref xr xref =>
    cases xref with
    | none => rfl
    | some sk =>
      cases cref with
      | none => rfl
      | some dn =>
        have : k ≠ (cns, dn) := fun e' => h (by simp [Op.target, e'])
        exact applyOut_get_ne _ _ _ _ _ this

/-- **Only the owner's secret.** If the addressed secret is controlled by another UID (an owner
of the same name re-created with a new UID included) or is uncontrolled and not of the
connection type, the whole store stays as it is and nothing is reported published — for every
error class at every call, cache miss and concurrent writer. -/
theorem stepW_guard (filter : List String) (e : EnvW) (w : World) (op : Op) (k : Key) (s : ASecret)
    (ht : op.target = some k) (hs : wget w k = some s) (hc : mayControl op.me s = false) :
    (stepW filter e w op).1 = w ∧ (stepW filter e w op).2.published = false := by
  cases op with
  | pub me ref details =>
    simp only [Op.target] at ht
    subst ht
    have hv : controllable (dstView me s) .owner = false := by rw [dstView_controllable]; exact hc
    have := publishA_guard e.fault true filter details (dstView me s) hv
    simp only [stepW, hs, Option.map_some]
    exact ⟨applyOut_none _ _ _ _ this.1, this.2⟩
  | prop me cns cref xr xref =>
    cases xref with
    | none => exact ⟨rfl, rfl⟩
    | some sk =>
      cases cref with
      | none => simp [Op.target] at ht
      | some dn =>
        simp only [Op.target, Option.map_some, Option.some.injEq] at ht
        subst ht
        have hv : controllable (dstView me s) .owner = false := by rw [dstView_controllable]; exact hc
        have hw := propagateA_guard e true true ((wget w sk).map (srcView xr)) (dstView me s) hv
        simp only [stepW, hs, Option.map_some]
        refine ⟨applyOut_none _ _ _ _ hw, ?_⟩
        cases hp : (propagateA e true true ((wget w sk).map (srcView xr)) (some (dstView me s))).published with
        | false => rfl
        | true =>
          exfalso
          revert hp hw
          unfold propagateA
          simp only [Bool.not_true, Bool.or_self, Bool.false_eq_true, if_false]
          cases faultAt e.fault 0 with
          | some x => simp [Out.fail]
          | none =>
            simp only []
            cases (wget w sk).map (srcView xr) with
            | none => simp [Out.fail]
            | some fs =>
              simp only []
              by_cases hx : fs.ctrl = .xr
              · simp only [hx, ne_eq, not_true_eq_false, if_false]
                cases faultAt e.fault 1 with
                | some x => by_cases hcl : x.cls = .notFound <;> simp [hcl, Out.fail]
                | none => simp [hv, Out.fail]
              · simp [hx, Out.fail]

/-- **Whatever changes belongs to the caller afterwards.** A secret that differs after an
operation is the one the operation addresses, and it is then a connection secret whose only
owner reference is the controller reference of the operation's owner. -/
theorem stepW_owner (filter : List String) (e : EnvW) (w : World) (op : Op) (k : Key)
    (h : wget (stepW filter e w op).1 k ≠ wget w k) :
    op.target = some k ∧ ∃ d, wget (stepW filter e w op).1 k = some (written op.me d) := by
  have ht : op.target = some k := by
    cases hq : decide (op.target = some k) with
    | true => exact of_decide_eq_true hq
    | false => exact absurd (stepW_frame filter e w op k (of_decide_eq_false hq)) h
  refine ⟨ht, ?_⟩
  cases op with
  | pub me ref details =>
    simp only [Op.target] at ht
    subst ht
    simp only [stepW, Op.me] at h ⊢
    cases hq : (publishA e.fault true filter details ((wget w k).map (dstView me))).write with
    | none => rw [applyOut_none _ _ _ _ hq] at h; exact absurd rfl h
    | some d => exact ⟨d, applyOut_some _ _ _ _ d hq⟩
  | prop me cns cref xr xref =>
    cases xref with
    | none => exact absurd rfl h
    | some sk =>
      cases cref with
      | none => exact absurd rfl h
      | some dn =>
        simp only [Op.target, Option.map_some, Option.some.injEq] at ht
        subst ht
        simp only [stepW, Op.me] at h ⊢
        cases hq : (propagateA e true true ((wget w sk).map (srcView xr)) ((wget w (cns, dn)).map (dstView me))).write with
        | none => rw [applyOut_none _ _ _ _ hq] at h; exact absurd rfl h
        | some d => exact ⟨d, applyOut_some _ _ _ _ d hq⟩

/-- **Keys and values in the world.** After a publish of XR `me`, every key of its secret either
holds what it held before, or is allowed by the filter and holds the value the composition
produced in THIS call — never a value of an earlier call for another owner. -/
theorem stepW_pub_keys (filter : List String) (e : EnvW) (w : World) (me : String) (k : Key) (details : Data)
    (hn : (details.map (·.1)).Nodup) (key : String) :
    dget (dataAt (stepW filter e w (.pub me (some k) details)).1 k) key = dget (dataAt w k) key ∨
    (allowed filter key = true ∧
      dget (dataAt (stepW filter e w (.pub me (some k) details)).1 k) key = dget details key) := by
  simp only [stepW]
  cases hq : (publishA e.fault true filter details ((wget w k).map (dstView me))).write with
  | none => rw [applyOut_none _ _ _ _ hq]; exact Or.inl rfl
  | some d' =>
    have hk := publishA_write_keys e.fault filter details hn _ d' hq key
    have hd : dataAt (applyOut w k me (publishA e.fault true filter details ((wget w k).map (dstView me)))) k = d' := by
      simp [dataAt, applyOut_some _ _ _ _ d' hq, written]
    have hs : slotData ((wget w k).map (dstView me)) = dataAt w k := by
      cases hg : wget w k <;> simp [slotData, dataAt, hg, dstView]
    rw [hd, hk, hs]
    by_cases ha : allowed filter key = true
    · rw [if_pos ha]
      cases hdk : dget details key with
      | none => exact Or.inl rfl
      | some v => exact Or.inr ⟨ha, rfl⟩
    · rw [if_neg ha]
      exact Or.inl rfl

/-- **A claim's secret changes only by an exact copy of a secret its XR controls.** If the
claim's secret differs after a propagation, the secret the XR references exists, is controlled
by the XR's UID, and the claim's secret now holds exactly its data — for every error class at
every call, cache miss and concurrent writer. A claim cannot use Crossplane to read a secret its
XR does not own, whatever else is called like it. -/
theorem stepW_prop_copy (filter : List String) (e : EnvW) (w : World) (me cns dn xr : String) (sk : Key)
    (h : wget (stepW filter e w (.prop me cns (some dn) xr (some sk))).1 (cns, dn) ≠ wget w (cns, dn)) :
    ∃ fs, wget w sk = some fs ∧ fs.ctrl = some xr ∧
      wget (stepW filter e w (.prop me cns (some dn) xr (some sk))).1 (cns, dn) = some (written me fs.data) := by
  simp only [stepW] at h ⊢
  cases hq : (propagateA e true true ((wget w sk).map (srcView xr)) ((wget w (cns, dn)).map (dstView me))).write with
  | none => rw [applyOut_none _ _ _ _ hq] at h; exact absurd rfl h
  | some d' =>
    obtain ⟨fs, h1, h2, h3⟩ := propagateA_copy e true true _ _ d' hq
    cases hg : wget w sk with
    | none => simp [hg] at h1
    | some a =>
      rw [hg] at hq
      simp only [hg, Option.map_some, Option.some.injEq] at h1
      subst h1
      refine ⟨a, rfl, (srcView_xr xr a).mp h2, ?_⟩
      rw [applyOut_some _ _ _ _ d' hq, h3]
      rfl

/-- **Written only if asked.** An owner that references no secret (or, for a claim, whose XR
references none) causes no write request at all and leaves the store as it is. -/
theorem stepW_unasked (filter : List String) (e : EnvW) (w : World) (op : Op)
    (h : op.target = none ∨ ∃ me cns cref xr, op = .prop me cns cref xr none) :
    (stepW filter e w op).1 = w ∧ (stepW filter e w op).2.writes = 0 ∧ (stepW filter e w op).2.published = false := by
  cases op with
  | pub me ref details =>
    rcases h with h | ⟨_, _, _, _, h⟩
    · simp only [Op.target] at h
      subst h
      simp [stepW, publishA, Out.nop]
    · cases h
  | prop me cns cref xr xref =>
    rcases h with h | ⟨_, _, _, _, h⟩
    · cases cref with
      | some dn => simp [Op.target] at h
      | none => cases xref <;> simp [stepW, Out.nop]
    · cases h
      simp [stepW, Out.nop]

/-- **Identical data is never rewritten, in the world.** If every key the XR would publish is
already stored with that value, the store stays as it is in every environment, and without a
failing call no write request is sent and nothing is reported published. -/
theorem stepW_pub_no_rewrite (filter : List String) (e : EnvW) (w : World) (me : String) (k : Key)
    (details : Data) (s : ASecret) (hs : wget w k = some s)
    (h : ∀ kv ∈ desiredData filter details, dget s.data kv.1 = some kv.2) :
    (stepW filter e w (.pub me (some k) details)).1 = w ∧
    (e.fault = none → (stepW filter e w (.pub me (some k) details)).2.writes = 0 ∧
        (stepW filter e w (.pub me (some k) details)).2.published = false) := by
  have hnu : needsUpdate (dstView me s).data (desiredData filter details) = false := by
    show needsUpdate s.data (desiredData filter details) = false
    simp only [needsUpdate, List.any_eq_false, ne_eq, decide_eq_true_eq]
    intro kv hkv hne
    exact hne (h kv hkv)
  simp only [stepW, hs, Option.map_some]
  constructor
  · apply applyOut_none
    cases hq : (publishA e.fault true filter details (some (dstView me s))).write with
    | none => rfl
    | some d' =>
      obtain ⟨_, hc⟩ := publishA_write_cases e.fault true filter details _ d' hq
      rcases hc with ⟨h0, _⟩ | ⟨s', h0, _, hu, _⟩
      · cases h0
      · cases h0; simp [hnu] at hu
  · intro hf
    rw [hf]
    unfold publishA
    simp only [Bool.not_true, Bool.false_eq_true, if_false, faultAt]
    by_cases hc : controllable (dstView me s) .owner = true
    · simp [hc, hnu, Out.nop]
    · simp [hc, Out.fail]

/-- Publishing the same details again right after a successful publish sends no write request. -/
theorem stepW_pub_idempotent (filter : List String) (w : World) (me : String) (k : Key) (details : Data)
    (hn : (details.map (·.1)).Nodup)
    (hp : (stepW filter {} w (.pub me (some k) details)).2.published = true) :
    (stepW filter {} (stepW filter {} w (.pub me (some k) details)).1 (.pub me (some k) details)).2.writes = 0 := by
  simp only [stepW] at hp
  obtain ⟨⟨d', hq⟩, _⟩ := publishA_published _ _ _ _ _ hp
  have hk := publishA_write_keys none filter details hn _ d' hq
  have hget : wget (stepW filter {} w (.pub me (some k) details)).1 k = some (written me d') := by
    simp only [stepW]; exact applyOut_some _ _ _ _ d' hq
  refine (stepW_pub_no_rewrite filter {} _ me k details (written me d') hget ?_).2 rfl |>.1
  intro kv hkv
  simp only [written]
  rw [hk kv.1]
  have hd : dget (desiredData filter details) kv.1 = some kv.2 := by
    have hnd := desiredData_nodup filter details hn
    generalize desiredData filter details = dd at hkv hnd
    induction dd with
    | nil => cases hkv
    | cons p ps ih =>
      simp only [List.map_cons, List.nodup_cons] at hnd
      rcases List.mem_cons.mp hkv with rfl | hm
      · simp [dget]
      · have hne : p.1 ≠ kv.1 := by
          intro e; exact hnd.1 (e ▸ List.mem_map.mpr ⟨kv, hm, rfl⟩)
        simp only [dget, List.find?, hne, decide_false]
        exact ih hm hnd.2
  rw [dget_desiredData] at hd
  by_cases ha : allowed filter kv.1 = true
  · simp only [ha, if_true] at hd ⊢; rw [hd]; rfl
  · simp [ha] at hd

/-- one step keeps a secret none of whose would-be writers may control -/
theorem stepW_keeps (filter : List String) (e : EnvW) (w : World) (op : Op) (k : Key) (s : ASecret)
    (hs : wget w k = some s) (hc : mayControl op.me s = false) : wget (stepW filter e w op).1 k = some s := by
  by_cases ht : op.target = some k
  · rw [(stepW_guard filter e w op k s ht hs hc).1]; exact hs
  · rw [stepW_frame filter e w op k ht]; exact hs

/-- **Histories: details reach only their owner's secret.** Over ANY sequence of operations of
the long-lived publisher and propagator, for any owners, in any environments (error classes,
lost answers, cache misses, concurrent writers): a secret that none of the acting owners may
control — it is controlled by another UID, or uncontrolled and not a connection secret — is
bit for bit what it was. -/
theorem runW_foreign_untouched (filter : List String) (ops : List (EnvW × Op)) (w : World) (k : Key) (s : ASecret)
    (hs : wget w k = some s) (hc : ∀ p ∈ ops, mayControl p.2.me s = false) :
    wget (runW filter w ops) k = some s := by
  induction ops generalizing w with
  | nil => exact hs
  | cons p ps ih =>
    obtain ⟨e, op⟩ := p
    simp only [runW]
    apply ih
    · exact stepW_keeps filter e w op k s hs (hc (e, op) (List.mem_cons_self ..))
    · intro q hq; exact hc q (List.mem_cons_of_mem _ hq)

/-- Histories: a key no operation of the sequence addresses keeps its secret (or stays absent). -/
theorem runW_frame (filter : List String) (ops : List (EnvW × Op)) (w : World) (k : Key)
    (h : ∀ p ∈ ops, p.2.target ≠ some k) : wget (runW filter w ops) k = wget w k := by
  induction ops generalizing w with
  | nil => rfl
  | cons p ps ih =>
    obtain ⟨e, op⟩ := p
    simp only [runW]
    rw [ih _ (fun q hq => h q (List.mem_cons_of_mem _ hq))]
    exact stepW_frame filter e w op k (h (e, op) (List.mem_cons_self ..))

/-! ### the flow of connection details through the composers -/

/-- **P&T: a foreign resource blocks the flow.** If any template is associated with a composed
resource controlled by someone else, the reconcile publishes nothing and the store is unchanged,
however many other templates there are and wherever the foreign one stands. -/
theorem flow_pt_foreign_blocks (filter : List String) (e : EnvW) (w : World) (me : String) (ref : Option Key)
    (ts : List Tmpl) (h : ∃ t ∈ ts, t.ctrl = .other) :
    flowStep filter e w false me ref ts = (w, .fail 0, false) := by
  obtain ⟨t, ht, hc⟩ := h
  have : (ts.any fun t => decide (t.ctrl = .other)) = true := List.any_eq_true.mpr ⟨t, ht, by simp [hc]⟩
  simp [flowStep, flowDetails, this]

/-- **Functions: a foreign resource is invisible.** What the pipeline is shown, and so what is
published, does not depend on resources controlled by someone else: not on their connection
secrets, not on their number or position. -/
theorem flow_fn_foreign_invisible (ts ts' : List Tmpl)
    (h : ts.filter (fun t => t.ctrl ≠ .other) = ts'.filter (fun t => t.ctrl ≠ .other)) :
    flowDetails true ts = flowDetails true ts' := by
  show foldDetails (ts.filter fun t => t.ctrl ≠ .other) [] = foldDetails (ts'.filter fun t => t.ctrl ≠ .other) []
  rw [h]

/-- a reconcile changes no secret but the one its XR references, whatever its templates read -/
theorem flow_frame (filter : List String) (e : EnvW) (w : World) (fn : Bool) (me : String) (ref : Option Key)
    (ts : List Tmpl) (k : Key) (h : ref ≠ some k) : wget (flowStep filter e w fn me ref ts).1 k = wget w k := by
  unfold flowStep
  cases flowDetails fn ts with
  | none => rfl
  | some d => exact stepW_frame filter e w (.pub me ref d) k (by simpa [Op.target] using h)

/-- a reconcile never writes a secret its XR may not control -/
theorem flow_guard (filter : List String) (e : EnvW) (w : World) (fn : Bool) (me : String) (k : Key)
    (ts : List Tmpl) (s : ASecret) (hs : wget w k = some s) (hc : mayControl me s = false) :
    (flowStep filter e w fn me (some k) ts).1 = w := by
  unfold flowStep
  cases flowDetails fn ts with
  | none => rfl
  | some d => exact (stepW_guard filter e w (.pub me (some k) d) k s rfl hs hc).1

/-- the values a template can contribute: the values of its resource's connection secret, its
fixed values, the name of its resource -/
def tmplValues (t : Tmpl) : List String :=
  (t.secret.getD []).map (·.2) ++ t.cfgs.filterMap (·.value) ++ [t.cdName]

theorem dget_dset_cases (d : Data) (n x k v : String) (h : dget (dset d n x) k = some v) :
    v = x ∨ dget d k = some v := by
  by_cases hk : k = n
  · subst hk; rw [dget_dset_self] at h; exact Or.inl (Option.some.inj h).symm
  · rw [dget_dset_ne d n k x hk] at h; exact Or.inr h

theorem dget_mem_values (d : Data) (k v : String) (h : dget d k = some v) : v ∈ d.map (·.2) := by
  unfold dget at h
  cases hf : d.find? (fun p => decide (p.1 = k)) with
  | none => simp [hf] at h
  | some p =>
    simp only [hf, Option.map_some, Option.some.injEq] at h
    exact List.mem_map.mpr ⟨p, List.mem_of_find?_eq_some hf, h⟩

/-- every value extraction adds comes from the connection secret it was given, from a fixed
value of a config, or from a field of the resource -/
theorem extract_provenance (conn : Data) (f : String → Option String) (cfgs : List Cfg) (acc d : Data)
    (h : extract conn f cfgs acc = some d) (k v : String) (hk : dget d k = some v) :
    dget acc k = some v ∨ v ∈ conn.map (·.2) ∨ v ∈ cfgs.filterMap (·.value) ∨ ∃ p, f p = some v := by
  induction cfgs generalizing acc with
  | nil =>
    simp only [extract, Option.some.injEq] at h
    subst h; exact Or.inl hk
  | cons c cs ih =>
    have step : ∀ acc', extract conn f cs acc' = some d →
        (∀ k v, dget acc' k = some v → dget acc k = some v ∨ v ∈ conn.map (·.2) ∨ v ∈ (c :: cs).filterMap (·.value) ∨ ∃ p, f p = some v) →
        dget acc k = some v ∨ v ∈ conn.map (·.2) ∨ v ∈ (c :: cs).filterMap (·.value) ∨ ∃ p, f p = some v := by
      intro acc' h' hacc
      rcases ih acc' h' with h1 | h2 | h3 | h4
      · exact hacc k v h1
      · exact Or.inr (Or.inl h2)
      · refine Or.inr (Or.inr (Or.inl ?_))
        simp only [List.filterMap_cons]
        cases c.value <;> simp [h3]
      · exact Or.inr (Or.inr (Or.inr h4))
    unfold extract at h
    split at h
    · cases h
    · split at h
      · -- FromValue
        split at h
        · cases h
        · rename_i x hv
          apply step _ h
          intro k' v' hk'
          rcases dget_dset_cases _ _ _ _ _ hk' with rfl | h0
          · refine Or.inr (Or.inr (Or.inl ?_))
            simp [hv]
          · exact Or.inl h0
      · -- FromConnectionSecretKey
        split at h
        · cases h
        · rename_i key hkey
          split at h
          · exact step _ h (fun k' v' hk' => Or.inl hk')
          · rename_i x hx
            apply step _ h
            intro k' v' hk'
            rcases dget_dset_cases _ _ _ _ _ hk' with rfl | h0
            · exact Or.inr (Or.inl (dget_mem_values conn key _ hx))
            · exact Or.inl h0
      · -- FromFieldPath
        split at h
        · cases h
        · rename_i path hpath
          split at h
          · exact step _ h (fun k' v' hk' => Or.inl hk')
          · rename_i x hx
            apply step _ h
            intro k' v' hk'
            rcases dget_dset_cases _ _ _ _ _ hk' with rfl | h0
            · exact Or.inr (Or.inr (Or.inr ⟨path, hx⟩))
            · exact Or.inl h0
      · exact step _ h (fun k' v' hk' => Or.inl hk')

theorem tmplCfg_values (cfgs : List Cfg) : (cfgs.map tmplCfg).filterMap (·.value) = cfgs.filterMap (·.value) := by
  induction cfgs with
  | nil => rfl
  | cons c cs ih => simp only [List.map_cons, List.filterMap_cons, ih, tmplCfg]

/-- every value of the folded details comes from one of the folded templates -/
theorem foldDetails_provenance (ts : List Tmpl) (acc d : Data) (h : foldDetails ts acc = some d)
    (k v : String) (hk : dget d k = some v) : dget acc k = some v ∨ ∃ t ∈ ts, v ∈ tmplValues t := by
  induction ts generalizing acc with
  | nil =>
    simp only [foldDetails, Option.some.injEq] at h
    subst h; exact Or.inl hk
  | cons t ts ih =>
    unfold foldDetails at h
    split at h
    · cases h
    · split at h
      · cases h
      · rename_i acc' hacc
        rcases ih acc' h with h1 | ⟨t', ht', hv⟩
        · rcases extract_provenance _ _ _ _ _ hacc k v h1 with h2 | h2 | h2 | ⟨p, h2⟩
          · exact Or.inl h2
          · exact Or.inr ⟨t, List.mem_cons_self .., by simp [tmplValues, h2]⟩
          · rw [tmplCfg_values] at h2
            exact Or.inr ⟨t, List.mem_cons_self .., by simp [tmplValues, h2]⟩
          · refine Or.inr ⟨t, List.mem_cons_self .., ?_⟩
            simp only [tmplFieldAt, fieldReader] at h2
            split at h2
            · simp only [fromFieldPath, Option.some.injEq] at h2
              simp [tmplValues, h2]
            · simp [fromFieldPath] at h2
        · exact Or.inr ⟨t', List.mem_cons_of_mem _ ht', hv⟩

/-- **Only values produced by the composition for this XR.** After a reconcile (P&T or
functions, any number of templates, any environment of the publish), every key of the XR's
secret either holds what it held before, or is allowed by the filter and holds a value drawn, in
THIS reconcile, from a template whose composed resource is not controlled by someone else. -/
theorem flow_values_provenance (filter : List String) (e : EnvW) (w : World) (fn : Bool) (me : String) (k : Key)
    (ts : List Tmpl) (hn : ∀ d, flowDetails fn ts = some d → (d.map (·.1)).Nodup) (key v : String)
    (hv : dget (dataAt (flowStep filter e w fn me (some k) ts).1 k) key = some v) :
    dget (dataAt w k) key = some v ∨
    (allowed filter key = true ∧ ∃ t ∈ ts, t.ctrl ≠ .other ∧ v ∈ tmplValues t) := by
  unfold flowStep at hv
  cases hd : flowDetails fn ts with
  | none => rw [hd] at hv; exact Or.inl hv
  | some d =>
    rw [hd] at hv
    simp only [] at hv
    rcases stepW_pub_keys filter e w me k d (hn d hd) key with h1 | ⟨ha, h2⟩
    · rw [h1] at hv; exact Or.inl hv
    · rw [h2] at hv
      refine Or.inr ⟨ha, ?_⟩
      unfold flowDetails at hd
      cases fn with
      | true =>
        simp only [if_true] at hd
        rcases foldDetails_provenance _ [] d hd key v hv with h0 | ⟨t, ht, hvt⟩
        · simp [dget] at h0
        · have := List.mem_filter.mp ht
          exact ⟨t, this.1, by simpa using this.2, hvt⟩
      | false =>
        simp only [Bool.false_eq_true, if_false] at hd
        split at hd
        · cases hd
        · rename_i hany
          rcases foldDetails_provenance _ [] d hd key v hv with h0 | ⟨t, ht, hvt⟩
          · simp [dget] at h0
          · refine ⟨t, ht, ?_, hvt⟩
            intro hc
            exact hany (List.any_eq_true.mpr ⟨t, ht, by simp [hc]⟩)


/-- functions: after a successful composition no template refers to somebody else's resource any
more (each such template got a fresh resource of the XR's own, without a connection secret), so
from then on the values a foreign resource's secret holds can still not reach the XR's secret -/
theorem adoptFresh_no_foreign (ts : List Tmpl) : ∀ t ∈ adoptFresh true true ts, t.ctrl ≠ .other := by
  intro t ht
  simp only [adoptFresh, Bool.and_self, if_true, List.mem_map] at ht
  obtain ⟨t0, _, rfl⟩ := ht
  by_cases h : t0.ctrl = .other
  · simp [h]
  · simp [h]

theorem adoptFresh_drops_foreign_secret (ts : List Tmpl) :
    ∀ t ∈ ts, t.ctrl = .other → ∃ t' ∈ adoptFresh true true ts, t'.cfgs = t.cfgs ∧ t'.secret = none ∧ t'.ctrl = .owner := by
  intro t ht hc
  refine ⟨{ t with ctrl := .owner, secret := none, fetchErr := false, cdName := "" }, ?_, rfl, rfl, rfl⟩
  simp only [adoptFresh, Bool.and_self, if_true, List.mem_map]
  exact ⟨t, ht, by simp [hc]⟩

/-! ### non-vacuity of the world theorems -/

/-- one publisher, two XRs whose secrets have the same name in different namespaces: each gets
its own details; a secret of that name controlled by a third UID is refused -/
example :
    let w0 : World := [(("ns-c", "conn"), ⟨connType, some "uid-c", [], [("keep", "me")]⟩)]
    let w := runW ["user"] w0
      [({}, .pub "uid-a" (some ("ns-a", "conn")) [("user", "a"), ("pass", "x")]),
       ({}, .pub "uid-b" (some ("ns-b", "conn")) [("user", "b")]),
       ({}, .pub "uid-b" (some ("ns-c", "conn")) [("user", "b")])]
    wget w ("ns-a", "conn") = some (written "uid-a" [("user", "a")]) ∧
    wget w ("ns-b", "conn") = some (written "uid-b" [("user", "b")]) ∧
    wget w ("ns-c", "conn") = some ⟨connType, some "uid-c", [], [("keep", "me")]⟩ := by decide

/-- a Forbidden answer to the Patch leaves the stored data; a lost answer does not -/
example :
    let w0 : World := [(("ns", "conn"), written "uid-a" [("user", "old")])]
    (stepW [] { fault := some ⟨1, .forbidden, false⟩ } w0 (.pub "uid-a" (some ("ns", "conn")) [("user", "new")])).1 = w0 ∧
    wget (stepW [] { fault := some ⟨1, .deadline, true⟩ } w0 (.pub "uid-a" (some ("ns", "conn")) [("user", "new")])).1 ("ns", "conn")
      = some (written "uid-a" [("user", "new")]) := by decide

/-- functions: the foreign resource's secret never shows; P&T: it blocks the reconcile -/
example :
    let own : Tmpl := ⟨"cd-1", .owner, some [("user", "mine")], false, [⟨"FromConnectionSecretKey", "", some "user", none, none⟩]⟩
    let foreign : Tmpl := ⟨"cd-2", .other, some [("user", "theirs")], false, [⟨"FromConnectionSecretKey", "", some "user", none, none⟩]⟩
    flowDetails true [own, foreign] = some [("user", "mine")] ∧ flowDetails false [own, foreign] = none ∧
    flowDetails false [own] = some [("user", "mine")] := by decide

/-! ### the claim reconciler around the propagator (claim/reconciler.go with its default options) -/

/-- **A claim that is being deleted touches no secret.** Whatever the claim records about earlier
propagations (`propagated`), whatever is stored under the name its writeConnectionSecretToRef
gives — a secret controlled by ANOTHER claim included — the store is what it was, no call is
addressed to a secret and nothing is stamped. (The claim's own secret is left to Kubernetes
garbage collection.) -/
theorem claimRec_deleted_keeps_world (e : EnvW) (w : World) (c : ClaimIn) (h : c.deleted = true) :
    (claimRec e w c).1 = w ∧ (claimRec e w c).2.out = .nop ∧ (claimRec e w c).2.stamped = false := by
  simp [claimRec, h]

/-- a claim whose XR is not Ready (or does not exist) touches no secret either -/
theorem claimRec_waiting_keeps_world (e : EnvW) (w : World) (c : ClaimIn)
    (h : ∀ x, c.xr = some x → x.ready = false) :
    (claimRec e w c).1 = w ∧ (claimRec e w c).2.out = .nop ∧ (claimRec e w c).2.stamped = false := by
  unfold claimRec
  split
  · exact ⟨rfl, rfl, rfl⟩
  · split
    · exact ⟨rfl, rfl, rfl⟩
    · rename_i x hx
      simp [h x hx]

/-- **Only the claim's own secret**: one reconcile of a claim (any environment) changes no secret
but the one named by the claim's writeConnectionSecretToRef in the claim's namespace. -/
theorem claimRec_frame (e : EnvW) (w : World) (c : ClaimIn) (k : Key)
    (h : c.cref.map (fun n => (c.cns, n)) ≠ some k) : wget (claimRec e w c).1 k = wget w k := by
  unfold claimRec
  split
  · rfl
  · split
    · rfl
    · split
      · rfl
      · exact stepW_frame [] e w _ k (by simpa [Op.target] using h)

/-- **… and only if the claim may control it**: a secret controlled by another UID (another
claim, the XR, a former incarnation of this claim) or uncontrolled and not of the connection type
is bit for bit what it was after any reconcile of the claim — live or being deleted. -/
theorem claimRec_foreign_untouched (e : EnvW) (w : World) (c : ClaimIn) (k : Key) (s : ASecret)
    (hs : wget w k = some s) (hc : mayControl c.me s = false) : wget (claimRec e w c).1 k = some s := by
  unfold claimRec
  split
  · exact hs
  · split
    · exact hs
    · split
      · exact hs
      · exact stepW_keeps [] e w _ k s hs (by simpa [Op.me] using hc)

/-- **A claim's secret changes only by an exact copy of a secret its Ready XR controls.** If any
secret differs after a reconcile of the claim, the claim is live, its XR is Ready, the secret is
the claim's, the secret the XR references is controlled by the XR's UID and the claim's secret now
holds exactly its data. -/
theorem claimRec_copy (e : EnvW) (w : World) (c : ClaimIn) (k : Key)
    (h : wget (claimRec e w c).1 k ≠ wget w k) :
    c.deleted = false ∧ ∃ x dn sk fs, c.xr = some x ∧ x.ready = true ∧ c.cref = some dn ∧ k = (c.cns, dn) ∧
      x.ref = some sk ∧ wget w sk = some fs ∧ fs.ctrl = some x.uid ∧
      wget (claimRec e w c).1 k = some (written c.me fs.data) := by
  unfold claimRec at h ⊢
  split at h
  · exact absurd rfl h
  · rename_i hd
    split at h
    · exact absurd rfl h
    · rename_i x hx
      split at h
      · exact absurd rfl h
      · rename_i hr
        refine ⟨by simpa using hd, x, ?_⟩
        have ht := (stepW_owner [] e w _ k h).1
        simp only [Op.target] at ht
        cases hcr : c.cref with
        | none => simp [hcr] at ht
        | some dn =>
          simp only [hcr, Option.map_some, Option.some.injEq] at ht
          cases hxr : x.ref with
          | none =>
            rw [hcr, hxr] at h
            exact absurd rfl h
          | some sk =>
            subst ht
            rw [hcr, hxr] at h
            obtain ⟨fs, h1, h2, h3⟩ := stepW_prop_copy [] e w c.me c.cns dn x.uid sk h
            refine ⟨dn, sk, fs, hx, by simpa using hr, rfl, rfl, rfl, h1, h2, ?_⟩
            simp only [hd, hr]
            simpa using h3

/-- **lastPublishedTime is read by nothing**: whatever the claim and its XR record about earlier
propagations / publications (unset, earlier, equal, later), a reconcile compares the two secrets. -/
theorem claimRec_ignores_times (e : EnvW) (w : World) (c : ClaimIn) (t t' : Nat) :
    claimRec e w { c with propagated := t, xr := c.xr.map fun x => { x with published := t' } } = claimRec e w c := by
  rcases c with ⟨me, cns, cref, del, xr, p⟩
  cases xr with
  | none => rfl
  | some x => rfl

/-- a deleted claim that once propagated, whose reference now names a secret of ANOTHER claim -/
example :
    let w : World := [(("ns", "conn"), written "uid-of-claim-a" [("password", "a")])]
    (claimRec {} w ⟨"uid-of-claim-b", "ns", some "conn", true, none, 3⟩).1 = w := by decide

/-- a live claim whose secret was deleted after it propagated (claim stamped later than the XR):
the copy is made again -/
example :
    let w : World := [(("xrns", "x"), written "xr-uid" [("user", "u")])]
    let r := claimRec {} w ⟨"c-uid", "ns", some "conn", false, some ⟨"xr-uid", some ("xrns", "x"), true, 1⟩, 2⟩
    wget r.1 ("ns", "conn") = some (written "c-uid" [("user", "u")]) ∧ r.2.stamped = true := by decide

/-! ### the secret fetcher and the field-path reader -/

/-- the fetcher reads nothing but the secret its owner references -/
theorem fetchA_reads_only_referenced (w w' : World) (ref : Option Key) (f : Option ECls)
    (h : ∀ k, ref = some k → wget w k = wget w' k) : fetchA w ref f = fetchA w' ref f := by
  cases ref with
  | none => rfl
  | some k => simp [fetchA, h k rfl]

/-- what it returns is nothing, or the data of that secret -/
theorem fetchA_values (w : World) (k : Key) (f : Option ECls) (d : Data) (h : fetchA w (some k) f = some d) :
    d = [] ∨ ∃ s, wget w k = some s ∧ d = s.data := by
  unfold fetchA at h
  cases f with
  | some c =>
    cases c <;> simp at h <;> exact Or.inl h
  | none =>
    simp only [Option.some.injEq] at h
    cases hg : wget w k with
    | none => simp [hg] at h; exact Or.inl h
    | some s => simp [hg] at h; exact Or.inr ⟨s, rfl, h.symm⟩

/-- an owner without a reference has no details and no error; a NotFound is not an error -/
theorem fetchA_lenient (w : World) (k : Key) : fetchA w none none = some [] ∧ fetchA w (some k) (some .notFound) = some [] :=
  ⟨rfl, rfl⟩

/-- fromFieldPath: a string is taken as it is, any other value as its JSON text, and only a path
that designates nothing is an error (the detail is then skipped by `extract`) -/
theorem fromFieldPath_spec (v : Option FVal) :
    (∀ s, v = some (.str s) → fromFieldPath v = some s) ∧
    (∀ x, v = some x → (∀ s, x ≠ .str s) → fromFieldPath v = some (marshal x)) ∧
    (fromFieldPath v = none ↔ v = none) := by
  refine ⟨?_, ?_, ?_⟩
  · intro s h; subst h; rfl
  · intro x h hx; subst h
    cases x with
    | str s => exact absurd rfl (hx s)
    | int n => rfl
    | bool b => rfl
    | strs l => rfl
  · cases v with
    | none => simp [fromFieldPath]
    | some x => cases x <;> simp [fromFieldPath]

/-- a FromFieldPath detail over a typed field: present ⇒ published under the detail's name with
the string / the JSON text; absent ⇒ skipped without an error -/
theorem extract_fromPath_typed (conn : Data) (va : String → Option FVal) (name p : String) (acc : Data)
    (hn : name ≠ "") :
    extract conn (fieldReader va) [⟨"FromFieldPath", name, none, some p, none⟩] acc =
      match va p with
      | none => some acc
      | some (.str s) => some (dset acc name s)
      | some x => some (dset acc name (marshal x)) := by
  rw [extract_fromPath conn (fieldReader va) name (some p) acc hn]
  simp only [Option.map_some, fieldReader]
  cases va p with
  | none => rfl
  | some x => cases x <;> rfl

example : fromFieldPath (some (.int 5432)) = some "5432" ∧ fromFieldPath (some (.strs ["a", "b"])) = some "[\"a\",\"b\"]" ∧
    fromFieldPath (some (.bool true)) = some "true" ∧ fromFieldPath (some (.str "db")) = some "db" := by decide

/-! ### blank entries in the key filter -/

/-- **"All keys" only when the XRD lists NONE.** A filter that is not empty allows exactly the keys
it lists; in particular a list of blank entries only (connectionSecretKeys: [""]) allows no
non-blank key at all - blank entries are not dropped before the "empty means all" test. -/
theorem allowed_nonempty_iff (filter : List String) (k : String) (h : filter ≠ []) :
    allowed filter k = true ↔ k ∈ filter := by
  cases filter with
  | nil => exact absurd rfl h
  | cons a as => simp [allowed]

theorem allowed_blanks_only (filter : List String) (k : String) (h : filter ≠ []) (hb : ∀ f ∈ filter, f = "")
    (hk : k ≠ "") : allowed filter k = false := by
  cases hq : allowed filter k with
  | false => rfl
  | true => exact absurd (hb k ((allowed_nonempty_iff filter k h).mp hq)) hk

/-- … hence such an XRD publishes nothing: the desired data is empty for every detail map with
non-blank keys, whatever the secret held before -/
theorem desiredData_blanks_only (filter : List String) (details : Data) (h : filter ≠ []) (hb : ∀ f ∈ filter, f = "")
    (hd : ∀ kv ∈ details, kv.1 ≠ "") : desiredData filter details = [] := by
  unfold desiredData
  rw [List.filter_eq_nil_iff]
  intro kv hkv
  simp [allowed_blanks_only filter kv.1 h hb (hd kv hkv)]

/-- blank entries next to real keys allow nothing more than the real keys -/
theorem allowed_ignores_blanks (filter : List String) (k : String) (hk : k ≠ "") (hr : ∃ f ∈ filter, f ≠ "") :
    allowed filter k = allowed (filter.filter (· ≠ "")) k := by
  obtain ⟨f, hf, hf'⟩ := hr
  have h1 : filter ≠ [] := by intro e; simp [e] at hf
  have h2 : filter.filter (· ≠ "") ≠ [] := by
    intro e
    have : f ∈ filter.filter (· ≠ "") := List.mem_filter.mpr ⟨hf, by simp [hf']⟩
    rw [e] at this
    cases this
  cases hq : allowed filter k with
  | true =>
    have := (allowed_nonempty_iff filter k h1).mp hq
    exact ((allowed_nonempty_iff _ k h2).mpr (by simp [this, hk])).symm
  | false =>
    cases hq' : allowed (filter.filter (· ≠ "")) k with
    | false => rfl
    | true =>
      have := (allowed_nonempty_iff _ k h2).mp hq'
      have hm : k ∈ filter := (List.mem_filter.mp this).1
      rw [(allowed_nonempty_iff filter k h1).mpr hm] at hq
      cases hq

example : desiredData ["", ""] [("user", "u"), ("pass", "p")] = [] ∧
    desiredData ["", "user"] [("user", "u"), ("pass", "p")] = [("user", "u")] ∧
    desiredData [] [("user", "u"), ("pass", "p")] = [("user", "u"), ("pass", "p")] := by decide

/-! ### regenerated call skeletons (Xp.Gen.C09Skel, extracted from the current tree on every run)
equal the skeletons declared next to the model (Model/C09Skel.lean) -/

theorem skeleton_new_publisher : Xp.Gen.c09SkelNewPublisher = skelNewPublisher := by decide
theorem skeleton_new_propagator : Xp.Gen.c09SkelNewPropagator = skelNewPropagator := by decide
theorem skeleton_patching_apply : Xp.Gen.c09SkelPatchingApply = skelPatchingApply := by decide
theorem skeleton_updating_apply : Xp.Gen.c09SkelUpdatingApply = skelUpdatingApply := by decide
theorem skeleton_must_be_controllable : Xp.Gen.c09SkelMustBeControllable = skelMustBeControllable := by decide
theorem skeleton_publish : Xp.Gen.c09SkelPublish = skelPublish := by decide
theorem skeleton_unpublish : Xp.Gen.c09SkelUnpublish = skelUnpublish := by decide
theorem skeleton_propagate : Xp.Gen.c09SkelPropagate = skelPropagate := by decide
theorem skeleton_claim_nop_unpublish : Xp.Gen.c09SkelClaimNopUnpublish = skelClaimNopUnpublish := by decide
theorem skeleton_fetch_chain : Xp.Gen.c09SkelFetchChain = skelFetchChain := by decide
theorem skeleton_fetch_secret : Xp.Gen.c09SkelFetchSecret = skelFetchSecret := by decide
theorem skeleton_extract : Xp.Gen.c09SkelExtract = skelExtract := by decide
theorem skeleton_from_field_path : Xp.Gen.c09SkelFromFieldPath = skelFromFieldPath := by decide
theorem skeleton_extract_configs : Xp.Gen.c09SkelExtractConfigs = skelExtractConfigs := by decide
theorem skeleton_detail_type : Xp.Gen.c09SkelDetailType = skelDetailType := by decide
theorem skeleton_pt_compose : Xp.Gen.c09SkelPTCompose = skelPTCompose := by decide
theorem skeleton_fn_observe : Xp.Gen.c09SkelFnObserve = skelFnObserve := by decide
theorem skeleton_fn_compose : Xp.Gen.c09SkelFnCompose = skelFnCompose := by decide
theorem skeleton_xr_reconcile : Xp.Gen.c09SkelXRReconcile = skelXRReconcile := by decide
theorem skeleton_claim_reconcile : Xp.Gen.c09SkelClaimReconcile = skelClaimReconcile := by decide
theorem skeleton_wiring : Xp.Gen.c09SkelWiring = skelWiring := by decide
/-- the claim reconciler is built with the unpublisher / propagator the model mirrors -/
theorem default_claim_unpublisher : Xp.Gen.c09ClaimDefaultUnpublisher = claimDefaultUnpublisher := by decide
theorem default_claim_propagator : Xp.Gen.c09ClaimDefaultPropagator = claimDefaultPropagator := by decide
/-- the constants the model carries as literals -/
theorem const_connection_type : Xp.Gen.c09SecretTypeConnection = connType := by decide
theorem const_detail_types : Xp.Gen.c09DetailTypes = ["FromConnectionSecretKey", "FromFieldPath", "FromValue"] := by decide

end Xp.C09

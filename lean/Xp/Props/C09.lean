import Xp.Model.C09
/-
C09 — connection details reach only their owner's secret, filtered, from the right XR.
Theorems over Xp/Model/C09.lean for ALL detail maps, key filters and pre-existing secrets.
Maps are association lists; "is a map" = no duplicate keys (`Nodup`), as Go maps are.
-/
namespace Xp.C09

/-! ### association-list lemmas -/

theorem dget_dset_self (d : Data) (k v : String) : dget (dset d k v) k = some v := by
  induction d with
  | nil => simp [dset, dget]
  | cons p ps ih =>
    unfold dset
    split
    · simp [dget]
    · rename_i h
      simp only [dget, List.find?, h, decide_false] at ih ⊢
      exact ih

theorem dget_dset_ne (d : Data) (k k' v : String) (h : k' ≠ k) : dget (dset d k v) k' = dget d k' := by
  induction d with
  | nil => simp [dset, dget, Ne.symm h]
  | cons p ps ih =>
    unfold dset
    split
    · rename_i hp
      have : ¬ p.1 = k' := fun e => h (e ▸ hp)
      simp [dget, List.find?, Ne.symm h, this]
    · simp only [dget, List.find?] at ih ⊢
      split
      · rfl
      · exact ih

theorem dget_none_of_not_mem (d : Data) (k : String) (h : k ∉ d.map (·.1)) : dget d k = none := by
  induction d with
  | nil => rfl
  | cons p ps ih =>
    simp only [List.map_cons, List.mem_cons, not_or] at h
    simp only [dget, List.find?, Ne.symm h.1, decide_false]
    exact ih h.2

/-- merge patch: a published key takes the published value, every other key keeps its old one -/
theorem dget_mergeData (cur desired : Data) (hn : (desired.map (·.1)).Nodup) (k : String) :
    dget (mergeData cur desired) k = (dget desired k).orElse (fun _ => dget cur k) := by
  induction desired generalizing cur with
  | nil => simp [mergeData, dget]
  | cons p ps ih =>
    simp only [List.map_cons, List.nodup_cons] at hn
    have := ih (dset cur p.1 p.2) hn.2
    simp only [mergeData, List.foldl_cons] at this ⊢
    rw [this]
    by_cases hk : p.1 = k
    · subst hk
      rw [dget_none_of_not_mem ps p.1 hn.1, dget_dset_self]
      simp [dget]
    · have h1 : dget (p :: ps) k = dget ps k := by simp [dget, List.find?, hk]
      rw [h1, dget_dset_ne cur p.1 k p.2 (Ne.symm hk)]

theorem dget_desiredData (filter : List String) (details : Data) (k : String) :
    dget (desiredData filter details) k = if allowed filter k then dget details k else none := by
  induction details with
  | nil => simp [desiredData, dget]
  | cons p ps ih =>
    simp only [desiredData, List.filter_cons] at ih ⊢
    by_cases ha : allowed filter p.1 = true
    · simp only [ha, if_true, dget, List.find?]
      by_cases hk : p.1 = k
      · subst hk; simp [ha]
      · simp only [hk, decide_false]; exact ih
    · simp only [ha, Bool.false_eq_true, if_false]
      by_cases hk : p.1 = k
      · subst hk
        simp only [dget, List.find?, decide_true] at ih ⊢
        rw [ih]; simp [ha]
      · simp only [dget, List.find?, hk, decide_false] at ih ⊢
        exact ih

theorem desiredData_nodup (filter : List String) (details : Data) (hn : (details.map (·.1)).Nodup) :
    ((desiredData filter details).map (·.1)).Nodup :=
  (List.filter_sublist.map _).nodup hn

/-! ### publishing -/

/-- An XR that does not ask for a connection secret gets none: nothing is written. -/
theorem publish_only_if_asked (filter : List String) (details : Data) (slot : Slot) :
    publish false filter details slot = ⟨slot, false, false, 0⟩ := rfl

/-- the data of a slot ([] when absent) -/
def slotData : Slot → Data
  | none => []
  | some s => s.data

/-- **Keys written.** After a successful publish, a key holds the composition's value iff the
filter allows it and the composition produced it; every other key of the secret is exactly
what it was. -/
theorem publish_keys (filter : List String) (details : Data) (hn : (details.map (·.1)).Nodup) (slot : Slot)
    (hp : (publish true filter details slot).published = true) (k : String) :
    dget (slotData (publish true filter details slot).slot) k =
      (if allowed filter k then dget details k else none).orElse (fun _ => dget (slotData slot) k) := by
  unfold publish at hp ⊢
  simp only [Bool.not_true, Bool.false_eq_true, if_false] at hp ⊢
  cases slot with
  | none =>
    simp only [slotData]
    rw [dget_desiredData]
    cases (if allowed filter k = true then dget details k else none) <;> simp [dget]
  | some s =>
    simp only [] at hp ⊢
    by_cases hc : controllable s .owner = true
    · simp only [hc, Bool.not_true, Bool.false_eq_true, if_false] at hp ⊢
      by_cases hu : needsUpdate s.data (desiredData filter details) = true
      · simp only [hu, Bool.not_true, Bool.false_eq_true, if_false, slotData]
        rw [dget_mergeData _ _ (desiredData_nodup filter details hn), dget_desiredData]
      · simp [hu] at hp
    · simp [hc] at hp

/-- By induction from an absent secret: whatever sequence of detail maps is published with a
fixed filter, the secret only ever contains allowed keys. -/
theorem publish_keys_allowed_history (filter : List String) (hist : List Data)
    (hn : ∀ d ∈ hist, (d.map (·.1)).Nodup) (k : String) :
    let final := hist.foldl (fun slot d => (publish true filter d slot).slot) none
    dget (slotData final) k ≠ none → allowed filter k = true := by
  intro final
  have inv : ∀ (slot : Slot), (∀ k, dget (slotData slot) k ≠ none → allowed filter k = true) →
      ∀ k, dget (slotData (hist.foldl (fun slot d => (publish true filter d slot).slot) slot)) k ≠ none →
        allowed filter k = true := by
    induction hist with
    | nil => intro slot h; simpa using h
    | cons d ds ih =>
      intro slot h
      simp only [List.foldl_cons]
      apply ih (fun d' hd' => hn d' (List.mem_cons_of_mem _ hd'))
      intro k' hk'
      by_cases hp : (publish true filter d slot).published = true
      · rw [publish_keys filter d (hn d (List.mem_cons_self ..)) slot hp k'] at hk'
        by_cases ha : allowed filter k' = true
        · exact ha
        · simp only [ha, Bool.false_eq_true, if_false, Option.orElse_none] at hk'
          exact absurd (h k' hk') ha
      · -- nothing was written
        have : (publish true filter d slot).slot = slot := by
          unfold publish at hp ⊢
          simp only [Bool.not_true, Bool.false_eq_true, if_false] at hp ⊢
          cases slot with
          | none => simp at hp
          | some s =>
            simp only [] at hp ⊢
            split
            · rfl
            · split
              · rfl
              · rename_i h1 h2; simp [h1, h2] at hp
        rw [this] at hk'
        exact h k' hk'
  exact inv none (by intro k h; simp [slotData, dget] at h) k

/-- **Guard.** A destination controlled by someone else, or uncontrolled and not of the
connection type, is neither created, updated nor adopted; the conflict surfaces as an error. -/
theorem publish_guard (filter : List String) (details : Data) (s : Secret)
    (h : controllable s .owner = false) :
    publish true filter details (some s) = ⟨some s, false, true, 0⟩ := by
  simp [publish, h]

theorem controllable_spec (s : Secret) :
    controllable s .owner = true ↔ (s.ctrl = .owner ∨ ((s.ctrl = .none ∨ s.ctrl = .xrPlain) ∧ s.conn = true)) := by
  cases s with
  | mk conn ctrl data => cases ctrl <;> simp [controllable]

/-- **Identical data is never rewritten.** If every key that would be published is already
stored with that value, no write request is issued and nothing is reported as published. -/
theorem publish_no_rewrite (filter : List String) (details : Data) (s : Secret)
    (h : ∀ kv ∈ desiredData filter details, dget s.data kv.1 = some kv.2) :
    (publish true filter details (some s)).writes = 0 ∧ (publish true filter details (some s)).published = false ∧
    (publish true filter details (some s)).slot = some s := by
  have hnu : needsUpdate s.data (desiredData filter details) = false := by
    simp only [needsUpdate, List.any_eq_false, ne_eq, decide_eq_true_eq]
    intro kv hkv hne
    exact hne (h kv hkv)
  unfold publish
  simp only [Bool.not_true, Bool.false_eq_true, if_false]
  by_cases hc : controllable s .owner = true
  · simp [hc, hnu]
  · simp [hc]

/-- Publishing the same details again right after a successful publish writes nothing. -/
theorem publish_idempotent (filter : List String) (details : Data) (hn : (details.map (·.1)).Nodup) (slot : Slot)
    (hp : (publish true filter details slot).published = true) :
    (publish true filter details (publish true filter details slot).slot).writes = 0 := by
  have hkeys := publish_keys filter details hn slot hp
  cases hs : (publish true filter details slot).slot with
  | none =>
    -- a successful publish always leaves a secret behind
    unfold publish at hp hs
    simp only [Bool.not_true, Bool.false_eq_true, if_false] at hp hs
    cases slot with
    | none => simp at hs
    | some s =>
      simp only [] at hp hs
      split at hs
      · simp at hs
      · split at hs <;> simp at hs
  | some s' =>
    apply (publish_no_rewrite filter details s' _).1
    intro kv hkv
    have := hkeys kv.1
    rw [hs] at this
    simp only [slotData] at this
    rw [this]
    have hd : dget (desiredData filter details) kv.1 = some kv.2 := by
      have hnd := desiredData_nodup filter details hn
      clear this hkeys hp hs
      generalize desiredData filter details = dd at hkv hnd
      induction dd with
      | nil => cases hkv
      | cons p ps ih =>
        simp only [List.map_cons, List.nodup_cons] at hnd
        rcases List.mem_cons.mp hkv with rfl | hm
        · simp [dget]
        · have hne : p.1 ≠ kv.1 := by
            intro e; exact hnd.1 (e ▸ List.mem_map.mpr ⟨kv, hm, rfl⟩)
          simp only [dget, List.find?, hne, decide_false]
          exact ih hm hnd.2
    rw [dget_desiredData] at hd
    by_cases ha : allowed filter kv.1 = true
    · simp only [ha, if_true] at hd ⊢; rw [hd]; rfl
    · simp [ha] at hd

/-! ### propagation to the claim -/

/-- **Exact copy.** A successful propagation leaves the claim's secret with exactly the XR
secret's data (a replace, not a merge), controlled by the claim. -/
theorem propagate_exact (src dst : Slot) (h : (propagate true true src dst).published = true) :
    ∃ fs, src = some fs ∧ fs.ctrl = .xr ∧ (propagate true true src dst).slot = some ⟨true, .owner, fs.data⟩ := by
  unfold propagate at h ⊢
  simp only [Bool.not_true, Bool.or_self, Bool.false_eq_true, if_false] at h ⊢
  cases src with
  | none => simp at h
  | some fs =>
    simp only [] at h ⊢
    by_cases hx : fs.ctrl = .xr
    · refine ⟨fs, rfl, hx, ?_⟩
      simp only [hx, ne_eq, not_true_eq_false, if_false] at h ⊢
      cases dst with
      | none => rfl
      | some d =>
        simp only [] at h ⊢
        split at h
        · simp at h
        · split at h
          · simp at h
          · rename_i h1 h2; simp [h1, h2]
    · simp [hx] at h

/-- **Provenance.** If the source secret is missing or not controlled by the bound XR, the
propagation fails and the claim's secret is not touched: a claim cannot use Crossplane to
read a secret its XR does not own. -/
theorem propagate_needs_controller (src dst : Slot) (h : ∀ fs, src = some fs → fs.ctrl ≠ .xr) :
    propagate true true src dst = ⟨dst, false, true, 0⟩ := by
  unfold propagate
  simp only [Bool.not_true, Bool.or_self, Bool.false_eq_true, if_false]
  cases src with
  | none => rfl
  | some fs => simp [h fs rfl]

/-- Either side not asking for a secret: nothing happens. -/
theorem propagate_only_if_asked (fw tw : Bool) (src dst : Slot) (h : fw = false ∨ tw = false) :
    propagate fw tw src dst = ⟨dst, false, false, 0⟩ := by
  unfold propagate
  rcases h with rfl | rfl <;> simp

/-- The claim's destination is guarded like the XR's. -/
theorem propagate_guard (fs d : Secret) (hx : fs.ctrl = .xr) (h : controllable d .owner = false) :
    propagate true true (some fs) (some d) = ⟨some d, false, true, 0⟩ := by
  simp [propagate, hx, h]

/-! ### both writers in an environment: informer-cache misses and a concurrent writer -/

theorem publishE_no_env (wants : Bool) (filter : List String) (details : Data) (slot : Slot) :
    publishE {} wants filter details slot = publish wants filter details slot := by
  unfold publishE
  cases slot with
  | none => cases wants <;> simp [publish]
  | some s => cases wants <;> simp [publish]

theorem propagateE_no_env (fw tw : Bool) (src dst : Slot) :
    propagateE {} fw tw src dst = propagate fw tw src dst := by
  unfold propagateE propagate
  by_cases h : (!fw || !tw) = true
  · simp [h]
  · simp only [h]
    cases src with
    | none => rfl
    | some fs =>
      by_cases hx : fs.ctrl = .xr
      · cases dst with
        | none => simp [hx]
        | some d => simp [hx]
      · simp [hx]

/-- **An existing secret the cache has not seen is never overwritten**: whatever it is (own,
foreign, uncontrolled), the publisher's Create is refused and the secret stays as it was. -/
theorem publishE_miss_keeps (e : Env) (he : e.miss = true) (wants : Bool) (filter : List String) (details : Data) (s : Secret) :
    (publishE e wants filter details (some s)).slot = some s ∧ (publishE e wants filter details (some s)).published = false := by
  unfold publishE
  cases wants <;> simp [he]

/-- **The guard holds in every environment**: a destination the XR may not control is left
exactly as it was and nothing is reported published, with or without a cache miss. -/
theorem publishE_guard (e : Env) (filter : List String) (details : Data) (s : Secret)
    (h : controllable s .owner = false) :
    (publishE e true filter details (some s)).slot = some s ∧ (publishE e true filter details (some s)).published = false := by
  unfold publishE
  cases hm : e.miss
  · simp [publish, h]
  · simp

/-- **Exact copy and provenance in every environment**: whenever the propagation reports
success, the claim's secret holds exactly the data of the source secret that was read and
checked to be controlled by the bound XR. -/
theorem propagateE_exact (e : Env) (src dst : Slot) (h : (propagateE e true true src dst).published = true) :
    ∃ fs, src = some fs ∧ fs.ctrl = .xr ∧ (propagateE e true true src dst).slot = some ⟨true, .owner, fs.data⟩ := by
  unfold propagateE at h ⊢
  simp only [Bool.not_true, Bool.or_self, Bool.false_eq_true, if_false] at h ⊢
  cases src with
  | none => simp at h
  | some fs =>
    simp only [] at h ⊢
    by_cases hx : fs.ctrl = .xr
    · refine ⟨fs, rfl, hx, ?_⟩
      simp only [hx, ne_eq, not_true_eq_false, if_false] at h ⊢
      cases dst with
      | none => rfl
      | some d =>
        simp only [] at h ⊢
        split at h
        · simp at h
        · split at h
          · simp at h
          · split at h
            · simp at h
            · split at h
              · simp at h
              · rename_i h1 h2 h3 h4; simp [h1, h2, h3, h4]
    · simp [hx] at h

/-- **Whatever the environment, a claim's secret changes only by such a copy**: if the
destination differs afterwards, the propagation reported success (so `propagateE_exact`
applies); in particular a Conflict caused by a concurrent writer, a cache miss, a foreign
destination or an unowned source leave it exactly as it was. -/
theorem propagateE_changes_only_by_copy (e : Env) (fw tw : Bool) (src dst : Slot)
    (h : (propagateE e fw tw src dst).slot ≠ dst) : (propagateE e fw tw src dst).published = true ∧ fw = true ∧ tw = true := by
  unfold propagateE at h ⊢
  by_cases hw : (!fw || !tw) = true
  · simp [hw] at h
  · have hfw : fw = true := by cases fw <;> simp_all
    have htw : tw = true := by cases tw <;> simp_all
    subst hfw; subst htw
    simp only [Bool.not_true, Bool.or_self, Bool.false_eq_true, if_false] at h ⊢
    cases src with
    | none => simp at h
    | some fs =>
      simp only [] at h ⊢
      by_cases hx : fs.ctrl = .xr
      · simp only [hx, ne_eq, not_true_eq_false, if_false] at h ⊢
        cases dst with
        | none => simp
        | some d =>
          simp only [] at h ⊢
          split at h
          · simp at h
          · split at h
            · simp at h
            · split at h
              · simp at h
              · split at h
                · simp at h
                · rename_i h1 h2 h3 h4; simp [h1, h2, h3, h4]
      · simp [hx] at h

/-- non-vacuity: a concurrent writer turns the update into a Conflict and the claim's secret
keeps its old data; without it the same call copies the XR's data -/
example :
    (propagateE { swap := true } true true (some ⟨true, .xr, [("user", "u")]⟩) (some ⟨true, .owner, [("user", "old")]⟩)).slot
      = some ⟨true, .owner, [("user", "old")]⟩ ∧
    (propagateE {} true true (some ⟨true, .xr, [("user", "u")]⟩) (some ⟨true, .owner, [("user", "old")]⟩)).slot
      = some ⟨true, .owner, [("user", "u")]⟩ := by decide

theorem dataEq_self (a : Data) (hn : (a.map (·.1)).Nodup) : dataEq a a = true := by
  have : ∀ kv ∈ a, dget a kv.1 = some kv.2 := by
    induction a with
    | nil => intro kv h; cases h
    | cons p ps ih =>
      simp only [List.map_cons, List.nodup_cons] at hn
      intro kv hkv
      rcases List.mem_cons.mp hkv with rfl | hm
      · simp [dget]
      · have hne : p.1 ≠ kv.1 := by
          intro e; exact hn.1 (e ▸ List.mem_map.mpr ⟨kv, hm, rfl⟩)
        simp only [dget, List.find?, hne, decide_false]
        exact ih hn.2 kv hm
  simp only [dataEq, Bool.and_self, List.all_eq_true, decide_eq_true_eq]
  exact this

/-- Identical data is never rewritten: propagating again after a successful propagation
issues no write. -/
theorem propagate_idempotent (src dst : Slot) (hn : ∀ fs, src = some fs → (fs.data.map (·.1)).Nodup)
    (h : (propagate true true src dst).published = true) :
    (propagate true true src (propagate true true src dst).slot).writes = 0 := by
  obtain ⟨fs, rfl, hx, hs⟩ := propagate_exact src dst h
  rw [hs]
  simp [propagate, hx, controllable, dataEq_self fs.data (hn fs rfl)]

/-! ### extraction -/

/-- a fixed value is always extracted under its name; a missing value is an error -/
theorem extract_fromValue (conn : Data) (f : String → Option String) (name : String) (v : Option String) (acc : Data)
    (hn : name ≠ "") :
    extract conn f [⟨"FromValue", name, none, none, v⟩] acc = v.map (fun x => dset acc name x) := by
  cases v <;> simp [extract, hn]

/-- a connection-secret key that is not (yet) there is omitted, not an error; an unset key is an error -/
theorem extract_fromKey (conn : Data) (f : String → Option String) (name : String) (k : Option String) (acc : Data)
    (hn : name ≠ "") :
    extract conn f [⟨"FromConnectionSecretKey", name, k, none, none⟩] acc =
      k.map (fun key => match dget conn key with | some v => dset acc name v | none => acc) := by
  cases k with
  | none => simp [extract, hn]
  | some key => cases h : dget conn key <;> simp [extract, hn, h]

/-- a field path that cannot be read is omitted, not an error; an unset path is an error -/
theorem extract_fromPath (conn : Data) (f : String → Option String) (name : String) (p : Option String) (acc : Data)
    (hn : name ≠ "") :
    extract conn f [⟨"FromFieldPath", name, none, p, none⟩] acc =
      p.map (fun path => match f path with | some v => dset acc name v | none => acc) := by
  cases p with
  | none => simp [extract, hn]
  | some path => cases h : f path <;> simp [extract, hn, h]

/-- a detail without a name is an error, whatever its type -/
theorem extract_needs_name (conn : Data) (f : String → Option String) (c : Cfg) (cs : List Cfg) (acc : Data)
    (h : c.name = "") : extract conn f (c :: cs) acc = none := by
  simp [extract, h]

/-- **Provenance through the composer.** The connection secret of a composed resource that the
XR does not control is never read into the XR's secret: the reconcile fails on that resource
(MustBeControllableBy) before any detail is extracted, nothing is published and the resource is
not reported as applied. -/
theorem pt_foreign_not_published (cdSecret : Option Data) (key : String) (xrSecret : Slot) :
    ptFlow .other cdSecret key xrSecret = (⟨xrSecret, false, true, 0⟩, false) := by
  simp [ptFlow]

/-- When the XR does control the resource, exactly the requested key of that resource's own
connection secret is published (filtered like any other detail). -/
theorem pt_own_published (c : Ctrl) (hc : c ≠ .other) (conn : Data) (key v : String) (hk : key ≠ "")
    (hv : dget conn key = some v) :
    (ptFlow c (some conn) key none).1.slot = some ⟨true, .owner, [(key, v)]⟩ := by
  simp [ptFlow, hc, extract, hk, hv, publish, desiredData, allowed, dset]

/-! ### non-vacuity -/
example : (publish true ["user"] [("user", "1"), ("pass", "2")] (some ⟨true, .owner, [("stale", "x")]⟩)).slot =
    some ⟨true, .owner, [("stale", "x"), ("user", "1")]⟩ := by decide
example : (propagate true true (some ⟨true, .xr, [("user", "1")]⟩) (some ⟨true, .owner, [("old", "x")]⟩)).slot =
    some ⟨true, .owner, [("user", "1")]⟩ := by decide

end Xp.C09

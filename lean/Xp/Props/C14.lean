import Xp.Model.C14
import Xp.Proofs.C14
import Xp.Gen.PkgNames
/-
C14 — a package has at most one active revision, numbered last; history GC
spares it.  Theorems about the model `Xp.C14.pkgReconcile` (Model/C14.lean, the
reconciler with fixes/D5.diff applied), for ALL fault plans / histories.
Helper lemmas are in Proofs/C14.lean.
-/
namespace Xp.C14

/-! ### at most one Active revision, at every instant -/

/-- At every instant of a reconcile — before/after any API call, whatever fails, and
right after a crash at any call — at most one revision of the package is Active
(and names stay unique), provided this held when the reconcile started. -/
theorem le_one_active_every_prefix (env : Env) (pname : String) (plan : Plan) (k : Nat) (s : Store)
    (hwf : WF s) (h1 : (activeRevs pname s).length ≤ 1) :
    ∀ s' ∈ reach sem plan k (pkgReconcile env pname) s, WF s' ∧ (activeRevs pname s').length ≤ 1 :=
  reconcile_reach_Inv env pname plan k s ⟨hwf, h1⟩

/-- The same over every history: any sequence of reconciles (each under its own fault plan,
including crashes, and its own registry answers) interleaved with package edits (source/tag,
history limit, activation and pull policy, pause, labels) and revision-controller steps. -/
theorem le_one_active_every_history (pname : String) (h : List (Plan × Step)) (s : Store)
    (hwf : WF s) (h1 : (activeRevs pname s).length ≤ 1) :
    ∀ s' ∈ reachHistory sem (historyProgs pname h) s, WF s' ∧ (activeRevs pname s').length ≤ 1 := by
  have hinv : Inv pname s := ⟨hwf, h1⟩
  clear hwf h1
  induction h generalizing s with
  | nil => intro s' hm; simp [historyProgs, reachHistory] at hm; subst hm; exact hinv
  | cons x rest ih =>
    obtain ⟨pl, st⟩ := x
    have hstep : ∀ s' ∈ reach sem pl 0 (stepProg pname st) s, Inv pname s' := by
      cases st with
      | reconcile env => exact reconcile_reach_Inv env pname pl 0 s hinv
      | envAct a => exact envStep_reach_Inv a pname pl 0 s hinv
    intro s' hm
    simp only [historyProgs, List.map_cons, reachHistory, List.mem_append] at hm
    rcases hm with hm | hm
    · exact hstep s' hm
    · exact ih _ (hstep _ (run_mem_reach sem pl 0 _ s)) s' hm

/-! ### after a reconcile the current revision exists, is numbered last, is Active -/

/-- If a reconcile runs to completion (under any fault plan), the revision named after the
package's current source exists, belongs to the package, carries a revision number at least
as high as every other revision of the package, has the package's source as image, and is
Active unless the activation policy is Manual. -/
theorem current_exists_highest_active (env : Env) (pname : String) (plan : Plan) (s s' : Store)
    (cur : String) (after : Bool)
    (hrun : run sem plan 0 (pkgReconcile env pname) s = (s', some (.done cur after))) :
    ∃ p, s.pkg = some p ∧ p.name = pname ∧ revisionName env p = .ok cur ∧
      ∃ rev ∈ s'.revs, rev.name = cur ∧ rev.parent = some pname ∧
        (∀ x ∈ s'.revs, labelled pname x = true → x.number ≤ rev.number) ∧
        (p.spec.policy ≠ .manual → rev.state = .active) ∧ rev.image = p.spec.source := by
  have hB : NumLeO pname (curOf env s) (maxRevision (s.revs.filter (labelled pname))) s.revs :=
    fun x hx lx _ => le_maxRevision (List.mem_filter.mpr ⟨hx, lx⟩)
  obtain ⟨p, h1, h2, h3, rev, h4, h5, h6, h7, h8, h9, _⟩ :=
    Tri.run plan 0 _ s (reconcile_tri env pname _ s hB) s' _ hrun cur after rfl
  exact ⟨p, h1, h2, h3, rev, h4, h5, h6, h7, h8, h9⟩

/-- "Numbered last" is strict when the package's revision numbers were distinct to start with:
after a completed reconcile every other revision of the package has a strictly lower number
than the current one. -/
theorem current_strictly_highest (env : Env) (pname : String) (plan : Plan) (s s' : Store)
    (cur : String) (after : Bool)
    (hdist : ∀ x ∈ s.revs, ∀ y ∈ s.revs, labelled pname x = true → labelled pname y = true →
      x.number = y.number → x.name = y.name)
    (hrun : run sem plan 0 (pkgReconcile env pname) s = (s', some (.done cur after))) :
    ∃ rev ∈ s'.revs, rev.name = cur ∧ rev.parent = some pname ∧
      ∀ x ∈ s'.revs, labelled pname x = true → x.name ≠ cur → x.number < rev.number := by
  obtain ⟨p, h1, h2, h3, rev, h4, h5, h6, _, _, _, h10, h11⟩ :=
    Tri.run plan 0 _ s (reconcile_tri env pname _ s (strictB_ok env pname s hdist)) s' _ hrun cur after rfl
  refine ⟨rev, h4, h5, h6, ?_⟩
  intro x hx lx hne
  have hb := h11 x hx lx hne
  have hcur : curOf env s = cur := by simp [curOf, h1, h3]
  simp only [strictB, h1, hcur] at hb
  omega

/-! ### revision names are a function of package name and digest -/

/-- Whenever the registry is consulted, the revision name is `friendlyID name digest`:
it depends on nothing but the package name and the image digest (not on the tag, the
policies, the history, or the store). -/
theorem revision_name_function (env env' : Env) (p p' : Pkg) (d : String)
    (hname : p.name = p'.name)
    (hd : env.head p.spec.source = .digest d) (hd' : env'.head p'.spec.source = .digest d)
    (hp : env.parseOk p.spec.source = true) (hp' : env'.parseOk p'.spec.source = true)
    (hpull : p.spec.pull = .always ∨ p.spec.pull = .unset) (hpull' : p'.spec.pull = .always ∨ p'.spec.pull = .unset) :
    revisionName env p = .ok (friendlyID p.name d) ∧ revisionName env' p' = revisionName env p := by
  have h1 : revisionName env p = .ok (friendlyID p.name d) := by
    rcases hpull with h | h <;> simp [revisionName, h, hd, hp]
  have h2 : revisionName env' p' = .ok (friendlyID p'.name d) := by
    rcases hpull' with h | h <;> simp [revisionName, h, hd', hp']
  exact ⟨h1, by rw [h1, h2, hname]⟩

/-- The only revision a reconcile can ever add to the store is the one named after the
current source: at every instant every revision either existed before or bears that name. -/
theorem only_current_revision_is_ever_created (env : Env) (pname : String) (plan : Plan) (k : Nat) (s : Store)
    (p : Pkg) (cur : String) (hp : s.pkg = some p) (hcur : revisionName env p = .ok cur) :
    ∀ s' ∈ reach sem plan k (pkgReconcile env pname) s, ∀ r ∈ s'.revs,
      r.name = cur ∨ ∃ r0 ∈ s.revs, r0.name = r.name := by
  intro s' hs' r hr
  have h := (reconcile_reach_I0 env pname plan k s s' hs').2.2 r hr
  simpa [curOf, hp, hcur] using h

/-- Same name and digest ⇒ same revision name ⇒ no second revision: if a revision named
`friendlyID name digest` already exists, re-resolving that image (via whatever tag) never
creates another revision — at no instant does a revision exist that did not exist before. -/
theorem friendlyID_function (env : Env) (pname : String) (plan : Plan) (k : Nat) (s : Store)
    (p : Pkg) (d : String) (hp : s.pkg = some p)
    (hd : env.head p.spec.source = .digest d) (hpo : env.parseOk p.spec.source = true)
    (hpull : p.spec.pull = .always ∨ p.spec.pull = .unset)
    (hex : ∃ r0 ∈ s.revs, r0.name = friendlyID p.name d) :
    ∀ s' ∈ reach sem plan k (pkgReconcile env pname) s, ∀ r ∈ s'.revs, ∃ r0 ∈ s.revs, r0.name = r.name := by
  intro s' hs' r hr
  have hcur := (revision_name_function env env p p d rfl hd hd hpo hpo hpull hpull).1
  rcases only_current_revision_is_ever_created env pname plan k s p _ hp hcur s' hs' r hr with e | h
  · obtain ⟨r0, h0, e0⟩ := hex
    exact ⟨r0, h0, e0.trans e.symm⟩
  · exact h

set_option maxRecDepth 200000 in
/-- The Lean `friendlyID` reproduces `xpkg.FriendlyID` of the current tree on the probe table
regenerated from the source on every run. -/
theorem friendlyID_matches_source_table :
    Xp.Gen.friendlyProbes.all (fun t => friendlyID t.1 t.2.1 == t.2.2) = true := by decide

/-- the state of harness/main/c14.go `c14SkeletonScn`: one call of every kind is issued -/
def skelStore : Store :=
  { pkg := some { name := "p", uid := "u-p",
                  spec := { source := "xpkg.io/org/pkg:v3", limit := some 1, policy := .unset, pull := .unset, paused := false, labels := [] },
                  status := { curRev := "", curId := "", pausedCond := false } }
    revs := [ { name := "p-1111111111aa", parent := some "p", number := 1, state := .inactive, ctrl := some "u-p", image := "img", labels := [], fin := false, deleting := false },
              { name := "p-2222222222bb", parent := some "p", number := 2, state := .active, ctrl := some "u-p", image := "img", labels := [], fin := false, deleting := false },
              { name := "p-3333333333cc", parent := some "p", number := 3, state := .inactive, ctrl := some "u-p", image := "img", labels := [("a", "1")], fin := false, deleting := false } ] }

def skelEnv : Env := { head := fun _ => .digest "3333333333cc2222222222222222222222222222222222222222222222222222", parseOk := fun _ => true }

set_option maxRecDepth 100000 in
/-- The model issues exactly the API calls, in the order, that `Reconciler.Reconcile` of the
current tree issues on the skeleton scenario (regenerated by running the real code on every
check): Get package, List revisions, List ImageConfigs, {Get, Patch} to deactivate, Delete the
collected revision, {Get, Patch} the current revision, Update (labels), Status().Update. -/
theorem call_skeleton_matches_source :
    (applied sem Plan.allOk 0 (pkgReconcile skelEnv "p") skelStore).map Req.tag = Xp.Gen.pkgReconcileSkeleton := by
  decide

/-! ### history garbage collection -/

/-- History GC deletes only the oldest non-current revision: under every fault plan, any
revision deleted by a reconcile is a revision of the package, is not the current one, and
has the lowest revision number among the non-current revisions of the package. -/
theorem gc_only_oldest_noncurrent (env : Env) (pname : String) (plan : Plan) (k : Nat) (s : Store) (n : String)
    (h : Req.deleteRev n ∈ applied sem plan k (pkgReconcile env pname) s) :
    ∃ p cur v, s.pkg = some p ∧ revisionName env p = .ok cur ∧
      v ∈ s.revs ∧ v.parent = some pname ∧ v.name = n ∧ n ≠ cur ∧
      ∀ x ∈ s.revs, x.parent = some pname → x.name ≠ cur → v.number ≤ x.number := by
  obtain ⟨p, cur, v, hp, hr, _, hg, hn⟩ := applied_delete env pname plan k s n h
  obtain ⟨_, _, _, _, ho⟩ := gcVictim_some hg
  obtain ⟨h1, h2, h3⟩ := oldestNonCurrent_spec ho
  have hm := List.mem_filter.mp h1
  refine ⟨p, cur, v, hp, hr, hm.1, by simpa [labelled] using hm.2, hn, hn ▸ h2, ?_⟩
  intro x hx hpar hne
  exact h3 x (List.mem_filter.mpr ⟨hx, by simpa [labelled] using hpar⟩) hne

/-- … only when more than revisionHistoryLimit+1 revisions of the package exist … -/
theorem gc_only_over_limit (env : Env) (pname : String) (plan : Plan) (k : Nat) (s : Store) (n : String)
    (h : Req.deleteRev n ∈ applied sem plan k (pkgReconcile env pname) s) :
    ∃ p lim, s.pkg = some p ∧ p.spec.limit = some lim ∧
      ((s.revs.filter (labelled pname)).length : Int) > lim + 1 := by
  obtain ⟨p, cur, v, hp, _, _, hg, _⟩ := applied_delete env pname plan k s n h
  obtain ⟨lim, hl, _, hlen, _⟩ := gcVictim_some hg
  exact ⟨p, lim, hp, hl, hlen⟩

/-- … and never when the limit is 0 (nor when it is unset). -/
theorem gc_never_at_zero (env : Env) (pname : String) (plan : Plan) (k : Nat) (s : Store) (p : Pkg)
    (hp : s.pkg = some p) (h0 : p.spec.limit = some 0 ∨ p.spec.limit = none) :
    ∀ n, Req.deleteRev n ∉ applied sem plan k (pkgReconcile env pname) s := by
  intro n h
  obtain ⟨p', _, _, hp', _, _, hg, _⟩ := applied_delete env pname plan k s n h
  obtain ⟨lim, hl, hne, _, _⟩ := gcVictim_some hg
  rw [hp] at hp'
  cases hp'
  rcases h0 with h0 | h0
  · rw [h0] at hl; cases hl; exact hne rfl
  · rw [h0] at hl; cases hl

/-- A reconcile never deletes the current revision. -/
theorem gc_spares_current (env : Env) (pname : String) (plan : Plan) (k : Nat) (s : Store)
    (p : Pkg) (cur : String) (hp : s.pkg = some p) (hcur : revisionName env p = .ok cur) :
    Req.deleteRev cur ∉ applied sem plan k (pkgReconcile env pname) s := by
  intro h
  obtain ⟨p', cur', v, hp', hr', _, _, _, hne, _⟩ := gc_only_oldest_noncurrent env pname plan k s cur h
  rw [hp] at hp'
  cases hp'
  rw [hcur] at hr'
  cases hr'
  exact hne rfl

/-! ### defect D5: the collector of the unfixed tree -/

def d5Rev (name : String) (n : Int) (st : State) : Rev :=
  { name := name, parent := some "p", number := n, state := st, ctrl := some "u-p", image := "img", labels := [],
    fin := false, deleting := false }

/-- a package rolled back to the image of its lowest-numbered revision, limit 1, three revisions -/
def d5Store : Store :=
  { pkg := some { name := "p", uid := "u-p",
                  spec := { source := "xpkg.io/org/pkg:v1", limit := some 1, policy := .unset, pull := .unset, paused := false, labels := [] },
                  status := { curRev := "p-3333333333cc", curId := "xpkg.io/org/pkg:v3", pausedCond := false } }
    revs := [d5Rev "p-1111111111aa" 1 .inactive, d5Rev "p-2222222222bb" 2 .inactive, d5Rev "p-3333333333cc" 3 .active] }

def d5Env : Env := { head := fun _ => .digest "1111111111aa0000", parseOk := fun _ => true }

/-- On the unfixed tree `gc_only_oldest_noncurrent` is FALSE: the collector picks the
lowest-numbered revision even when it is the current one.  Witness (corpus/C14/d5.jsonl):
after a rollback to the oldest of three revisions with limit 1, the reconcile of the unfixed
code deletes the current revision `p-1111111111aa`, which is then gone from the store. -/
theorem gc_only_oldest_noncurrent_fails_on_unfixed_witness :
    (match revisionName d5Env (d5Store.pkg.getD default) with | .ok c => c == "p-1111111111aa" | .error _ => false) = true ∧
    (applied sem Plan.allOk 0 (pkgReconcileUnfixed d5Env "p") d5Store).any
        (fun r => match r with | .deleteRev n => n == "p-1111111111aa" | _ => false) = true ∧
    (findRev "p-1111111111aa" (run sem Plan.allOk 0 (pkgReconcileUnfixed d5Env "p") d5Store).1.revs).isNone = true := by
  decide

/-- the repaired collector, on the same witness, deletes the oldest NON-current revision and
the current one ends up Active with the highest number -/
theorem d5_witness_repaired :
    (applied sem Plan.allOk 0 (pkgReconcile d5Env "p") d5Store).filterMap
        (fun r => match r with | .deleteRev n => some n | _ => none) = ["p-2222222222bb"] ∧
    ((run sem Plan.allOk 0 (pkgReconcile d5Env "p") d5Store).1.revs.map fun r => (r.name, r.number, r.state))
      = [("p-1111111111aa", 4, .active), ("p-3333333333cc", 3, .inactive)] := by
  decide

/-! ### the hypotheses are satisfiable by non-trivial states -/

example : WF d5Store ∧ (activeRevs "p" d5Store).length ≤ 1 := by decide

/-- a crash right after the second deactivation-related call still shows at most one Active -/
example : ∀ s' ∈ reach sem (Plan.at 4 .crashAfter) 0 (pkgReconcile d5Env "p") d5Store,
    (activeRevs "p" s').length ≤ 1 :=
  fun s' h => (le_one_active_every_prefix d5Env "p" _ 0 d5Store (by decide) (by decide) s' h).2

example : (run sem Plan.allOk 0 (pkgReconcile d5Env "p") d5Store).2 = some (.done "p-1111111111aa" false) := by
  decide

end Xp.C14

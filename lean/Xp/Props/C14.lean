import Xp.Model.C14
import Xp.Proofs.C14
import Xp.Proofs.C14Rev
import Xp.Proofs.C14World
import Xp.Proofs.C14Copy
import Xp.Gen.PkgNames
import Xp.Gen.C14Skel
/-
C14 — a package has at most one active revision, numbered last; history GC
spares it.  Theorems about the model `Xp.C14.pkgReconcile` (Model/C14.lean, the
reconciler with fixes/D5.diff applied), for ALL fault plans / histories.
Helper lemmas are in Proofs/C14.lean and Proofs/C14Rev.lean.
-/
namespace Xp.C14

/-! ### at most one Active revision, at every instant -/

/-- At every instant of a reconcile — before/after any API call, whatever fails, and
right after a crash at any call — at most one revision of the package is Active
(and names stay unique), provided this held when the reconcile started. -/
theorem le_one_active_every_prefix (env : Env) (pname : String) (plan : Plan) (k : Nat) (s : Store)
    (hwf : WF s) (h1 : (activeRevs pname s).length ≤ 1) :
    ∀ s' ∈ reach sem plan k (pkgReconcile env pname) s, WF s' ∧ (activeRevs pname s').length ≤ 1 :=
  reconcile_reach_Inv env pname plan k s ⟨hwf, h1⟩

/-- The same over every history: any sequence of reconciles (each under its own fault plan,
including crashes, and its own registry answers) interleaved with package edits (source/tag,
history limit, activation and pull policy, pause, labels) and revision-controller steps. -/
theorem le_one_active_every_history (pname : String) (h : List (Plan × Step)) (s : Store)
    (hwf : WF s) (h1 : (activeRevs pname s).length ≤ 1) :
    ∀ s' ∈ reachHistory sem (historyProgs pname h) s, WF s' ∧ (activeRevs pname s').length ≤ 1 := by
  have hinv : Inv pname s := ⟨hwf, h1⟩
  clear hwf h1
  induction h generalizing s with
  | nil => intro s' hm; simp [historyProgs, reachHistory] at hm; subst hm; exact hinv
  | cons x rest ih =>
    obtain ⟨pl, st⟩ := x
    have hstep : ∀ s' ∈ reach sem pl 0 (stepProg pname st) s, Inv pname s' := by
      cases st with
      | reconcile env => exact reconcile_reach_Inv env pname pl 0 s hinv
      | envAct a => exact envStep_reach_Inv a pname pl 0 s hinv
    intro s' hm
    simp only [historyProgs, List.map_cons, reachHistory, List.mem_append] at hm
    rcases hm with hm | hm
    · exact hstep s' hm
    · exact ih _ (hstep _ (run_mem_reach sem pl 0 _ s)) s' hm

/-! ### after a reconcile the current revision exists, is numbered last, is Active -/

/-- If a reconcile runs to completion (under any fault plan), the revision named after the
package's current source exists, belongs to the package, carries a revision number at least
as high as every other revision of the package, has the package's source as image, and is
Active unless the activation policy is Manual. -/
theorem current_exists_highest_active (env : Env) (pname : String) (plan : Plan) (s s' : Store)
    (cur : String) (after : Bool)
    (hrun : run sem plan 0 (pkgReconcile env pname) s = (s', some (.done cur after))) :
    ∃ p, s.pkg = some p ∧ p.name = pname ∧ revisionName env p = .ok cur ∧
      ∃ rev ∈ s'.revs, rev.name = cur ∧ rev.parent = some pname ∧
        (∀ x ∈ s'.revs, labelled pname x = true → x.number ≤ rev.number) ∧
        (p.spec.policy ≠ .manual → rev.state = .active) ∧ rev.image = p.spec.source := by
  have hB : NumLeO pname (curOf env s) (maxRevision (s.revs.filter (labelled pname))) s.revs :=
    fun x hx lx _ => le_maxRevision (List.mem_filter.mpr ⟨hx, lx⟩)
  obtain ⟨p, h1, h2, h3, rev, h4, h5, h6, h7, h8, h9, _⟩ :=
    Tri.run plan 0 _ s (reconcile_tri env pname _ s hB) s' _ hrun cur after rfl
  exact ⟨p, h1, h2, h3, rev, h4, h5, h6, h7, h8, h9⟩

/-- "Numbered last" is strict when the package's revision numbers were distinct to start with:
after a completed reconcile every other revision of the package has a strictly lower number
than the current one. -/
theorem current_strictly_highest (env : Env) (pname : String) (plan : Plan) (s s' : Store)
    (cur : String) (after : Bool)
    (hdist : ∀ x ∈ s.revs, ∀ y ∈ s.revs, labelled pname x = true → labelled pname y = true →
      x.number = y.number → x.name = y.name)
    (hrun : run sem plan 0 (pkgReconcile env pname) s = (s', some (.done cur after))) :
    ∃ rev ∈ s'.revs, rev.name = cur ∧ rev.parent = some pname ∧
      ∀ x ∈ s'.revs, labelled pname x = true → x.name ≠ cur → x.number < rev.number := by
  obtain ⟨p, h1, h2, h3, rev, h4, h5, h6, _, _, _, h10, h11, _⟩ :=
    Tri.run plan 0 _ s (reconcile_tri env pname _ s (strictB_ok env pname s hdist)) s' _ hrun cur after rfl
  refine ⟨rev, h4, h5, h6, ?_⟩
  intro x hx lx hne
  have hb := h11 x hx lx hne
  have hcur : curOf env s = cur := by simp [curOf, h1, h3]
  simp only [strictB, h1, hcur] at hb
  omega

/-! ### revision names are a function of package name and digest -/

/-- Whenever the registry is consulted, the revision name is `friendlyID name digest`:
it depends on nothing but the package name and the image digest (not on the tag, the
policies, the history, or the store). -/
theorem revision_name_function (env env' : Env) (p p' : Pkg) (d : String)
    (hname : p.name = p'.name)
    (hd : env.head p.spec.source = .digest d) (hd' : env'.head p'.spec.source = .digest d)
    (hp : env.parseOk p.spec.source = true) (hp' : env'.parseOk p'.spec.source = true)
    (hpull : p.spec.pull = .always ∨ p.spec.pull = .unset) (hpull' : p'.spec.pull = .always ∨ p'.spec.pull = .unset) :
    revisionName env p = .ok (friendlyID p.name d) ∧ revisionName env' p' = revisionName env p := by
  have h1 : revisionName env p = .ok (friendlyID p.name d) := by
    rcases hpull with h | h <;> simp [revisionName, h, hd, hp]
  have h2 : revisionName env' p' = .ok (friendlyID p'.name d) := by
    rcases hpull' with h | h <;> simp [revisionName, h, hd', hp']
  exact ⟨h1, by rw [h1, h2, hname]⟩

/-- The only revision a reconcile can ever add to the store is the one named after the
current source: at every instant every revision either existed before or bears that name. -/
theorem only_current_revision_is_ever_created (env : Env) (pname : String) (plan : Plan) (k : Nat) (s : Store)
    (p : Pkg) (cur : String) (hp : s.pkg = some p) (hcur : revisionName env p = .ok cur) :
    ∀ s' ∈ reach sem plan k (pkgReconcile env pname) s, ∀ r ∈ s'.revs,
      r.name = cur ∨ ∃ r0 ∈ s.revs, r0.name = r.name := by
  intro s' hs' r hr
  have h := (reconcile_reach_I0 env pname plan k s s' hs').2.2 r hr
  simpa [curOf, hp, hcur] using h

/-- Same name and digest ⇒ same revision name ⇒ no second revision: if a revision named
`friendlyID name digest` already exists, re-resolving that image (via whatever tag) never
creates another revision — at no instant does a revision exist that did not exist before. -/
theorem friendlyID_function (env : Env) (pname : String) (plan : Plan) (k : Nat) (s : Store)
    (p : Pkg) (d : String) (hp : s.pkg = some p)
    (hd : env.head p.spec.source = .digest d) (hpo : env.parseOk p.spec.source = true)
    (hpull : p.spec.pull = .always ∨ p.spec.pull = .unset)
    (hex : ∃ r0 ∈ s.revs, r0.name = friendlyID p.name d) :
    ∀ s' ∈ reach sem plan k (pkgReconcile env pname) s, ∀ r ∈ s'.revs, ∃ r0 ∈ s.revs, r0.name = r.name := by
  intro s' hs' r hr
  have hcur := (revision_name_function env env p p d rfl hd hd hpo hpo hpull hpull).1
  rcases only_current_revision_is_ever_created env pname plan k s p _ hp hcur s' hs' r hr with e | h
  · obtain ⟨r0, h0, e0⟩ := hex
    exact ⟨r0, h0, e0.trans e.symm⟩
  · exact h

set_option maxRecDepth 200000 in
/-- The Lean `friendlyID` reproduces `xpkg.FriendlyID` of the current tree on the probe table
regenerated from the source on every run. -/
theorem friendlyID_matches_source_table :
    Xp.Gen.friendlyProbes.all (fun t => friendlyID t.1 t.2.1 == t.2.2) = true := by decide

/-- the state of harness/main/c14.go `c14SkeletonScn`: one call of every kind is issued -/
def skelStore : Store :=
  { pkg := some { name := "p", uid := "u-p",
                  spec := { source := "xpkg.io/org/pkg:v3", limit := some 1, policy := .unset, pull := .unset, paused := false, labels := [] },
                  status := { curRev := "", curId := "", pausedCond := false } }
    revs := [ { name := "p-1111111111aa", parent := some "p", number := 1, state := .inactive, ctrl := some "u-p", image := "img", labels := [], fin := false, deleting := false },
              { name := "p-2222222222bb", parent := some "p", number := 2, state := .active, ctrl := some "u-p", image := "img", labels := [], fin := false, deleting := false },
              { name := "p-3333333333cc", parent := some "p", number := 3, state := .inactive, ctrl := some "u-p", image := "img", labels := [("a", "1")], fin := false, deleting := false } ] }

def skelEnv : Env := { head := fun _ => .digest "3333333333cc2222222222222222222222222222222222222222222222222222", parseOk := fun _ => true }

set_option maxRecDepth 100000 in
/-- The model issues exactly the API calls, in the order, that `Reconciler.Reconcile` of the
current tree issues on the skeleton scenario (regenerated by running the real code on every
check): Get package, List revisions, List ImageConfigs, {Get, Patch} to deactivate, Delete the
collected revision, {Get, Patch} the current revision, Update (labels), Status().Update. -/
theorem call_skeleton_matches_source :
    (applied sem Plan.allOk 0 (pkgReconcile skelEnv "p") skelStore).map Req.tag = Xp.Gen.pkgReconcileSkeleton := by
  decide

/-! ### the revisioner: package state × pull policy × fetch outcome -/

/-- `PackageRevisioner.Revision`, for every package state, pull policy and fetch outcome: it
returns the name `cur` (without error) exactly when
(a) the pull policy is Never and `cur` is `FriendlyID(name, spec.package)`, or
(b) the pull policy is IfNotPresent, the recorded `status.currentIdentifier` EQUALS the current
    source, and `cur` is the recorded `status.currentRevision`, or
(c) the registry was asked about the current source (reference parsed) and answered with a nil
    descriptor (`cur = ""`: no name) or with digest `d`, and `cur = FriendlyID(name, d)`. -/
theorem revisioner_characterised (env : Env) (p : Pkg) (cur : String) :
    revisionName env p = .ok cur ↔
      (p.spec.pull = .never ∧ cur = friendlyID p.name p.spec.source) ∨
      (p.spec.pull = .ifNotPresent ∧ p.status.curId = p.spec.source ∧ cur = p.status.curRev) ∨
      (skipsFetch p = false ∧ env.parseOk p.spec.source = true ∧
        ((env.head p.spec.source = .nil ∧ cur = "") ∨
         ∃ d, env.head p.spec.source = .digest d ∧ cur = friendlyID p.name d)) :=
  revisionName_ok_iff env p cur

/-- The revisioner returns a (non-empty) name only if it is the FriendlyID of the digest just
fetched for the CURRENT source, or the recorded current revision when the recorded identifier
equals the current source and the pull policy (IfNotPresent) allows skipping the fetch, or -
pull policy Never - the FriendlyID of the source string itself.  In particular a recorded
current revision is never returned for a source other than the one it was recorded for, and
never after a failed fetch. -/
theorem revisioner_name_sound (env : Env) (p : Pkg) (cur : String)
    (h : revisionName env p = .ok cur) (hne : cur ≠ "") :
    (skipsFetch p = false ∧ env.parseOk p.spec.source = true ∧
      ∃ d, env.head p.spec.source = .digest d ∧ cur = friendlyID p.name d) ∨
    (p.spec.pull = .ifNotPresent ∧ p.status.curId = p.spec.source ∧ cur = p.status.curRev) ∨
    (p.spec.pull = .never ∧ cur = friendlyID p.name p.spec.source) := by
  rcases (revisionName_ok_iff env p cur).mp h with h | h | ⟨h1, h2, ⟨_, e⟩ | h3⟩
  · exact .inr (.inr h)
  · exact .inr (.inl h)
  · exact absurd e hne
  · exact .inl ⟨h1, h2, h3⟩

/-- `Revision` fails exactly when it has to ask the registry (no pull-policy shortcut applies)
and either the source is not a valid reference or the fetch fails - with an error of ANY class. -/
theorem revisioner_fails_iff (env : Env) (p : Pkg) :
    revisionName env p = .error () ↔
      skipsFetch p = false ∧ (env.parseOk p.spec.source = false ∨ ∃ c, env.head p.spec.source = .err c) :=
  revisionName_error_iff env p

/-- Every fetch error, of every class (opaque, temporary registry error such as 503 /
TOOMANYREQUESTS, permanent registry error such as 401 / 404, context deadline), makes `Revision`
fail whenever the registry has to be asked - whatever the package's recorded current revision
and identifier are. -/
theorem every_fetch_error_fails_revision (env : Env) (p : Pkg) (c : ErrClass)
    (hs : skipsFetch p = false) (hh : env.head p.spec.source = .err c) :
    revisionName env p = .error () :=
  (revisionName_error_iff env p).mpr ⟨hs, .inr ⟨c, hh⟩⟩

/-- A reconcile whose revisioner fails writes nothing: under every fault plan, at every instant
(including right after a crash at any call) the revisions are exactly those of the start - no
spec.image rewrite, no activation change, no creation, no deletion - and the package keeps its
spec and its recorded currentRevision / currentIdentifier; no revision write is ever applied;
and the reconcile never reports success or a plain requeue (it returns the error whenever the
package is this one and is not paused). -/
theorem failed_revision_reconcile_writes_nothing (env : Env) (pname : String) (plan : Plan) (k : Nat)
    (s : Store) (p : Pkg) (hp : s.pkg = some p) (herr : revisionName env p = .error ()) :
    (∀ s' ∈ reach sem plan k (pkgReconcile env pname) s,
      s'.revs = s.revs ∧ ∃ p', s'.pkg = some p' ∧ p'.name = p.name ∧ p'.spec = p.spec ∧
        p'.status.curRev = p.status.curRev ∧ p'.status.curId = p.status.curId) ∧
    (∀ r ∈ applied sem plan k (pkgReconcile env pname) s, isRevWrite r = false) ∧
    (∀ s' a, run sem plan k (pkgReconcile env pname) s = (s', some a) →
      (∀ c af, a ≠ .done c af) ∧ a ≠ .requeue ∧
      (p.name = pname → p.spec.paused = false → p.status.pausedCond = false → a = .err)) := by
  have ht := reconcile_err_tri env pname s p hp herr
  refine ⟨?_, Tri.applied plan k _ s ht, ?_⟩
  · intro s' hs'
    have hc : core s' = core s := Tri.reach (I := fun s' => core s' = core s) plan k _ s rfl ht s' hs'
    simp only [core, hp, Option.map_some, Prod.mk.injEq] at hc
    obtain ⟨h1, h2⟩ := hc
    refine ⟨h1, ?_⟩
    cases hq : s'.pkg with
    | none => rw [hq] at h2; simp at h2
    | some q =>
      rw [hq] at h2
      simp only [Option.map_some, Option.some.injEq, Prod.mk.injEq] at h2
      exact ⟨q, rfl, h2.1, h2.2.2.1, h2.2.2.2.1, h2.2.2.2.2⟩
  · intro s' a hr
    obtain ⟨h1, h2⟩ := Tri.run plan k _ s ht s' a hr
    refine ⟨?_, ?_, h2⟩
    · intro c af e; subst e; rcases h1 with h | h | h <;> cases h
    · intro e; subst e; rcases h1 with h | h | h <;> cases h

/-- ... in particular after a fetch error of any class, for every package state in which the
registry has to be asked (e.g. right after a source edit, whatever revision is recorded as
current): no write to any revision, currentIdentifier does not move. -/
theorem fetch_error_reconcile_writes_nothing (env : Env) (pname : String) (plan : Plan) (k : Nat)
    (s : Store) (p : Pkg) (c : ErrClass) (hp : s.pkg = some p)
    (hs : skipsFetch p = false) (hh : env.head p.spec.source = .err c) :
    (∀ s' ∈ reach sem plan k (pkgReconcile env pname) s,
      s'.revs = s.revs ∧ ∃ p', s'.pkg = some p' ∧ p'.name = p.name ∧ p'.spec = p.spec ∧
        p'.status.curRev = p.status.curRev ∧ p'.status.curId = p.status.curId) ∧
    (∀ r ∈ applied sem plan k (pkgReconcile env pname) s, isRevWrite r = false) :=
  have h := failed_revision_reconcile_writes_nothing env pname plan k s p hp
    (every_fetch_error_fails_revision env p c hs hh)
  ⟨h.1, h.2.1⟩

/-- Every status write a reconcile applies (under any fault plan) either keeps the recorded
(currentRevision, currentIdentifier) pair, or records (name, source) where `name` is the
non-empty name the revisioner resolved for the package's CURRENT source (see
`revisioner_name_sound` for what that can be): the current revision is never recorded for
another source. -/
theorem recorded_current_revision_is_resolved (env : Env) (pname : String) (plan : Plan) (k : Nat)
    (s : Store) (p : Pkg) (hp : s.pkg = some p) (n : String) (st : Status)
    (h : Req.statusPkg n st ∈ applied sem plan k (pkgReconcile env pname) s) :
    (st.curRev = p.status.curRev ∧ st.curId = p.status.curId) ∨
    (st.curId = p.spec.source ∧ st.curRev ≠ "" ∧ revisionName env p = .ok st.curRev) :=
  Tri.applied plan k _ s (reconcile_status_tri env pname s p hp) _ h n st rfl

/-- The error kinds the harness' fake registry answers with carry, in the current tree's
go-containerregistry, the classes the model assigns them (table regenerated on every run from
the real error values: `errors.As(*transport.Error)` + `Temporary()`, context errors), and
every class is exercised. -/
theorem fetch_error_classes_match_source :
    Xp.Gen.fetchErrKinds.all (fun t => errClassOfKind t.1 == ErrClass.ofString t.2) = true ∧
    [ErrClass.plain, .temporary, .permanent, .timeout].all
      (fun c => Xp.Gen.fetchErrKinds.any (fun t => ErrClass.ofString t.2 == c)) = true := by decide

/-- the seeded trigger (corpus/C14/fetcherr.jsonl): installed at v1 under IfNotPresent, source
edited to v2, the registry answers the HEAD for v2 with a temporary error -/
def hiccupStore : Store :=
  { pkg := some { name := "p", uid := "u-p",
                  spec := { source := "xpkg.io/org/pkg:v2", limit := some 1, policy := .unset, pull := .ifNotPresent, paused := false, labels := [] },
                  status := { curRev := "p-1111111111aa", curId := "xpkg.io/org/pkg:v1", pausedCond := false } }
    revs := [ { name := "p-1111111111aa", parent := some "p", number := 1, state := .active, ctrl := some "u-p",
                image := "xpkg.io/org/pkg:v1", labels := [], fin := false, deleting := false } ] }

def hiccupEnv (c : ErrClass) : Env := { head := fun _ => .err c, parseOk := fun _ => true }

/-- the hypotheses of `fetch_error_reconcile_writes_nothing` are satisfiable, and on the seeded
trigger the model reconcile fails and leaves the store as it was, for each error class -/
example : ∀ c ∈ [ErrClass.plain, .temporary, .permanent, .timeout],
    skipsFetch (hiccupStore.pkg.getD default) = false ∧
    run sem Plan.allOk 0 (pkgReconcile (hiccupEnv c) "p") hiccupStore = (hiccupStore, some .err) := by
  decide

/-! ### history garbage collection -/

/-- History GC deletes only the oldest non-current revision: under every fault plan, any
revision deleted by a reconcile is a revision of the package, is not the current one, and
has the lowest revision number among the non-current revisions of the package. -/
theorem gc_only_oldest_noncurrent (env : Env) (pname : String) (plan : Plan) (k : Nat) (s : Store) (n : String)
    (h : Req.deleteRev n ∈ applied sem plan k (pkgReconcile env pname) s) :
    ∃ p cur v, s.pkg = some p ∧ revisionName env p = .ok cur ∧
      v ∈ s.revs ∧ v.parent = some pname ∧ v.name = n ∧ n ≠ cur ∧
      ∀ x ∈ s.revs, x.parent = some pname → x.name ≠ cur → v.number ≤ x.number := by
  obtain ⟨p, cur, v, hp, hr, _, hg, hn⟩ := applied_delete env pname plan k s n h
  obtain ⟨_, _, _, _, ho⟩ := gcVictim_some hg
  obtain ⟨h1, h2, h3⟩ := oldestNonCurrent_spec ho
  have hm := List.mem_filter.mp h1
  refine ⟨p, cur, v, hp, hr, hm.1, by simpa [labelled] using hm.2, hn, hn ▸ h2, ?_⟩
  intro x hx hpar hne
  exact h3 x (List.mem_filter.mpr ⟨hx, by simpa [labelled] using hpar⟩) hne

/-- … only when more than revisionHistoryLimit+1 revisions of the package exist … -/
theorem gc_only_over_limit (env : Env) (pname : String) (plan : Plan) (k : Nat) (s : Store) (n : String)
    (h : Req.deleteRev n ∈ applied sem plan k (pkgReconcile env pname) s) :
    ∃ p lim, s.pkg = some p ∧ p.spec.limit = some lim ∧
      ((s.revs.filter (labelled pname)).length : Int) > lim + 1 := by
  obtain ⟨p, cur, v, hp, _, _, hg, _⟩ := applied_delete env pname plan k s n h
  obtain ⟨lim, hl, _, hlen, _⟩ := gcVictim_some hg
  exact ⟨p, lim, hp, hl, hlen⟩

/-- … and never when the limit is 0 (nor when it is unset). -/
theorem gc_never_at_zero (env : Env) (pname : String) (plan : Plan) (k : Nat) (s : Store) (p : Pkg)
    (hp : s.pkg = some p) (h0 : p.spec.limit = some 0 ∨ p.spec.limit = none) :
    ∀ n, Req.deleteRev n ∉ applied sem plan k (pkgReconcile env pname) s := by
  intro n h
  obtain ⟨p', _, _, hp', _, _, hg, _⟩ := applied_delete env pname plan k s n h
  obtain ⟨lim, hl, hne, _, _⟩ := gcVictim_some hg
  rw [hp] at hp'
  cases hp'
  rcases h0 with h0 | h0
  · rw [h0] at hl; cases hl; exact hne rfl
  · rw [h0] at hl; cases hl

/-- A reconcile never deletes the current revision. -/
theorem gc_spares_current (env : Env) (pname : String) (plan : Plan) (k : Nat) (s : Store)
    (p : Pkg) (cur : String) (hp : s.pkg = some p) (hcur : revisionName env p = .ok cur) :
    Req.deleteRev cur ∉ applied sem plan k (pkgReconcile env pname) s := by
  intro h
  obtain ⟨p', cur', v, hp', hr', _, _, _, hne, _⟩ := gc_only_oldest_noncurrent env pname plan k s cur h
  rw [hp] at hp'
  cases hp'
  rw [hcur] at hr'
  cases hr'
  exact hne rfl

/-! ### defect D5: the collector of the unfixed tree -/

def d5Rev (name : String) (n : Int) (st : State) : Rev :=
  { name := name, parent := some "p", number := n, state := st, ctrl := some "u-p", image := "img", labels := [],
    fin := false, deleting := false }

/-- a package rolled back to the image of its lowest-numbered revision, limit 1, three revisions -/
def d5Store : Store :=
  { pkg := some { name := "p", uid := "u-p",
                  spec := { source := "xpkg.io/org/pkg:v1", limit := some 1, policy := .unset, pull := .unset, paused := false, labels := [] },
                  status := { curRev := "p-3333333333cc", curId := "xpkg.io/org/pkg:v3", pausedCond := false } }
    revs := [d5Rev "p-1111111111aa" 1 .inactive, d5Rev "p-2222222222bb" 2 .inactive, d5Rev "p-3333333333cc" 3 .active] }

def d5Env : Env := { head := fun _ => .digest "1111111111aa0000", parseOk := fun _ => true }

/-- On the unfixed tree `gc_only_oldest_noncurrent` is FALSE: the collector picks the
lowest-numbered revision even when it is the current one.  Witness (corpus/C14/d5.jsonl):
after a rollback to the oldest of three revisions with limit 1, the reconcile of the unfixed
code deletes the current revision `p-1111111111aa`, which is then gone from the store. -/
theorem gc_only_oldest_noncurrent_fails_on_unfixed_witness :
    (match revisionName d5Env (d5Store.pkg.getD default) with | .ok c => c == "p-1111111111aa" | .error _ => false) = true ∧
    (applied sem Plan.allOk 0 (pkgReconcileUnfixed d5Env "p") d5Store).any
        (fun r => match r with | .deleteRev n => n == "p-1111111111aa" | _ => false) = true ∧
    (findRev "p-1111111111aa" (run sem Plan.allOk 0 (pkgReconcileUnfixed d5Env "p") d5Store).1.revs).isNone = true := by
  decide

/-- the repaired collector, on the same witness, deletes the oldest NON-current revision and
the current one ends up Active with the highest number -/
theorem d5_witness_repaired :
    (applied sem Plan.allOk 0 (pkgReconcile d5Env "p") d5Store).filterMap
        (fun r => match r with | .deleteRev n => some n | _ => none) = ["p-2222222222bb"] ∧
    ((run sem Plan.allOk 0 (pkgReconcile d5Env "p") d5Store).1.revs.map fun r => (r.name, r.number, r.state))
      = [("p-1111111111aa", 4, .active), ("p-3333333333cc", 3, .inactive)] := by
  decide

/-! ### the hypotheses are satisfiable by non-trivial states -/

example : WF d5Store ∧ (activeRevs "p" d5Store).length ≤ 1 := by decide

/-- a crash right after the second deactivation-related call still shows at most one Active -/
example : ∀ s' ∈ reach sem (Plan.at 4 .crashAfter) 0 (pkgReconcile d5Env "p") d5Store,
    (activeRevs "p" s').length ≤ 1 :=
  fun s' h => (le_one_active_every_prefix d5Env "p" _ 0 d5Store (by decide) (by decide) s' h).2

example : (run sem Plan.allOk 0 (pkgReconcile d5Env "p") d5Store).2 = some (.done "p-1111111111aa" false) := by
  decide

/-! ### the world around a reconcile: cached reads, other clients, error classes, other packages

`Model/C14World.lean`: the reconciler's client reads through an informer cache (`View`, a
parameter), other clients act before every API call (`Sched.env`), a failing call fails with an
error class (`Out.fail e`), and the package slot of the store holds whichever package of the
kind is being reconciled.  The theorems above (about `Xp.run sem`) are the special case of a
fresh cache, no other client and a plain fault plan: -/

/-- With a fresh cache, nobody else and the error classes of a plain fault plan, the world
semantics IS the plain one: same final store and result, and every instant of the world run is
an instant of the plain run - so every theorem above speaks about this special case of the
world below. -/
theorem world_without_interference_is_plain (plan : Plan) (k : Nat) (pname : String) (env : Env) (s : Store) :
    (runW (Sched.ofPlan plan) k (pkgReconcile env pname) (World.fresh s)).1.live = (run sem plan k (pkgReconcile env pname) s).1 ∧
    (runW (Sched.ofPlan plan) k (pkgReconcile env pname) (World.fresh s)).2 = (run sem plan k (pkgReconcile env pname) s).2 ∧
    ∀ w ∈ reachW (Sched.ofPlan plan) k (pkgReconcile env pname) (World.fresh s),
      w.live ∈ reach sem plan k (pkgReconcile env pname) s :=
  ⟨(runW_fresh plan k _ _ (FreshW_fresh s)).1, (runW_fresh plan k _ _ (FreshW_fresh s)).2,
   reachW_fresh plan k _ _ (FreshW_fresh s)⟩

/-- AT MOST ONE ACTIVE, UNDER INTERFERENCE, FOR EVERY ERROR CLASS, FOR EVERY PACKAGE OF THE KIND.
A reconcile of package `q`, started in a world whose revision cache is fresh, under ANY schedule
- any outcome of any API call incl. a crash before/after it, a failure of ANY error class
(NotFound, Conflict, any other) at ANY call except a NotFound answer to the List of revisions
(call 1; see `list_notfound_makes_two_active_witness`), and other clients doing before EVERY call
anything that obeys the rely `Quiet` (editing the package, writing / deactivating / deleting
revisions, creating inactive ones, the cache catching up; `other_clients_obey_the_rely`) -
keeps names unique and at most one revision Active at EVERY instant, for EVERY package `pname`:
the reconciled one (`pname = q`) and every other one (a reconcile never activates a revision
of another package).  The package may be read through a lagging cache (any `view.pkg`). -/
theorem le_one_active_every_instant_under_interference (env : Env) (pname q : String) (sc : Sched)
    (hrely : ∀ k w, Quiet w (sc.env k w)) (hlist : sc.out 1 ≠ .fail .notFound)
    (w0 : World) (hfresh : w0.view.revs = none)
    (hwf : WF w0.live) (h1 : (activeW pname w0).length ≤ 1) :
    ∀ w ∈ reachW sc 0 (pkgReconcile env q) w0, WF w.live ∧ (activeW pname w).length ≤ 1 := by
  intro w hw
  exact (InvL_iff pname w).mp
    (reconcile_reachW_InvL True env pname q sc hrely hlist w0 hfresh ((InvL_iff pname w0).mpr ⟨hwf, h1⟩) w hw)

/-- EVERY OTHER REVISION IS DEACTIVATED, however many were Active to start with: when a reconcile
of `q` runs to completion in such a world (fresh revision cache, any admissible schedule: faults of
every class, other clients obeying the rely), no revision of `q` other than the current one is
Active in the final store. -/
theorem every_other_revision_inactive_after_reconcile (env : Env) (q : String) (sc : Sched)
    (hrely : ∀ k w, Quiet w (sc.env k w)) (hlist : sc.out 1 ≠ .fail .notFound)
    (w0 : World) (hfresh : w0.view.revs = none) (hwf : WF w0.live) (c : String) (a : Bool)
    (hrun : (runW sc 0 (pkgReconcile env q) w0).2 = some (.done c a)) :
    ∀ x ∈ (runW sc 0 (pkgReconcile env q) w0).1.live.revs, isActive q x = true → x.name = c :=
  reconcile_runW_done False env q q sc hrely hlist w0 hfresh ⟨hwf, fun f => f.elim⟩ _ hrun c a rfl rfl

/-- ... in particular in the plain world of the theorems above, under every fault plan. -/
theorem every_other_revision_inactive_after_plain_reconcile (env : Env) (pname : String) (plan : Plan)
    (s s' : Store) (hwf : WF s) (c : String) (a : Bool)
    (hrun : run sem plan 0 (pkgReconcile env pname) s = (s', some (.done c a))) :
    ∀ x ∈ s'.revs, isActive pname x = true → x.name = c := by
  obtain ⟨e1, e2⟩ := runW_fresh plan 0 (pkgReconcile env pname) (World.fresh s) (FreshW_fresh s)
  have hl : (Sched.ofPlan plan).out 1 ≠ .fail .notFound := by
    simp only [Sched.ofPlan]; cases plan 1 <;> simp
  have h := every_other_revision_inactive_after_reconcile env pname (Sched.ofPlan plan) (fun _ w => Quiet.refl w) hl
    (World.fresh s) rfl hwf c a (by rw [e2]; show (run sem plan 0 _ s).2 = _; rw [hrun])
  rw [e1] at h
  have : (run sem plan 0 (pkgReconcile env pname) (World.fresh s).live).1 = s' := by
    show (run sem plan 0 _ s).1 = s'; rw [hrun]
  rw [this] at h
  exact h

/-- Every action of another client the harness performs (`Act`: package edit, revision write,
delete, deactivation, creation of a non-Active revision, cache sync), and every sequence of them,
obeys the rely of `le_one_active_every_instant_under_interference`. -/
theorem other_clients_obey_the_rely (acts : Nat → List Act) :
    ∀ k w, Quiet w ((acts k).foldl actW w) :=
  fun k w => acts_quiet (acts k) w

/-- one step of a history of the whole kind: a reconcile of package `q` - whose stored version at
that moment is `pk` and whose cached version is `vp`, both arbitrary - under schedule `sc`, or
an action of another client -/
inductive WStep where
  | reconcile (env : Env) (q : String) (pk : Option Pkg) (vp : Option (Option Pkg)) (sc : Sched)
  | act (a : Act)

/-- the schedules the history theorem speaks about -/
def WStep.admissible : WStep → Prop
  | .reconcile _ _ _ _ sc => (∀ k w, Quiet w (sc.env k w)) ∧ sc.out 1 ≠ .fail .notFound
  | .act _ => True

def WStep.start (s : Store) (pk : Option Pkg) (vp : Option (Option Pkg)) : World :=
  { live := { s with pkg := pk }, view := { pkg := vp } }

/-- every store visible during a history (the revision cache is fresh at the start of each reconcile) -/
def histW : List WStep → Store → List Store
  | [], s => [s]
  | .act a :: rest, s => s :: histW rest (actW (World.fresh s) a).live
  | .reconcile env q pk vp sc :: rest, s =>
    (reachW sc 0 (pkgReconcile env q) (WStep.start s pk vp)).map (·.live) ++
      histW rest (runW sc 0 (pkgReconcile env q) (WStep.start s pk vp)).1.live

theorem runW_mem_reachW {α : Type} (sc : Sched) (k : Nat) (p : P α) (w : World) : (runW sc k p w).1 ∈ reachW sc k p w := by
  induction p generalizing k w with
  | ret a => simp [runW, reachW]
  | call r c ih =>
    cases ho : sc.out k with
    | ok =>
      rw [runW_ok _ _ _ _ _ ho, reachW_ok _ _ _ _ _ ho]
      exact List.mem_cons_of_mem _ (List.mem_cons_of_mem _ (ih _ _ _))
    | fail e =>
      rw [runW_fail _ _ _ _ _ e ho, reachW_fail _ _ _ _ _ e ho]
      exact List.mem_cons_of_mem _ (ih _ _ _)
    | crashBefore => rw [runW_crashBefore _ _ _ _ _ ho, reachW_crashBefore _ _ _ _ _ ho]; simp
    | crashAfter => rw [runW_crashAfter _ _ _ _ _ ho, reachW_crashAfter _ _ _ _ _ ho]; simp

/-- ... over every history of the whole kind: any sequence of reconciles of ANY packages of the
kind (each with arbitrary package content, arbitrary lag of the package cache, its own registry
answers, its own admissible schedule: faults and crashes of every class, other clients before
every call) interleaved with actions of other clients: at every instant at most one revision
of `pname` is Active and names are unique. -/
theorem le_one_active_every_world_history (pname : String) (h : List WStep) (hadm : ∀ st ∈ h, st.admissible)
    (s : Store) (hwf : WF s) (h1 : (activeRevs pname s).length ≤ 1) :
    ∀ s' ∈ histW h s, WF s' ∧ (activeRevs pname s').length ≤ 1 := by
  have hinv : Inv pname s := ⟨hwf, h1⟩
  clear hwf h1
  induction h generalizing s with
  | nil => intro s' hm; simp [histW] at hm; subst hm; exact hinv
  | cons st rest ih =>
    have hrest : ∀ st' ∈ rest, st'.admissible := fun st' hm => hadm st' (List.mem_cons_of_mem _ hm)
    cases st with
    | act a =>
      intro s' hm
      simp only [histW, List.mem_cons] at hm
      rcases hm with e | hm
      · subst e; exact hinv
      · refine ih hrest _ ?_ s' hm
        exact (InvL_iff pname _).mp (InvL_quiet ((InvL_iff pname (World.fresh s)).mpr hinv) (actW_quiet _ a))
    | reconcile env q pk vp sc =>
      obtain ⟨hr, hl⟩ := hadm _ List.mem_cons_self
      have hstart : InvL True pname (WStep.start s pk vp) := (InvL_iff pname (WStep.start s pk vp)).mpr hinv
      have hall := reconcile_reachW_InvL True env pname q sc hr hl (WStep.start s pk vp) rfl hstart
      intro s' hm
      simp only [histW, List.mem_append, List.mem_map] at hm
      rcases hm with ⟨w, hw, e⟩ | hm
      · subst e; exact (InvL_iff pname w).mp (hall w hw)
      · exact ih hrest _ ((InvL_iff pname _).mp (hall _ (runW_mem_reachW sc 0 _ _))) s' hm

/-- HISTORY GC IN EVERY WORLD.  Whatever the cache holds, whatever other clients do and whatever
fails: a Delete the reconcile applies targets a revision of the list the reconciler was SERVED
(`heardCtx`: the package its Get answered, the revisions its List answered), which is not the
current one, has the lowest number among the non-current revisions of that list, and the list is
longer than revisionHistoryLimit+1 of the package it was served, with a limit other than 0. -/
theorem gc_judged_on_served_list_in_every_world (env : Env) (pname : String) (sc : Sched) (w0 : World)
    (x : World × Req × Resp) (n : String)
    (hx : x ∈ ownW sc 0 (pkgReconcile env pname) w0) (hn : x.2.1 = .deleteRev n) :
    ∃ p listed cur lim, heardCtx (heardW sc 0 (pkgReconcile env pname) w0) = some (p, listed) ∧
      revisionName env p = .ok cur ∧ n ≠ cur ∧
      (∃ v ∈ listed, v.name = n ∧ ∀ y ∈ listed, y.name ≠ cur → v.number ≤ y.number) ∧
      p.spec.limit = some lim ∧ lim ≠ 0 ∧ (listed.length : Int) > lim + 1 := by
  obtain ⟨p, listed, cur, v, hc, hr, _, hg, hv⟩ := world_delete_is_heard_victim env pname sc w0 x n hx hn
  obtain ⟨lim, hl, hne, hlen, ho⟩ := gcVictim_some hg
  obtain ⟨h1, h2, h3⟩ := oldestNonCurrent_spec ho
  exact ⟨p, listed, cur, lim, hc, hr, hv ▸ h2, ⟨v, h1, hv, h3⟩, hl, hne, hlen⟩

/-- NO REVISION WRITE WITHOUT A RESOLVED NAME, IN EVERY WORLD.  Whatever the cache holds, whatever
other clients do and whatever fails: if the reconcile applies a write to any revision (create,
patch, update, delete), then the revisioner resolved a non-empty name for the package the
reconciler was served - i.e. (`revisioner_name_sound`) the digest fetched for ITS source, or the
recorded revision of the same identifier under IfNotPresent, or the source string under Never.
In particular a failed fetch of any class is followed by no revision write. -/
theorem revision_write_only_after_name_resolved_in_every_world (env : Env) (pname : String) (sc : Sched) (w0 : World)
    (x : World × Req × Resp)
    (hx : x ∈ ownW sc 0 (pkgReconcile env pname) w0) (hw : isRevWrite x.2.1 = true) :
    ∃ p listed cur, heardCtx (heardW sc 0 (pkgReconcile env pname) w0) = some (p, listed) ∧
      revisionName env p = .ok cur ∧ cur ≠ "" :=
  world_rev_write_needs_name env pname sc w0 x hx hw

/-! ### findings of the unchanged tree in the new dimensions (witnesses by evaluation) -/

def wRev (name : String) (n : Int) (st : State) (img : String) : Rev :=
  { name := name, parent := some "p", number := n, state := st, ctrl := some "u-p", image := img, labels := [],
    fin := false, deleting := false }

/-- corpus/C14/stale-list.jsonl at the moment of the second reconcile: the package was moved
v1 -> v2 (revision ..2222bb created Active, ..1111aa deactivated) and then v2 -> v3 -/
def staleLive : Store :=
  { pkg := some { name := "p", uid := "u-p",
                  spec := { source := "xpkg.io/org/pkg:v3", limit := none, policy := .unset, pull := .unset, paused := false, labels := [] },
                  status := { curRev := "p-2222222222bb", curId := "xpkg.io/org/pkg:v2", pausedCond := false } }
    revs := [wRev "p-1111111111aa" 1 .inactive "xpkg.io/org/pkg:v1", wRev "p-2222222222bb" 2 .active "xpkg.io/org/pkg:v2"] }

/-- ... read through a revision cache that has seen ..1111aa deactivated but not yet ..2222bb created -/
def staleWorld : World :=
  { live := staleLive, view := { revs := some [wRev "p-1111111111aa" 1 .inactive "xpkg.io/org/pkg:v1"] } }

def staleEnv : Env := { head := fun _ => .digest "3333333333cc2222", parseOk := fun _ => true }

def quietSched : Sched := { out := fun _ => .ok, env := fun _ w => w }

set_option maxRecDepth 100000 in
/-- FINDING (cache lag, class c): `le_one_active_every_instant_under_interference` needs the
fresh revision cache.  When the List of revisions is served by a cache that lags behind the
reconciler's own previous write (two source edits in quick succession), the reconcile of the
UNCHANGED code creates the revision of the new source Active while the previous one is still
Active - two Active revisions - and gives it a number already in use.  Nobody else acts and
nothing fails. -/
theorem stale_revision_list_makes_two_active_witness :
    (activeW "p" staleWorld).length = 1 ∧
    ((reachW quietSched 0 (pkgReconcile staleEnv "p") staleWorld).any fun w => decide ((activeW "p" w).length = 2)) = true ∧
    ((runW quietSched 0 (pkgReconcile staleEnv "p") staleWorld).1.live.revs.map fun r => (r.name, r.number, r.state))
      = [("p-1111111111aa", 1, .inactive), ("p-2222222222bb", 2, .active), ("p-3333333333cc", 2, .active)] := by
  decide

/-- corpus/C14/list-notfound.jsonl: ..1111aa Active, the package moved to v2 -/
def nfWorld : World :=
  World.fresh
    { pkg := some { name := "p", uid := "u-p",
                    spec := { source := "xpkg.io/org/pkg:v2", limit := none, policy := .unset, pull := .unset, paused := false, labels := [] },
                    status := { curRev := "p-1111111111aa", curId := "xpkg.io/org/pkg:v1", pausedCond := false } }
      revs := [wRev "p-1111111111aa" 1 .active "xpkg.io/org/pkg:v1"] }

def nfEnv : Env := { head := fun _ => .digest "2222222222bb1111", parseOk := fun _ => true }

/-- the List of revisions (API call 1) is answered NotFound -/
def nfSched : Sched := { out := fun k => if k = 1 then .fail .notFound else .ok, env := fun _ w => w }

set_option maxRecDepth 100000 in
/-- FINDING (error class, class d): ... and it needs a List that is not answered NotFound:
`resource.IgnoreNotFound` turns that answer into an empty revision list, and the reconcile of the
UNCHANGED code creates the new revision Active, numbered 1, next to the Active one. -/
theorem list_notfound_makes_two_active_witness :
    ((reachW nfSched 0 (pkgReconcile nfEnv "p") nfWorld).any fun w => decide ((activeW "p" w).length = 2)) = true ∧
    ((runW nfSched 0 (pkgReconcile nfEnv "p") nfWorld).1.live.revs.map fun r => (r.name, r.number, r.state))
      = [("p-1111111111aa", 1, .active), ("p-2222222222bb", 1, .active)] := by
  decide

/-- the hypotheses of the interference theorem are satisfiable by a non-trivial world and
schedule: another client touches the Active revision between the List and the deactivating
Patch (which then carries a stale resourceVersion): the reconcile requeues with one Active -/
def touchSched : Sched := { out := fun _ => .ok, env := fun k w => if k = 4 then actW w (.touch "p-1111111111aa") else w }

example : (∀ k w, Quiet w (touchSched.env k w)) ∧ touchSched.out 1 ≠ .fail .notFound ∧ nfWorld.view.revs = none ∧
    WF nfWorld.live ∧ (activeW "p" nfWorld).length ≤ 1 := by
  refine ⟨?_, by decide, rfl, by decide, by decide⟩
  intro k w
  simp only [touchSched]
  split
  · exact actW_quiet w _
  · exact Quiet.refl w

set_option maxRecDepth 100000 in
example : (runW touchSched 0 (pkgReconcile nfEnv "p") nfWorld).2 = some .requeue ∧
    ((runW touchSched 0 (pkgReconcile nfEnv "p") nfWorld).1.live.revs.map fun r => (r.name, r.state, r.fin))
      = [("p-1111111111aa", .active, true)] := by
  decide

/-! ### regenerated call skeletons: the mirrored Go functions still have the modelled shape (tie "a")

`Xp.Gen.c14Skel*` are extracted with go/ast from the CURRENT tree on every check run
(harness/main/c14_dump.go); the declared skeletons sit next to the model definitions that mirror them
(Model/C14.lean), one entry per call with the model step that mirrors it. -/

/-- `Reconciler.Reconcile`: Get, [paused: Status.Update ×2], List, PullSecretFor, Revision, [3 early Status.Update],
the loop (SetDesiredState, Apply), SetRevision, Delete, Apply, Update, pullBasedRequeue, Status.Update -/
theorem skeleton_reconcile : Xp.Gen.c14SkelReconcile = skelReconcile := by decide

/-- `PackageRevisioner.Revision`: pull-policy shortcuts, ParseReference, RefNames, Head, FriendlyID, with its returns -/
theorem skeleton_revision : Xp.Gen.c14SkelRevision = skelRevision := by decide

theorem skeleton_friendly_id : Xp.Gen.c14SkelFriendlyID = skelFriendlyID := by decide

theorem skeleton_to_dns_label : Xp.Gen.c14SkelToDNSLabel = skelToDNSLabel := by decide

/-- `xpkg.K8sFetcher.Head`: keychain, HEAD, and on failure a GET of the same reference whose descriptor is returned
as it is (not an image resolved from it) -/
theorem skeleton_fetcher_head : Xp.Gen.c14SkelFetcherHead = skelFetcherHead := by decide

theorem skeleton_pull_based_requeue : Xp.Gen.c14SkelPullBasedRequeue = skelPullBasedRequeue := by decide

/-- crossplane-runtime `APIPatchingApplicator.Apply` (the module source the harness is linked against):
[Create of a nameless object,] DeepCopy, Get, Create on NotFound, the ApplyOption, Patch — what `applyRev` mirrors -/
theorem skeleton_apply : Xp.Gen.c14SkelApply = skelApply := by decide

/-- crossplane-runtime `resource.MustBeControllableBy`: GetControllerOf and its four verdicts — `controllable` -/
theorem skeleton_must_be_controllable_by : Xp.Gen.c14SkelMustBeControllableBy = skelMustBeControllableBy := by decide

set_option maxRecDepth 100000 in
/-- The declared skeleton of `Reconcile` is a function of the model: the entries flagged as lying on the
complete path are — apart from `pkg.Revision`, which is no API call (`revisionName`) — exactly the source calls
(`Req.srcCall`) of the requests `pkgReconcile` applies on the skeleton scenario, in that order. -/
theorem skeleton_reconcile_from_model :
    ((skelReconcileTagged.filter (·.2)).map (·.1)).filter (· ≠ "pkg.Revision") =
      (applied sem Plan.allOk 0 (pkgReconcile skelEnv "p") skelStore).filterMap Req.srcCall := by
  decide

/-- `Apply` as a function of the model: Get then Patch (object exists), Get then Create (NotFound) are the two
request sequences of `applyRev`; the declared skeleton lists Get, Create, Patch after the nameless-object Create
and DeepCopy, with the NotFound test and the ApplyOption between them. -/
theorem skeleton_apply_from_model :
    skelApply.filter (fun c => c = "client.Get" ∨ c = "client.Patch") =
        (applied sem Plan.allOk 0 (applyRev (skelStore.revs.headD newRev) true "u-p") skelStore).map
          (fun r => match r with | .getRev _ => "client.Get" | .patchRev _ => "client.Patch" | _ => "?") ∧
    (skelApply.drop 1).filter (fun c => c = "client.Get" ∨ c = "client.Create") =
        (applied sem Plan.allOk 0 (applyRev { newRev with name := "fresh" } false "u-p") skelStore).map
          (fun r => match r with | .getRev _ => "client.Get" | .createRev _ _ => "client.Create" | _ => "?") := by
  decide

/-! ### the package's conditions -/

/-- the package is reported Installed=True (Active) exactly when its current revision is Active after the
reconcile - in particular under Manual activation an Inactive current revision reports Installed=False -/
theorem package_installed_iff_current_revision_active (h : Cond) (st : State) :
    (pkgConditions h st).2 = .true ↔ st = .active := by
  unfold pkgConditions; by_cases e : st = .active <;> simp [e]

/-- the package's health is the listed current revision's; a revision that has no Healthy condition yet (a new
one) makes the package's health Unknown - never Healthy -/
theorem package_health_follows_current_revision (h : Cond) (st : State) :
    (h ≠ .unset → (pkgConditions h st).1 = h) ∧ (h = .unset → (pkgConditions h st).1 = .unknown) := by
  unfold pkgConditions; cases h <;> simp

example : pkgConditions .false .inactive = (.false, .false) ∧ pkgConditions .unset .active = (.unknown, .true) := by decide

/-! ### the spec copy package → revision -/

/-- The table of copied fields of the current tree (go/ast: the `pr.SetX(p.GetX())` / `prwr.SetX(pwr.GetX())`
statements of `Reconcile`, in order; the JSON leaves by RUNNING each setter / getter on probe objects) is the
table the model declares: adding, dropping or re-pointing a copy breaks this obligation. -/
theorem copied_fields_match_source : Xp.Gen.c14CopiedFields = copiedFields := by decide

/-- `Rev.extra` / `Spec.extra` hold exactly the revision-side leaves of that table other than the ones `Rev`
models as own fields (image, commonLabels) or leaves out (TLS names). -/
theorem extra_keys_are_the_copied_leaves :
    (∀ k ∈ extraKeys, (copiedFields.any fun t => t.2.2.1.contains k) = true ∧ k ∉ ownLeaves) ∧
    (∀ t ∈ copiedFields, ∀ k ∈ t.2.2.1, k ∈ extraKeys ∨ k ∈ ownLeaves) := by decide

/-- THE SPEC COPY, final state, every fault plan: if a reconcile runs to completion the revision named after
the current source carries the package's image, exactly the package's commonLabels, and EVERY leaf the package
serialises for the other copied fields (pull policy, pull secrets, the two flags, runtime / controller config
reference), with the package's value.  (A leaf the package does NOT serialise is a different matter:
`cleared_field_stays_on_existing_revision_witness`.) -/
theorem current_revision_carries_package_fields (env : Env) (pname : String) (plan : Plan) (s s' : Store)
    (cur : String) (after : Bool)
    (hrun : run sem plan 0 (pkgReconcile env pname) s = (s', some (.done cur after))) :
    ∃ p, s.pkg = some p ∧ ∃ rev ∈ s'.revs, rev.name = cur ∧ rev.image = p.spec.source ∧
      rev.labels = p.spec.labels ∧
      (KeysNodup (copiedExtra p.spec) → ∀ kv ∈ copiedExtra p.spec, getL kv.1 rev.extra = some kv.2) := by
  have hB : NumLeO pname (curOf env s) (maxRevision (s.revs.filter (labelled pname))) s.revs :=
    fun x hx lx _ => le_maxRevision (List.mem_filter.mpr ⟨hx, lx⟩)
  obtain ⟨p, h1, _, _, rev, h4, h5, _, _, _, h9, _, _, hcov, hlab⟩ :=
    Tri.run plan 0 _ s (reconcile_tri env pname _ s hB) s' _ hrun cur after rfl
  exact ⟨p, h1, rev, h4, h5, h9, hlab, hcov⟩

/-- … and what the copy consists of, request by request, for every fault plan: a Create the API server can
accept creates THE desired current revision — image, commonLabels and copied leaves EXACTLY the package's
(nothing more: a fresh revision has no stale leaf), labelled and controlled by the package; a Patch sends that
same object or a listed revision set Inactive (whose copied leaves are the ones it was listed with); an
Update carries the package's commonLabels. -/
theorem revision_writes_carry_the_package_copy (env : Env) (pname : String) (plan : Plan) (k : Nat) (s : Store)
    (p : Pkg) (cur : String) (hp : s.pkg = some p) (hcur : revisionName env p = .ok cur) :
    ∀ r ∈ applied sem plan k (pkgReconcile env pname) s,
      (∀ d, r = .createRev d false →
        d.name = cur ∧ d.parent = some p.name ∧ d.image = p.spec.source ∧ d.labels = p.spec.labels ∧
        d.extra = copiedExtra p.spec) ∧
      (∀ d, r = .patchRev d →
        (d.image = p.spec.source ∧ d.labels = p.spec.labels ∧ d.extra = copiedExtra p.spec) ∨
        ∃ x ∈ s.revs, d = { x with state := .inactive }) ∧
      (∀ d, r = .updateRev d → d.labels = p.spec.labels) := by
  intro r hr
  obtain ⟨h1, h2, h3⟩ := Tri.applied plan k _ s (reconcile_copy_tri env pname s p hp) r hr cur hcur
  refine ⟨?_, ?_, h3⟩
  · intro d e
    rw [h1 d e]
    exact ⟨rfl, rfl, rfl, rfl, rfl⟩
  · intro d e
    rcases h2 d e with e' | ⟨x, hx, e'⟩
    · rw [e']; exact .inl ⟨rfl, rfl, rfl⟩
    · exact .inr ⟨x, (List.mem_filter.mp hx).1, e'⟩

/-- The API server side of the copy (`mergeRev`, crossplane-runtime's Apply sends the WHOLE desired object as a
JSON merge patch): every leaf the desired object serialises is stored, every other leaf stays as stored. -/
theorem merge_patch_stores_serialised_leaves_only (stored d : Rev) (k : String) :
    (KeysNodup d.extra → ∀ v, (k, v) ∈ d.extra → getL k (mergeRev stored d).extra = some v) ∧
    (k ∉ d.extra.map (·.1) → getL k (mergeRev stored d).extra = getL k stored.extra) :=
  ⟨fun hn v h => getL_merge_mem d.extra stored.extra hn (k, v) h, fun h => getL_merge_notin k d.extra stored.extra h⟩

/-- a package whose pull secrets were REMOVED (`extra := []`) after its current revision was created with them -/
def clearedStore : Store :=
  { pkg := some { name := "p", uid := "u-p",
                  spec := { source := "xpkg.io/org/pkg:v1", limit := none, policy := .unset, pull := .unset, paused := false, labels := [], extra := [] },
                  status := { curRev := "p-1111111111aa", curId := "xpkg.io/org/pkg:v1", pausedCond := false } }
    revs := [ { name := "p-1111111111aa", parent := some "p", number := 1, state := .active, ctrl := some "u-p", image := "xpkg.io/org/pkg:v1",
                labels := [], fin := true, deleting := false, extra := [("packagePullSecrets", "s1"), ("skipDependencyResolution", "true")] } ] }

def clearedEnv : Env := { head := fun _ => .digest "1111111111aa0000", parseOk := fun _ => true }

set_option maxRecDepth 100000 in
/-- What the copy does NOT do (the code as it is; recorded as an observation, not a clause of C14): a copied
field that is CLEARED on the package (pull secrets removed, a flag unset) is not cleared on the existing current
revision — the desired object does not serialise the empty field (`omitempty`), the merge patch leaves the stored
leaf alone, and only commonLabels get the follow-up Update.  The reconcile completes and the revision keeps
`packagePullSecrets = s1`. -/
theorem cleared_field_stays_on_existing_revision_witness :
    (run sem Plan.allOk 0 (pkgReconcile clearedEnv "p") clearedStore).2 = some (.done "p-1111111111aa" false) ∧
    (run sem Plan.allOk 0 (pkgReconcile clearedEnv "p") clearedStore).1.revs.map (fun r => (r.name, r.extra)) =
      [("p-1111111111aa", [("packagePullSecrets", "s1"), ("skipDependencyResolution", "true")])] := by
  decide

/-- the hypotheses of the copy theorems are satisfiable by a non-trivial state: a package with a pull policy,
pull secrets and a runtime config whose revision exists with OTHER values; the completed reconcile stores the
package's values -/
def copyStore : Store :=
  { pkg := some { name := "p", uid := "u-p",
                  spec := { source := "xpkg.io/org/pkg:v1", limit := none, policy := .unset, pull := .ifNotPresent, paused := false, labels := [("a", "1")],
                            extra := [("packagePullSecrets", "s2"), ("runtimeConfigRef.name", "rc1")] },
                  status := { curRev := "", curId := "", pausedCond := false } }
    revs := [ { name := "p-1111111111aa", parent := some "p", number := 1, state := .inactive, ctrl := some "u-p", image := "old",
                labels := [], fin := true, deleting := false, extra := [("packagePullSecrets", "s1"), ("skipDependencyResolution", "true")] } ] }

set_option maxRecDepth 100000 in
example : (∀ p, copyStore.pkg = some p → KeysNodup (copiedExtra p.spec)) ∧
    (run sem Plan.allOk 0 (pkgReconcile clearedEnv "p") copyStore).2 = some (.done "p-1111111111aa" false) ∧
    (run sem Plan.allOk 0 (pkgReconcile clearedEnv "p") copyStore).1.revs.map (fun r => (r.image, r.labels, r.extra)) =
      [("xpkg.io/org/pkg:v1", [("a", "1")],
        [("packagePullPolicy", "IfNotPresent"), ("packagePullSecrets", "s2"), ("runtimeConfigRef.name", "rc1"), ("skipDependencyResolution", "true")])] := by
  decide

example : (applied sem Plan.allOk 0 (pkgReconcile clearedEnv "p") { copyStore with revs := [] }).any
    (fun r => match r with | .createRev d false => d.extra == [("packagePullPolicy", "IfNotPresent"), ("packagePullSecrets", "s2"), ("runtimeConfigRef.name", "rc1")] | _ => false) = true := by
  decide

end Xp.C14

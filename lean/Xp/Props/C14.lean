import Xp.Model.C14
namespace Xp.C14

/-- History garbage collection never deletes anything when the limit is 0. -/
theorem gc_never_at_zero (cur : String) (l : List Rev) : gcVictim (some 0) cur l = none := by
  simp [gcVictim, gcVictimWith]

end Xp.C14

import Xp.Model.C11
namespace Xp.C11

theorem scope_xr (xrd : Xrd) (crd : Crd) (h : forXR xrd = .ok crd) : crd.scope = "Cluster" := by
  unfold forXR at h
  split at h
  · cases h
  · cases h; rfl

end Xp.C11

import Xp.Model.C11
import Xp.Model.C11Hook
import Xp.Proofs.C11
import Xp.Proofs.C11Hook
import Xp.Gen.C11Skel
/-
C11 property theorems: the CRDs derived from an XRD are the author's schema plus
intact Crossplane machinery; colliding claim names are rejected; group and
kind/plural cannot change.

`derive .xr = forXR` models xcrd.ForCompositeResource, `derive .claim = forClaim`
models xcrd.ForCompositeResourceClaim.  All theorems quantify over every XRD
(any number of versions, any schema tree, any names, policies, conversion) and,
where they speak about the machinery, are stated over the tables regenerated
from /repo (`Xp.Gen.xcrd…`).  The `tables_…`/`machinery_…complete`/`…_shape`
theorems are obligations on those generated tables: they break when the tree's
tables stop containing the machinery the property names.
-/
namespace Xp.C11
open Xp.Gen

/-! ## obligations on the regenerated tables -/

/-- the key lists and the full tables come from the same functions, and no table repeats a key
(so Go's map iteration order cannot influence the result) -/
theorem tables_consistent :
    keys xcrdSpecPropsXR = specPropsXR ∧ keys xcrdSpecPropsClaim = specPropsClaim ∧ keys xcrdStatusProps = statusProps ∧
    specPropsXR.Nodup ∧ specPropsClaim.Nodup ∧ statusProps.Nodup := by decide

/-- the machinery the property names is in the tables: composition selection, references,
connection secret settings (spec) and conditions / connection details (status) -/
theorem machinery_complete :
    (∀ k ∈ ["compositionRef", "compositionSelector", "compositionRevisionRef", "compositionRevisionSelector",
            "compositionUpdatePolicy", "claimRef", "resourceRefs", "publishConnectionDetailsTo",
            "writeConnectionSecretToRef"], k ∈ specPropsXR) ∧
    (∀ k ∈ ["compositionRef", "compositionSelector", "compositionRevisionRef", "compositionRevisionSelector",
            "compositionUpdatePolicy", "compositeDeletePolicy", "resourceRef", "publishConnectionDetailsTo",
            "writeConnectionSecretToRef"], k ∈ specPropsClaim) ∧
    (∀ k ∈ ["conditions", "connectionDetails"], k ∈ statusProps) ∧
    (∀ k ∈ propagateSpecProps, k ∈ specPropsXR ∧ k ∈ specPropsClaim) := by decide

/-- what "standard schema" means, stated without the tables: type, required list and property
names of every machinery field of a composite resource -/
theorem machinery_shape_xr : shape xcrdSpecPropsXR = [
    ("claimRef", "object", ["apiVersion", "kind", "namespace", "name"], ["apiVersion", "kind", "name", "namespace"]),
    ("compositionRef", "object", ["name"], ["name"]),
    ("compositionRevisionRef", "object", ["name"], ["name"]),
    ("compositionRevisionSelector", "object", ["matchLabels"], ["matchLabels"]),
    ("compositionSelector", "object", ["matchLabels"], ["matchLabels"]),
    ("compositionUpdatePolicy", "string", [], []),
    ("publishConnectionDetailsTo", "object", ["name"], ["configRef", "metadata", "name"]),
    ("resourceRefs", "array", [], []),
    ("writeConnectionSecretToRef", "object", ["name", "namespace"], ["name", "namespace"])] := by decide

theorem machinery_shape_claim : shape xcrdSpecPropsClaim = [
    ("compositeDeletePolicy", "string", [], []),
    ("compositionRef", "object", ["name"], ["name"]),
    ("compositionRevisionRef", "object", ["name"], ["name"]),
    ("compositionRevisionSelector", "object", ["matchLabels"], ["matchLabels"]),
    ("compositionSelector", "object", ["matchLabels"], ["matchLabels"]),
    ("compositionUpdatePolicy", "string", [], []),
    ("publishConnectionDetailsTo", "object", ["name"], ["configRef", "metadata", "name"]),
    ("resourceRef", "object", ["apiVersion", "kind", "name"], ["apiVersion", "kind", "name"]),
    ("writeConnectionSecretToRef", "object", ["name"], ["name"])] := by decide

theorem machinery_shape_status : shape xcrdStatusProps = [
    ("claimConditionTypes", "array", [], []),
    ("conditions", "array", [], []),
    ("connectionDetails", "object", [], ["lastPublishedTime"])] := by decide

/-- BaseProps: an object that requires `spec`, with apiVersion, kind, metadata, spec, status; the
spec and status nodes start empty (so nothing but the author's and the machinery's fields end up there) -/
theorem base_schema :
    xcrdBaseProps.type = "object" ∧ xcrdBaseProps.required = ["spec"] ∧
    keys xcrdBaseProps.props = ["apiVersion", "kind", "metadata", "spec", "status"] ∧
    (prop xcrdBaseProps "metadata").type = "object" ∧
    (prop xcrdBaseProps "spec").type = "object" ∧ keys (prop xcrdBaseProps "spec").props = [] ∧
    (prop xcrdBaseProps "spec").required = [] ∧ (prop xcrdBaseProps "spec").xValidations = [] ∧
    (prop xcrdBaseProps "spec").oneOf = [] ∧
    (prop xcrdBaseProps "status").type = "object" ∧ keys (prop xcrdBaseProps "status").props = [] := by decide

/-- names are used as label values: the limit written into both CRDs is 63 -/
theorem name_limit : maxNameLengthOf .xr = 63 ∧ maxNameLengthOf .claim = 63 := by decide

/-- the keywords an author's schema relies on are keywords of the type the derivation decodes the
document into (extv1.JSONSchemaProps of the module version the current tree pins, by reflection):
none of them is dropped by the decode before genCrdVersion runs, `properties` is a map of schemas,
`items` a schema or a list of schemas, the CEL rules a list of rule objects. (A keyword outside
this table never reaches the derivation: JSON decoding is library code.) -/
theorem schema_keywords_known :
    (∀ k ∈ ["type", "description", "properties", "required", "default", "enum", "format", "pattern", "nullable",
            "items", "additionalProperties", "minimum", "maximum", "multipleOf", "minLength", "maxLength",
            "minItems", "maxItems", "uniqueItems", "minProperties", "maxProperties", "oneOf", "anyOf", "allOf", "not",
            "x-kubernetes-validations", "x-kubernetes-preserve-unknown-fields", "x-kubernetes-int-or-string",
            "x-kubernetes-embedded-resource", "x-kubernetes-list-type", "x-kubernetes-list-map-keys",
            "x-kubernetes-map-type"], k ∈ keys xcrdSchemaKeywords) ∧
    (keys xcrdSchemaKeywords).Nodup ∧
    lookup "properties" xcrdSchemaKeywords = some "schemaMap" ∧
    lookup "items" xcrdSchemaKeywords = some "schemaOrSchemas" ∧
    lookup "additionalProperties" xcrdSchemaKeywords = some "schemaOrBool" ∧
    lookup "oneOf" xcrdSchemaKeywords = some "schemas" ∧
    lookup "x-kubernetes-validations" xcrdSchemaKeywords = some "rules" := by decide

/-! ## obligations on the regenerated statement / call skeletons

Every Go function the model mirrors is read with go/ast from the current tree on every run
(harness/main/c11_skel.go -> Xp.Gen.c11Stmts…): its leaf statements and control headers in source
order. The model files declare the statements their definitions mirror (one entry per statement,
with the model step); these obligations say the two lists are equal, so that a field copy dropped,
two writes swapped, a comparison changed or a call inserted in a mirrored function fails here before
any scenario is run. -/

theorem skeleton_ForCompositeResource : c11StmtsForCompositeResource = skelForCompositeResource := rfl
theorem skeleton_ForCompositeResourceClaim : c11StmtsForCompositeResourceClaim = skelForCompositeResourceClaim := rfl
theorem skeleton_genCrdVersion : c11StmtsGenCrdVersion = skelGenCrdVersion := rfl
theorem skeleton_validateClaimNames : c11StmtsValidateClaimNames = skelValidateClaimNames := rfl
theorem skeleton_parseSchema : c11StmtsParseSchema = skelParseSchema := rfl
theorem skeleton_setCrdMetadata : c11StmtsSetCrdMetadata = skelSetCrdMetadata := rfl
theorem skeleton_IsEstablished : c11StmtsIsEstablished = skelIsEstablished ∧
    c11EstablishedType = "Established" ∧ c11ConditionTrue = "True" := ⟨rfl, rfl, rfl⟩
theorem skeleton_Validate : c11StmtsValidate = skelValidate ∧ c11StmtsValidateConversion = skelValidateConversion := ⟨rfl, rfl⟩
theorem skeleton_ValidateUpdate : c11StmtsValidateUpdate = skelValidateUpdate := rfl
theorem skeleton_getAllCRDsForXRD : c11StmtsGetAllCRDsForXRD = skelGetAllCRDsForXRD := rfl
theorem skeleton_hook_ValidateCreate : c11StmtsHookValidateCreate = skelHookValidateCreate := rfl
theorem skeleton_hook_ValidateUpdate : c11StmtsHookValidateUpdate = skelHookValidateUpdate := rfl
theorem skeleton_hook_dryRunUpdateOrCreateIfNotFound : c11StmtsHookDryRun = skelHookDryRun := rfl
theorem skeleton_hook_rewriteError : c11StmtsHookRewriteError = skelHookRewriteError := rfl

/-- the verbs go/ast finds on the validator's client are the requests of the model's Prog trees
(a function of the model, for every CRD): Get, then a dry-run Update or a dry-run Create inside the
retried closure; one dry-run Create per CRD in ValidateCreate; nothing else, and ValidateUpdate itself
calls the client only through dryRunUpdateOrCreateIfNotFound -/
theorem skeleton_hook_client_calls (crd : Crd) :
    c11CallsHookDryRun = callsHookDryRun crd ∧ c11CallsHookValidateCreate = callsHookValidateCreate crd ∧
    c11CallsHookValidateUpdate = [] := ⟨rfl, rfl, rfl⟩

/-- the reconcilers that write the CRDs: Render (built with xcrd.ForCompositeResource /
ForCompositeResourceClaim themselves, not a wrapper) comes before the one Apply, and the only other
function of package xcrd Reconcile uses is the establishment gate IsEstablished (no option that
filters or skips the Apply) -/
theorem skeleton_reconcilers :
    c11SkelDefinitionReconcile = skelDefinitionReconcile ∧ c11SkelOfferedReconcile = skelOfferedReconcile ∧
    c11RendererDefinition = rendererOf .xr ∧ c11RendererOffered = rendererOf .claim ∧
    c11XcrdInDefinitionReconcile = ["IsEstablished"] ∧ c11XcrdInOfferedReconcile = ["IsEstablished"] :=
  ⟨rfl, rfl, rfl, rfl, rfl, rfl⟩

/-! ## machinery intact -/

/-- Whatever the author wrote under a machinery key of `spec` (in any version, in either CRD),
the CRD carries the standard schema of the table there; the only variation is the `default` of the
policy field when the XRD sets a default policy. -/
theorem machinery_intact (w : Which) (xrd : Xrd) (crd : Crd) (h : derive w xrd = .ok crd) :
    ∀ cv ∈ crd.versions, ∀ k std, lookup k (tableOf w) = some std →
      lookup k (prop cv.schema "spec").props =
        some (if k = policyKey w then applyDefault (policyOf w xrd) std else std) := by
  intro cv hcv k std hk
  obtain ⟨vr, _, s, _, rfl⟩ := forall2_mem_right (derive_versions w xrd crd h) cv hcv
  rw [decorate_spec]
  have hkeysT : (keys (tableOf w)).Nodup ∧ policyKey w ∈ keys (tableOf w) := by cases w <;> decide
  have hmach : machineryOf w xrd = withDefault (policyKey w) (policyOf w xrd) (tableOf w) := by cases w <;> rfl
  have hkeys : keys (machineryOf w xrd) = keys (tableOf w) := by rw [hmach]; exact keys_withDefault _ _ _ hkeysT.2
  have hmem : k ∈ keys (machineryOf w xrd) := by rw [hkeys]; exact mem_keys_of_lookup k std _ hk
  show lookup k (setAll _ (machineryOf w xrd)) = _
  rw [lookup_setAll_of_mem k _ _ (by rw [hkeys]; exact hkeysT.1) hmem, hmach]
  by_cases hp : k = policyKey w
  · subst hp; simp only [if_true]; exact lookup_withDefault_self _ _ _ _ hk
  · simp only [hp, if_false]; rw [lookup_withDefault_ne _ _ _ _ hp]; exact hk

/-- the same for the machinery status fields (conditions, connectionDetails, claimConditionTypes) -/
theorem machinery_intact_status (w : Which) (xrd : Xrd) (crd : Crd) (h : derive w xrd = .ok crd) :
    ∀ cv ∈ crd.versions, ∀ k std, lookup k xcrdStatusProps = some std →
      lookup k (prop cv.schema "status").props = some std := by
  intro cv hcv k std hk
  obtain ⟨vr, _, s, _, rfl⟩ := forall2_mem_right (derive_versions w xrd crd h) cv hcv
  rw [decorate_status]
  show lookup k (setAll _ xcrdStatusProps) = _
  rw [lookup_setAll_of_mem k _ _ (by decide) (mem_keys_of_lookup k std _ hk)]
  exact hk

/-- the envelope cannot be altered either: every version's schema is an object requiring `spec`,
apiVersion and kind are BaseProps', `spec`, `status`, `metadata` stay objects, and `metadata`
declares nothing but `name` – whatever the author's top-level schema says -/
theorem machinery_intact_root (w : Which) (xrd : Xrd) (crd : Crd) (h : derive w xrd = .ok crd) :
    ∀ cv ∈ crd.versions,
      cv.schema.type = "object" ∧ cv.schema.required = ["spec"] ∧
      lookup "apiVersion" cv.schema.props = lookup "apiVersion" xcrdBaseProps.props ∧
      lookup "kind" cv.schema.props = lookup "kind" xcrdBaseProps.props ∧
      (prop cv.schema "spec").type = "object" ∧ (prop cv.schema "status").type = "object" ∧
      (prop cv.schema "metadata").type = "object" ∧ keys (prop cv.schema "metadata").props = ["name"] := by
  intro cv hcv
  obtain ⟨vr, _, s, _, rfl⟩ := forall2_mem_right (derive_versions w xrd crd h) cv hcv
  refine ⟨by simp only [decorate, mkVersion, writeSpecProps, genSchema]; decide,
          by simp only [decorate, mkVersion, writeSpecProps, genSchema]; decide, ?_, ?_, ?_, ?_, ?_, ?_⟩
  · simp only [decorate, mkVersion]
    rw [writeSpecProps_other _ _ _ (by decide), genSchema_other _ _ _ (by decide) (by decide) (by decide)]
  · simp only [decorate, mkVersion]
    rw [writeSpecProps_other _ _ _ (by decide), genSchema_other _ _ _ (by decide) (by decide) (by decide)]
  · rw [decorate_spec]; simp only [genSpec]; decide
  · rw [decorate_status]; simp only [genStatus]; decide
  · rw [decorate_metadata]; simp only [genMetadata]; decide
  · rw [decorate_metadata]; simp only [genMetadata, keys, List.map]

/-! ## author's schema kept -/

/-- Every property the author declares under `spec` / `status` whose name is not a machinery key
is carried unchanged into both CRDs, in every version, and nothing else appears there. (An author's
`properties` is a JSON object, hence without duplicate keys.) -/
theorem author_kept (w : Which) (xrd : Xrd) (crd : Crd) (h : derive w xrd = .ok crd) :
    Zip (fun vr cv => ∀ s, vr.schema = .ok s →
        ((keys (prop s "spec").props).Nodup → ∀ k, k ∉ keys (tableOf w) →
            lookup k (prop cv.schema "spec").props = lookup k (prop s "spec").props) ∧
        ((keys (prop s "status").props).Nodup → ∀ k, k ∉ statusProps →
            lookup k (prop cv.schema "status").props = lookup k (prop s "status").props))
      xrd.versions crd.versions := by
  refine zip_imp (derive_versions w xrd crd h) ?_
  rintro vr cv ⟨s, hs, rfl⟩ s' hs'
  rw [hs] at hs'; cases hs'
  have hkeysT : (keys (tableOf w)).Nodup ∧ policyKey w ∈ keys (tableOf w) := by cases w <;> decide
  have hmach : machineryOf w xrd = withDefault (policyKey w) (policyOf w xrd) (tableOf w) := by cases w <;> rfl
  have hkeys : keys (machineryOf w xrd) = keys (tableOf w) := by rw [hmach]; exact keys_withDefault _ _ _ hkeysT.2
  constructor
  · intro hnd k hk
    rw [decorate_spec]
    show lookup k (setAll _ (machineryOf w xrd)) = _
    rw [lookup_setAll_of_not_mem k _ _ (by rw [hkeys]; exact hkeysT.1) (by rw [hkeys]; exact hk)]
    show lookup k (setAll (prop xcrdBaseProps "spec").props (prop s "spec").props) = _
    rw [lookup_setAll k _ _ hnd]
    have : lookup k (prop xcrdBaseProps "spec").props = none := lookup_eq_none_of_not_mem _ _ (by
      have : keys (prop xcrdBaseProps "spec").props = [] := by decide
      rw [this]; simp)
    rw [this]; cases lookup k (prop s "spec").props <;> rfl
  · intro hnd k hk
    rw [decorate_status]
    show lookup k (setAll _ xcrdStatusProps) = _
    rw [lookup_setAll_of_not_mem k _ _ (by decide) (by
      have : keys xcrdStatusProps = statusProps := by decide
      rw [this]; exact hk)]
    rw [lookup_setAll k _ _ hnd]
    have : lookup k (prop xcrdBaseProps "status").props = none := lookup_eq_none_of_not_mem _ _ (by
      have : keys (prop xcrdBaseProps "status").props = [] := by decide
      rw [this]; simp)
    rw [this]; cases lookup k (prop s "status").props <;> rfl

/-- required lists, CEL rules, oneOf alternatives, descriptions and the spec's
preserve-unknown-fields switch of the author's `spec` and `status` are carried exactly -/
theorem author_rules_kept (w : Which) (xrd : Xrd) (crd : Crd) (h : derive w xrd = .ok crd) :
    Zip (fun vr cv => ∀ s, vr.schema = .ok s →
        (prop cv.schema "spec").required = (prop s "spec").required ∧
        (prop cv.schema "spec").xValidations = (prop s "spec").xValidations ∧
        (prop cv.schema "spec").oneOf = (prop s "spec").oneOf ∧
        (prop cv.schema "spec").description = (prop s "spec").description ∧
        (prop cv.schema "spec").preserveUnknown = (prop s "spec").preserveUnknown ∧
        (prop cv.schema "status").required = (prop s "status").required ∧
        (prop cv.schema "status").xValidations = (prop s "status").xValidations ∧
        (prop cv.schema "status").oneOf = (prop s "status").oneOf ∧
        (prop cv.schema "status").description = (prop s "status").description ∧
        cv.schema.description = s.description)
      xrd.versions crd.versions := by
  refine zip_imp (derive_versions w xrd crd h) ?_
  rintro vr cv ⟨s, hs, rfl⟩ s' hs'
  rw [hs] at hs'; cases hs'
  have hb := base_schema
  rw [decorate_spec, decorate_status]
  simp only [genSpec, genStatus, hb.2.2.2.2.2.2.1, hb.2.2.2.2.2.2.2.1, hb.2.2.2.2.2.2.2.2.1, List.nil_append, true_and]
  simp [decorate, mkVersion, writeSpecProps, genSchema]

/-- ... and EXACTLY that much of the author's document is read: both derivations give the same
result (CRD or error) for an XRD and for the XRD whose schemas are cut down to the top-level
description, the spec node's required / preserve-unknown-fields / rules / oneOf / description /
properties, the status node's required / rules / oneOf / description / properties and
metadata.name.maxLength. Every other keyword at those three levels (type, default, enum, anyOf,
allOf, not, additionalProperties, nullable, min/maxProperties, status preserve-unknown-fields,
further top-level properties, top-level rules) is dropped by the derivation; keywords INSIDE a
property of spec / status are carried whole (`author_kept`). -/
theorem author_read_exactly (w : Which) (xrd : Xrd) :
    derive w { xrd with versions := xrd.versions.map Version.read } = derive w xrd := by
  cases w with
  | xr => simp only [derive, forXR, genVersions_read]; rfl
  | claim => simp only [derive, forClaim, genVersions_read]; rfl

/-- labels and annotations: the CRD carries the XRD's own labels overlaid with spec.metadata.labels
(on a shared key spec.metadata wins), and exactly spec.metadata.annotations (the XRD's own
annotations are not propagated) - the same on both CRDs -/
theorem labels_propagated (w : Which) (xrd : Xrd) (crd : Crd) (h : derive w xrd = .ok crd) :
    crd.annotations = xrd.metaAnnotations ∧
    ((keys xrd.metaLabels).Nodup →
      (∀ k, k ∈ keys xrd.metaLabels → lookup k crd.labels = lookup k xrd.metaLabels) ∧
      (∀ k, k ∉ keys xrd.metaLabels → lookup k crd.labels = lookup k xrd.labels)) := by
  have hl : crd.labels = crdLabels xrd ∧ crd.annotations = xrd.metaAnnotations := by
    cases w with
    | xr => obtain ⟨vs, _, rfl⟩ := forXR_ok xrd crd h; exact ⟨rfl, rfl⟩
    | claim => obtain ⟨c, vs, _, _, rfl⟩ := forClaim_ok xrd crd h; exact ⟨rfl, rfl⟩
  refine ⟨hl.2, fun hnd => ⟨fun k hk => ?_, fun k hk => ?_⟩⟩
  · rw [hl.1]; exact lookup_setAll_of_mem k _ _ hnd hk
  · rw [hl.1]; exact lookup_setAll_of_not_mem k _ _ hnd hk

/-- the machinery printer columns of the current tree: Synced / Ready first, then the composition
(composite) or the connection secret (claim), and the age (obligation on the regenerated tables;
`versions_all` says every version carries the author's columns followed by exactly these) -/
theorem printer_columns_shape :
    xcrdPrinterColumnNamesXR = ["SYNCED", "READY", "COMPOSITION", "COMPOSITIONREVISION", "AGE"] ∧
    xcrdPrinterColumnNamesClaim = ["SYNCED", "READY", "CONNECTION-SECRET", "AGE"] ∧
    xcrdPrinterColumnsXR.length = 5 ∧ xcrdPrinterColumnsClaim.length = 4 ∧
    categoryComposite = "composite" ∧ categoryClaim = "claim" := by decide

/-! ## versions, storage, subresource, scope, owner, names -/

/-- every version of the XRD appears, in order, with its name, served flag, deprecation data and
the author's printer columns followed by the machinery's -/
theorem versions_all (w : Which) (xrd : Xrd) (crd : Crd) (h : derive w xrd = .ok crd) :
    Zip (fun vr cv => cv.name = vr.name ∧ cv.served = vr.served ∧ cv.deprecated = vr.deprecated.getD false ∧
          cv.deprecationWarning = vr.deprecationWarning ∧ cv.columns = vr.columns ++ columnsOf w)
      xrd.versions crd.versions := by
  refine zip_imp (derive_versions w xrd crd h) ?_
  rintro vr cv ⟨s, _, rfl⟩
  simp [decorate, mkVersion]

/-- the storage flag of every CRD version is the referenceable flag of the XRD version -/
theorem one_storage (w : Which) (xrd : Xrd) (crd : Crd) (h : derive w xrd = .ok crd) :
    Zip (fun vr cv => cv.storage = vr.referenceable) xrd.versions crd.versions := by
  refine zip_imp (derive_versions w xrd crd h) ?_
  rintro vr cv ⟨s, _, rfl⟩
  simp [decorate, mkVersion]

/-- hence an XRD with exactly one referenceable version yields exactly one storage version -/
theorem one_storage_exactly (w : Which) (xrd : Xrd) (crd : Crd) (h : derive w xrd = .ok crd)
    (h1 : (xrd.versions.filter (·.referenceable)).length = 1) : (crd.versions.filter (·.storage)).length = 1 := by
  rw [← h1]
  exact forall2_filter_length (one_storage w xrd crd h)

/-- the status subresource is always on (and no scale subresource is invented) -/
theorem status_subresource (w : Which) (xrd : Xrd) (crd : Crd) (h : derive w xrd = .ok crd) :
    ∀ cv ∈ crd.versions, cv.statusSubresource = true ∧ cv.scaleSubresource = false := by
  intro cv hcv
  obtain ⟨vr, _, s, _, rfl⟩ := forall2_mem_right (derive_versions w xrd crd h) cv hcv
  simp [decorate, mkVersion]

/-- composites are cluster scoped, claims namespaced -/
theorem scope (xrd : Xrd) (crd : Crd) :
    (derive .xr xrd = .ok crd → crd.scope = "Cluster") ∧ (derive .claim xrd = .ok crd → crd.scope = "Namespaced") := by
  constructor
  · intro h; obtain ⟨vs, _, rfl⟩ := forXR_ok xrd crd h; rfl
  · intro h; obtain ⟨c, vs, _, _, rfl⟩ := forClaim_ok xrd crd h; rfl

/-- both CRDs have exactly one owner reference: a controller reference to the XRD -/
theorem controller_ref (w : Which) (xrd : Xrd) (crd : Crd) (h : derive w xrd = .ok crd) :
    crd.owners = [{ apiVersion := xrdApiVersion, kind := xrdKind, name := xrd.name, uid := xrd.uid,
                    controller := true, blockOwnerDeletion := true }] := by
  cases w with
  | xr => obtain ⟨vs, _, rfl⟩ := forXR_ok xrd crd h; rfl
  | claim => obtain ⟨c, vs, _, _, rfl⟩ := forClaim_ok xrd crd h; rfl

/-- group, conversion settings and names: the composite CRD is named like the XRD and carries its
names plus the `composite` category; the claim CRD is `<plural>.<group>` of the claim names and
carries them plus the `claim` category -/
theorem names_carried (xrd : Xrd) (crd : Crd) :
    (derive .xr xrd = .ok crd → crd.group = xrd.group ∧ crd.conversion = xrd.conversion ∧ crd.name = xrd.name ∧
        crd.names = { xrd.names with categories := xrd.names.categories ++ [categoryComposite] }) ∧
    (derive .claim xrd = .ok crd → ∃ c, xrd.claimNames = some c ∧ crd.group = xrd.group ∧
        crd.conversion = xrd.conversion ∧ crd.name = c.plural ++ "." ++ xrd.group ∧
        crd.names = { c with categories := c.categories ++ [categoryClaim] }) := by
  constructor
  · intro h; obtain ⟨vs, _, rfl⟩ := forXR_ok xrd crd h; exact ⟨rfl, rfl, rfl, rfl⟩
  · intro h
    obtain ⟨c, vs, hc, _, rfl⟩ := forClaim_ok xrd crd h
    exact ⟨c, (validateClaimNames_ok xrd c hc).1, rfl, rfl, rfl, rfl⟩

/-- `metadata.name` is a string whose length limit is the smaller of the author's and 63 -/
theorem name_maxlen (w : Which) (xrd : Xrd) (crd : Crd) (h : derive w xrd = .ok crd) :
    Zip (fun vr cv => ∀ s, vr.schema = .ok s →
        (prop (prop cv.schema "metadata") "name").type = "string" ∧
        (prop (prop cv.schema "metadata") "name").maxLength =
          some (match (prop (prop s "metadata") "name").maxLength with
                | some a => min a 63
                | none => 63))
      xrd.versions crd.versions := by
  refine zip_imp (derive_versions w xrd crd h) ?_
  rintro vr cv ⟨s, hs, rfl⟩ s' hs'
  rw [hs] at hs'; cases hs'
  rw [decorate_metadata]
  have hm : maxNameLengthOf w = 63 := by cases w <;> decide
  simp only [genMetadata, prop, lookup, if_true, Option.getD_some, nameMaxLength, hm, true_and]
  cases (((lookup "name" ((lookup "metadata" s.props).getD {}).props).getD {}).maxLength) with
  | none => rfl
  | some a =>
    simp only [Int.min_def]
    split <;> split <;> first | rfl | (congr 1; omega)

/-! ## unusable schemas and claim names -/

/-- a version without a schema, or with one that does not parse, makes both derivations fail -/
theorem invalid_schema_rejected (w : Which) (xrd : Xrd) (h : ∃ vr ∈ xrd.versions, ∀ s, vr.schema ≠ .ok s) :
    ∃ e, derive w xrd = .error e := by
  cases w with
  | xr =>
    obtain ⟨e, he⟩ := genVersions_error_of_bad xrd.versions xcrdMaxNameLengthXR xcrdPrinterColumnsXR (xrSpecMachinery xrd) h
    exact ⟨e, by simp [derive, forXR, he]⟩
  | claim =>
    simp only [derive, forClaim]
    cases hv : validateClaimNames xrd with
    | error e => exact ⟨e, rfl⟩
    | ok c =>
      obtain ⟨e, he⟩ := genVersions_error_of_bad xrd.versions xcrdMaxNameLengthClaim xcrdPrinterColumnsClaim (claimSpecMachinery xrd) h
      exact ⟨e, by simp [he]⟩

/-- claim names whose kind, plural, singular or listKind equals the composite's corresponding name
are rejected: no claim CRD is derived -/
theorem claim_names_rejected (xrd : Xrd) (c : Names) (hc : xrd.claimNames = some c)
    (hcol : claimNamesCollide c xrd.names) : ∃ n, derive .claim xrd = .error (.conflictingClaimName n) := by
  have hv : ∃ n, validateClaimNames xrd = .error (.conflictingClaimName n) := by
    unfold validateClaimNames
    rw [hc]
    simp only []
    split
    · exact ⟨_, rfl⟩
    · split
      · exact ⟨_, rfl⟩
      · split
        · exact ⟨_, rfl⟩
        · split
          · exact ⟨_, rfl⟩
          · rename_i h1 h2 h3 h4
            rcases hcol with h | h | h | h
            · exact absurd h h1
            · exact absurd h h2
            · exact absurd h h3
            · exact absurd h h4
  obtain ⟨n, hn⟩ := hv
  exact ⟨n, by simp only [derive, forClaim, hn]⟩

/-- and conversely a claim CRD is only ever derived from present, non-colliding claim names -/
theorem claim_crd_only_if_no_collision (xrd : Xrd) (crd : Crd) (h : derive .claim xrd = .ok crd) :
    ∃ c, xrd.claimNames = some c ∧ ¬ claimNamesCollide c xrd.names := by
  obtain ⟨c, vs, hc, _, _⟩ := forClaim_ok xrd crd h
  obtain ⟨h0, h1, h2, h3, h4⟩ := validateClaimNames_ok xrd c hc
  refine ⟨c, h0, ?_⟩
  rintro (h | h | h | h)
  · exact h1 h
  · exact h2 h
  · exact h3 h
  · exact h4 h

/-- the webhook never admits an XRD whose claim names collide, whatever the API server answers -/
theorem claim_collision_not_admitted (xrd : Xrd) (c : Names) (hc : xrd.claimNames = some c)
    (hcol : claimNamesCollide c xrd.names) (server : Crd → Bool) : admissionCreate xrd server ≠ .allowed := by
  obtain ⟨n, hn⟩ := claim_names_rejected xrd c hc hcol
  simp only [derive] at hn
  simp only [admissionCreate, admission]
  split
  · intro h; cases h
  · simp only [allCrds, hc, hn]
    cases forXR xrd with
    | error e => intro h; cases h
    | ok x => intro h; cases h

/-! ## immutability -/

/-- ValidateUpdate reports an error whenever the group, the kind or the plural changes, or both
XRDs have claim names whose kind or plural differ -/
theorem immutable (new old : Xrd)
    (h : new.group ≠ old.group ∨ new.names.kind ≠ old.names.kind ∨ new.names.plural ≠ old.names.plural ∨
         (∃ cn co, new.claimNames = some cn ∧ old.claimNames = some co ∧ (cn.kind ≠ co.kind ∨ cn.plural ≠ co.plural))) :
    validateUpdate new old ≠ [] := by
  unfold validateUpdate
  rcases h with h | h | h | ⟨cn, co, hn, ho, h⟩
  · simp [h]
  · simp [h]
  · simp [h]
  · rw [hn, ho]
    rcases h with h | h <;> simp [h]

/-- exactly these changes (and an invalid conversion setting) are refused: in particular adding or
removing `claimNames` wholesale, and changing singular/listKind/short names/categories, is accepted -/
theorem update_accepted_iff (new old : Xrd) :
    validateUpdate new old = [] ↔
      (new.group = old.group ∧ new.names.kind = old.names.kind ∧ new.names.plural = old.names.plural ∧
       (∀ cn co, new.claimNames = some cn → old.claimNames = some co → cn.kind = co.kind ∧ cn.plural = co.plural) ∧
       validate new = []) := by
  unfold validateUpdate
  constructor
  · intro h
    simp only [List.append_eq_nil_iff] at h
    obtain ⟨⟨⟨⟨h1, h2⟩, h3⟩, h4⟩, h5⟩ := h
    refine ⟨by simpa using h1, by simpa using h3, by simpa using h2, ?_, h5⟩
    intro cn co hn ho
    rw [hn, ho] at h4
    simp only [List.append_eq_nil_iff] at h4
    exact ⟨by simpa using h4.2, by simpa using h4.1⟩
  · rintro ⟨h1, h2, h3, h4, h5⟩
    simp only [h1, h2, h3, h5, ne_eq, not_true_eq_false, if_false, List.nil_append, List.append_nil]
    cases hn : new.claimNames with
    | none => rfl
    | some cn =>
      cases ho : old.claimNames with
      | none => rfl
      | some co =>
        obtain ⟨a, b⟩ := h4 cn co hn ho
        simp [a, b]

/-- the webhook denies such an update before it derives or dry-runs anything -/
theorem immutable_webhook (new old : Xrd) (server : Crd → Bool) (h : validateUpdate new old ≠ []) :
    admissionUpdate new old server = .invalid (validateUpdate new old) := by
  simp [admissionUpdate, admission, h]

/-- the webhook admits an XRD only if every derived CRD passes the API server's dry run -/
theorem admitted_only_if_server_accepts (xrd : Xrd) (server : Crd → Bool) (h : admissionCreate xrd server = .allowed) :
    validate xrd = [] ∧ ∃ x, forXR xrd = .ok x ∧ server x = true ∧
      (∀ c, xrd.claimNames = some c → ∃ cc, forClaim xrd = .ok cc ∧ server cc = true) := by
  simp only [admissionCreate, admission] at h
  split at h
  · cases h
  · rename_i hv
    refine ⟨by simpa using hv, ?_⟩
    simp only [allCrds] at h
    cases hx : forXR xrd with
    | error e => simp [hx] at h
    | ok x =>
      simp only [hx] at h
      cases hc : xrd.claimNames with
      | none =>
        simp only [hc, dryRun] at h
        refine ⟨x, rfl, ?_, by intro c h'; cases h'⟩
        by_cases hs : server x = true
        · exact hs
        · simp [hs] at h
      | some c =>
        simp only [hc] at h
        cases hcl : forClaim xrd with
        | error e => simp [hcl] at h
        | ok cc =>
          simp only [hcl, dryRun] at h
          by_cases hs : server x = true
          · simp only [hs, if_true] at h
            by_cases hs2 : server cc = true
            · exact ⟨x, rfl, hs, by intro c' _; exact ⟨cc, rfl, hs2⟩⟩
            · simp [hs2] at h
          · simp [hs] at h

/-! ## the webhook as a long-lived client of the API server: interference, cache lag, API errors

`hookCreate` / `hookUpdate` (Model/C11Hook) are ValidateCreate / ValidateUpdate call by call: reads
through the informer cache, dry-run writes to the API server, retry.RetryOnConflict around
"Get, then Update, or Create if NotFound". The theorems quantify over EVERY environment `env`
(what third parties, the informer and the network do right before each call: create / delete /
modify either CRD, let the cache lag or miss, make the call fail with an error of any class),
every fault plan, every initial world and every server verdict `accept`. The interference-free
`admissionCreate` / `admissionUpdate` above are the quiet special case (`hook_quiet_*`). -/

/-- retry.DefaultRetry of the current tree makes five attempts (obligation on the regenerated constant;
with zero steps the closure would never run and every update would be admitted unvalidated) -/
theorem retry_steps : xrdWebhookRetrySteps = 5 := by decide

/-- ValidateUpdate admits a request only if ValidateUpdate(old) found nothing, both CRDs could be
derived (so the claim names do not collide) and the API server ACCEPTED every derived CRD -
whatever happens concurrently, whatever the cache serves, whichever calls fail however. -/
theorem webhook_update_sound (new old : Xrd) (accept : Crd → Bool) (env : Env World) (plan : Plan) (k : Nat) (w : World)
    (h : (runE (hookSem accept) env plan k (hookUpdate new old) w).2 = some .allowed) :
    validateUpdate new old = [] ∧ ∃ crds, allCrds new = .ok crds ∧ ∀ p ∈ crds, accept p.2 = true := by
  have hwp := wp_hook accept (validateUpdate new old) new (dryRunAllUpdate xrdWebhookRetrySteps)
    (fun crds s => wp_dryRunAllUpdate accept _ (by decide) crds s) w
  exact (wpE_sound (hookSem accept) anyEnv harmlessG env (fun _ _ => trivial) plan k _ _ w hwp).2 _ h rfl

/-- the same for ValidateCreate -/
theorem webhook_create_sound (xrd : Xrd) (accept : Crd → Bool) (env : Env World) (plan : Plan) (k : Nat) (w : World)
    (h : (runE (hookSem accept) env plan k (hookCreate xrd) w).2 = some .allowed) :
    validate xrd = [] ∧ ∃ crds, allCrds xrd = .ok crds ∧ ∀ p ∈ crds, accept p.2 = true := by
  have hwp := wp_hook accept (validate xrd) xrd dryRunAllCreate (fun crds s => wp_dryRunAllCreate accept crds s) w
  exact (wpE_sound (hookSem accept) anyEnv harmlessG env (fun _ _ => trivial) plan k _ _ w hwp).2 _ h rfl

/-- a validating webhook never persists anything: every call it gets applied is a read or a dry run -/
theorem webhook_never_persists (new old : Xrd) (accept : Crd → Bool) (env : Env World) (plan : Plan) (k : Nat) (w : World) :
    (∀ x ∈ ownE (hookSem accept) env plan k (hookUpdate new old) w, x.2.harmless = true) ∧
    (∀ x ∈ ownE (hookSem accept) env plan k (hookCreate new) w, x.2.harmless = true) := by
  constructor
  · have hwp := wp_hook accept (validateUpdate new old) new (dryRunAllUpdate xrdWebhookRetrySteps)
      (fun crds s => wp_dryRunAllUpdate accept _ (by decide) crds s) w
    exact (wpE_sound (hookSem accept) anyEnv harmlessG env (fun _ _ => trivial) plan k _ _ w hwp).1
  · have hwp := wp_hook accept (validate new) new dryRunAllCreate (fun crds s => wp_dryRunAllCreate accept crds s) w
    exact (wpE_sound (hookSem accept) anyEnv harmlessG env (fun _ _ => trivial) plan k _ _ w hwp).1

/-- EVERY request the webhook issues while it handles a request - under any environment, fault
plan and initial world, whatever the replies - is about a CRD derived from the XRD UNDER REVIEW:
a read of that CRD's name, or a dry-run Update / Create that carries exactly the derived CRD
(never an object derived from another XRD, an earlier request or the old state of the XRD; never
a persisting write). With `webhook_update_sound` / `webhook_create_sound`: what the API server
accepted is what the reviewed XRD derives to. -/
theorem webhook_submits_derived (new old : Xrd) (accept : Crd → Bool) (env : Env World) (plan : Plan) (k : Nat) (w : World) :
    (∀ x ∈ ownE (hookSem accept) env plan k (hookUpdate new old) w, AboutDerived new x.2) ∧
    (∀ x ∈ ownE (hookSem accept) env plan k (hookCreate new) w, AboutDerived new x.2) :=
  ⟨ownE_all _ _ _ _ (all_hook _ new _ (fun crds => all_dryRunAllUpdate _ crds crds (fun _ h => h))) _ _,
   ownE_all _ _ _ _ (all_hook _ new _ (fun crds => all_dryRunAllCreate crds crds (fun _ h => h))) _ _⟩

/-- colliding claim names are never admitted, by create or by update, under any interleaving -/
theorem claim_collision_never_admitted (xrd old : Xrd) (c : Names) (hc : xrd.claimNames = some c)
    (hcol : claimNamesCollide c xrd.names) (accept : Crd → Bool) (env : Env World) (plan : Plan) (k : Nat) (w : World) :
    (runE (hookSem accept) env plan k (hookCreate xrd) w).2 ≠ some .allowed ∧
    (runE (hookSem accept) env plan k (hookUpdate xrd old) w).2 ≠ some .allowed := by
  have hno : ∀ crds, allCrds xrd ≠ .ok crds := by
    intro crds
    obtain ⟨n, hn⟩ := claim_names_rejected xrd c hc hcol
    simp only [derive] at hn
    simp only [allCrds, hc, hn]
    cases forXR xrd <;> simp
  constructor
  · intro h
    obtain ⟨_, crds, hcr, _⟩ := webhook_create_sound xrd accept env plan k w h
    exact hno crds hcr
  · intro h
    obtain ⟨_, crds, hcr, _⟩ := webhook_update_sound xrd old accept env plan k w h
    exact hno crds hcr

/-- an update that changes an immutable name is refused before any API call is made: the world is
not even looked at -/
theorem immutable_webhook_no_call (new old : Xrd) (accept : Crd → Bool) (env : Env World) (plan : Plan) (k : Nat) (w : World)
    (h : validateUpdate new old ≠ []) :
    runE (hookSem accept) env plan k (hookUpdate new old) w = (w, some (.invalid (validateUpdate new old))) := by
  simp [hookUpdate, hook, h, runE]

/-- the quiet special case: cache up to date, nobody else writing, no failing call. The call-level
webhook then decides exactly like `admissionUpdate` with the server's verdict as its `server`,
and leaves the world as it was. -/
theorem hook_quiet_update (new old : Xrd) (accept : Crd → Bool) (w : World) (hq : w.quiet) :
    ∃ v, run (hookSem accept) Plan.allOk 0 (hookUpdate new old) w = (w, some v) ∧
         v.abs = admissionUpdate new old accept := by
  rw [run_allOk]
  simp only [hookUpdate, hook, admissionUpdate, admission]
  have h5 : xrdWebhookRetrySteps = 4 + 1 := by decide
  rw [h5]
  split
  · exact ⟨_, rfl, rfl⟩
  · cases allCrds new with
    | error e => obtain ⟨a, b⟩ := e; exact ⟨_, rfl, rfl⟩
    | ok crds =>
      obtain ⟨h1, h2⟩ := dryRun_abs accept 4 crds w hq
      exact ⟨_, by simp only []; rw [h1], h2⟩

/-- ... and `hookCreate` like `admissionCreate`, when none of the CRDs exists yet -/
theorem hook_quiet_create (xrd : Xrd) (accept : Crd → Bool) (w : World) (hq : w.quiet)
    (hnew : ∀ crds, allCrds xrd = .ok crds → ∀ p ∈ crds, lookup p.2.name w.live = none) :
    ∃ v, run (hookSem accept) Plan.allOk 0 (hookCreate xrd) w = (w, some v) ∧
         v.abs = admissionCreate xrd accept := by
  rw [run_allOk]
  simp only [hookCreate, hook, admissionCreate, admission]
  split
  · exact ⟨_, rfl, rfl⟩
  · cases hc : allCrds xrd with
    | error e => obtain ⟨a, b⟩ := e; exact ⟨_, rfl, rfl⟩
    | ok crds =>
      obtain ⟨h1, h2⟩ := dryRunCreate_abs accept crds w hq (hnew crds hc)
      exact ⟨_, by simp only []; rw [h1], h2⟩

/-! ## the reconcilers that write the CRDs -/

/-- After a successful pass of the definition / offered reconciler the stored CRD IS the CRD derived
from the current XRD, whatever was stored before (the CRD of an earlier state with a conversion
webhook, short names, more categories, labels, annotations, versions): nothing is left over,
nothing is missing - so every theorem above about `derive` holds of what the cluster serves. -/
theorem reconcile_stores_derived (w : Which) (xrd : Xrd) (stored : Option Crd) (c : Crd)
    (h : reconcileStep w xrd stored = .ok c) : derive w xrd = .ok c := by
  unfold reconcileStep at h
  cases hd : derive w xrd with
  | error e => rw [hd] at h; cases h
  | ok d =>
    rw [hd] at h
    cases stored with
    | none => simpa using h
    | some s => simpa [serverUpdate] using h

/-- xcrd.IsEstablished answers true exactly when the FIRST condition of type Established has status
True (later conditions of that type, and conditions of other types, are not looked at) -/
theorem established_iff (conds : List (String × String)) :
    isEstablished conds = true ↔
      ∃ pre rest, conds = pre ++ ("Established", "True") :: rest ∧ ∀ c ∈ pre, c.1 ≠ "Established" := by
  induction conds with
  | nil =>
    constructor
    · intro h; cases h
    · rintro ⟨pre, rest, h, _⟩; cases pre <;> cases h
  | cons x xs ih =>
    obtain ⟨t, s⟩ := x
    unfold isEstablished
    by_cases ht : t = "Established"
    · subst ht
      simp only [if_true]
      constructor
      · intro h
        have hs : s = "True" := by simpa using h
        subst hs
        exact ⟨[], xs, rfl, by intro c hc; cases hc⟩
      · rintro ⟨pre, rest, h, hpre⟩
        cases pre with
        | nil => simp only [List.nil_append, List.cons.injEq, Prod.mk.injEq] at h; simp [h.1.2]
        | cons p ps =>
          simp only [List.cons_append, List.cons.injEq] at h
          exact absurd (by rw [← h.1]) (hpre p (List.mem_cons_self ..))
    · simp only [ht, if_false]
      rw [ih]
      constructor
      · rintro ⟨pre, rest, h, hpre⟩
        refine ⟨(t, s) :: pre, rest, by rw [h]; rfl, ?_⟩
        intro c hc
        cases List.mem_cons.mp hc with
        | inl e => subst e; exact ht
        | inr e => exact hpre c e
      · rintro ⟨pre, rest, h, hpre⟩
        cases pre with
        | nil =>
          simp only [List.nil_append, List.cons.injEq, Prod.mk.injEq] at h
          exact absurd h.1.1 ht
        | cons p ps =>
          simp only [List.cons_append, List.cons.injEq] at h
          exact ⟨ps, rest, h.2, fun c hc => hpre c (List.mem_cons_of_mem _ hc)⟩

/-- the definition / offered reconciler finishes (and starts the controller for the kind) only when the
CRD it applied is established; until then it asks to be called again -/
theorem reconcile_waits_for_establishment (conds : List (String × String)) :
    (reconcileResult conds = "ok" ↔ isEstablished conds = true) ∧
    (reconcileResult conds = "requeue" ↔ isEstablished conds = false) := by
  unfold reconcileResult
  cases isEstablished conds <;> decide

/-! ## the hypotheses are satisfiable (non-vacuity) -/

/-! `exXrd` (Model/C11): two versions; the first one's schema declares `spec.claimRef` and
`status.conditions` as strings, a CEL rule, oneOf, preserve-unknown-fields and a name limit of 30. -/

/-- both CRDs are derived for it, with two versions of which the second is the storage version -/
example : ∃ x c, derive .xr exXrd = .ok x ∧ derive .claim exXrd = .ok c ∧
    x.versions.map (·.storage) = [false, true] ∧ c.versions.map (·.name) = ["v1alpha1", "v1"] := by
  refine ⟨_, _, rfl, rfl, ?_, ?_⟩ <;> decide

/-- the author's `spec.claimRef : string` did not survive, `spec.region` did -/
example : ∃ x v, derive .xr exXrd = .ok x ∧ x.versions.head? = some v ∧
    (lookup "claimRef" (prop v.schema "spec").props).map (·.type) = some "object" ∧
    (lookup "region" (prop v.schema "spec").props).map (·.type) = some "string" ∧
    (lookup "compositionUpdatePolicy" (prop v.schema "spec").props).map (·.default) = some (some "\"Manual\"") ∧
    (prop (prop v.schema "metadata") "name").maxLength = some 30 := by
  refine ⟨_, _, rfl, rfl, ?_, ?_, ?_, ?_⟩ <;> decide

/-- colliding claim names exist and are refused -/
example : ∃ n, derive .claim { exXrd with claimNames := some { kind := "Database", plural := "xdatabases" } } = .error (.conflictingClaimName n) :=
  ⟨"xdatabases", rfl⟩

/-- an update that only drops the claim names passes, one that renames the kind does not -/
example : validateUpdate { exXrd with claimNames := none } exXrd = [] := by decide
example : validateUpdate { exXrd with names := { exXrd.names with kind := "XDb" } } exXrd = ["spec.names.kind"] := by decide

/-- `exXrd` cut down to what is read is another XRD (its first schema declares `type`s the
derivation never looks at) and derives to the same CRDs; labels: spec.metadata wins -/
example : (exXrd.versions.map Version.read).map (fun v => match v.schema with | .ok s => s.type | _ => "") ≠
          exXrd.versions.map (fun v => match v.schema with | .ok s => s.type | _ => "") := by decide

example : ∃ c, derive .claim { exXrd with labels := [("a", "1"), ("b", "2")], metaLabels := [("b", "3")], metaAnnotations := [("n", "v")] } = .ok c ∧
    c.labels = [("a", "1"), ("b", "3")] ∧ c.annotations = [("n", "v")] := ⟨_, rfl, by decide, by decide⟩

/-- conditions as the API server writes them while names are being accepted, then established; and a
stale `Established False` in front of a later `True` still counts as not established -/
example : isEstablished [("NamesAccepted", "True"), ("Established", "True")] = true ∧
    isEstablished [("Established", "False"), ("Established", "True")] = false ∧
    reconcileResult [] = "requeue" := by decide

/-! the webhook under interference (`exXrd` updated to itself; both CRDs exist and are cached) -/

def exWorld : World := World.initial ["xdatabases.example.org", "databases.example.org"]

example : exWorld.quiet := ⟨rfl, fun _ => rfl⟩

/-- nobody interferes: admitted after Get, Update(dry run) for each of the two CRDs -/
example : (runE (hookSem fun _ => true) Env.none Plan.allOk 0 (hookUpdate exXrd exXrd) exWorld).2 = some .allowed := by decide

/-- a third party modifies the composite CRD between the webhook's Get and its Update, the cache
catches up: the Conflict is retried and the request admitted -/
example : (runE (hookSem fun _ => true)
    (scriptEnv [(1, .bump "xdatabases.example.org"), (2, .sync "xdatabases.example.org")])
    Plan.allOk 0 (hookUpdate exXrd exXrd) exWorld).2 = some .allowed := by decide

/-- the cache never catches up: five Conflicts, refused -/
example : (runE (hookSem fun _ => true) (scriptEnv [(0, .bump "xdatabases.example.org")])
    Plan.allOk 0 (hookUpdate exXrd exXrd) exWorld).2 = some (.rejected "xr" .conflict) := by decide

/-- the claim CRD does not exist when read and is created by somebody else before the webhook's
dry-run Create: AlreadyExists, refused (the other party's CRD was never validated against this XRD) -/
example : (runE (hookSem fun _ => true) (scriptEnv [(3, .create "databases.example.org")])
    Plan.allOk 0 (hookUpdate exXrd exXrd) (World.initial ["xdatabases.example.org"])).2
      = some (.rejected "claim" .alreadyExists) := by decide

/-- the requests of that run: four, each about one of the two CRDs derived from `exXrd` -/
example : (ownE (hookSem fun _ => true) Env.none Plan.allOk 0 (hookUpdate exXrd exXrd) exWorld).map (·.2.name)
    = ["xdatabases.example.org", "xdatabases.example.org", "databases.example.org", "databases.example.org"] := by decide

/-- the server refuses the claim CRD: refused, whatever else happens -/
example : (runE (hookSem fun c => c.scope != "Namespaced") Env.none Plan.allOk 0 (hookUpdate exXrd exXrd) exWorld).2
      = some (.rejected "claim" .invalid) := by decide

/-- the statement separates Update from a merge patch: with the CRD of an earlier state that had a
conversion webhook stored, a merge patch of the CRD derived now keeps the retired webhook -/
example : ∃ cur old, derive .xr exXrd = .ok cur ∧
    derive .xr { exXrd with conversion := some ⟨"Webhook", true, true, "{}"⟩ } = .ok old ∧
    (reconcileStep .xr exXrd (some old)).toOption.map (·.conversion) = some none ∧
    (serverMergePatch old cur).conversion ≠ cur.conversion := by
  refine ⟨_, _, rfl, rfl, ?_, ?_⟩ <;> decide

end Xp.C11

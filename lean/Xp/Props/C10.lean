import Xp.Model.C10
import Xp.Model.C10Compose
import Xp.Proofs.C10Num
import Xp.Proofs.C10Path
import Xp.Proofs.C10Total
import Xp.Proofs.C10Apply
import Xp.Proofs.C10Compose
import Xp.Model.C10World
import Xp.Proofs.C10World
import Xp.Model.C10Skel
import Xp.Proofs.C10Str
import Xp.Gen.C10Skel
/-
C10 property theorems: Patch & Transform rendering is total, deterministic and never applies a
half-rendered resource. Statements only; helper lemmas are in Xp/Proofs/C10*.lean.

`apply p xr cd only` models composite.Apply (all patch types, the `only` filter), `resolve`
composite.Resolve, `composePT` the render and apply loops of PTComposer.Compose.
-/
namespace Xp.C10

/-- the object a patch reads from -/
def sourceOf (p : Patch) (xr cd : V) : V :=
  if p.getType = "FromCompositeFieldPath" ∨ p.getType = "CombineFromComposite" then xr else cd

/-! ### optional / required policies -/

/-- FromCompositeFieldPath / ToCompositeFieldPath with an Optional (or absent) policy whose source
path is missing: no error and neither object changes – whatever the transforms, destination path,
merge options and the `only` filter are. -/
theorem optional_missing_noop (p : Patch) (xr cd : V) (only : List String) (fp : Path)
    (ht : p.getType = "FromCompositeFieldPath" ∨ p.getType = "ToCompositeFieldPath")
    (hf : p.fromPath = some fp) (hopt : p.optional = true)
    (hmiss : getPath (sourceOf p xr cd) fp = .error .notFound) :
    apply p xr cd only = ⟨xr, cd, none⟩ := by
  unfold apply applyWith
  split
  · rfl
  · rcases ht with ht | ht
    · have hs : sourceOf p xr cd = xr := by simp [sourceOf, ht]
      rw [hs] at hmiss
      simp [ht, applyFromFieldPathWith, hf, hmiss, hopt]
    · have hs : sourceOf p xr cd = cd := by simp [sourceOf, ht]
      rw [hs] at hmiss
      simp [ht, applyFromFieldPathWith, hf, hmiss, hopt]

/-- The same for the Combine patch types: as soon as one variable is missing (all earlier ones
being readable) an optional patch does nothing. -/
theorem optional_missing_noop_combine (p : Patch) (xr cd : V) (only : List String) (c : Combine) (tp : Path)
    (pre post : List Path) (v : Path)
    (ht : p.getType = "CombineFromComposite" ∨ p.getType = "CombineToComposite")
    (hc : p.combine = some c) (hto : p.toPath = some tp) (hopt : p.optional = true)
    (hvars : c.variables = pre ++ v :: post)
    (hpre : ∀ u ∈ pre, ∃ x, getPath (sourceOf p xr cd) u = .ok x)
    (hmiss : getPath (sourceOf p xr cd) v = .error .notFound) :
    apply p xr cd only = ⟨xr, cd, none⟩ := by
  have hcv : ∀ src, (∀ u ∈ pre, ∃ x, getPath src u = .ok x) → getPath src v = .error .notFound →
      combineVars p src (pre ++ v :: post) = .ok none :=
    fun src hp hm => combineVars_missing_optional p src post v hopt hm pre hp
  have hlen : ¬ c.variables.length < 1 := by rw [hvars]; simp
  unfold apply applyWith
  split
  · rfl
  · rcases ht with ht | ht
    · have hs : sourceOf p xr cd = xr := by simp [sourceOf, ht]
      rw [hs] at hmiss hpre
      simp [ht, applyCombineWith, hc, hto, hlen, hvars, hcv xr hpre hmiss]
    · have hs : sourceOf p xr cd = cd := by simp [sourceOf, ht]
      rw [hs] at hmiss hpre
      simp [ht, applyCombineWith, hc, hto, hlen, hvars, hcv cd hpre hmiss]

/-- A Required patch (policy present and not "Optional") that is not filtered out and whose source
path is missing is an error, and neither object changes. -/
theorem required_missing_error (p : Patch) (xr cd : V) (only : List String) (fp : Path)
    (ht : p.getType = "FromCompositeFieldPath" ∨ p.getType = "ToCompositeFieldPath")
    (hnf : filtered p only = false)
    (hf : p.fromPath = some fp) (hreq : p.optional = false)
    (hmiss : getPath (sourceOf p xr cd) fp = .error .notFound) :
    apply p xr cd only = ⟨xr, cd, some .notFound⟩ := by
  unfold apply applyWith
  rw [hnf]
  rcases ht with ht | ht
  · have hs : sourceOf p xr cd = xr := by simp [sourceOf, ht]
    rw [hs] at hmiss
    simp [ht, applyFromFieldPathWith, hf, hmiss, hreq]
  · have hs : sourceOf p xr cd = cd := by simp [sourceOf, ht]
    rw [hs] at hmiss
    simp [ht, applyFromFieldPathWith, hf, hmiss, hreq]

theorem required_missing_error_combine (p : Patch) (xr cd : V) (only : List String) (c : Combine) (tp : Path)
    (pre post : List Path) (v : Path)
    (ht : p.getType = "CombineFromComposite" ∨ p.getType = "CombineToComposite")
    (hnf : filtered p only = false)
    (hc : p.combine = some c) (hto : p.toPath = some tp) (hreq : p.optional = false)
    (hvars : c.variables = pre ++ v :: post)
    (hpre : ∀ u ∈ pre, ∃ x, getPath (sourceOf p xr cd) u = .ok x)
    (hmiss : getPath (sourceOf p xr cd) v = .error .notFound) :
    apply p xr cd only = ⟨xr, cd, some .notFound⟩ := by
  have hcv : ∀ src, (∀ u ∈ pre, ∃ x, getPath src u = .ok x) → getPath src v = .error .notFound →
      combineVars p src (pre ++ v :: post) = .error .notFound :=
    fun src hp hm => combineVars_missing_required p src post v hreq hm pre hp
  have hlen : ¬ c.variables.length < 1 := by rw [hvars]; simp
  unfold apply applyWith
  rw [hnf]
  rcases ht with ht | ht
  · have hs : sourceOf p xr cd = xr := by simp [sourceOf, ht]
    rw [hs] at hmiss hpre
    simp [ht, applyCombineWith, hc, hto, hlen, hvars, hcv xr hpre hmiss]
  · have hs : sourceOf p xr cd = cd := by simp [sourceOf, ht]
    rw [hs] at hmiss hpre
    simp [ht, applyCombineWith, hc, hto, hlen, hvars, hcv cd hpre hmiss]

/-! ### patches never modify their source -/

/-- Whatever the patch, the objects and the filter: the object the patch reads from comes out of
`Apply` exactly as it went in (also on every error path); an unknown patch type changes nothing. -/
theorem source_unchanged (p : Patch) (xr cd : V) (only : List String) :
    ((p.getType = "FromCompositeFieldPath" ∨ p.getType = "CombineFromComposite") → (apply p xr cd only).xr = xr) ∧
    ((p.getType = "ToCompositeFieldPath" ∨ p.getType = "CombineToComposite") → (apply p xr cd only).cd = cd) ∧
    ((p.getType ≠ "FromCompositeFieldPath" ∧ p.getType ≠ "CombineFromComposite" ∧
      p.getType ≠ "ToCompositeFieldPath" ∧ p.getType ≠ "CombineToComposite") →
        (apply p xr cd only).xr = xr ∧ (apply p xr cd only).cd = cd) := by
  unfold apply applyWith
  refine ⟨?_, ?_, ?_⟩
  · intro h
    split
    · rfl
    · rcases h with h | h <;> simp [h]
  · intro h
    split
    · rfl
    · rcases h with h | h <;> simp [h]
  · intro ⟨h1, h2, h3, h4⟩
    split
    · exact ⟨rfl, rfl⟩
    · simp [h1, h2, h3, h4]

/-- Rendering all from-XR patches of a template leaves the composite resource untouched. -/
theorem render_source_unchanged (ps : List Patch) : ∀ (xr cd : V), (renderFromXR xr cd ps).xr = xr := by
  induction ps with
  | nil => intro xr cd; rfl
  | cons p ps ih =>
    intro xr cd
    unfold renderFromXR
    -- to-XR patch types are filtered out, from-XR types do not touch the XR
    have hx : (apply p xr cd patchTypesFromXR).xr = xr := by
      have hs := source_unchanged p xr cd patchTypesFromXR
      by_cases h1 : p.getType = "FromCompositeFieldPath" ∨ p.getType = "CombineFromComposite"
      · exact hs.1 h1
      · by_cases h2 : p.getType = "ToCompositeFieldPath" ∨ p.getType = "CombineToComposite"
        · -- filtered: the raw type is one of the to-XR types, which are not in the list
          have hty : p.type = p.getType := by
            unfold Patch.getType at h2 ⊢
            split
            · rename_i he
              rw [if_pos he] at h2
              rcases h2 with h2 | h2 <;> simp at h2
            · rfl
          have hf : filtered p patchTypesFromXR = true := by
            unfold filtered patchTypesFromXR
            rw [hty]
            rcases h2 with h2 | h2 <;> rw [h2] <;> decide
          unfold apply applyWith
          rw [hf]
          rfl
        · have := hs.2.2 ⟨fun h => h1 (Or.inl h), fun h => h1 (Or.inr h), fun h => h2 (Or.inl h), fun h => h2 (Or.inr h)⟩
          exact this.1
    dsimp only
    split
    · exact hx
    · rw [hx]
      exact ih xr _

/-! ### a patch writes what it read -/

/-- Paved.SetValue followed by GetValue on the same (non-empty) path returns the value that was
written, as normalised by the JSON round trip – for every object, path (creating intermediate
objects and arrays, growing arrays) and value. -/
theorem set_then_get (root : V) (segs : List Seg) (v r : V) (hne : segs ≠ [])
    (h : setValue root segs v = .ok r) : ∃ v', norm v = .ok v' ∧ getValue r segs = .ok v' := by
  unfold setValue at h
  split at h
  · cases h
  · rename_i v' hv
    split at h
    · cases h
    · refine ⟨v', hv, ?_⟩
      unfold getValue
      split
      · exact absurd rfl hne
      · exact getIn_setIn _ root v' r hne h

/-- Field paths are identified segment by segment by the EXACT key: Paved.SetValue below `pre.k`
leaves whatever GetValue reads through `pre.k'` untouched whenever k' ≠ k as strings – a key that
is a string prefix of k (`tags` / `tagsExtra`), a case variant (`tags` / `Tags`), a key containing
the separator (`a.b` next to the nested `a`, `b`) – for every object, common field prefix `pre`,
continuation of either path and value. -/
theorem set_leaves_sibling_paths (root : V) (pre : List String) (k k' : String) (rest qs : List Seg) (v r : V)
    (hk : k ≠ k') (h : setValue root (pre.map Seg.field ++ Seg.field k :: rest) v = .ok r) :
    getValue r (pre.map Seg.field ++ Seg.field k' :: qs) = getValue root (pre.map Seg.field ++ Seg.field k' :: qs) := by
  unfold setValue at h
  split at h
  · cases h
  · rename_i v' _
    split at h
    · cases h
    · have hne : pre.map Seg.field ++ Seg.field k' :: qs ≠ [] := by simp
      unfold getValue
      split
      · rename_i heq; exact absurd heq hne
      · exact getIn_setIn_sibling k k' hk rest qs pre root v' r h

/-! ### totality: nothing in the modelled rendering path can panic -/

/-- The regexp transform returns the "no match" error for every group index outside
[0, len groups), negative ones included, and the selected group otherwise. -/
theorem group_index_guard (groups : List String) (g : Int) :
    ((g < 0 ∨ g ≥ groups.length) → selectGroup groups g = .error .noMatch) ∧
    ((0 ≤ g ∧ g < groups.length) → ∃ s, selectGroup groups g = .ok s ∧ groups[g.toNat]? = some s) :=
  ⟨selectGroup_out_of_range groups g, fun h => selectGroup_in_range groups g h.1 h.2⟩

/-- The guard as written at the pinned commit lets a negative index through to `groups[g]`:
the defect D1 (corpus/C10/d1-negative-group.jsonl, fixes/D1.diff). -/
theorem group_index_guard_fails_on_unfixed_witness :
    selectGroupUnfixed ["abc-def", "abc", "def"] (-1) = .error .panic := by rfl

/-- No transform, for any configuration (nil configs, unknown types, any group index, any oracle
answers) and any input value, ends in the panic outcome. -/
theorem resolve_never_panics (t : Xf) (input : V) : resolve t input ≠ .error .panic :=
  resolve_np t input

/-- `Apply` on two objects never ends in the panic outcome: in particular `array[i] = v` in
Paved.setValue is never reached with an index out of range, for any path, value and object. -/
theorem apply_never_panics (p : Patch) (mx mc : List (String × V)) (only : List String) :
    (apply p (.obj mx) (.obj mc) only).err ≠ some .panic := by
  unfold apply applyWith
  split
  · simp
  · split
    · exact applyFromFieldPath_np p _ mc
    · exact applyFromFieldPath_np p _ mx
    · exact applyCombine_np p _ mc
    · exact applyCombine_np p _ mx
    · simp

/-! ### transforms agree with their documented meaning: clamps -/

/-- "ClampMax makes sure that the value is not bigger than the given value": for every int64 input
the result is the input when it is within the bound and the bound otherwise. -/
theorem clamp_max_int (o : Orc) (m : MathCfg) (mx i : Int) (ht : m.type = "ClampMax") (hm : m.clampMax = some mx) :
    resolveMath o m (.num i) = .ok (.num (if i > mx then mx else i)) ∧ (if i > mx then mx else i) ≤ mx := by
  constructor
  · simp only [resolveMath, MathCfg.valid, MathCfg.getType, ht, hm]
    split <;> simp_all <;> split <;> rfl
  · split <;> omega

/-- "ClampMin makes sure that the value is not smaller than the given value". -/
theorem clamp_min_int (o : Orc) (m : MathCfg) (mn i : Int) (ht : m.type = "ClampMin") (hm : m.clampMin = some mn) :
    resolveMath o m (.num i) = .ok (.num (if i < mn then mn else i)) ∧ mn ≤ (if i < mn then mn else i) := by
  constructor
  · simp only [resolveMath, MathCfg.valid, MathCfg.getType, ht, hm]
    split <;> simp_all <;> split <;> rfl
  · split <;> omega

/-- For a float64 input the comparison itself is library behaviour (the oracle's `gtMax` is
`f > float64(clampMax)`); the model fixes what is done with the verdict: the bound when the
input exceeds it, the input unchanged otherwise – no truncation in between. -/
theorem clamp_max_float (o : Orc) (m : MathCfg) (mx : Int) (r : String) (gt : Bool)
    (ht : m.type = "ClampMax") (hm : m.clampMax = some mx)
    (ho : orcVal o (.flt r) "gtMax" = .ok (.bool gt)) :
    resolveMath o m (.flt r) = .ok (if gt then .num mx else .flt r) := by
  simp only [resolveMath, MathCfg.valid, MathCfg.getType, ht, hm, ho]
  cases gt <;> simp

theorem clamp_min_float (o : Orc) (m : MathCfg) (mn : Int) (r : String) (lt : Bool)
    (ht : m.type = "ClampMin") (hm : m.clampMin = some mn)
    (ho : orcVal o (.flt r) "ltMin" = .ok (.bool lt)) :
    resolveMath o m (.flt r) = .ok (if lt then .num mn else .flt r) := by
  simp only [resolveMath, MathCfg.valid, MathCfg.getType, ht, hm, ho]
  cases lt <;> simp

/-- The code at the pinned commit truncates the float to int64 before comparing: 2.9 (truncated
to 2) passes a ClampMax of 2 unchanged although 2.9 > 2 – defect D17
(corpus/C10/d17-float-clamp.jsonl, fixes/D17.diff). -/
theorem clamp_float_fails_on_unfixed_witness :
    (clampMaxFloatUnfixed 2 2 (.flt "2.9") == .flt "2.9") = true := by decide

/-! ### conversions round-trip -/

/-- int64 → string → int64 is the identity on every int64 (decimal printing and parsing modelled;
the two conversions are looked up in the table regenerated from `conversions`). -/
theorem convert_roundtrip_int_string (o1 o2 : Orc) (i : Int) (h : fits64 i = true) :
    (resolveConvert o1 ⟨"string", none⟩ (.num i)).bind (resolveConvert o2 ⟨"int64", none⟩) = .ok (.num i) := by
  have h1 : hasConversion "int64" "string" "none" = true := by decide
  have h2 : hasConversion "string" "int64" "none" = true := by decide
  simp [resolveConvert, formatValid, ConvCfg.getFormat, ioTypeValid, goType, h1, h2, convFn, Except.bind,
    parseInt_fmtInt i h]

/-- bool → string → bool is the identity. -/
theorem convert_roundtrip_bool_string (o1 o2 : Orc) (b : Bool) :
    (resolveConvert o1 ⟨"string", none⟩ (.bool b)).bind (resolveConvert o2 ⟨"bool", none⟩) = .ok (.bool b) := by
  have h1 : hasConversion "bool" "string" "none" = true := by decide
  have h2 : hasConversion "string" "bool" "none" = true := by decide
  simp [resolveConvert, formatValid, ConvCfg.getFormat, ioTypeValid, goType, h1, h2, convFn, Except.bind,
    parseBool_fmtBool b]

/-- bool → int64 → bool is the identity. -/
theorem convert_roundtrip_bool_int (o1 o2 : Orc) (b : Bool) :
    (resolveConvert o1 ⟨"int64", none⟩ (.bool b)).bind (resolveConvert o2 ⟨"bool", none⟩) = .ok (.bool b) := by
  have h1 : hasConversion "bool" "int64" "none" = true := by decide
  have h2 : hasConversion "int64" "bool" "none" = true := by decide
  cases b <;> simp [resolveConvert, formatValid, ConvCfg.getFormat, ioTypeValid, goType, h1, h2, convFn, Except.bind]

/-- int64 → bool → int64 is the identity exactly on {0, 1}. -/
theorem convert_roundtrip_int_bool (o1 o2 : Orc) (i : Int) :
    (resolveConvert o1 ⟨"bool", none⟩ (.num i)).bind (resolveConvert o2 ⟨"int64", none⟩) =
      .ok (.num (if i = 1 then 1 else 0)) := by
  have h1 : hasConversion "int64" "bool" "none" = true := by decide
  have h2 : hasConversion "bool" "int64" "none" = true := by decide
  by_cases hi : i = 1 <;>
    simp [resolveConvert, formatValid, ConvCfg.getFormat, ioTypeValid, goType, h1, h2, convFn, Except.bind, hi]

/-- The string side does not round-trip in general (documented behaviour, not a defect): "+7"
and "007" both parse to 7, which prints as "7". -/
theorem convert_string_int_string_not_identity :
    parseInt (String.ofList ['+', '7']) = some 7 ∧ parseInt (String.ofList ['0', '0', '7']) = some 7 := by
  refine ⟨?_, ?_⟩
  · simp only [parseInt, String.toList_ofList]; decide
  · simp only [parseInt, String.toList_ofList]; decide

/-! ### determinism -/

/-- Apart from the generated name, rendering a template is a function of the XR, the template and
the existing resource only: two runs that differ in nothing but the name generator's answer agree
on whether the base parses and on the rendered object up to `metadata.name`. -/
theorem render_deterministic (xr : V) (t : Tpl) (g1 g2 : NameGen) :
    (renderTpl xr { t with nameGen := g1 }).map (fun r => removeMeta r.cd "name") =
    (renderTpl xr { t with nameGen := g2 }).map (fun r => removeMeta r.cd "name") := by
  have key : ∀ (cd : V) (n : String), getMetaStr cd "generateName" ≠ "" →
      removeMeta (setMeta cd "name" (.str n)) "name" = removeMeta cd "name" := by
    intro cd n hg
    cases cd with
    | obj m =>
      unfold getMetaStr V.get? at hg
      simp only at hg
      cases hm : V.lookup "metadata" m with
      | none => simp [hm] at hg
      | some md =>
        cases md with
        | obj mdl =>
          have herase : ∀ (l : List (String × V)) (v : V), V.eraseKey "name" (V.setKey "name" v l) = V.eraseKey "name" l := by
            intro l v
            induction l with
            | nil => simp [V.setKey, V.eraseKey]
            | cons x xs ih =>
              obtain ⟨k, x⟩ := x
              by_cases hk : k = "name"
              · subst hk; simp [V.setKey, V.eraseKey]
              · simp [V.setKey, V.eraseKey, hk, ih]
          have hset : ∀ (l : List (String × V)) (a b : V), V.setKey "metadata" a (V.setKey "metadata" b l) = V.setKey "metadata" a l := by
            intro l a b
            induction l with
            | nil => simp [V.setKey]
            | cons x xs ih =>
              obtain ⟨k, x⟩ := x
              by_cases hk : k = "metadata"
              · subst hk; simp [V.setKey]
              · simp [V.setKey, hk, ih]
          have hlk : ∀ (l : List (String × V)) (a : V), V.lookup "metadata" (V.setKey "metadata" a l) = some a := by
            intro l a
            induction l with
            | nil => simp [V.setKey, V.lookup]
            | cons x xs ih =>
              obtain ⟨k, x⟩ := x
              by_cases hk : k = "metadata"
              · subst hk; simp [V.setKey, V.lookup]
              · simp [V.setKey, V.lookup, hk, ih]
          simp [setMeta, removeMeta, hm, hlk, herase, hset]
        | null => simp [hm] at hg
        | bool b => simp [hm] at hg
        | num i => simp [hm] at hg
        | flt r => simp [hm] at hg
        | str s => simp [hm] at hg
        | arr l => simp [hm] at hg
    | null => simp [getMetaStr, V.get?] at hg
    | bool b => simp [getMetaStr, V.get?] at hg
    | num i => simp [getMetaStr, V.get?] at hg
    | flt r => simp [getMetaStr, V.get?] at hg
    | str s => simp [getMetaStr, V.get?] at hg
    | arr l => simp [getMetaStr, V.get?] at hg
  unfold renderTpl
  dsimp only
  split
  · rfl
  · rename_i o _
    simp only [Option.map_some, Option.some.injEq]
    generalize (renderMeta (renderFromXR xr o t.patches).cd xr (t.name.getD "")).1 = cd2
    by_cases hskip : (getMetaStr cd2 "name" != "" || getMetaStr cd2 "generateName" == "") = true
    · simp [hskip]
    · simp only [hskip, Bool.false_eq_true, if_false]
      have hgn : getMetaStr cd2 "generateName" ≠ "" := by
        intro he
        apply hskip
        simp [he]
      cases g1 <;> cases g2 <;> simp [key cd2 _ hgn]

/-! ### a half-rendered resource is never applied -/

/-- A template is unrendered as soon as one from-XR patch, the metadata rendering or the name
generation failed. -/
theorem unrendered_of_failure (xr : V) (t : Tpl) (o : V) (r : Rendered)
    (ho : renderFromJSON t.refKind t.refApiVersion t.refName "" t.base = .ok o)
    (hr : renderTpl xr t = some r)
    (hfail : (renderFromXR xr o t.patches).err.isSome = true ∨
             (renderMeta (renderFromXR xr o t.patches).cd xr (t.name.getD "")).2.isSome = true ∨
             (getMetaStr (renderMeta (renderFromXR xr o t.patches).cd xr (t.name.getD "")).1 "name" = "" ∧
              getMetaStr (renderMeta (renderFromXR xr o t.patches).cd xr (t.name.getD "")).1 "generateName" ≠ "" ∧
              t.nameGen = .fail)) :
    r.rendered = false := by
  unfold renderTpl at hr
  rw [ho] at hr
  simp only [Option.some.injEq] at hr
  subst hr
  rcases hfail with h | h | ⟨h1, h2, h3⟩
  · cases he : (renderFromXR xr o t.patches).err with
    | none => rw [he] at h; cases h
    | some e => simp
  · cases he : (renderMeta (renderFromXR xr o t.patches).cd xr (t.name.getD "")).2 with
    | none => rw [he] at h; cases h
    | some e => simp [he]
  · simp [h1, h2, h3]

/-- If the base of any template cannot be parsed nothing at all is written. -/
theorem parse_failure_writes_nothing (xr : V) (tpls : List Tpl) (uf : Bool)
    (h : renderAll xr tpls = none) : (composePT xr tpls uf).writes = [] := by
  simp [composePT, h]

/-- In one reconcile no write (create, update or patch, successful or not) is addressed to the
resource of a template that failed to render – whatever happens to the other templates, the XR
update and the API server's answers. -/
theorem unrendered_not_applied (xr : V) (tpls : List Tpl) (uf : Bool) (rs : List Rendered)
    (hr : renderAll xr tpls = some rs) (i : Nat) (hi : i < rs.length) (hun : rs[i].rendered = false) :
    ∀ w ∈ (composePT xr tpls uf).writes, w.idx ≠ some i := by
  intro w hw hidx
  have hlen := renderAll_length xr tpls rs hr
  have hmem : w ∈ (applyLoop 0 (tpls.zip rs)).1 := by
    unfold composePT at hw
    rw [hr] at hw
    dsimp only at hw
    split at hw
    · simp only [List.mem_singleton] at hw
      subst hw
      cases hidx
    · split at hw
      · simp only [List.mem_cons] at hw
        rcases hw with hw | hw
        · subst hw; cases hidx
        · exact hw
      · split at hw
        · simp only [List.mem_cons] at hw
          rcases hw with hw | hw
          · subst hw; cases hidx
          · exact hw
        · simp only [List.mem_cons, List.mem_append, List.mem_singleton, List.not_mem_nil, or_false] at hw
          rcases hw with (hw | hw) | hw
          · subst hw; cases hidx
          · exact hw
          · subst hw; cases hidx
  obtain ⟨j, hj, h1, h2⟩ := applyLoop_writes (tpls.zip rs) 0 w hmem
  rw [h1] at hidx
  simp only [Nat.zero_add, Option.some.injEq] at hidx
  subst hidx
  simp only [List.getElem_zip] at h2
  rw [h2] at hun
  cases hun

/-- … while the others still are: when the reconcile completes, every template that did render
has a write addressed to its resource. -/
theorem rendered_are_applied (xr : V) (tpls : List Tpl) (uf : Bool) (rs : List Rendered)
    (hr : renderAll xr tpls = some rs) (hok : (composePT xr tpls uf).err = "")
    (j : Nat) (hj : j < rs.length) (hrend : rs[j].rendered = true) :
    ∃ w ∈ (composePT xr tpls uf).writes, w.idx = some j := by
  have hlen := renderAll_length xr tpls rs hr
  unfold composePT at hok ⊢
  rw [hr] at hok ⊢
  dsimp only at hok ⊢
  split
  · rename_i huf
    rw [if_pos huf] at hok
    simp at hok
  · rename_i huf
    rw [if_neg huf] at hok
    split
    · rename_i hab
      rw [if_pos hab] at hok
      simp at hok
    · rename_i hab
      rw [if_neg hab] at hok
      have hab' : (applyLoop 0 (tpls.zip rs)).2.2.2 = false := by simpa using hab
      obtain ⟨w, hw, hi⟩ := applyLoop_complete (tpls.zip rs) 0 hab' j (by simp [hlen]; omega) (by simpa using hrend)
      simp only [Nat.zero_add] at hi
      split
      · rename_i hf
        rw [if_pos hf] at hok
        simp at hok
      · exact ⟨w, by simp [hw], hi⟩

/-- … and its reference is kept: whenever the references are persisted there is exactly one per
template, in template order, and it is the reference to the object as rendered so far (whose
name RenderFromJSON restored from the existing reference). -/
theorem references_kept (xr : V) (tpls : List Tpl) (uf : Bool) (rs : List Rendered)
    (hr : renderAll xr tpls = some rs) :
    (composePT xr tpls uf).refs = rs.map (fun r => (kindOf r.cd, getMetaStr r.cd "name")) ∧
    (composePT xr tpls uf).refs.length = tpls.length := by
  have hlen := renderAll_length xr tpls rs hr
  have h1 : (composePT xr tpls uf).refs = rs.map (fun r => (kindOf r.cd, getMetaStr r.cd "name")) := by
    unfold composePT
    rw [hr]
    dsimp only
    repeat' split
    all_goals rfl
  exact ⟨h1, by rw [h1]; simp [hlen]⟩

/-- RenderFromJSON restores the name of the existing resource into the freshly parsed base
(whenever the base's metadata can hold it), so an existing resource's reference survives the
re-rendering of its template. -/
theorem render_keeps_existing_name (k a n : String) (base : Option V) (o : V) (hn : n ≠ "")
    (h : renderFromJSON k a n "" base = .ok o)
    (hmeta : ∀ m, base = some (.obj m) → ∀ x, V.lookup "metadata" m = some x → ∃ md, x = .obj md) :
    getMetaStr o "name" = n := by
  unfold renderFromJSON at h
  split at h
  · rename_i m
    have hm := hmeta m rfl
    dsimp only at h
    split at h
    · cases h
    · split at h
      · cases h
      · simp only [Except.ok.injEq] at h
        subst h
        have hlk : ∀ (l : List (String × V)) (k : String) (a : V), V.lookup k (V.setKey k a l) = some a := by
          intro l k a
          induction l with
          | nil => simp [V.setKey, V.lookup]
          | cons x xs ih =>
            obtain ⟨k', x⟩ := x
            by_cases hk : k' = k
            · subst hk; simp [V.setKey, V.lookup]
            · simp [V.setKey, V.lookup, hk, ih]
        have hlkne : ∀ (l : List (String × V)) (k k2 : String), k2 ≠ k → V.lookup k2 (V.eraseKey k l) = V.lookup k2 l := by
          intro l k k2 hne
          induction l with
          | nil => rfl
          | cons x xs ih =>
            obtain ⟨k', x⟩ := x
            by_cases hk : k' = k
            · subst hk; simp [V.eraseKey, V.lookup, ih, Ne.symm hne]
            · by_cases hk2 : k' = k2
              · subst hk2; simp [V.eraseKey, V.lookup, hk]
              · simp [V.eraseKey, V.lookup, hk, hk2, ih]
        simp only [setOrRemoveMeta, hn, bne_iff_ne, ne_eq, beq_iff_eq, if_false, if_true]
        cases hmd : V.lookup "metadata" m with
        | none =>
          simp [setMeta, removeMeta, hmd, getMetaStr, V.get?, hlk, V.lookup, V.eraseKey, V.setKey]
        | some x =>
          obtain ⟨md, hx⟩ := hm x hmd
          subst hx
          simp [setMeta, removeMeta, hmd, getMetaStr, V.get?, hlk, hlkne]
  · cases h

/-! ### the apply step is a function of the template's own data -/

/-- Whatever list of templates is being composed, whatever happens to the XR update and whatever
the API server answers: every object sent for the composed resource of template j (the object
created, or the JSON merge-patch body left by the apply options) and the object the API server
then holds are `sentFor` of template j alone – its own patches, merge options and existing
resource – applied to its own rendered resource `renderTpl xr tpls[j]`, which is a function of
the XR and template j. No other template of the composition enters. -/
theorem sent_of_own_template (xr : V) (tpls : List Tpl) (uf : Bool) (s : Sent)
    (hs : s ∈ (composePT xr tpls uf).sent) :
    ∃ (h : s.idx < tpls.length) (r : Rendered), renderTpl xr tpls[s.idx] = some r ∧ r.rendered = true ∧
      sentFor tpls[s.idx] r.cd = .ok (s.body, s.stored) := by
  cases hr : renderAll xr tpls with
  | none => simp [composePT, hr] at hs
  | some rs =>
    have hlen := renderAll_length xr tpls rs hr
    have hmem : s ∈ (applyLoop 0 (tpls.zip rs)).2.1 := by
      unfold composePT at hs
      rw [hr] at hs
      dsimp only at hs
      split at hs
      · simp at hs
      · split at hs
        · exact hs
        · split at hs
          · exact hs
          · exact hs
    obtain ⟨j, hj, h1, h2, h3⟩ := applyLoop_sent (tpls.zip rs) 0 s hmem
    simp only [Nat.zero_add] at h1
    have hjt : j < tpls.length := by simp [hlen] at hj; omega
    have hjr : j < rs.length := by omega
    simp only [List.getElem_zip] at h2 h3
    subst h1
    exact ⟨hjt, rs[s.idx], renderAll_get xr tpls rs hr s.idx hjt hjr, h2, h3⟩

/-- Purity of the apply loop, for every two lists of templates (in particular the composition as
written and the one-template composition made of template j alone): if the same template sits
at position j of the one and at position j' of the other, then what is sent for it, and what the
API server holds afterwards, is the same in both reconciles of the same XR – the merge options
and patches of the other templates, their number and order, the XR-update fault and the API
server's answers make no difference. -/
theorem apply_independent_of_other_templates (xr : V) (tpls tpls' : List Tpl) (uf uf' : Bool) (s s' : Sent)
    (hs : s ∈ (composePT xr tpls uf).sent) (hs' : s' ∈ (composePT xr tpls' uf').sent)
    (hsame : ∀ (h : s.idx < tpls.length) (h' : s'.idx < tpls'.length), tpls[s.idx] = tpls'[s'.idx]) :
    s.body = s'.body ∧ s.stored = s'.stored := by
  obtain ⟨h, r, hr, _, hsf⟩ := sent_of_own_template xr tpls uf s hs
  obtain ⟨h', r', hr', _, hsf'⟩ := sent_of_own_template xr tpls' uf' s' hs'
  have ht := hsame h h'
  rw [ht] at hr hsf
  rw [hr'] at hr
  simp only [Option.some.injEq] at hr
  subst hr
  rw [hsf'] at hsf
  simp only [Except.ok.injEq, Prod.mk.injEq] at hsf
  exact ⟨hsf.1.symm, hsf.2.symm⟩

/-- A template whose patches carry no policy contributes no apply option: what is sent for its
existing resource is the rendered resource itself (every patched field REPLACES the stored one). -/
theorem no_policy_replaces (t : Tpl) (cd : V) (hex : t.refName ≠ "")
    (hnp : ∀ p ∈ t.patches, p.policy = none) :
    sentFor t cd = .ok (cd, mergePatchV (t.cur.getD .null) cd) := by
  have key : ∀ (ps : List Patch) (cur d : V), (∀ p ∈ ps, p.policy = none) → applyOpts cur d ps = .ok d := by
    intro ps cur d
    induction ps with
    | nil => intro _; rfl
    | cons p ps ih =>
      intro h
      have hp : p.applyOpt = none := by
        unfold Patch.applyOpt
        rw [h p List.mem_cons_self]
        split <;> rfl
      unfold applyOpts
      rw [hp]
      exact ih fun q hq => h q (List.mem_cons_of_mem _ hq)
  unfold sentFor
  have hne : (t.refName == "") = false := by simpa using hex
  rw [hne]
  simp [key t.patches _ cd hnp]

/-! ### the long-lived composer in a world that interferes

`composeW xr tpls w` is one call of PTComposer.Compose in the world `w`: for every template
position, what the applicator's Get answers (`got`: NotFound – also what an informer cache that
has not seen the resource answers –, an object that may be an OLDER version than the API server
holds, or an error of any class), what the API server holds for the name when the write arrives
(`live`: a third party may have deleted, edited or created it in between) and the class of the
error the write is answered with (`fault`); and whether the two writes of the composite itself
fail. The theorems quantify over every such world. The model is per call: the harness drives ONE
long-lived composer through sequences of composites and revisions and compares every call. -/

/-- The world in which nobody interferes is the single-call model: with a fresh cache, no third
party and the scenario's answers, the apply loop writes, sends and marks as applied exactly what
`applyLoop` does – so every theorem about `composePT` above is the quiet special case. -/
theorem world_quiet (xr : V) (tpls : List Tpl) (uf : Bool) (rs : List Rendered) (hlen : rs.length = tpls.length)
    (hctl : ∀ t ∈ tpls, t.refName ≠ "" → notControllable (getMetaStr xr "uid") (t.cur.getD .null) = false) :
    (applyLoopW (getMetaStr xr "uid") (World.quiet tpls uf).env 0 (tpls.zip rs)).writes = (applyLoop 0 (tpls.zip rs)).1 ∧
    (applyLoopW (getMetaStr xr "uid") (World.quiet tpls uf).env 0 (tpls.zip rs)).sent = (applyLoop 0 (tpls.zip rs)).2.1 ∧
    (applyLoopW (getMetaStr xr "uid") (World.quiet tpls uf).env 0 (tpls.zip rs)).applied = (applyLoop 0 (tpls.zip rs)).2.2.1 ∧
    (applyLoopW (getMetaStr xr "uid") (World.quiet tpls uf).env 0 (tpls.zip rs)).aborted = (applyLoop 0 (tpls.zip rs)).2.2.2 := by
  apply applyLoopW_quiet
  · intro j h
    have hj : j < tpls.length := by simp at h; omega
    simp [World.quiet, hj]
  · intro j h
    have hj : j < tpls.length := by simp at h; omega
    simp only [List.getElem_zip]
    exact hctl tpls[j] (List.getElem_mem hj)

/-- In every world – whatever the cache serves, whatever third parties do, whatever class of error
any call is answered with – no write is addressed to the resource of a template that failed to
render. -/
theorem unrendered_not_applied_world (xr : V) (tpls : List Tpl) (w : World) (rs : List Rendered)
    (hr : renderAll xr tpls = some rs) (i : Nat) (hi : i < rs.length) (hun : rs[i].rendered = false) :
    ∀ wr ∈ (composeW xr tpls w).writes, wr.idx ≠ some i := by
  intro wr hw hidx
  rcases composeW_writes xr tpls w rs hr wr hw with h | h
  · rw [h] at hidx; cases hidx
  · obtain ⟨j, hj, h1, h2, _⟩ := applyLoopW_writes _ _ _ 0 wr h
    rw [h1] at hidx
    simp only [Nat.zero_add, Option.some.injEq] at hidx
    subst hidx
    simp only [List.getElem_zip] at h2
    rw [h2] at hun
    cases hun

/-- … while the others still are: when the reconcile reports no error, every rendered template
whose resource the applicator could read (an object or NotFound) has a write addressed to it –
an Invalid answer for one resource, a cache miss, a stale read or a third party's action on
another do not keep it from being applied. -/
theorem rendered_are_applied_world (xr : V) (tpls : List Tpl) (w : World) (rs : List Rendered)
    (hr : renderAll xr tpls = some rs) (hok : (composeW xr tpls w).err = "")
    (j : Nat) (hj : j < rs.length) (hrend : rs[j].rendered = true) (hgot : ∀ c, (w.env j).got ≠ .err c) :
    ∃ wr ∈ (composeW xr tpls w).writes, wr.idx = some j := by
  have hlen := renderAll_length xr tpls rs hr
  obtain ⟨hab, hsub, _⟩ := composeW_ok xr tpls w rs hr hok
  have hjz : j < (tpls.zip rs).length := by simp [hlen]; omega
  have hrz : ((tpls.zip rs)[j]).2.rendered = true := by simpa using hrend
  have ho := applyLoopW_outcomes _ _ _ 0 hab j hjz hrz
  unfold outcomeAt at ho
  simp only [Nat.zero_add] at ho
  have ho' : (applyW (getMetaStr xr "uid") j ((tpls.zip rs)[j]).1 (w.env j) ((tpls.zip rs)[j]).2.cd).outcome = none ∨
      (applyW (getMetaStr xr "uid") j ((tpls.zip rs)[j]).1 (w.env j) ((tpls.zip rs)[j]).2.cd).outcome = some "invalid" := by
    rcases ho with ho | ⟨c, ho, hc⟩
    · exact .inl ho
    · right
      have : c = "invalid" := by simpa [tolerated] using hc
      rw [ho, this]
  obtain ⟨wr, hwr⟩ := applyW_write_of_got _ j _ (w.env j) _ hgot ho'
  -- that write is in the loop's writes: by completeness of the loop
  have hmem : wr ∈ (applyLoopW (getMetaStr xr "uid") w.env 0 (tpls.zip rs)).writes := by
    exact applyLoopW_has_write _ _ _ 0 hab j hjz hrz wr (by simpa using hwr)
  exact ⟨wr, hsub wr hmem, applyW_write _ j _ _ _ wr hwr⟩

/-- No composed resource is written twice in one reconcile: there is no second attempt after a
failed one, so nothing is ever re-sent on the strength of an earlier read. -/
theorem one_write_per_resource_world (xr : V) (tpls : List Tpl) (w : World) (i : Nat) :
    ((composeW xr tpls w).writes.filter fun wr => wr.idx == some i).length ≤ 1 := by
  cases hr : renderAll xr tpls with
  | none => simp [composeW, hr]
  | some rs =>
    have hnd := applyLoopW_nodup (getMetaStr xr "uid") w.env (tpls.zip rs) 0
    have key : ∀ (l : List Write), (l.map (·.idx)).Nodup → (l.filter fun wr => wr.idx == some i).length ≤ 1 := by
      intro l
      induction l with
      | nil => intro _; simp
      | cons a as ih =>
        intro hn
        simp only [List.map_cons, List.nodup_cons, List.mem_map, not_exists, not_and] at hn
        by_cases ha : a.idx = some i
        · have hnone : (as.filter fun wr => wr.idx == some i) = [] := by
            rw [List.filter_eq_nil_iff]
            intro b hb hbi
            exact hn.1 b hb (by rw [ha]; simpa using hbi)
          simp [List.filter_cons, ha, hnone]
        · simp only [List.filter_cons]
          have : (a.idx == some i) = false := by simpa using ha
          rw [this]
          exact ih hn.2
    have hxr : ∀ (pre post : List Write), (∀ x ∈ pre, x.idx = none) → (∀ x ∈ post, x.idx = none) → ∀ (mid : List Write),
        ((pre ++ mid ++ post).filter fun wr => wr.idx == some i) = mid.filter fun wr => wr.idx == some i := by
      intro pre post hpre hpost mid
      have e1 : (pre.filter fun wr => wr.idx == some i) = [] := by
        rw [List.filter_eq_nil_iff]; intro b hb; rw [hpre b hb]; simp
      have e2 : (post.filter fun wr => wr.idx == some i) = [] := by
        rw [List.filter_eq_nil_iff]; intro b hb; rw [hpost b hb]; simp
      simp [List.filter_append, e1, e2]
    unfold composeW
    rw [hr]
    dsimp only
    split
    · simp [List.filter_cons]
    · split
      · have := hxr [⟨"update", none⟩] [] (by simp) (by simp) (applyLoopW (getMetaStr xr "uid") w.env 0 (tpls.zip rs)).writes
        simp only [List.singleton_append, List.append_nil] at this
        rw [this]; exact key _ hnd
      · split
        · have := hxr [⟨"update", none⟩] [] (by simp) (by simp) (applyLoopW (getMetaStr xr "uid") w.env 0 (tpls.zip rs)).writes
          simp only [List.singleton_append, List.append_nil] at this
          rw [this]; exact key _ hnd
        · split
          all_goals
            have := hxr [⟨"update", none⟩] [⟨"patch", none⟩] (by simp) (by simp) (applyLoopW (getMetaStr xr "uid") w.env 0 (tpls.zip rs)).writes
            simp only [List.singleton_append, List.cons_append, List.nil_append] at this
            simp only [List.cons_append]
            rw [this]; exact key _ hnd

/-- Purity in every world: whatever is sent for the composed resource of template j is `bodyW` of
template j's own rendering and own merge options against the object the applicator's Get returned
IN THIS CALL (the rendered object itself if it answered NotFound), and what the API server then
holds is that body merged (RFC 7386) into what the server held when the write arrived. Neither
the other templates, nor their worlds, nor the class of any error, nor anything an earlier call of
the same composer saw enters. -/
theorem sent_of_own_template_world (xr : V) (tpls : List Tpl) (w : World) (s : Sent)
    (hs : s ∈ (composeW xr tpls w).sent) :
    ∃ (h : s.idx < tpls.length) (r : Rendered), renderTpl xr tpls[s.idx] = some r ∧ r.rendered = true ∧
      bodyW tpls[s.idx] r.cd (w.env s.idx).got = some s.body ∧ s.stored = storedW (w.env s.idx) s.body := by
  cases hr : renderAll xr tpls with
  | none => simp [composeW, hr] at hs
  | some rs =>
    have hlen := renderAll_length xr tpls rs hr
    obtain ⟨j, hj, h1, h2, h3, h4⟩ := applyLoopW_sent _ _ _ 0 s (composeW_sent xr tpls w rs hr s hs)
    simp only [Nat.zero_add] at h1 h3 h4
    have hjt : j < tpls.length := by simp [hlen] at hj; omega
    have hjr : j < rs.length := by omega
    simp only [List.getElem_zip] at h2 h3
    subst h1
    exact ⟨hjt, rs[s.idx], renderAll_get xr tpls rs hr s.idx hjt hjr, h2, h3, h4⟩

/-- … hence two reconciles – other templates around it, another world for them, other faults,
another call of the same long-lived composer – in which the same template meets the same composite
and the same answer of the applicator's Get send the same body for it. -/
theorem apply_independent_of_world (xr : V) (tpls tpls' : List Tpl) (w w' : World) (s s' : Sent)
    (hs : s ∈ (composeW xr tpls w).sent) (hs' : s' ∈ (composeW xr tpls' w').sent)
    (hsame : ∀ (h : s.idx < tpls.length) (h' : s'.idx < tpls'.length), tpls[s.idx] = tpls'[s'.idx])
    (hgot : (w.env s.idx).got = (w'.env s'.idx).got) :
    s.body = s'.body := by
  obtain ⟨h, r, hr, _, hb, _⟩ := sent_of_own_template_world xr tpls w s hs
  obtain ⟨h', r', hr', _, hb', _⟩ := sent_of_own_template_world xr tpls' w' s' hs'
  have ht := hsame h h'
  rw [ht] at hr hb
  rw [hr'] at hr
  simp only [Option.some.injEq] at hr
  subst hr
  rw [hgot, hb'] at hb
  simp only [Option.some.injEq] at hb
  exact hb.symm

/-- Error classes: a write addressed to the resource of template k means that the Apply of every
rendered template before it was accepted or answered with the one tolerated class, Invalid. An
error of ANY other class – NotFound, AlreadyExists, Conflict, Forbidden, a timeout, a transport
error, a context deadline, NotControllable, a failing merge option –, raised by the Get, the create
or the patch, ends the loop: none is swallowed, none is retried. -/
theorem only_invalid_is_tolerated (xr : V) (tpls : List Tpl) (w : World) (rs : List Rendered)
    (hr : renderAll xr tpls = some rs) (wr : Write) (k : Nat)
    (hw : wr ∈ (composeW xr tpls w).writes) (hk : wr.idx = some k)
    (j : Nat) (hjk : j < k) (hj : j < rs.length) (hjt : j < tpls.length) (hrend : rs[j].rendered = true) :
    (applyW (getMetaStr xr "uid") j tpls[j] (w.env j) rs[j].cd).outcome = none ∨
    (applyW (getMetaStr xr "uid") j tpls[j] (w.env j) rs[j].cd).outcome = some "invalid" := by
  rcases composeW_writes xr tpls w rs hr wr hw with h | h
  · rw [h] at hk; cases hk
  · have hjz : j < (tpls.zip rs).length := by simp; omega
    have := applyLoopW_prefix _ _ _ 0 wr k h (by simpa using hk) j hjz hjk (by simpa using hrend)
    unfold outcomeAt at this
    simp only [Nat.zero_add, List.getElem_zip] at this
    rcases this with ho | ⟨c, ho, hc⟩
    · exact .inl ho
    · right
      have : c = "invalid" := by simpa [tolerated] using hc
      rw [ho, this]

/-- A resource is reported synced only if the API server accepted its write in this reconcile. -/
theorem synced_only_if_accepted (xr : V) (tpls : List Tpl) (w : World) (rs : List Rendered)
    (hr : renderAll xr tpls = some rs) (j : Nat) (hj : j < rs.length) (hjt : j < tpls.length)
    (hs : (composeW xr tpls w).synced.getD j false = true) :
    rs[j].rendered = true ∧ (applyW (getMetaStr xr "uid") j tpls[j] (w.env j) rs[j].cd).outcome = none := by
  have hok : (composeW xr tpls w).err = "" := by
    unfold composeW at hs ⊢
    rw [hr] at hs ⊢
    dsimp only at hs ⊢
    split
    · rename_i h; rw [if_pos h] at hs; simp at hs
    · rename_i h; rw [if_neg h] at hs
      split
      · rename_i h2; rw [if_pos h2] at hs; simp at hs
      · rename_i h2; rw [if_neg h2] at hs
        split
        · rename_i h3; rw [if_pos h3] at hs; simp at hs
        · rename_i h3; rw [if_neg h3] at hs
          split
          · rename_i h4; rw [if_pos h4] at hs; simp at hs
          · rfl
  obtain ⟨_, _, hsy⟩ := composeW_ok xr tpls w rs hr hok
  rw [hsy] at hs
  have hjz : j < (tpls.zip rs).length := by simp; omega
  have := applyLoopW_applied _ _ _ 0 j hjz hs
  unfold outcomeAt at this
  simpa using this

/-- A cache miss never turns into an unread overwrite: when the applicator's Get answers NotFound
the only write is a CREATE of the rendered resource, and if the API server does hold a resource of
that name (the cache had not seen it, or a third party created it meanwhile) the answer is
AlreadyExists – an error that ends the reconcile – and the stored resource stays as it was. -/
theorem miss_creates_and_fails_if_present (uid : String) (i : Nat) (t : Tpl) (e : Env) (cd l : V)
    (hg : e.got = .notFound) (hl : e.live = some l) (hf : e.fault = none) :
    (applyW uid i t e cd).write = some ⟨"create", some i⟩ ∧
    (applyW uid i t e cd).sent = some ⟨i, cd, cd⟩ ∧
    (applyW uid i t e cd).outcome = some "alreadyExists" ∧ tolerated "alreadyExists" = false := by
  simp [applyW, hg, hl, hf, natural, tolerated]

/-- A resource deleted by a third party between the applicator's Get and its patch: the patch is
answered NotFound, which ends the reconcile (nothing is re-created from the stale read). -/
theorem deleted_under_patch_fails (uid : String) (i : Nat) (t : Tpl) (e : Env) (cd cur d : V)
    (hg : e.got = .found cur) (hc : notControllable uid cur = false) (hopt : applyOpts cur cd t.patches = .ok d)
    (hl : e.live = none) (hf : e.fault = none) :
    (applyW uid i t e cd).write = some ⟨"patch", some i⟩ ∧
    (applyW uid i t e cd).outcome = some "notFound" ∧ tolerated "notFound" = false := by
  simp [applyW, hg, hc, hopt, hl, hf, natural, tolerated]

/-! ### patch sets: exact names -/

/-- A template without PatchSet patches is rendered from its own patches, whatever patch sets the
revision defines. -/
theorem inline_plain (pss : List PatchSet) (ps : List Patch) (h : ∀ p ∈ ps, p.type ≠ "PatchSet") :
    inlinePatches pss ps = some ps :=
  inlinePatches_plain pss ps h

/-- Patch sets are identified by their EXACT name: everything the inlining puts into a template
is one of the template's own patches or a patch of a patch set whose name equals – as a string: no
prefix, no case folding, no trimming – the name one of the template's PatchSet patches gives. -/
theorem inline_by_exact_name (pss : List PatchSet) (ps qs : List Patch) (h : inlinePatches pss ps = some qs)
    (q : Patch) (hq : q ∈ qs) :
    (q ∈ ps ∧ q.type ≠ "PatchSet") ∨
      ∃ s ∈ pss, q ∈ s.patches ∧ ∃ p ∈ ps, p.type = "PatchSet" ∧ p.setName = some s.name :=
  inlinePatches_mem pss ps qs h q hq

/-- A PatchSet patch that names no defined patch set – a look-alike of a defined name included –
or names none at all is an error: nothing is rendered, nothing written. -/
theorem inline_undefined_is_error (xr : V) (sets : List PatchSet) (tpls : List Tpl) (inl : List (List Patch)) (w : World)
    (t : Tpl) (ht : t ∈ tpls) (p : Patch) (hp : p ∈ t.patches) (hty : p.type = "PatchSet")
    (hund : p.setName = none ∨ ∃ n, p.setName = some n ∧ ∀ s ∈ sets, s.name ≠ n) :
    (stepW xr sets tpls inl w).err = "inline" ∧ (stepW xr sets tpls inl w).writes = [] := by
  have hnone : inlineAll sets (tpls.map (·.patches)) = none := by
    unfold inlineAll
    split
    · -- some template's inlining fails
      obtain ⟨pre, post, hsplit⟩ := List.append_of_mem hp
      have hfail : inlinePatches sets t.patches = none := by
        rw [hsplit]
        rcases hund with hn | ⟨n, hn, hall⟩
        · exact inlinePatches_unnamed sets p post hty hn pre
        · exact inlinePatches_undefined sets p n post hty hn hall pre
      have key : ∀ (l : List (List Patch)), t.patches ∈ l → inlineEach sets l = none := by
        intro l
        induction l with
        | nil => intro h; cases h
        | cons a as ih =>
          intro h
          unfold inlineEach
          simp only [List.mem_cons] at h
          rcases h with h | h
          · rw [← h, hfail]
          · split
            · rfl
            · rw [ih h]; rfl
      exact key _ (List.mem_map.mpr ⟨t, ht, rfl⟩)
    · rfl
  simp [stepW, hnone]

/-! ### transforms agree with their documented meaning: computed string and integer transforms

These functions used to be oracle entries (the library's answer shipped by the harness); they are now
computed by the model – and compared with the real code on every scenario –, so their documented
meaning is a theorem about the function the correspondence ties to the code. -/

/-- "Multiply the value": on int64 the product wraps around exactly like Go's `i * *t.Multiply` – the
result always fits int64, is congruent to the true product modulo 2^64 and IS the true product
whenever that fits. An empty type means Multiply (MathTransform.GetType). -/
theorem multiply_int_wraps (o : Orc) (m : MathCfg) (k i : Int) (ht : m.type = "Multiply" ∨ m.type = "")
    (hm : m.multiply = some k) :
    resolveMath o m (.num i) = .ok (.num (wrap64 (i * k))) ∧ fits64 (wrap64 (i * k)) = true ∧
      (wrap64 (i * k) - i * k) % 2 ^ 64 = 0 ∧ (fits64 (i * k) = true → wrap64 (i * k) = i * k) := by
  refine ⟨?_, wrap64_fits _, wrap64_congr _, wrap64_id _⟩
  rcases ht with ht | ht <;>
  · simp only [resolveMath, MathCfg.valid, MathCfg.getType, ht, hm]
    simp

example := multiply_int_wraps .null ⟨"", some 4, none, none⟩ 4 4611686018427387904 (Or.inr rfl) rfl
example : wrap64 (4611686018427387904 * 4) = 0 ∧ wrap64 (9223372036854775807 * 2) = -2 := by decide

/-- "TrimPrefix: trims the prefix from the input": an input that starts with the prefix loses exactly it. -/
theorem trim_prefix_removes (pre s : List Char) :
    trimPrefix (String.ofList (pre ++ s)) (String.ofList pre) = String.ofList s := by
  simp [trimPrefix]

/-- … and an input that does not start with it is returned unchanged (no cut-set semantics). -/
theorem trim_prefix_other (s pre : String) (h : pre.toList.isPrefixOf s.toList = false) : trimPrefix s pre = s := by
  simp [trimPrefix, h]

/-- "TrimSuffix: trims the suffix from the input". -/
theorem trim_suffix_removes (s suf : List Char) :
    trimSuffix (String.ofList (s ++ suf)) (String.ofList suf) = String.ofList s := by
  simp [trimSuffix]

theorem trim_suffix_other (s suf : String) (h : suf.toList.reverse.isPrefixOf s.toList.reverse = false) :
    trimSuffix s suf = s := by
  simp [trimSuffix, h]

example : trimPrefix "aab" "a" = "ab" ∧ trimPrefix "xab" "a" = "xab" ∧ trimSuffix "abb" "b" = "ab" := by decide
example : ("a".toList.isPrefixOf "xab".toList) = false := by decide

/-- The string Format transform with the plain verbs: `%s` of a string is the string, `%d` of an
integer its decimal text (strconv.FormatInt), whatever the oracle says. -/
theorem format_plain_verbs (o : Orc) (s : String) (i : Int) :
    fmtStr o "%s" (.str s) = .ok s ∧ fmtStr o "%d" (.num i) = .ok (fmtInt i) ∧ fmtStr o "%v" .null = .ok "<nil>" := by
  simp [fmtStr, sprintfLite]

/-- A format without verbs and without operands is printed as it is. -/
theorem sprintf_literal (cs : List Char) (h : '%' ∉ cs) : sprintfLite cs [] = some cs :=
  sprintfLite_literal cs h

/-- Purity: on the computed fragment the result of the Format transform does not depend on anything
but the format and the input (no oracle, no earlier call). -/
theorem format_computed_ignores_oracle (o1 o2 : Orc) (f : String) (x : V) (cs : List Char)
    (h : sprintfLite f.toList [x] = some cs) : fmtStr o1 f x = fmtStr o2 f x := by
  simp [fmtStr, h]

example : sprintfLite "pre-%s".toList [.str "x"] = some "pre-x".toList := by decide

/-- A combine patch with the string strategy and the format `%s-%s` over two string variables
yields the two values joined by a dash. -/
theorem combine_two_strings (c : Combine) (a b : String) (hs : c.strategy = "string") (hf : c.fmt = some "%s-%s") :
    combineVals c [.str a, .str b] = .ok (.str (a ++ "-" ++ b)) := by
  simp [combineVals, hs, hf, sprintfLite]
  apply String.ext
  simp

example := combine_two_strings ⟨[], "string", some "%s-%s", .null⟩ "eu" "1" rfl rfl

/-- ToUpper / ToLower on ASCII text are computed (no oracle): the letters a–z / A–Z are shifted,
everything else is kept. -/
theorem upper_lower_ascii (o : Orc) (s : String) (h : isAsciiStr s = true) :
    stringConvert o "ToUpper" (.str s) = .ok (asciiUpper s) ∧ stringConvert o "ToLower" (.str s) = .ok (asciiLower s) := by
  simp [stringConvert, upperOf, lowerOf, fmtV, h]

/-- case mapping keeps the length … -/
theorem ascii_upper_length (s : String) : (asciiUpper s).toList.length = s.toList.length := by
  simp [asciiUpper]

/-- … and lower-casing forgets an earlier upper-casing (ToLower ∘ ToUpper = ToLower on ASCII text). -/
theorem lower_of_upper (s : String) (h : isAsciiStr s = true) : asciiLower (asciiUpper s) = asciiLower s := by
  unfold asciiLower asciiUpper
  congr 1
  simp only [String.toList_ofList, List.map_map]
  apply List.map_congr_left
  intro c hc
  have hlt : c.toNat < 128 := by
    have := List.all_eq_true.mp h c hc
    simpa using this
  simpa using lower_upper_ascii c hlt

example : isAsciiStr "aZ-9 z{`" = true ∧ asciiUpper "aZ-9 z{`" = "AZ-9 Z{`" ∧ asciiLower "aZ-9 Z[@" = "az-9 z[@" := by decide

/-! ### regenerated facts (tie "a"): the modelled Go functions still have the skeleton the model was written against

`Xp.Gen.c10Skel…` is extracted from the CURRENT tree by harness/main/c10_dump.go on every run (case
labels, if-conditions, ranges, calls, and the returns of the small predicate/arithmetic functions and
of the `conversions` table, in source order); `skel…` (Model/C10Skel.lean) is what the model mirrors,
entry by entry. -/

theorem skeleton_apply : Xp.Gen.c10SkelApply = skelApply := by decide
theorem skeleton_apply_to_objects : Xp.Gen.c10SkelApplyToObjects = skelApplyToObjects := by decide
theorem skeleton_filter_patch : Xp.Gen.c10SkelFilterPatch = skelFilterPatch := by decide
theorem skeleton_resolve_transforms : Xp.Gen.c10SkelResolveTransforms = skelResolveTransforms := by decide
theorem skeleton_patch_to_multiple : Xp.Gen.c10SkelPatchToMultiple = skelPatchToMultiple := by decide
theorem skeleton_apply_from_field_path : Xp.Gen.c10SkelApplyFromFieldPath = skelApplyFromFieldPath := by decide
theorem skeleton_apply_combine : Xp.Gen.c10SkelApplyCombine = skelApplyCombine := by decide
theorem skeleton_is_optional : Xp.Gen.c10SkelIsOptional = skelIsOptional := by decide
theorem skeleton_combine : Xp.Gen.c10SkelCombine = skelCombine := by decide
theorem skeleton_combine_string : Xp.Gen.c10SkelCombineString = skelCombineString := by decide
theorem skeleton_composed_templates : Xp.Gen.c10SkelComposedTemplates = skelComposedTemplates := by decide
theorem skeleton_merge_path : Xp.Gen.c10SkelMergePath = skelMergePath := by decide
theorem skeleton_merge_replace : Xp.Gen.c10SkelMergeReplace = skelMergeReplace := by decide
theorem skeleton_with_merge_options : Xp.Gen.c10SkelWithMergeOptions = skelWithMergeOptions := by decide
theorem skeleton_merge_options : Xp.Gen.c10SkelMergeOptions = skelMergeOptions := by decide
theorem skeleton_patch_to_object : Xp.Gen.c10SkelPatchToObject = skelPatchToObject := by decide
theorem skeleton_resolve : Xp.Gen.c10SkelResolve = skelResolve := by decide
theorem skeleton_resolve_math : Xp.Gen.c10SkelResolveMath = skelResolveMath := by decide
theorem skeleton_math_multiply : Xp.Gen.c10SkelMathMultiply = skelMathMultiply := by decide
theorem skeleton_math_clamp : Xp.Gen.c10SkelMathClamp = skelMathClamp := by decide
theorem skeleton_resolve_map : Xp.Gen.c10SkelResolveMap = skelResolveMap := by decide
theorem skeleton_resolve_match : Xp.Gen.c10SkelResolveMatch = skelResolveMatch := by decide
theorem skeleton_matches : Xp.Gen.c10SkelMatches = skelMatches := by decide
theorem skeleton_matches_literal : Xp.Gen.c10SkelMatchesLiteral = skelMatchesLiteral := by decide
theorem skeleton_matches_regexp : Xp.Gen.c10SkelMatchesRegexp = skelMatchesRegexp := by decide
theorem skeleton_unmarshal_json : Xp.Gen.c10SkelUnmarshalJSON = skelUnmarshalJSON := by decide
theorem skeleton_resolve_string : Xp.Gen.c10SkelResolveString = skelResolveString := by decide
theorem skeleton_string_convert : Xp.Gen.c10SkelStringConvert = skelStringConvert := by decide
theorem skeleton_string_hash : Xp.Gen.c10SkelStringHash = skelStringHash := by decide
theorem skeleton_string_trim : Xp.Gen.c10SkelStringTrim = skelStringTrim := by decide
theorem skeleton_string_regexp : Xp.Gen.c10SkelStringRegexp = skelStringRegexp := by decide
theorem skeleton_string_join : Xp.Gen.c10SkelStringJoin = skelStringJoin := by decide
theorem skeleton_resolve_convert : Xp.Gen.c10SkelResolveConvert = skelResolveConvert := by decide
theorem skeleton_get_conversion_func : Xp.Gen.c10SkelGetConversionFunc = skelGetConversionFunc := by decide
theorem skeleton_render_from_json : Xp.Gen.c10SkelRenderFromJSON = skelRenderFromJSON := by decide
theorem skeleton_render_from_xr : Xp.Gen.c10SkelRenderFromXR = skelRenderFromXR := by decide
theorem skeleton_render_to_xr : Xp.Gen.c10SkelRenderToXR = skelRenderToXR := by decide
theorem skeleton_render_meta : Xp.Gen.c10SkelRenderMeta = skelRenderMeta := by decide
theorem skeleton_compose : Xp.Gen.c10SkelCompose = skelCompose := by decide
theorem skeleton_to_xr_patches_from_tas : Xp.Gen.c10SkelToXRPatchesFromTAs = skelToXRPatchesFromTAs := by decide
theorem skeleton_filter_patches : Xp.Gen.c10SkelFilterPatches = skelFilterPatches := by decide
theorem skeleton_patch_get_type : Xp.Gen.c10SkelPatchGetType = skelPatchGetType := by decide
theorem skeleton_math_get_type : Xp.Gen.c10SkelMathGetType = skelMathGetType := by decide
theorem skeleton_math_validate : Xp.Gen.c10SkelMathValidate = skelMathValidate := by decide
theorem skeleton_convert_get_format : Xp.Gen.c10SkelConvertGetFormat = skelConvertGetFormat := by decide
theorem skeleton_convert_validate : Xp.Gen.c10SkelConvertValidate = skelConvertValidate := by decide
theorem skeleton_io_type_is_valid : Xp.Gen.c10SkelIOTypeIsValid = skelIOTypeIsValid := by decide
theorem skeleton_format_is_valid : Xp.Gen.c10SkelFormatIsValid = skelFormatIsValid := by decide
theorem skeleton_generate_name : Xp.Gen.c10SkelGenerateName = skelGenerateName := by decide
theorem skeleton_conversions : Xp.Gen.c10SkelConversions = skelConversions := by rfl

/-- the string values of the API constants the model's `match`es are written against -/
theorem consts_tied : Xp.Gen.c10Consts = declaredConsts := by decide

/-- the patch-type filters of the two render loops and of the apply options (composite.go) -/
theorem patch_type_filters_tied :
    patchTypesFromXR = Xp.Gen.c10PatchTypesFromXR ∧ patchTypesToXR = Xp.Gen.c10PatchTypesToXR := by decide


/-! ### non-vacuity: the hypotheses are satisfiable by non-trivial states -/

/-- an optional patch with a transform and a missing source -/
example : apply { type := "", fromPath := some ⟨"spec.missing", some [.field "spec", .field "missing"]⟩, toPath := none,
                      combine := none, xfs := [], policy := none, mergeOrc := [] }
    (.obj [("spec", .obj [("a", .num 1)])]) (.obj [("kind", .str "Thing")]) [] =
    ⟨.obj [("spec", .obj [("a", .num 1)])], .obj [("kind", .str "Thing")], none⟩ := by
  apply optional_missing_noop _ _ _ _ ⟨"spec.missing", some [.field "spec", .field "missing"]⟩
  · left; rfl
  · rfl
  · rfl
  · rfl

/-- a patch that does copy a value (the model is not the constant function) -/
example : ((apply { type := "", fromPath := some ⟨"spec.a", some [.field "spec", .field "a"]⟩, toPath := none,
                      combine := none, xfs := [], policy := none, mergeOrc := [] }
    (.obj [("spec", .obj [("a", .num 1)])]) (.obj [("kind", .str "Thing")]) []).cd ==
    .obj [("kind", .str "Thing"), ("spec", .obj [("a", .num 1)])]) = true := by decide

/-- two templates, the first of which cannot be rendered (the XR lacks the name-prefix label is
not needed here: its required patch fails), the second is created -/
example :
    let xr : V := .obj [("apiVersion", .str "example.org/v1"), ("kind", .str "XThing"),
      ("metadata", .obj [("name", .str "my-xr"), ("uid", .str "u"), ("labels", .obj [("crossplane.io/composite", .str "my-xr")])])]
    let base : V := .obj [("apiVersion", .str "example.org/v1"), ("kind", .str "Thing")]
    let bad : Patch := { type := "FromCompositeFieldPath", fromPath := some ⟨"spec.missing", some [.field "spec", .field "missing"]⟩,
                         toPath := none, combine := none, xfs := [], policy := some ⟨some "Required", none⟩, mergeOrc := [] }
    let t1 : Tpl := { name := some "a", base := some base, patches := [bad], refKind := "", refApiVersion := "", refName := "",
                       nameGen := .name "gen-0", applyOutcome := .ok }
    let t2 : Tpl := { t1 with name := some "b", patches := [], nameGen := .name "gen-1" }
    ((composePT xr [t1, t2] false).writes.map (·.target)) = ["xr", "1", "xr"] ∧
    (composePT xr [t1, t2] false).rendered = [false, true] := by decide

/-- Two templates write `spec.forProvider.groups` of resources that both exist and hold the stale
list [a, stale] while the XR now says [a]: the first carries `appendSlice` (mergo's verdict for its
operands is in its own oracle table), the second carries no policy. What is sent – and what the
API server then holds – keeps `stale` for the first and replaces the list for the second: the
first template's merge option does not reach the second one. -/
example :
    let xr : V := .obj [("apiVersion", .str "example.org/v1"), ("kind", .str "XThing"),
      ("metadata", .obj [("name", .str "my-xr"), ("uid", .str "u"), ("labels", .obj [("crossplane.io/composite", .str "my-xr")])]),
      ("spec", .obj [("groups", .arr [.str "a"])])]
    let base : V := .obj [("apiVersion", .str "example.org/v1"), ("kind", .str "Thing")]
    let cur : V := .obj [("apiVersion", .str "example.org/v1"), ("kind", .str "Thing"), ("metadata", .obj [("name", .str "cd")]),
      ("spec", .obj [("forProvider", .obj [("groups", .arr [.str "a", .str "stale"])])])]
    let orc : V := .obj [("dst", .arr [.str "a", .str "stale"]), ("src", .arr [.str "a"]), ("out", .arr [.str "a", .str "stale"])]
    let to : List Seg := [.field "spec", .field "forProvider", .field "groups"]
    let pA : Patch := { type := "FromCompositeFieldPath", fromPath := some ⟨"spec.groups", some [.field "spec", .field "groups"]⟩,
                        toPath := some ⟨"spec.forProvider.groups", some to⟩, combine := none, xfs := [],
                        policy := some ⟨none, some ⟨none, some true⟩⟩, mergeOrc := [], applyOrc := [orc] }
    let pR : Patch := { pA with policy := none, applyOrc := [] }
    let t1 : Tpl := { name := some "primary", base := some base, patches := [pA], refKind := "Thing", refApiVersion := "example.org/v1",
                      refName := "cd-0", nameGen := .keep, applyOutcome := .ok, cur := some cur }
    let t2 : Tpl := { t1 with name := some "replica", patches := [pR], refName := "cd-1" }
    let is (o : V) (want : V) : Bool := match getValue o to with
      | .ok v => v == want
      | .error _ => false
    let r := composePT xr [t1, t2] false
    (r.sent.map fun s => (s.idx, is s.body (.arr [.str "a", .str "stale"]), is s.body (.arr [.str "a"]))) = [(0, true, false), (1, false, true)] ∧
    (r.stored.map fun o => (is o (.arr [.str "a", .str "stale"]), is o (.arr [.str "a"]))) = [(true, false), (false, true)] ∧
    r.writes.map (·.target) = ["xr", "0", "1", "xr"] := by decide

/-- an apply option that fails (mergo refuses to merge a list into a string) abandons the apply of
that resource before anything is sent, and the reconcile with it -/
example :
    let xr : V := .obj [("apiVersion", .str "example.org/v1"), ("kind", .str "XThing"),
      ("metadata", .obj [("name", .str "my-xr"), ("uid", .str "u"), ("labels", .obj [("crossplane.io/composite", .str "my-xr")])]),
      ("spec", .obj [("groups", .arr [.str "a"])])]
    let base : V := .obj [("apiVersion", .str "example.org/v1"), ("kind", .str "Thing")]
    let cur : V := .obj [("apiVersion", .str "example.org/v1"), ("kind", .str "Thing"), ("metadata", .obj [("name", .str "cd")]),
      ("spec", .obj [("groups", .str "scalar")])]
    let orc : V := .obj [("dst", .str "scalar"), ("src", .arr [.str "a"])]
    let pA : Patch := { type := "FromCompositeFieldPath", fromPath := some ⟨"spec.groups", some [.field "spec", .field "groups"]⟩,
                        toPath := none, combine := none, xfs := [], policy := some ⟨none, some ⟨some true, none⟩⟩, mergeOrc := [], applyOrc := [orc] }
    let pB : Patch := { pA with toPath := some ⟨"spec.groups", some [.field "spec", .field "groups"]⟩ }
    let t1 : Tpl := { name := some "a", base := some base, patches := [pB], refKind := "Thing", refApiVersion := "example.org/v1",
                      refName := "cd-0", nameGen := .keep, applyOutcome := .ok, cur := some cur }
    let r := composePT xr [t1] false
    r.err = "apply" ∧ r.sent.length = 0 ∧ r.writes.map (·.target) = ["xr"] ∧
    -- without a toFieldPath the patch contributes no apply option: the rendered resource is sent as it is
    (composePT xr [{ t1 with patches := [pA] }] false).err = "" := by decide


/-- The world: two templates whose resources exist. The cache serves an OLD version of the first
(list [a, stale]) while a third party has meanwhile emptied the list in the API server; the merge
option (appendSlice, verdict in the patch's own table) runs against what was READ, and the patch
is merged into what the server HOLDS. The second resource's patch is answered Invalid: tolerated,
reported unsynced. With a Conflict instead the reconcile ends there and the third template, which
would have been created, is not touched. -/
example :
    let xr : V := .obj [("apiVersion", .str "example.org/v1"), ("kind", .str "XThing"),
      ("metadata", .obj [("name", .str "my-xr"), ("uid", .str "u"), ("labels", .obj [("crossplane.io/composite", .str "my-xr")])]),
      ("spec", .obj [("groups", .arr [.str "a"])])]
    let base : V := .obj [("apiVersion", .str "example.org/v1"), ("kind", .str "Thing")]
    let old : V := .obj [("apiVersion", .str "example.org/v1"), ("kind", .str "Thing"), ("metadata", .obj [("name", .str "cd-0")]),
      ("spec", .obj [("forProvider", .obj [("groups", .arr [.str "a", .str "stale"])]), ("other", .str "o")])]
    let now : V := .obj [("apiVersion", .str "example.org/v1"), ("kind", .str "Thing"), ("metadata", .obj [("name", .str "cd-0")]),
      ("spec", .obj [("forProvider", .obj [("groups", .arr [])]), ("other", .str "edited")])]
    let orc : V := .obj [("dst", .arr [.str "a", .str "stale"]), ("src", .arr [.str "a"]), ("out", .arr [.str "a", .str "stale"])]
    let to : List Seg := [.field "spec", .field "forProvider", .field "groups"]
    let pA : Patch := { type := "FromCompositeFieldPath", fromPath := some ⟨"spec.groups", some [.field "spec", .field "groups"]⟩,
                        toPath := some ⟨"spec.forProvider.groups", some to⟩, combine := none, xfs := [],
                        policy := some ⟨none, some ⟨none, some true⟩⟩, mergeOrc := [], applyOrc := [orc] }
    let t1 : Tpl := { name := some "a", base := some base, patches := [pA], refKind := "Thing", refApiVersion := "example.org/v1",
                      refName := "cd-0", nameGen := .keep, applyOutcome := .ok }
    let t2 : Tpl := { t1 with name := some "a-", patches := [], refName := "cd-1" }
    let t3 : Tpl := { t1 with name := some "A", patches := [], refName := "", refKind := "", refApiVersion := "", nameGen := .name "gen-2" }
    let env (second : String) : Nat → Env := fun i =>
      if i = 0 then { got := .found old, live := some now }
      else if i = 1 then { got := .found now, live := some now, fault := some second }
      else {}
    let is (o : V) (p : List Seg) (want : V) : Bool := match getValue o p with
      | .ok v => v == want
      | .error _ => false
    let r := composeW xr [t1, t2, t3] { env := env "invalid" }
    let r' := composeW xr [t1, t2, t3] { env := env "conflict" }
    r.err = "" ∧ r.writes.map (·.target) = ["xr", "0", "1", "2", "xr"] ∧ r.synced = [true, false, true] ∧
    (r.sent.map fun s => is s.body to (.arr [.str "a", .str "stale"])) = [true, false, false] ∧
    (r.stored.map fun o => (is o to (.arr [.str "a", .str "stale"]), is o [.field "spec", .field "other"] (.str "edited"))) = [(true, true), (false, false)] ∧
    r'.err = "apply" ∧ r'.writes.map (·.target) = ["xr", "0", "1"] := by decide

/-- A cache that has not seen the existing resource: the applicator tries to create it, the API
server answers AlreadyExists, the reconcile ends – nothing is overwritten unread. -/
example :
    let xr : V := .obj [("apiVersion", .str "example.org/v1"), ("kind", .str "XThing"),
      ("metadata", .obj [("name", .str "my-xr"), ("uid", .str "u"), ("labels", .obj [("crossplane.io/composite", .str "my-xr")])])]
    let base : V := .obj [("apiVersion", .str "example.org/v1"), ("kind", .str "Thing")]
    let now : V := .obj [("apiVersion", .str "example.org/v1"), ("kind", .str "Thing"), ("metadata", .obj [("name", .str "cd-0")])]
    let t1 : Tpl := { name := some "a", base := some base, patches := [], refKind := "Thing", refApiVersion := "example.org/v1",
                      refName := "cd-0", nameGen := .keep, applyOutcome := .ok }
    let r := composeW xr [t1] { env := fun _ => { got := .notFound, live := some now } }
    r.err = "apply" ∧ r.writes = [⟨"update", none⟩, ⟨"create", some 0⟩] ∧ r.stored = [] := by decide

/-- Patch sets with look-alike names: `common`, `common-` and `Common` are three different sets; a
reference to `Common-` names none of them. -/
example :
    let p (to : String) : Patch := { type := "FromCompositeFieldPath", fromPath := some ⟨"spec.a", some [.field "spec", .field "a"]⟩,
                                     toPath := some ⟨to, some [.field "spec", .field to]⟩, combine := none, xfs := [], policy := none, mergeOrc := [] }
    let ref (n : String) : Patch := { type := "PatchSet", fromPath := none, toPath := none, combine := none, xfs := [], policy := none,
                                      mergeOrc := [], setName := some n }
    let sets : List PatchSet := [⟨"common", [p "x"]⟩, ⟨"common-", [p "y"]⟩, ⟨"Common", [p "z"]⟩]
    ((inlinePatches sets [p "own", ref "common-", ref "Common"]).map fun l => l.map fun q => q.toPath.map (·.raw)) =
      some [some "own", some "y", some "z"] ∧
    (inlinePatches sets [ref "Common-"]).isNone = true ∧ (inlinePatches sets [ref "commo"]).isNone = true := by decide

end Xp.C10

import Xp.Model.C10
import Xp.Model.C10Compose
import Xp.Proofs.C10Num
import Xp.Proofs.C10Path
import Xp.Proofs.C10Total
import Xp.Proofs.C10Apply
import Xp.Proofs.C10Compose
/-
C10 property theorems: Patch & Transform rendering is total, deterministic and never applies a
half-rendered resource. Statements only; helper lemmas are in Xp/Proofs/C10*.lean.

`apply p xr cd only` models composite.Apply (all patch types, the `only` filter), `resolve`
composite.Resolve, `composePT` the render and apply loops of PTComposer.Compose.
-/
namespace Xp.C10

/-- the object a patch reads from -/
def sourceOf (p : Patch) (xr cd : V) : V :=
  if p.getType = "FromCompositeFieldPath" ∨ p.getType = "CombineFromComposite" then xr else cd

/-! ### optional / required policies -/

/-- FromCompositeFieldPath / ToCompositeFieldPath with an Optional (or absent) policy whose source
path is missing: no error and neither object changes – whatever the transforms, destination path,
merge options and the `only` filter are. -/
theorem optional_missing_noop (p : Patch) (xr cd : V) (only : List String) (fp : Path)
    (ht : p.getType = "FromCompositeFieldPath" ∨ p.getType = "ToCompositeFieldPath")
    (hf : p.fromPath = some fp) (hopt : p.optional = true)
    (hmiss : getPath (sourceOf p xr cd) fp = .error .notFound) :
    apply p xr cd only = ⟨xr, cd, none⟩ := by
  unfold apply applyWith
  split
  · rfl
  · rcases ht with ht | ht
    · have hs : sourceOf p xr cd = xr := by simp [sourceOf, ht]
      rw [hs] at hmiss
      simp [ht, applyFromFieldPathWith, hf, hmiss, hopt]
    · have hs : sourceOf p xr cd = cd := by simp [sourceOf, ht]
      rw [hs] at hmiss
      simp [ht, applyFromFieldPathWith, hf, hmiss, hopt]

/-- The same for the Combine patch types: as soon as one variable is missing (all earlier ones
being readable) an optional patch does nothing. -/
theorem optional_missing_noop_combine (p : Patch) (xr cd : V) (only : List String) (c : Combine) (tp : Path)
    (pre post : List Path) (v : Path)
    (ht : p.getType = "CombineFromComposite" ∨ p.getType = "CombineToComposite")
    (hc : p.combine = some c) (hto : p.toPath = some tp) (hopt : p.optional = true)
    (hvars : c.variables = pre ++ v :: post)
    (hpre : ∀ u ∈ pre, ∃ x, getPath (sourceOf p xr cd) u = .ok x)
    (hmiss : getPath (sourceOf p xr cd) v = .error .notFound) :
    apply p xr cd only = ⟨xr, cd, none⟩ := by
  have hcv : ∀ src, (∀ u ∈ pre, ∃ x, getPath src u = .ok x) → getPath src v = .error .notFound →
      combineVars p src (pre ++ v :: post) = .ok none :=
    fun src hp hm => combineVars_missing_optional p src post v hopt hm pre hp
  have hlen : ¬ c.variables.length < 1 := by rw [hvars]; simp
  unfold apply applyWith
  split
  · rfl
  · rcases ht with ht | ht
    · have hs : sourceOf p xr cd = xr := by simp [sourceOf, ht]
      rw [hs] at hmiss hpre
      simp [ht, applyCombineWith, hc, hto, hlen, hvars, hcv xr hpre hmiss]
    · have hs : sourceOf p xr cd = cd := by simp [sourceOf, ht]
      rw [hs] at hmiss hpre
      simp [ht, applyCombineWith, hc, hto, hlen, hvars, hcv cd hpre hmiss]

/-- A Required patch (policy present and not "Optional") that is not filtered out and whose source
path is missing is an error, and neither object changes. -/
theorem required_missing_error (p : Patch) (xr cd : V) (only : List String) (fp : Path)
    (ht : p.getType = "FromCompositeFieldPath" ∨ p.getType = "ToCompositeFieldPath")
    (hnf : filtered p only = false)
    (hf : p.fromPath = some fp) (hreq : p.optional = false)
    (hmiss : getPath (sourceOf p xr cd) fp = .error .notFound) :
    apply p xr cd only = ⟨xr, cd, some .notFound⟩ := by
  unfold apply applyWith
  rw [hnf]
  rcases ht with ht | ht
  · have hs : sourceOf p xr cd = xr := by simp [sourceOf, ht]
    rw [hs] at hmiss
    simp [ht, applyFromFieldPathWith, hf, hmiss, hreq]
  · have hs : sourceOf p xr cd = cd := by simp [sourceOf, ht]
    rw [hs] at hmiss
    simp [ht, applyFromFieldPathWith, hf, hmiss, hreq]

theorem required_missing_error_combine (p : Patch) (xr cd : V) (only : List String) (c : Combine) (tp : Path)
    (pre post : List Path) (v : Path)
    (ht : p.getType = "CombineFromComposite" ∨ p.getType = "CombineToComposite")
    (hnf : filtered p only = false)
    (hc : p.combine = some c) (hto : p.toPath = some tp) (hreq : p.optional = false)
    (hvars : c.variables = pre ++ v :: post)
    (hpre : ∀ u ∈ pre, ∃ x, getPath (sourceOf p xr cd) u = .ok x)
    (hmiss : getPath (sourceOf p xr cd) v = .error .notFound) :
    apply p xr cd only = ⟨xr, cd, some .notFound⟩ := by
  have hcv : ∀ src, (∀ u ∈ pre, ∃ x, getPath src u = .ok x) → getPath src v = .error .notFound →
      combineVars p src (pre ++ v :: post) = .error .notFound :=
    fun src hp hm => combineVars_missing_required p src post v hreq hm pre hp
  have hlen : ¬ c.variables.length < 1 := by rw [hvars]; simp
  unfold apply applyWith
  rw [hnf]
  rcases ht with ht | ht
  · have hs : sourceOf p xr cd = xr := by simp [sourceOf, ht]
    rw [hs] at hmiss hpre
    simp [ht, applyCombineWith, hc, hto, hlen, hvars, hcv xr hpre hmiss]
  · have hs : sourceOf p xr cd = cd := by simp [sourceOf, ht]
    rw [hs] at hmiss hpre
    simp [ht, applyCombineWith, hc, hto, hlen, hvars, hcv cd hpre hmiss]

/-! ### patches never modify their source -/

/-- Whatever the patch, the objects and the filter: the object the patch reads from comes out of
`Apply` exactly as it went in (also on every error path); an unknown patch type changes nothing. -/
theorem source_unchanged (p : Patch) (xr cd : V) (only : List String) :
    ((p.getType = "FromCompositeFieldPath" ∨ p.getType = "CombineFromComposite") → (apply p xr cd only).xr = xr) ∧
    ((p.getType = "ToCompositeFieldPath" ∨ p.getType = "CombineToComposite") → (apply p xr cd only).cd = cd) ∧
    ((p.getType ≠ "FromCompositeFieldPath" ∧ p.getType ≠ "CombineFromComposite" ∧
      p.getType ≠ "ToCompositeFieldPath" ∧ p.getType ≠ "CombineToComposite") →
        (apply p xr cd only).xr = xr ∧ (apply p xr cd only).cd = cd) := by
  unfold apply applyWith
  refine ⟨?_, ?_, ?_⟩
  · intro h
    split
    · rfl
    · rcases h with h | h <;> simp [h]
  · intro h
    split
    · rfl
    · rcases h with h | h <;> simp [h]
  · intro ⟨h1, h2, h3, h4⟩
    split
    · exact ⟨rfl, rfl⟩
    · simp [h1, h2, h3, h4]

/-- Rendering all from-XR patches of a template leaves the composite resource untouched. -/
theorem render_source_unchanged (ps : List Patch) : ∀ (xr cd : V), (renderFromXR xr cd ps).xr = xr := by
  induction ps with
  | nil => intro xr cd; rfl
  | cons p ps ih =>
    intro xr cd
    unfold renderFromXR
    -- to-XR patch types are filtered out, from-XR types do not touch the XR
    have hx : (apply p xr cd patchTypesFromXR).xr = xr := by
      have hs := source_unchanged p xr cd patchTypesFromXR
      by_cases h1 : p.getType = "FromCompositeFieldPath" ∨ p.getType = "CombineFromComposite"
      · exact hs.1 h1
      · by_cases h2 : p.getType = "ToCompositeFieldPath" ∨ p.getType = "CombineToComposite"
        · -- filtered: the raw type is one of the to-XR types, which are not in the list
          have hty : p.type = p.getType := by
            unfold Patch.getType at h2 ⊢
            split
            · rename_i he
              rw [if_pos he] at h2
              rcases h2 with h2 | h2 <;> simp at h2
            · rfl
          have hf : filtered p patchTypesFromXR = true := by
            unfold filtered patchTypesFromXR
            rw [hty]
            rcases h2 with h2 | h2 <;> rw [h2] <;> decide
          unfold apply applyWith
          rw [hf]
          rfl
        · have := hs.2.2 ⟨fun h => h1 (Or.inl h), fun h => h1 (Or.inr h), fun h => h2 (Or.inl h), fun h => h2 (Or.inr h)⟩
          exact this.1
    dsimp only
    split
    · exact hx
    · rw [hx]
      exact ih xr _

/-! ### a patch writes what it read -/

/-- Paved.SetValue followed by GetValue on the same (non-empty) path returns the value that was
written, as normalised by the JSON round trip – for every object, path (creating intermediate
objects and arrays, growing arrays) and value. -/
theorem set_then_get (root : V) (segs : List Seg) (v r : V) (hne : segs ≠ [])
    (h : setValue root segs v = .ok r) : ∃ v', norm v = .ok v' ∧ getValue r segs = .ok v' := by
  unfold setValue at h
  split at h
  · cases h
  · rename_i v' hv
    split at h
    · cases h
    · refine ⟨v', hv, ?_⟩
      unfold getValue
      split
      · exact absurd rfl hne
      · exact getIn_setIn _ root v' r hne h

/-! ### totality: nothing in the modelled rendering path can panic -/

/-- The regexp transform returns the "no match" error for every group index outside
[0, len groups), negative ones included, and the selected group otherwise. -/
theorem group_index_guard (groups : List String) (g : Int) :
    ((g < 0 ∨ g ≥ groups.length) → selectGroup groups g = .error .noMatch) ∧
    ((0 ≤ g ∧ g < groups.length) → ∃ s, selectGroup groups g = .ok s ∧ groups[g.toNat]? = some s) :=
  ⟨selectGroup_out_of_range groups g, fun h => selectGroup_in_range groups g h.1 h.2⟩

/-- The guard as written at the pinned commit lets a negative index through to `groups[g]`:
the defect D1 (corpus/C10/d1-negative-group.jsonl, fixes/D1.diff). -/
theorem group_index_guard_fails_on_unfixed_witness :
    selectGroupUnfixed ["abc-def", "abc", "def"] (-1) = .error .panic := by rfl

/-- No transform, for any configuration (nil configs, unknown types, any group index, any oracle
answers) and any input value, ends in the panic outcome. -/
theorem resolve_never_panics (t : Xf) (input : V) : resolve t input ≠ .error .panic :=
  resolve_np t input

/-- `Apply` on two objects never ends in the panic outcome: in particular `array[i] = v` in
Paved.setValue is never reached with an index out of range, for any path, value and object. -/
theorem apply_never_panics (p : Patch) (mx mc : List (String × V)) (only : List String) :
    (apply p (.obj mx) (.obj mc) only).err ≠ some .panic := by
  unfold apply applyWith
  split
  · simp
  · split
    · exact applyFromFieldPath_np p _ mc
    · exact applyFromFieldPath_np p _ mx
    · exact applyCombine_np p _ mc
    · exact applyCombine_np p _ mx
    · simp

/-! ### transforms agree with their documented meaning: clamps -/

/-- "ClampMax makes sure that the value is not bigger than the given value": for every int64 input
the result is the input when it is within the bound and the bound otherwise. -/
theorem clamp_max_int (o : Orc) (m : MathCfg) (mx i : Int) (ht : m.type = "ClampMax") (hm : m.clampMax = some mx) :
    resolveMath o m (.num i) = .ok (.num (if i > mx then mx else i)) ∧ (if i > mx then mx else i) ≤ mx := by
  constructor
  · simp only [resolveMath, MathCfg.valid, MathCfg.getType, ht, hm]
    split <;> simp_all <;> split <;> rfl
  · split <;> omega

/-- "ClampMin makes sure that the value is not smaller than the given value". -/
theorem clamp_min_int (o : Orc) (m : MathCfg) (mn i : Int) (ht : m.type = "ClampMin") (hm : m.clampMin = some mn) :
    resolveMath o m (.num i) = .ok (.num (if i < mn then mn else i)) ∧ mn ≤ (if i < mn then mn else i) := by
  constructor
  · simp only [resolveMath, MathCfg.valid, MathCfg.getType, ht, hm]
    split <;> simp_all <;> split <;> rfl
  · split <;> omega

/-- For a float64 input the comparison itself is library behaviour (the oracle's `gtMax` is
`f > float64(clampMax)`); the model fixes what is done with the verdict: the bound when the
input exceeds it, the input unchanged otherwise – no truncation in between. -/
theorem clamp_max_float (o : Orc) (m : MathCfg) (mx : Int) (r : String) (gt : Bool)
    (ht : m.type = "ClampMax") (hm : m.clampMax = some mx)
    (ho : orcVal o (.flt r) "gtMax" = .ok (.bool gt)) :
    resolveMath o m (.flt r) = .ok (if gt then .num mx else .flt r) := by
  simp only [resolveMath, MathCfg.valid, MathCfg.getType, ht, hm, ho]
  cases gt <;> simp

theorem clamp_min_float (o : Orc) (m : MathCfg) (mn : Int) (r : String) (lt : Bool)
    (ht : m.type = "ClampMin") (hm : m.clampMin = some mn)
    (ho : orcVal o (.flt r) "ltMin" = .ok (.bool lt)) :
    resolveMath o m (.flt r) = .ok (if lt then .num mn else .flt r) := by
  simp only [resolveMath, MathCfg.valid, MathCfg.getType, ht, hm, ho]
  cases lt <;> simp

/-- The code at the pinned commit truncates the float to int64 before comparing: 2.9 (truncated
to 2) passes a ClampMax of 2 unchanged although 2.9 > 2 – defect D17
(corpus/C10/d17-float-clamp.jsonl, fixes/D17.diff). -/
theorem clamp_float_fails_on_unfixed_witness :
    (clampMaxFloatUnfixed 2 2 (.flt "2.9") == .flt "2.9") = true := by decide

/-! ### conversions round-trip -/

/-- int64 → string → int64 is the identity on every int64 (decimal printing and parsing modelled;
the two conversions are looked up in the table regenerated from `conversions`). -/
theorem convert_roundtrip_int_string (o1 o2 : Orc) (i : Int) (h : fits64 i = true) :
    (resolveConvert o1 ⟨"string", none⟩ (.num i)).bind (resolveConvert o2 ⟨"int64", none⟩) = .ok (.num i) := by
  have h1 : hasConversion "int64" "string" "none" = true := by decide
  have h2 : hasConversion "string" "int64" "none" = true := by decide
  simp [resolveConvert, formatValid, ConvCfg.getFormat, ioTypeValid, goType, h1, h2, convFn, Except.bind,
    parseInt_fmtInt i h]

/-- bool → string → bool is the identity. -/
theorem convert_roundtrip_bool_string (o1 o2 : Orc) (b : Bool) :
    (resolveConvert o1 ⟨"string", none⟩ (.bool b)).bind (resolveConvert o2 ⟨"bool", none⟩) = .ok (.bool b) := by
  have h1 : hasConversion "bool" "string" "none" = true := by decide
  have h2 : hasConversion "string" "bool" "none" = true := by decide
  simp [resolveConvert, formatValid, ConvCfg.getFormat, ioTypeValid, goType, h1, h2, convFn, Except.bind,
    parseBool_fmtBool b]

/-- bool → int64 → bool is the identity. -/
theorem convert_roundtrip_bool_int (o1 o2 : Orc) (b : Bool) :
    (resolveConvert o1 ⟨"int64", none⟩ (.bool b)).bind (resolveConvert o2 ⟨"bool", none⟩) = .ok (.bool b) := by
  have h1 : hasConversion "bool" "int64" "none" = true := by decide
  have h2 : hasConversion "int64" "bool" "none" = true := by decide
  cases b <;> simp [resolveConvert, formatValid, ConvCfg.getFormat, ioTypeValid, goType, h1, h2, convFn, Except.bind]

/-- int64 → bool → int64 is the identity exactly on {0, 1}. -/
theorem convert_roundtrip_int_bool (o1 o2 : Orc) (i : Int) :
    (resolveConvert o1 ⟨"bool", none⟩ (.num i)).bind (resolveConvert o2 ⟨"int64", none⟩) =
      .ok (.num (if i = 1 then 1 else 0)) := by
  have h1 : hasConversion "int64" "bool" "none" = true := by decide
  have h2 : hasConversion "bool" "int64" "none" = true := by decide
  by_cases hi : i = 1 <;>
    simp [resolveConvert, formatValid, ConvCfg.getFormat, ioTypeValid, goType, h1, h2, convFn, Except.bind, hi]

/-- The string side does not round-trip in general (documented behaviour, not a defect): "+7"
and "007" both parse to 7, which prints as "7". -/
theorem convert_string_int_string_not_identity :
    parseInt (String.ofList ['+', '7']) = some 7 ∧ parseInt (String.ofList ['0', '0', '7']) = some 7 := by
  refine ⟨?_, ?_⟩
  · simp only [parseInt, String.toList_ofList]; decide
  · simp only [parseInt, String.toList_ofList]; decide

/-! ### determinism -/

/-- Apart from the generated name, rendering a template is a function of the XR, the template and
the existing resource only: two runs that differ in nothing but the name generator's answer agree
on whether the base parses and on the rendered object up to `metadata.name`. -/
theorem render_deterministic (xr : V) (t : Tpl) (g1 g2 : NameGen) :
    (renderTpl xr { t with nameGen := g1 }).map (fun r => removeMeta r.cd "name") =
    (renderTpl xr { t with nameGen := g2 }).map (fun r => removeMeta r.cd "name") := by
  have key : ∀ (cd : V) (n : String), getMetaStr cd "generateName" ≠ "" →
      removeMeta (setMeta cd "name" (.str n)) "name" = removeMeta cd "name" := by
    intro cd n hg
    cases cd with
    | obj m =>
      unfold getMetaStr V.get? at hg
      simp only at hg
      cases hm : V.lookup "metadata" m with
      | none => simp [hm] at hg
      | some md =>
        cases md with
        | obj mdl =>
          have herase : ∀ (l : List (String × V)) (v : V), V.eraseKey "name" (V.setKey "name" v l) = V.eraseKey "name" l := by
            intro l v
            induction l with
            | nil => simp [V.setKey, V.eraseKey]
            | cons x xs ih =>
              obtain ⟨k, x⟩ := x
              by_cases hk : k = "name"
              · subst hk; simp [V.setKey, V.eraseKey]
              · simp [V.setKey, V.eraseKey, hk, ih]
          have hset : ∀ (l : List (String × V)) (a b : V), V.setKey "metadata" a (V.setKey "metadata" b l) = V.setKey "metadata" a l := by
            intro l a b
            induction l with
            | nil => simp [V.setKey]
            | cons x xs ih =>
              obtain ⟨k, x⟩ := x
              by_cases hk : k = "metadata"
              · subst hk; simp [V.setKey]
              · simp [V.setKey, hk, ih]
          have hlk : ∀ (l : List (String × V)) (a : V), V.lookup "metadata" (V.setKey "metadata" a l) = some a := by
            intro l a
            induction l with
            | nil => simp [V.setKey, V.lookup]
            | cons x xs ih =>
              obtain ⟨k, x⟩ := x
              by_cases hk : k = "metadata"
              · subst hk; simp [V.setKey, V.lookup]
              · simp [V.setKey, V.lookup, hk, ih]
          simp [setMeta, removeMeta, hm, hlk, herase, hset]
        | null => simp [hm] at hg
        | bool b => simp [hm] at hg
        | num i => simp [hm] at hg
        | flt r => simp [hm] at hg
        | str s => simp [hm] at hg
        | arr l => simp [hm] at hg
    | null => simp [getMetaStr, V.get?] at hg
    | bool b => simp [getMetaStr, V.get?] at hg
    | num i => simp [getMetaStr, V.get?] at hg
    | flt r => simp [getMetaStr, V.get?] at hg
    | str s => simp [getMetaStr, V.get?] at hg
    | arr l => simp [getMetaStr, V.get?] at hg
  unfold renderTpl
  dsimp only
  split
  · rfl
  · rename_i o _
    simp only [Option.map_some, Option.some.injEq]
    generalize (renderMeta (renderFromXR xr o t.patches).cd xr (t.name.getD "")).1 = cd2
    by_cases hskip : (getMetaStr cd2 "name" != "" || getMetaStr cd2 "generateName" == "") = true
    · simp [hskip]
    · simp only [hskip, Bool.false_eq_true, if_false]
      have hgn : getMetaStr cd2 "generateName" ≠ "" := by
        intro he
        apply hskip
        simp [he]
      cases g1 <;> cases g2 <;> simp [key cd2 _ hgn]

/-! ### a half-rendered resource is never applied -/

/-- A template is unrendered as soon as one from-XR patch, the metadata rendering or the name
generation failed. -/
theorem unrendered_of_failure (xr : V) (t : Tpl) (o : V) (r : Rendered)
    (ho : renderFromJSON t.refKind t.refApiVersion t.refName "" t.base = .ok o)
    (hr : renderTpl xr t = some r)
    (hfail : (renderFromXR xr o t.patches).err.isSome = true ∨
             (renderMeta (renderFromXR xr o t.patches).cd xr (t.name.getD "")).2.isSome = true ∨
             (getMetaStr (renderMeta (renderFromXR xr o t.patches).cd xr (t.name.getD "")).1 "name" = "" ∧
              getMetaStr (renderMeta (renderFromXR xr o t.patches).cd xr (t.name.getD "")).1 "generateName" ≠ "" ∧
              t.nameGen = .fail)) :
    r.rendered = false := by
  unfold renderTpl at hr
  rw [ho] at hr
  simp only [Option.some.injEq] at hr
  subst hr
  rcases hfail with h | h | ⟨h1, h2, h3⟩
  · cases he : (renderFromXR xr o t.patches).err with
    | none => rw [he] at h; cases h
    | some e => simp
  · cases he : (renderMeta (renderFromXR xr o t.patches).cd xr (t.name.getD "")).2 with
    | none => rw [he] at h; cases h
    | some e => simp [he]
  · simp [h1, h2, h3]

/-- If the base of any template cannot be parsed nothing at all is written. -/
theorem parse_failure_writes_nothing (xr : V) (tpls : List Tpl) (uf : Bool)
    (h : renderAll xr tpls = none) : (composePT xr tpls uf).writes = [] := by
  simp [composePT, h]

/-- In one reconcile no write (create, update or patch, successful or not) is addressed to the
resource of a template that failed to render – whatever happens to the other templates, the XR
update and the API server's answers. -/
theorem unrendered_not_applied (xr : V) (tpls : List Tpl) (uf : Bool) (rs : List Rendered)
    (hr : renderAll xr tpls = some rs) (i : Nat) (hi : i < rs.length) (hun : rs[i].rendered = false) :
    ∀ w ∈ (composePT xr tpls uf).writes, w.idx ≠ some i := by
  intro w hw hidx
  have hlen := renderAll_length xr tpls rs hr
  have hmem : w ∈ (applyLoop 0 (tpls.zip rs)).1 := by
    unfold composePT at hw
    rw [hr] at hw
    dsimp only at hw
    split at hw
    · simp only [List.mem_singleton] at hw
      subst hw
      cases hidx
    · split at hw
      · simp only [List.mem_cons] at hw
        rcases hw with hw | hw
        · subst hw; cases hidx
        · exact hw
      · split at hw
        · simp only [List.mem_cons] at hw
          rcases hw with hw | hw
          · subst hw; cases hidx
          · exact hw
        · simp only [List.mem_cons, List.mem_append, List.mem_singleton, List.not_mem_nil, or_false] at hw
          rcases hw with (hw | hw) | hw
          · subst hw; cases hidx
          · exact hw
          · subst hw; cases hidx
  obtain ⟨j, hj, h1, h2⟩ := applyLoop_writes (tpls.zip rs) 0 w hmem
  rw [h1] at hidx
  simp only [Nat.zero_add, Option.some.injEq] at hidx
  subst hidx
  simp only [List.getElem_zip] at h2
  rw [h2] at hun
  cases hun

/-- … while the others still are: when the reconcile completes, every template that did render
has a write addressed to its resource. -/
theorem rendered_are_applied (xr : V) (tpls : List Tpl) (uf : Bool) (rs : List Rendered)
    (hr : renderAll xr tpls = some rs) (hok : (composePT xr tpls uf).err = "")
    (j : Nat) (hj : j < rs.length) (hrend : rs[j].rendered = true) :
    ∃ w ∈ (composePT xr tpls uf).writes, w.idx = some j := by
  have hlen := renderAll_length xr tpls rs hr
  unfold composePT at hok ⊢
  rw [hr] at hok ⊢
  dsimp only at hok ⊢
  split
  · rename_i huf
    rw [if_pos huf] at hok
    simp at hok
  · rename_i huf
    rw [if_neg huf] at hok
    split
    · rename_i hab
      rw [if_pos hab] at hok
      simp at hok
    · rename_i hab
      rw [if_neg hab] at hok
      have hab' : (applyLoop 0 (tpls.zip rs)).2.2.2 = false := by simpa using hab
      obtain ⟨w, hw, hi⟩ := applyLoop_complete (tpls.zip rs) 0 hab' j (by simp [hlen]; omega) (by simpa using hrend)
      simp only [Nat.zero_add] at hi
      split
      · rename_i hf
        rw [if_pos hf] at hok
        simp at hok
      · exact ⟨w, by simp [hw], hi⟩

/-- … and its reference is kept: whenever the references are persisted there is exactly one per
template, in template order, and it is the reference to the object as rendered so far (whose
name RenderFromJSON restored from the existing reference). -/
theorem references_kept (xr : V) (tpls : List Tpl) (uf : Bool) (rs : List Rendered)
    (hr : renderAll xr tpls = some rs) :
    (composePT xr tpls uf).refs = rs.map (fun r => (kindOf r.cd, getMetaStr r.cd "name")) ∧
    (composePT xr tpls uf).refs.length = tpls.length := by
  have hlen := renderAll_length xr tpls rs hr
  have h1 : (composePT xr tpls uf).refs = rs.map (fun r => (kindOf r.cd, getMetaStr r.cd "name")) := by
    unfold composePT
    rw [hr]
    dsimp only
    repeat' split
    all_goals rfl
  exact ⟨h1, by rw [h1]; simp [hlen]⟩

/-- RenderFromJSON restores the name of the existing resource into the freshly parsed base
(whenever the base's metadata can hold it), so an existing resource's reference survives the
re-rendering of its template. -/
theorem render_keeps_existing_name (k a n : String) (base : Option V) (o : V) (hn : n ≠ "")
    (h : renderFromJSON k a n "" base = .ok o)
    (hmeta : ∀ m, base = some (.obj m) → ∀ x, V.lookup "metadata" m = some x → ∃ md, x = .obj md) :
    getMetaStr o "name" = n := by
  unfold renderFromJSON at h
  split at h
  · rename_i m
    have hm := hmeta m rfl
    dsimp only at h
    split at h
    · cases h
    · split at h
      · cases h
      · simp only [Except.ok.injEq] at h
        subst h
        have hlk : ∀ (l : List (String × V)) (k : String) (a : V), V.lookup k (V.setKey k a l) = some a := by
          intro l k a
          induction l with
          | nil => simp [V.setKey, V.lookup]
          | cons x xs ih =>
            obtain ⟨k', x⟩ := x
            by_cases hk : k' = k
            · subst hk; simp [V.setKey, V.lookup]
            · simp [V.setKey, V.lookup, hk, ih]
        have hlkne : ∀ (l : List (String × V)) (k k2 : String), k2 ≠ k → V.lookup k2 (V.eraseKey k l) = V.lookup k2 l := by
          intro l k k2 hne
          induction l with
          | nil => rfl
          | cons x xs ih =>
            obtain ⟨k', x⟩ := x
            by_cases hk : k' = k
            · subst hk; simp [V.eraseKey, V.lookup, ih, Ne.symm hne]
            · by_cases hk2 : k' = k2
              · subst hk2; simp [V.eraseKey, V.lookup, hk]
              · simp [V.eraseKey, V.lookup, hk, hk2, ih]
        simp only [setOrRemoveMeta, hn, bne_iff_ne, ne_eq, beq_iff_eq, if_false, if_true]
        cases hmd : V.lookup "metadata" m with
        | none =>
          simp [setMeta, removeMeta, hmd, getMetaStr, V.get?, hlk, V.lookup, V.eraseKey, V.setKey]
        | some x =>
          obtain ⟨md, hx⟩ := hm x hmd
          subst hx
          simp [setMeta, removeMeta, hmd, getMetaStr, V.get?, hlk, hlkne]
  · cases h

/-! ### the apply step is a function of the template's own data -/

/-- Whatever list of templates is being composed, whatever happens to the XR update and whatever
the API server answers: every object sent for the composed resource of template j (the object
created, or the JSON merge-patch body left by the apply options) and the object the API server
then holds are `sentFor` of template j alone – its own patches, merge options and existing
resource – applied to its own rendered resource `renderTpl xr tpls[j]`, which is a function of
the XR and template j. No other template of the composition enters. -/
theorem sent_of_own_template (xr : V) (tpls : List Tpl) (uf : Bool) (s : Sent)
    (hs : s ∈ (composePT xr tpls uf).sent) :
    ∃ (h : s.idx < tpls.length) (r : Rendered), renderTpl xr tpls[s.idx] = some r ∧ r.rendered = true ∧
      sentFor tpls[s.idx] r.cd = .ok (s.body, s.stored) := by
  cases hr : renderAll xr tpls with
  | none => simp [composePT, hr] at hs
  | some rs =>
    have hlen := renderAll_length xr tpls rs hr
    have hmem : s ∈ (applyLoop 0 (tpls.zip rs)).2.1 := by
      unfold composePT at hs
      rw [hr] at hs
      dsimp only at hs
      split at hs
      · simp at hs
      · split at hs
        · exact hs
        · split at hs
          · exact hs
          · exact hs
    obtain ⟨j, hj, h1, h2, h3⟩ := applyLoop_sent (tpls.zip rs) 0 s hmem
    simp only [Nat.zero_add] at h1
    have hjt : j < tpls.length := by simp [hlen] at hj; omega
    have hjr : j < rs.length := by omega
    simp only [List.getElem_zip] at h2 h3
    subst h1
    exact ⟨hjt, rs[s.idx], renderAll_get xr tpls rs hr s.idx hjt hjr, h2, h3⟩

/-- Purity of the apply loop, for every two lists of templates (in particular the composition as
written and the one-template composition made of template j alone): if the same template sits
at position j of the one and at position j' of the other, then what is sent for it, and what the
API server holds afterwards, is the same in both reconciles of the same XR – the merge options
and patches of the other templates, their number and order, the XR-update fault and the API
server's answers make no difference. -/
theorem apply_independent_of_other_templates (xr : V) (tpls tpls' : List Tpl) (uf uf' : Bool) (s s' : Sent)
    (hs : s ∈ (composePT xr tpls uf).sent) (hs' : s' ∈ (composePT xr tpls' uf').sent)
    (hsame : ∀ (h : s.idx < tpls.length) (h' : s'.idx < tpls'.length), tpls[s.idx] = tpls'[s'.idx]) :
    s.body = s'.body ∧ s.stored = s'.stored := by
  obtain ⟨h, r, hr, _, hsf⟩ := sent_of_own_template xr tpls uf s hs
  obtain ⟨h', r', hr', _, hsf'⟩ := sent_of_own_template xr tpls' uf' s' hs'
  have ht := hsame h h'
  rw [ht] at hr hsf
  rw [hr'] at hr
  simp only [Option.some.injEq] at hr
  subst hr
  rw [hsf'] at hsf
  simp only [Except.ok.injEq, Prod.mk.injEq] at hsf
  exact ⟨hsf.1.symm, hsf.2.symm⟩

/-- A template whose patches carry no policy contributes no apply option: what is sent for its
existing resource is the rendered resource itself (every patched field REPLACES the stored one). -/
theorem no_policy_replaces (t : Tpl) (cd : V) (hex : t.refName ≠ "")
    (hnp : ∀ p ∈ t.patches, p.policy = none) :
    sentFor t cd = .ok (cd, mergePatchV (t.cur.getD .null) cd) := by
  have key : ∀ (ps : List Patch) (cur d : V), (∀ p ∈ ps, p.policy = none) → applyOpts cur d ps = .ok d := by
    intro ps cur d
    induction ps with
    | nil => intro _; rfl
    | cons p ps ih =>
      intro h
      have hp : p.applyOpt = none := by
        unfold Patch.applyOpt
        rw [h p List.mem_cons_self]
        split <;> rfl
      unfold applyOpts
      rw [hp]
      exact ih fun q hq => h q (List.mem_cons_of_mem _ hq)
  unfold sentFor
  have hne : (t.refName == "") = false := by simpa using hex
  rw [hne]
  simp [key t.patches _ cd hnp]

/-! ### non-vacuity: the hypotheses are satisfiable by non-trivial states -/

/-- an optional patch with a transform and a missing source -/
example : apply { type := "", fromPath := some ⟨"spec.missing", some [.field "spec", .field "missing"]⟩, toPath := none,
                      combine := none, xfs := [], policy := none, mergeOrc := [] }
    (.obj [("spec", .obj [("a", .num 1)])]) (.obj [("kind", .str "Thing")]) [] =
    ⟨.obj [("spec", .obj [("a", .num 1)])], .obj [("kind", .str "Thing")], none⟩ := by
  apply optional_missing_noop _ _ _ _ ⟨"spec.missing", some [.field "spec", .field "missing"]⟩
  · left; rfl
  · rfl
  · rfl
  · rfl

/-- a patch that does copy a value (the model is not the constant function) -/
example : ((apply { type := "", fromPath := some ⟨"spec.a", some [.field "spec", .field "a"]⟩, toPath := none,
                      combine := none, xfs := [], policy := none, mergeOrc := [] }
    (.obj [("spec", .obj [("a", .num 1)])]) (.obj [("kind", .str "Thing")]) []).cd ==
    .obj [("kind", .str "Thing"), ("spec", .obj [("a", .num 1)])]) = true := by decide

/-- two templates, the first of which cannot be rendered (the XR lacks the name-prefix label is
not needed here: its required patch fails), the second is created -/
example :
    let xr : V := .obj [("apiVersion", .str "example.org/v1"), ("kind", .str "XThing"),
      ("metadata", .obj [("name", .str "my-xr"), ("uid", .str "u"), ("labels", .obj [("crossplane.io/composite", .str "my-xr")])])]
    let base : V := .obj [("apiVersion", .str "example.org/v1"), ("kind", .str "Thing")]
    let bad : Patch := { type := "FromCompositeFieldPath", fromPath := some ⟨"spec.missing", some [.field "spec", .field "missing"]⟩,
                         toPath := none, combine := none, xfs := [], policy := some ⟨some "Required", none⟩, mergeOrc := [] }
    let t1 : Tpl := { name := some "a", base := some base, patches := [bad], refKind := "", refApiVersion := "", refName := "",
                       nameGen := .name "gen-0", applyOutcome := .ok }
    let t2 : Tpl := { t1 with name := some "b", patches := [], nameGen := .name "gen-1" }
    ((composePT xr [t1, t2] false).writes.map (·.target)) = ["xr", "1", "xr"] ∧
    (composePT xr [t1, t2] false).rendered = [false, true] := by decide

/-- Two templates write `spec.forProvider.groups` of resources that both exist and hold the stale
list [a, stale] while the XR now says [a]: the first carries `appendSlice` (mergo's verdict for its
operands is in its own oracle table), the second carries no policy. What is sent – and what the
API server then holds – keeps `stale` for the first and replaces the list for the second: the
first template's merge option does not reach the second one. -/
example :
    let xr : V := .obj [("apiVersion", .str "example.org/v1"), ("kind", .str "XThing"),
      ("metadata", .obj [("name", .str "my-xr"), ("uid", .str "u"), ("labels", .obj [("crossplane.io/composite", .str "my-xr")])]),
      ("spec", .obj [("groups", .arr [.str "a"])])]
    let base : V := .obj [("apiVersion", .str "example.org/v1"), ("kind", .str "Thing")]
    let cur : V := .obj [("apiVersion", .str "example.org/v1"), ("kind", .str "Thing"), ("metadata", .obj [("name", .str "cd")]),
      ("spec", .obj [("forProvider", .obj [("groups", .arr [.str "a", .str "stale"])])])]
    let orc : V := .obj [("dst", .arr [.str "a", .str "stale"]), ("src", .arr [.str "a"]), ("out", .arr [.str "a", .str "stale"])]
    let to : List Seg := [.field "spec", .field "forProvider", .field "groups"]
    let pA : Patch := { type := "FromCompositeFieldPath", fromPath := some ⟨"spec.groups", some [.field "spec", .field "groups"]⟩,
                        toPath := some ⟨"spec.forProvider.groups", some to⟩, combine := none, xfs := [],
                        policy := some ⟨none, some ⟨none, some true⟩⟩, mergeOrc := [], applyOrc := [orc] }
    let pR : Patch := { pA with policy := none, applyOrc := [] }
    let t1 : Tpl := { name := some "primary", base := some base, patches := [pA], refKind := "Thing", refApiVersion := "example.org/v1",
                      refName := "cd-0", nameGen := .keep, applyOutcome := .ok, cur := some cur }
    let t2 : Tpl := { t1 with name := some "replica", patches := [pR], refName := "cd-1" }
    let is (o : V) (want : V) : Bool := match getValue o to with
      | .ok v => v == want
      | .error _ => false
    let r := composePT xr [t1, t2] false
    (r.sent.map fun s => (s.idx, is s.body (.arr [.str "a", .str "stale"]), is s.body (.arr [.str "a"]))) = [(0, true, false), (1, false, true)] ∧
    (r.stored.map fun o => (is o (.arr [.str "a", .str "stale"]), is o (.arr [.str "a"]))) = [(true, false), (false, true)] ∧
    r.writes.map (·.target) = ["xr", "0", "1", "xr"] := by decide

/-- an apply option that fails (mergo refuses to merge a list into a string) abandons the apply of
that resource before anything is sent, and the reconcile with it -/
example :
    let xr : V := .obj [("apiVersion", .str "example.org/v1"), ("kind", .str "XThing"),
      ("metadata", .obj [("name", .str "my-xr"), ("uid", .str "u"), ("labels", .obj [("crossplane.io/composite", .str "my-xr")])]),
      ("spec", .obj [("groups", .arr [.str "a"])])]
    let base : V := .obj [("apiVersion", .str "example.org/v1"), ("kind", .str "Thing")]
    let cur : V := .obj [("apiVersion", .str "example.org/v1"), ("kind", .str "Thing"), ("metadata", .obj [("name", .str "cd")]),
      ("spec", .obj [("groups", .str "scalar")])]
    let orc : V := .obj [("dst", .str "scalar"), ("src", .arr [.str "a"])]
    let pA : Patch := { type := "FromCompositeFieldPath", fromPath := some ⟨"spec.groups", some [.field "spec", .field "groups"]⟩,
                        toPath := none, combine := none, xfs := [], policy := some ⟨none, some ⟨some true, none⟩⟩, mergeOrc := [], applyOrc := [orc] }
    let pB : Patch := { pA with toPath := some ⟨"spec.groups", some [.field "spec", .field "groups"]⟩ }
    let t1 : Tpl := { name := some "a", base := some base, patches := [pB], refKind := "Thing", refApiVersion := "example.org/v1",
                      refName := "cd-0", nameGen := .keep, applyOutcome := .ok, cur := some cur }
    let r := composePT xr [t1] false
    r.err = "apply" ∧ r.sent.length = 0 ∧ r.writes.map (·.target) = ["xr"] ∧
    -- without a toFieldPath the patch contributes no apply option: the rendered resource is sent as it is
    (composePT xr [{ t1 with patches := [pA] }] false).err = "" := by decide

end Xp.C10

import Xp.Model.C16
/-
C16 property theorems (work in progress: first obligation only).
-/
namespace Xp.C16

theorem apiCreate_dry (rejects : Obj → Bool) (oc : Outcome) (s : Store) (o : Obj) :
    (apiCreate rejects true oc s o).1 = s := by
  unfold apiCreate
  split <;> (try split) <;> simp [logW]

theorem apiUpdate_dry (rejects : Obj → Bool) (oc : Outcome) (s : Store) (o : Obj) :
    (apiUpdate rejects true oc s o).1 = s := by
  unfold apiUpdate
  split <;> (try split) <;> simp [logW]

end Xp.C16

import Xp.Proofs.C16WorldRec
import Xp.Proofs.C16Enrich
import Xp.Model.C16Skel
import Xp.Gen.C16
import Xp.Gen.C16Skel
import Xp.Gen.C16Enrich
/-
C16 — establishing package objects is all-or-nothing and respects the
active/inactive role.

Every theorem is stated for an ARBITRARY API-server rejection predicate
`rejects : Obj → Bool`, an ARBITRARY fault plan `fault` (an error or a crash at the
Get, the dry-run write or the real write of any object), ARBITRARY goroutine
completion orders `vorder`/`eorder` (and, for ReleaseObjects, an arbitrary set
`ran` of goroutines that got past the cancellation check), and every initial
store that is well formed (`WF`: object keys unique, resourceVersions fresh —
the two guarantees of the API server the argument needs).

Vocabulary (defined in Xp/Proofs/C16*.lean):
  `hasUid l u`  — some owner reference in `l` has uid `u`
  `ctrl l u`    — some owner reference in `l` with uid `u` has controller=true
  `submission`  — the object Establish would send for a package object
  `ForeignControlled p s d` — the stored object has a controller reference that is
                  neither `p`'s nor `p`'s package's
-/
namespace Xp.C16

/-! ## 1. All-or-nothing -/

/-- The validate phase (every create/update as a dry run) never changes the store
nor issues a real write, whatever happens. -/
theorem validate_writes_nothing (rejects : Obj → Bool) (fault : Fault) (p : Parent) (control : Bool)
    (s : Store) (xs : List (Nat × Desired)) :
    (validateAll rejects fault p control s xs).1 = s :=
  validateAll_store rejects fault p control s xs

/-- **All or nothing.** If some object of the package (the `j`-th, whose goroutine is
among those that ran) cannot be taken over — an active revision finds it
controlled by a different revision or owner; or the API server would reject what
Establish submits for it; or it is a CRD with webhook conversion and the active
parent has no TLS bundle for it — then Establish fails and the store *and the log
of non-dry-run writes* are exactly what they were: no object of the package is
created or modified and no real write is even attempted. For every fault plan
and every completion order. -/
theorem all_or_nothing (rejects : Obj → Bool) (fault : Fault) (p : Parent) (control : Bool)
    (s : Store) (objs : List Desired) (vorder eorder : List Nat)
    (j : Nat) (d : Desired) (hd : objs[j]? = some d) (hj : j ∈ vorder)
    (hb : (control = true ∧ ForeignControlled p s d) ∨
          (∃ o, submission p control s d = some o ∧ rejects o = true) ∨
          (control = true ∧ d.needsCA = true ∧ p.tls ≠ .present)) :
    (establish rejects fault p control s objs vorder eorder).1 = s ∧
    ∀ refs, (establish rejects fault p control s objs vorder eorder).2 ≠ .ok refs := by
  have hone : (validateOne rejects fault p control s j d).2.failed := by
    rcases hb with h | h | ⟨hc, hn, ht⟩
    · exact validateOne_blocked rejects fault p control s j d (Or.inl h)
    · exact validateOne_blocked rejects fault p control s j d (Or.inr h)
    · subst hc; exact validateOne_needsCA rejects fault p s j d hn ht
  have hs := validateAll_store rejects fault p control s (pick objs vorder)
  have hf := validateAll_failed rejects fault p control s (pick objs vorder) j d
    (mem_pick objs vorder j d hd hj) hone
  unfold establish
  split
  · exact ⟨rfl, fun _ h => by cases h⟩
  · exact ⟨rfl, fun _ h => by cases h⟩
  · unfold establishCore
    split <;> rename_i heq <;> rw [heq] at hs hf
    · exact absurd hf (by simp [R.failed])
    · exact ⟨hs, fun _ h => by cases h⟩
    · exact ⟨hs, fun _ h => by cases h⟩

/-- More generally, *any* failure of the dry-run phase — a transient API error or a
crash at any Get or dry-run call included — leaves the store and the write log
untouched: the establish phase is never entered. -/
theorem dry_run_phase_failure_writes_nothing (rejects : Obj → Bool) (fault : Fault) (p : Parent) (control : Bool)
    (s : Store) (objs : List Desired) (vorder eorder : List Nat)
    (hf : (validateAll rejects fault p control s (pick objs vorder)).2.failed) :
    (establish rejects fault p control s objs vorder eorder).1 = s := by
  have hs := validateAll_store rejects fault p control s (pick objs vorder)
  unfold establish
  split
  · rfl
  · rfl
  · unfold establishCore
    split <;> rename_i heq <;> rw [heq] at hs hf
    · exact absurd hf (by simp [R.failed])
    · exact hs
    · exact hs

/-- A controlling parent with a runtime whose webhook TLS secret cannot be read, is
missing or holds an empty certificate establishes nothing at all. -/
theorem tls_failure_writes_nothing (rejects : Obj → Bool) (fault : Fault) (p : Parent)
    (s : Store) (objs : List Desired) (vorder eorder : List Nat)
    (ht : p.tls = .missing ∨ p.tls = .empty) :
    establish rejects fault p true s objs vorder eorder = (s, .crash) ∨
    ∃ e, establish rejects fault p true s objs vorder eorder = (s, .err e) := by
  unfold establish getCert
  rcases ht with ht | ht <;> rw [ht] <;> simp only [Bool.not_true, Bool.false_eq_true, if_false] <;>
    cases fault 0 .tls <;> simp

/-! ## 2. Role laws of one Establish -/

/-- **An inactive revision never creates anything**: the keys present after
Establish(control = false) are exactly the keys present before. -/
theorem inactive_never_creates (rejects : Obj → Bool) (fault : Fault) (p : Parent)
    (s : Store) (objs : List Desired) (vorder eorder : List Nat) (hw : WF s) :
    let s' := (establish rejects fault p false s objs vorder eorder).1
    (∀ o' ∈ s'.objs, ∃ o ∈ s.objs, o.key = o'.key) ∧ (∀ o ∈ s.objs, ∃ o' ∈ s'.objs, o'.key = o.key) := by
  have h := (establish_inv rejects fault p false s objs vorder eorder hw).ev
  constructor
  · intro o' ho'
    rcases h.bwd o' ho' with ⟨o, ho, hk, _⟩ | ⟨_, hc⟩
    · exact ⟨o, ho, hk⟩
    · exact absurd hc.active (by simp)
  · intro o ho
    obtain ⟨o', ho', hk, _⟩ := h.fwd o ho
    exact ⟨o', ho', hk⟩

/-- **An inactive revision is at most a plain owner**: every object after
Establish(control = false) is either untouched, or it is the old object with the
same content, no owner entry dropped, no new controller (so the revision did not
become controller), and the revision present as a plain owner reference
(`controller` unset). -/
theorem inactive_plain_owner (rejects : Obj → Bool) (fault : Fault) (p : Parent)
    (s : Store) (objs : List Desired) (vorder eorder : List Nat) (hw : WF s) :
    ∀ o' ∈ (establish rejects fault p false s objs vorder eorder).1.objs,
      ∃ o ∈ s.objs, o.key = o'.key ∧
        (o' = o ∨ (o'.body = o.body ∧ asOwner p ∈ o'.owners ∧
                   (∀ u, hasUid o.owners u → hasUid o'.owners u) ∧
                   (∀ u, ctrl o'.owners u → ctrl o.owners u))) := by
  have h := (establish_inv rejects fault p false s objs vorder eorder hw).ev
  intro o' ho'
  rcases h.bwd o' ho' with ⟨o, ho, hk, hr⟩ | ⟨_, hc⟩
  · refine ⟨o, ho, hk, hr.imp id fun q => ⟨q.body rfl, q.mine, q.uids, fun u hu => ?_⟩⟩
    rcases q.ctrls u hu with h | ⟨h, _⟩
    · exact h
    · cases h
  · exact absurd hc.active (by simp)

/-- **Only an active revision becomes controller, and it controls what it writes**:
every object after Establish(control = true) is either untouched or carries the
controller reference of the parent, which is then its only controller; and no
owner entry was dropped. -/
theorem active_controls (rejects : Obj → Bool) (fault : Fault) (p : Parent)
    (s : Store) (objs : List Desired) (vorder eorder : List Nat) (hw : WF s) :
    ∀ o' ∈ (establish rejects fault p true s objs vorder eorder).1.objs,
      o' ∈ s.objs ∨
      (asController p ∈ o'.owners ∧ (∀ u, ctrl o'.owners u → u = p.uid) ∧
       ∀ o ∈ s.objs, o.key = o'.key → ∀ u, hasUid o.owners u → hasUid o'.owners u) := by
  have hinv := establish_inv rejects fault p true s objs vorder eorder hw
  have h := hinv.ev
  intro o' ho'
  rcases h.bwd o' ho' with ⟨o, ho, hk, hr⟩ | ⟨hnew, hc⟩
  · rcases hr with e | q
    · exact Or.inl (e ▸ ho)
    · refine Or.inr ⟨q.mine, fun u ⟨r, hr, hu, hc⟩ => ?_, fun o2 ho2 hk2 => ?_⟩
      · have := ctrl_unique _ r (asController p) q.valid hr q.mine hc rfl
        rw [← hu, this]; rfl
      · have : o2 = o := hw.keys o2 ho2 o ho (hk2.trans hk.symm)
        subst this
        exact q.uids
  · exact Or.inr ⟨hc.mine, hc.ctrls, fun o ho hk => absurd hk (hnew o ho)⟩

/-- **A successful Establish covers the whole package**: if Establish reports
success, every object of the package (whose goroutines are in both completion
orders) exists and carries the parent's reference — controller reference for an
active parent; for an inactive parent the plain owner reference, provided the
object existed (an inactive revision creates nothing). -/
theorem establish_success_covers (rejects : Obj → Bool) (fault : Fault) (p : Parent) (control : Bool)
    (s s' : Store) (objs : List Desired) (vorder eorder : List Nat) (refs : List Ref) (hw : WF s)
    (h : establish rejects fault p control s objs vorder eorder = (s', .ok refs))
    (j : Nat) (d : Desired) (hd : objs[j]? = some d) (hv : j ∈ vorder) (he : j ∈ eorder)
    (hc : control = true ∨ (s.get d.key).isSome = true) :
    ∃ o' ∈ s'.objs, o'.key = d.key ∧ (if control then asController p else asOwner p) ∈ o'.owners :=
  establish_ok rejects fault p control s s' objs vorder eorder refs hw h j d hd hv he hc

/-- **The package is a plain owner of every established object**: whenever the
parent's owner reference to its package resolves (to `q`, a different object than
the revision), every object Establish created or modified — active or inactive —
carries `q` with controller=false. -/
theorem package_is_plain_owner (rejects : Obj → Bool) (fault : Fault) (p : Parent) (control : Bool)
    (s : Store) (objs : List Desired) (vorder eorder : List Nat) (hw : WF s)
    (q : ORef) (hq : pkgRef p = some q) (hne : q.uid ≠ p.uid) :
    ∀ o' ∈ (establish rejects fault p control s objs vorder eorder).1.objs,
      o' ∈ s.objs ∨ (q ∈ o'.owners ∧ q.controller = some false) := by
  have h := (establish_inv rejects fault p control s objs vorder eorder hw).ev
  intro o' ho'
  rcases h.bwd o' ho' with ⟨o, ho, _, hr⟩ | ⟨_, hc⟩
  · rcases hr with e | qe
    · exact Or.inl (e ▸ ho)
    · exact Or.inr ⟨qe.pkg q hq hne, pkgRef_controller p q hq⟩
  · exact Or.inr ⟨hc.pkg q hq hne, pkgRef_controller p q hq⟩

/-! ## 3. Deactivation: ReleaseObjects -/

/-- **Deactivation gives up control but keeps ownership**: ReleaseObjects never
deletes or creates an object, never changes content, never drops an owner entry
and never makes anybody controller; an object it did write has the revision as an
owner whose (first) entry is not a controller reference. For every fault plan and
every set of goroutines that ran. -/
theorem release_keeps_owner (rejects : Obj → Bool) (fault : Fault) (p : Parent) (ran : Nat → Bool)
    (s : Store) (refs : List Ref) (order : List Nat) (hw : WF s) :
    let s' := (release rejects fault p ran s refs order).1
    (∀ o ∈ s.objs, ∃ o' ∈ s'.objs, o'.key = o.key ∧ o'.body = o.body ∧
        (∀ u, hasUid o.owners u → hasUid o'.owners u) ∧ (∀ u, ctrl o'.owners u → ctrl o.owners u) ∧
        (o' = o ∨ (hasUid o'.owners p.uid ∧
                   ∀ r, o'.owners.find? (fun r => r.uid = p.uid) = some r → r.isCtrl = false))) ∧
    (∀ o' ∈ s'.objs, ∃ o ∈ s.objs, o.key = o'.key) := by
  have h := (release_inv rejects fault p ran s refs order hw).ev
  constructor
  · intro o ho
    obtain ⟨o', ho', hk, hr⟩ := h.fwd o ho
    refine ⟨o', ho', hk, ?_⟩
    rcases hr with e | q
    · subst e; exact ⟨rfl, fun _ h => h, fun _ h => h, Or.inl rfl⟩
    · exact ⟨q.body, q.uids, q.ctrls, Or.inr ⟨q.mine, q.released⟩⟩
  · intro o' ho'
    rcases h.bwd o' ho' with ⟨o, ho, hk, _⟩ | ⟨_, hf⟩
    · exact ⟨o, ho, hk⟩
    · exact hf.elim

/-- **A successful release has released everything it references**: every stored
object named by a reference (whose goroutine is in the order) has the revision as
an owner that is not its controller. -/
theorem release_gives_up_control (rejects : Obj → Bool) (fault : Fault) (p : Parent) (ran : Nat → Bool)
    (s s' : Store) (refs : List Ref) (order : List Nat) (hw : WF s)
    (h : release rejects fault p ran s refs order = (s', .ok ()))
    (j : Nat) (k : Ref) (hk : refs[j]? = some k) (hj : j ∈ order) :
    ∀ o' ∈ s'.objs, o'.key = k.key → hasUid o'.owners p.uid ∧
      ∀ r, o'.owners.find? (fun r => r.uid = p.uid) = some r → r.isCtrl = false :=
  release_ok rejects fault p ran s s' refs order hw h j k hk hj

/-! ## 4. The reconciler and histories -/

/-- **Reconciling an inactive revision** (ReleaseObjects, then Establish(control=false)
only while `status.objectRefs` is empty) never creates an object, never drops an
owner entry and never makes anybody controller. -/
theorem inactive_reconcile_never_creates_or_controls (sys : Sys) (r : Rev) (e : Env)
    (hw : WF sys.store) (hr : r.active = false) :
    let s' := (reconcileRev sys r e).1.store
    (∀ o' ∈ s'.objs, ∃ o ∈ sys.store.objs, o.key = o'.key ∧
        (∀ u, hasUid o.owners u → hasUid o'.owners u) ∧ (∀ u, ctrl o'.owners u → ctrl o.owners u)) := by
  have h := (reconcileRev_hinv sys r e hw (fun _ => False) (fun ha => by rw [hr] at ha; cases ha)).ev
  intro s' o' ho'
  rcases h.bwd o' ho' with ⟨o, ho, hk, hq⟩ | ⟨_, hc⟩
  · refine ⟨o, ho, hk, ?_⟩
    rcases hq with e | q
    · subst e; exact ⟨fun _ h => h, fun _ h => h⟩
    · exact ⟨q.uids, fun u hu => (q.ctrls u hu).resolve_right id⟩
  · obtain ⟨u, hu, _⟩ := hc.owner
    exact hu.elim

/-- **History corollary** (induction over the history). Take any sequence of
reconciles of any revisions, each with the desired state it has at that moment
(upgrades, rollbacks, two revisions active at once, …), in any order, under any
faults and goroutine orders. Then, comparing the final store with the initial one:
 * nothing was deleted and no object lost an owner entry;
 * an owner that is a controller at the end either was one at the start or is a
   revision that was reconciled as *active* in the history;
 * an object that did not exist at the start is owned by a revision that was
   reconciled as active, and controlled by such revisions only. -/
theorem history_roles (sys : Sys) (h : List (Rev × Env)) (hw : WF sys.store) :
    let s' := (runHistory sys h).store
    (∀ o ∈ sys.store.objs, ∃ o' ∈ s'.objs, o'.key = o.key ∧ ∀ u, hasUid o.owners u → hasUid o'.owners u) ∧
    (∀ o' ∈ s'.objs, ∀ u, ctrl o'.owners u →
        (∃ o ∈ sys.store.objs, o.key = o'.key ∧ ctrl o.owners u) ∨ ActiveIn h u) ∧
    (∀ o' ∈ s'.objs, (∀ o ∈ sys.store.objs, o.key ≠ o'.key) → ∃ u, ActiveIn h u ∧ hasUid o'.owners u) := by
  have hh := (runHistory_hinv sys h hw).ev
  refine ⟨fun o ho => ?_, fun o' ho' u hu => ?_, fun o' ho' hnew => ?_⟩
  · obtain ⟨o', ho', hk, hr⟩ := hh.fwd o ho
    refine ⟨o', ho', hk, ?_⟩
    rcases hr with e | q
    · subst e; exact fun _ h => h
    · exact q.uids
  · rcases hh.bwd o' ho' with ⟨o, ho, hk, hr⟩ | ⟨_, hc⟩
    · rcases hr with e | q
      · subst e; exact Or.inl ⟨o', ho, rfl, hu⟩
      · exact (q.ctrls u hu).imp (fun h => ⟨o, ho, hk, h⟩) id
    · exact Or.inr (hc.ctrls u hu)
  · rcases hh.bwd o' ho' with ⟨o, ho, hk, _⟩ | ⟨_, hc⟩
    · exact absurd hk (hnew o ho)
    · exact hc.owner

/-- **No garbage collection during an upgrade.** If an object has an owner `u`
(e.g. the package, which `package_is_plain_owner` puts on every established
object) and `u` stays alive, then after any history of reconciles the object
still exists and the Kubernetes garbage collector does not collect it — whichever
revisions were deactivated or deleted in between. -/
theorem never_collected (sys : Sys) (h : List (Rev × Env)) (hw : WF sys.store)
    (o : Obj) (ho : o ∈ sys.store.objs) (u : Nat) (hu : hasUid o.owners u)
    (live : Nat → Bool) (hl : live u = true) :
    ∃ o' ∈ (runHistory sys h).store.objs, o'.key = o.key ∧ gcCollects live o' = false := by
  obtain ⟨o', ho', hk, hm⟩ := (history_roles sys h hw).1 o ho
  refine ⟨o', ho', hk, ?_⟩
  obtain ⟨r, hr, hru⟩ := hm u hu
  unfold gcCollects
  have : (o'.owners.all fun r => !live r.uid) = false := by
    apply Bool.eq_false_iff.mpr
    intro hall
    have := List.all_eq_true.mp hall r hr
    rw [hru, hl] at this
    cases this
  rw [this, Bool.and_false]

/-- **A package never becomes a controller**: if no revision reconciled in the
history has the uid `q` (a package is not a revision) and `q` controls nothing
initially, `q` controls nothing afterwards — the package stays the plain owner
that `package_is_plain_owner` made it. -/
theorem package_never_controller (sys : Sys) (h : List (Rev × Env)) (hw : WF sys.store) (q : Nat)
    (hq : ∀ x ∈ h, x.1.parent.uid ≠ q) (h0 : ∀ o ∈ sys.store.objs, ¬ ctrl o.owners q) :
    ∀ o' ∈ (runHistory sys h).store.objs, ¬ ctrl o'.owners q := by
  intro o' ho' hc
  rcases (history_roles sys h hw).2.1 o' ho' q hc with ⟨o, ho, _, hco⟩ | ⟨x, hx, _, hxu⟩
  · exact h0 o ho hco
  · exact hq x hx hxu

/-- Well-formedness is an invariant of every history (so the hypotheses above are
available at every intermediate point, and every theorem about one Establish /
ReleaseObjects / reconcile applies to every step of every history). -/
theorem history_wf (sys : Sys) (h : List (Rev × Env)) (hw : WF sys.store) : WF (runHistory sys h).store :=
  (runHistory_hinv sys h hw).wf

/-! ## 5. Tables regenerated from the source on every run

`Xp/Gen/C16.lean` is produced by running the library functions of the current tree
(`meta.AddOwnerReference`, `meta.AddControllerReference`, `meta.AsController`,
`meta.AsOwner`, `revision.GetPackageOwnerReference`) on every list of at most two
owner references over two uids × controller ∈ {nil,false,true}. The model's
definitions must reproduce every row. (An exhaustive small scope tying helper
definitions to the code — not a stand-in for any of the proofs above.) -/

def ofGen (r : Xp.Gen.C16Ref) : ORef := ⟨r.1, r.2.1, r.2.2⟩

set_option maxRecDepth 100000

theorem addOwner_matches_library :
    Xp.Gen.c16AddOwnerTable.all (fun c => addOwner (c.1.map ofGen) (ofGen c.2.1) == c.2.2.map ofGen) = true := by
  decide

theorem addController_matches_library :
    Xp.Gen.c16AddControllerTable.all (fun c =>
      (match addController (c.1.map ofGen) (ofGen c.2.1) with
       | .ok l => some l
       | .error _ => none) == c.2.2.map (·.map ofGen)) = true := by
  decide

theorem owner_constructors_match_library :
    asController { uid := 7, label := "", owners := [] } = ofGen Xp.Gen.c16AsController ∧
    asOwner { uid := 7, label := "", owners := [] } = ofGen Xp.Gen.c16AsOwner := by
  decide

theorem pkgRef_matches_library :
    Xp.Gen.c16PkgRefTable.all (fun c =>
      (pkgRef { uid := 99, label := c.1, owners := c.2.1.zipIdx.map fun (n, i) => ⟨n, ⟨i, some true, none⟩⟩ }).map (·.uid) == c.2.2) = true := by
  decide

/-! ## 6. The hypotheses are satisfiable, and the statements discriminate -/

section Examples

/-- revision 11 of package 1 (its own owner reference points to the package) -/
def exRev11 : Parent := { uid := 11, label := "pkg-1", owners := [⟨"pkg-1", ⟨1, some true, some true⟩⟩] }
def exRev10 : Parent := { uid := 10, label := "pkg-1", owners := [⟨"pkg-1", ⟨1, some true, some true⟩⟩] }

/-- `a` is controlled by revision 20 of another package (2); `c` by the previous revision 10 of package 1 -/
def exStore : Store :=
  ⟨[⟨"Composition/a", 1, [⟨20, some true, some true⟩, ⟨2, some false, some true⟩], 1⟩,
    ⟨"Composition/c", 2, [⟨10, some true, some true⟩, ⟨1, some false, some true⟩], 1⟩], 3, []⟩

def exOk : Obj → Bool := fun _ => false
def exAll : Nat → Bool := fun _ => true

example : WF exStore := by
  refine ⟨?_, ?_⟩
  · intro x hx y hy e
    simp [exStore] at hx hy
    rcases hx with rfl | rfl <;> rcases hy with rfl | rfl <;> simp_all
  · intro o ho
    simp [exStore] at ho
    rcases ho with rfl | rfl <;> simp [exStore]

/-- the hypothesis of `all_or_nothing` holds for `a` … -/
example : ForeignControlled exRev11 exStore { key := "Composition/a", body := 7 } :=
  ⟨_, rfl, ⟨20, some true, some true⟩, by simp, rfl, by decide, fun q hq => by
    simp [pkgRef, exRev11] at hq; subst hq; decide⟩

/-- … and indeed nothing is written although `b` alone could have been created … -/
example : establish exOk Fault.none exRev11 true exStore [{ key := "Composition/b", body := 5 }, { key := "Composition/a", body := 7 }] [0, 1] [0, 1]
    = (exStore, .err .notControllable) := by decide

/-- … while without the blocked object the same call does create `b`, controlled by
revision 11 and plainly owned by package 1 (the conclusion is not vacuous). -/
example : (establish exOk Fault.none exRev11 true exStore [{ key := "Composition/b", body := 5 }] [0] [0]).1.objs =
    exStore.objs ++ [⟨"Composition/b", 3, [⟨11, some true, some true⟩, ⟨1, some false, some true⟩], 5⟩] := by decide

/-- An upgrade reconciled "in the wrong order": revision 11 is made active and
reconciled BEFORE the now inactive revision 10 has released `c`. The first
reconcile fails without touching anything (all-or-nothing); after revision 10 was
reconciled (release: controller → false, entry kept) revision 11 takes over. -/
def exEnv : Env := ⟨exOk, Fault.none, [0], [0], [0], exAll, id⟩
def exSys : Sys := ⟨exStore, fun u => if u = 10 then [⟨"Composition/c", true⟩] else []⟩
def exNew : Rev := ⟨exRev11, true, [{ key := "Composition/c", body := 9 }]⟩
def exOld : Rev := ⟨exRev10, false, [{ key := "Composition/c", body := 1 }]⟩

example : (reconcileRev exSys exNew exEnv).1.store = exStore := by decide

example : ((runHistory exSys [(exNew, exEnv), (exOld, exEnv), (exNew, exEnv)]).store.get "Composition/c").map (·.owners) =
    some [⟨10, some false, some true⟩, ⟨1, some false, some true⟩, ⟨11, some true, some true⟩] := by decide

/-- A limit of the guarantee, recorded on purpose: a poorly formed package that
lists the same object twice passes the dry-run phase (each copy is fine on its
own) and then fails half-way. No object is "blocked" in the sense of
`all_or_nothing`, so this is outside the property as worded (the code comments
acknowledge duplicates, crossplane issue 3466). -/
example : establish exOk Fault.none exRev11 true ⟨[], 1, []⟩ [{ key := "Composition/b", body := 5 }, { key := "Composition/b", body := 5 }] [0, 1] [0, 1]
    = (⟨[⟨"Composition/b", 1, [⟨11, some true, some true⟩, ⟨1, some false, some true⟩], 5⟩], 2,
        [⟨.create, "Composition/b", none, true⟩, ⟨.create, "Composition/b", some .alreadyExists, false⟩]⟩,
       .err .alreadyExists) := by decide

end Examples

/-! ## 7. Third-party interference

Sections 1–4 run Establish alone against the API server. Here another client (the
garbage collector, an administrator, another controller) writes in between: after
the validate phase and immediately before each real write of the establish phase
(`Interf`: arbitrary lists of deletions and of creations / replacements of objects
with arbitrary owner references), and, for histories, also between reconciles.
Every theorem below is for ALL stores (`WF`), rejection predicates, fault plans,
completion orders AND all interference.

`tp.Puts a` — the third party put object `a` during this Establish;
`PutBy P o'` — `o'` is (up to its resourceVersion) one of the objects in `P`.

Which of the laws above do NOT survive interference — they are false, not merely
unproved (see the counterexamples at the end of this section):
 * "nothing is deleted / every old object is still present, with all its owner
   entries" (`inactive_never_creates` second half, `release_keeps_owner` first half,
   `history_roles` first clause, `never_collected`): a third party may delete;
 * `establish_success_covers`: Establish can report success although an object it
   wrote has been deleted or replaced since;
 * the exact form "the keys afterwards are the keys before": a third party may add.
What survives is everything about what THE REVISION writes: an inactive revision
issues no create and never becomes controller, only an active revision becomes
controller, the package is a plain owner of whatever the revision wrote, nothing
at all is written when validation fails. -/

/-- The model of sections 1–4 is the special case "nobody interferes" (so every
theorem above is a statement about `establishI … Interf.none`). -/
theorem establishI_no_interference (rejects : Obj → Bool) (fault : Fault) (p : Parent) (control : Bool)
    (s : Store) (objs : List Desired) (vorder eorder : List Nat) (sys : Sys) (r : Rev) (e : Env)
    (h : List (Rev × Env)) :
    establishI rejects fault Interf.none p control s objs vorder eorder =
      establish rejects fault p control s objs vorder eorder ∧
    reconcileRevI sys r e Interf.none = reconcileRev sys r e ∧
    runHistoryI sys (h.map fun x => ⟨[], x.1, x.2, Interf.none⟩) = runHistory sys h :=
  ⟨establishI_none _ _ _ _ _ _ _ _, reconcileRevI_none _ _ _, runHistoryI_none _ _⟩

/-- **All or nothing, under interference**: with a blocked object (as in
`all_or_nothing`) Establish fails and the store and the revision's write log are
exactly what they were — the establish phase, and with it every interleaving with
it, is never reached. -/
theorem all_or_nothing_interf (rejects : Obj → Bool) (fault : Fault) (tp : Interf) (p : Parent) (control : Bool)
    (s : Store) (objs : List Desired) (vorder eorder : List Nat)
    (j : Nat) (d : Desired) (hd : objs[j]? = some d) (hj : j ∈ vorder)
    (hb : (control = true ∧ ForeignControlled p s d) ∨
          (∃ o, submission p control s d = some o ∧ rejects o = true) ∨
          (control = true ∧ d.needsCA = true ∧ p.tls ≠ .present)) :
    (establishI rejects fault tp p control s objs vorder eorder).1 = s ∧
    ∀ refs, (establishI rejects fault tp p control s objs vorder eorder).2 ≠ .ok refs := by
  have hone : (validateOne rejects fault p control s j d).2.failed := by
    rcases hb with h | h | ⟨hc, hn, ht⟩
    · exact validateOne_blocked rejects fault p control s j d (Or.inl h)
    · exact validateOne_blocked rejects fault p control s j d (Or.inr h)
    · subst hc; exact validateOne_needsCA rejects fault p s j d hn ht
  have hs := validateAll_store rejects fault p control s (pick objs vorder)
  have hf := validateAll_failed rejects fault p control s (pick objs vorder) j d
    (mem_pick objs vorder j d hd hj) hone
  unfold establishI
  split
  · exact ⟨rfl, fun _ h => by cases h⟩
  · exact ⟨rfl, fun _ h => by cases h⟩
  · unfold establishCoreI
    split <;> rename_i heq <;> rw [heq] at hs hf
    · exact absurd hf (by simp [R.failed])
    · exact ⟨hs, fun _ h => by cases h⟩
    · exact ⟨hs, fun _ h => by cases h⟩

/-- **An inactive revision never creates anything, whoever interferes**: every
object present after Establish(control = false) has a key that was present before,
or is an object the third party put; and the revision's own non-dry-run writes
(the log grows by `new`) are updates only — it does not even attempt a create. -/
theorem inactive_never_creates_interf (rejects : Obj → Bool) (fault : Fault) (tp : Interf) (p : Parent)
    (s : Store) (objs : List Desired) (vorder eorder : List Nat) (hw : WF s) :
    let s' := (establishI rejects fault tp p false s objs vorder eorder).1
    (∀ o' ∈ s'.objs, (∃ o ∈ s.objs, o.key = o'.key) ∨ PutBy tp.Puts o') ∧
    (∃ new, s'.log = s.log ++ new ∧ ∀ e ∈ new, e.verb = .update) := by
  refine ⟨fun o' ho' => ?_, ?_⟩
  · cases (establishI_inv rejects fault tp p false s objs vorder eorder hw).objs o' ho' with
    | same h => exact Or.inl ⟨o', h, rfl⟩
    | rewritten o ho hk _ => exact Or.inl ⟨o, ho, hk⟩
    | created c => exact absurd c.active (by simp)
    | third t => exact Or.inr t
  · obtain ⟨new, he, hn⟩ := establishI_log rejects fault tp p false s objs vorder eorder
    exact ⟨new, he, fun e h => (hn e h).resolve_right (by simp)⟩

/-- **An inactive revision never becomes controller, whoever interferes**: a
controller reference (of any uid, the revision's included) on an object after
Establish(control = false) was on the object of that key before, or the object is
one the third party put. -/
theorem inactive_never_controls_interf (rejects : Obj → Bool) (fault : Fault) (tp : Interf) (p : Parent)
    (s : Store) (objs : List Desired) (vorder eorder : List Nat) (hw : WF s) :
    ∀ o' ∈ (establishI rejects fault tp p false s objs vorder eorder).1.objs, ∀ u, ctrl o'.owners u →
      (∃ o ∈ s.objs, o.key = o'.key ∧ ctrl o.owners u) ∨ PutBy tp.Puts o' := by
  intro o' ho' u hu
  cases (establishI_inv rejects fault tp p false s objs vorder eorder hw).objs o' ho' with
  | same h => exact Or.inl ⟨o', h, rfl, hu⟩
  | rewritten o ho hk q =>
    rcases q.ctrls u hu with h | ⟨h, _⟩
    · exact Or.inl ⟨o, ho, hk, h⟩
    · cases h
  | created c => exact absurd c.active (by simp)
  | third t => exact Or.inr t

/-- **An inactive revision is at most a plain owner, whoever interferes**: every
object after Establish(control = false) is untouched, or the third party's, or an
old object with the same content, no owner entry dropped, no new controller, and
the revision present as a plain owner reference. -/
theorem inactive_plain_owner_interf (rejects : Obj → Bool) (fault : Fault) (tp : Interf) (p : Parent)
    (s : Store) (objs : List Desired) (vorder eorder : List Nat) (hw : WF s) :
    ∀ o' ∈ (establishI rejects fault tp p false s objs vorder eorder).1.objs,
      o' ∈ s.objs ∨ PutBy tp.Puts o' ∨
      ∃ o ∈ s.objs, o.key = o'.key ∧ o'.body = o.body ∧ asOwner p ∈ o'.owners ∧
        (∀ u, hasUid o.owners u → hasUid o'.owners u) ∧ (∀ u, ctrl o'.owners u → ctrl o.owners u) := by
  intro o' ho'
  cases (establishI_inv rejects fault tp p false s objs vorder eorder hw).objs o' ho' with
  | same h => exact Or.inl h
  | rewritten o ho hk q =>
    refine Or.inr (Or.inr ⟨o, ho, hk, q.body rfl, q.mine, q.uids, fun u hu => ?_⟩)
    rcases q.ctrls u hu with h | ⟨h, _⟩
    · exact h
    · cases h
  | created c => exact absurd c.active (by simp)
  | third t => exact Or.inr (Or.inl t)

/-- **Only an active revision becomes controller, whoever interferes** (both roles in
one statement): a controller reference on an object after Establish was on the
object of that key before, or the object is one the third party put, or the
reference is the parent's and the parent is active. -/
theorem only_active_controls_interf (rejects : Obj → Bool) (fault : Fault) (tp : Interf) (p : Parent) (control : Bool)
    (s : Store) (objs : List Desired) (vorder eorder : List Nat) (hw : WF s) :
    ∀ o' ∈ (establishI rejects fault tp p control s objs vorder eorder).1.objs, ∀ u, ctrl o'.owners u →
      (∃ o ∈ s.objs, o.key = o'.key ∧ ctrl o.owners u) ∨ PutBy tp.Puts o' ∨ (control = true ∧ u = p.uid) := by
  intro o' ho' u hu
  cases (establishI_inv rejects fault tp p control s objs vorder eorder hw).objs o' ho' with
  | same h => exact Or.inl ⟨o', h, rfl, hu⟩
  | rewritten o ho hk q =>
    rcases q.ctrls u hu with h | h
    · exact Or.inl ⟨o, ho, hk, h⟩
    · exact Or.inr (Or.inr h)
  | created c => exact Or.inr (Or.inr ⟨c.active, c.ctrls u hu⟩)
  | third t => exact Or.inr (Or.inl t)

/-- **An active revision controls what it writes, whoever interferes**: every object
after Establish(control = true) is untouched, or the third party's, or carries the
parent's controller reference as its only controller. -/
theorem active_controls_interf (rejects : Obj → Bool) (fault : Fault) (tp : Interf) (p : Parent)
    (s : Store) (objs : List Desired) (vorder eorder : List Nat) (hw : WF s) :
    ∀ o' ∈ (establishI rejects fault tp p true s objs vorder eorder).1.objs,
      o' ∈ s.objs ∨ PutBy tp.Puts o' ∨
      (asController p ∈ o'.owners ∧ ∀ u, ctrl o'.owners u → u = p.uid) := by
  intro o' ho'
  cases (establishI_inv rejects fault tp p true s objs vorder eorder hw).objs o' ho' with
  | same h => exact Or.inl h
  | rewritten o ho hk q =>
    refine Or.inr (Or.inr ⟨q.mine, fun u ⟨r, hr, hu, hc⟩ => ?_⟩)
    have := ctrl_unique _ r (asController p) q.valid hr q.mine hc rfl
    rw [← hu, this]; rfl
  | created c => exact Or.inr (Or.inr ⟨c.mine, c.ctrls⟩)
  | third t => exact Or.inr (Or.inl t)

/-- **The revision's writes never drop an owner entry, whoever interferes** (the
master classification, `Origin` in Xp/Proofs/C16Interf.lean): every object after
Establish is an untouched object of the initial store; or such an object rewritten
within the role law `QE` (same key, every owner entry kept, no new controller
except an active parent, content kept by an inactive parent, parent and package
present, at most one controller); or an object created within `CE` (active parent
only; controlled by the parent alone); or an object the third party put. The
resulting store is well formed. -/
theorem establish_interf_origin (rejects : Obj → Bool) (fault : Fault) (tp : Interf) (p : Parent) (control : Bool)
    (s : Store) (objs : List Desired) (vorder eorder : List Nat) (hw : WF s) :
    WF (establishI rejects fault tp p control s objs vorder eorder).1 ∧
    ∀ o' ∈ (establishI rejects fault tp p control s objs vorder eorder).1.objs, Origin p control tp.Puts s.objs o' :=
  ⟨(establishI_inv rejects fault tp p control s objs vorder eorder hw).wf,
   (establishI_inv rejects fault tp p control s objs vorder eorder hw).objs⟩

/-- **The package is a plain owner of whatever the revision wrote, whoever
interferes**: every object after Establish is untouched, or the third party's, or
carries the package reference `q` with controller=false. -/
theorem package_is_plain_owner_interf (rejects : Obj → Bool) (fault : Fault) (tp : Interf) (p : Parent) (control : Bool)
    (s : Store) (objs : List Desired) (vorder eorder : List Nat) (hw : WF s)
    (q : ORef) (hq : pkgRef p = some q) (hne : q.uid ≠ p.uid) :
    ∀ o' ∈ (establishI rejects fault tp p control s objs vorder eorder).1.objs,
      o' ∈ s.objs ∨ PutBy tp.Puts o' ∨ (q ∈ o'.owners ∧ q.controller = some false) := by
  intro o' ho'
  cases (establishI_inv rejects fault tp p control s objs vorder eorder hw).objs o' ho' with
  | same h => exact Or.inl h
  | rewritten o ho hk qe => exact Or.inr (Or.inr ⟨qe.pkg q hq hne, pkgRef_controller p q hq⟩)
  | created c => exact Or.inr (Or.inr ⟨c.pkg q hq hne, pkgRef_controller p q hq⟩)
  | third t => exact Or.inr (Or.inl t)

/-- **Reconciling an inactive revision under interference** (ReleaseObjects, then
Establish(control=false) with the third party writing in between): no object
appears that was not there or put by the third party, and no controller reference
appears that was not there or written by the third party. -/
theorem inactive_reconcile_interf (sys : Sys) (r : Rev) (e : Env) (tp : Interf)
    (hw : WF sys.store) (hr : r.active = false) :
    ∀ o' ∈ (reconcileRevI sys r e tp).1.store.objs,
      ((∃ o ∈ sys.store.objs, o.key = o'.key) ∨ (∃ a, tp.Puts a ∧ a.key = o'.key)) ∧
      ∀ u, ctrl o'.owners u →
        (∃ o ∈ sys.store.objs, o.key = o'.key ∧ ctrl o.owners u) ∨ (∃ a, tp.Puts a ∧ a.key = o'.key ∧ ctrl a.owners u) := by
  intro o' ho'
  have g := ((GInv.init sys.store (fun _ => False) tp.Puts hw).reconcile r e tp
    (fun ha => by rw [hr] at ha; cases ha) (fun _ h => h)).good o' ho'
  constructor
  · rcases g.origin with h | h | ⟨_, hf, _⟩
    · exact Or.inl h
    · exact Or.inr h
    · exact hf.elim
  · intro u hu
    rcases g.ctrls u hu with h | hf | h
    · exact Or.inl h
    · exact hf.elim
    · exact Or.inr h

/-- **History corollary under interference** (induction over the history). Any
sequence of reconciles of any revisions in any roles, under any faults and orders,
with the third party writing before every reconcile and inside every Establish.
Comparing the final store with the initial one:
 * a controller reference at the end was on the object of that key at the start,
   or belongs to a revision reconciled as *active* in the history, or was written
   by the third party;
 * an object at the end has a key present at the start, or a key the third party
   put, or is owned by a revision that was reconciled as active — inactive
   revisions never add an object;
 * the store is still well formed. -/
theorem history_roles_interf (sys : Sys) (h : List HStep) (hw : WF sys.store) :
    let s' := (runHistoryI sys h).store
    WF s' ∧
    (∀ o' ∈ s'.objs, ∀ u, ctrl o'.owners u →
        (∃ o ∈ sys.store.objs, o.key = o'.key ∧ ctrl o.owners u) ∨ ActiveInI h u ∨
        (∃ a, PutsIn h a ∧ a.key = o'.key ∧ ctrl a.owners u)) ∧
    (∀ o' ∈ s'.objs, (∃ o ∈ sys.store.objs, o.key = o'.key) ∨ (∃ a, PutsIn h a ∧ a.key = o'.key) ∨
        (∃ u, ActiveInI h u ∧ hasUid o'.owners u)) := by
  have g := runHistoryI_ginv sys.store.objs (ActiveInI h) (PutsIn h) h sys (fun _ h => h) (fun _ h => h)
    (GInv.init sys.store _ _ hw)
  exact ⟨g.wf, fun o' ho' => (g.good o' ho').ctrls, fun o' ho' => (g.good o' ho').origin⟩

/-- **A package never becomes a controller, whoever interferes**: if no revision
reconciled in the history has the uid `q`, `q` controls nothing initially and the
third party never writes a controller reference for `q`, then `q` controls nothing
afterwards. -/
theorem package_never_controller_interf (sys : Sys) (h : List HStep) (hw : WF sys.store) (q : Nat)
    (hq : ∀ x ∈ h, x.rev.parent.uid ≠ q) (h0 : ∀ o ∈ sys.store.objs, ¬ ctrl o.owners q)
    (hp : ∀ a, PutsIn h a → ¬ ctrl a.owners q) :
    ∀ o' ∈ (runHistoryI sys h).store.objs, ¬ ctrl o'.owners q := by
  intro o' ho' hc
  rcases (history_roles_interf sys h hw).2.1 o' ho' q hc with ⟨o, ho, _, hco⟩ | ⟨x, hx, _, hxu⟩ | ⟨a, ha, _, hca⟩
  · exact h0 o ho hco
  · exact hq x hx hxu
  · exact hp a ha hca

section InterfExamples

/-- the third party deletes `Composition/c` right before the real write of object 0 -/
def exGone : Interf := { pre := fun i => if i = 0 then [.del "Composition/c"] else [] }

/-- **The seeded situation**: revision 11 is inactive and was never active;
`Composition/c` exists (controlled by revision 10) when it is validated and is
deleted before the real update. The update fails with NotFound, the revision
issues no create, the object stays gone — and the law "every old object is still
present" (`inactive_never_creates`, second half) is indeed false under interference. -/
example : establishI exOk Fault.none exGone exRev11 false exStore [{ key := "Composition/c", body := 1 }] [0] [0]
    = (⟨[⟨"Composition/a", 1, [⟨20, some true, some true⟩, ⟨2, some false, some true⟩], 1⟩], 3,
        [⟨.update, "Composition/c", some .notFound, false⟩]⟩, .err .notFound) := by decide

/-- without the deletion the same call makes revision 11 a plain owner of `c` (the
statements above are not vacuous: the revision does write) -/
example : ((establishI exOk Fault.none Interf.none exRev11 false exStore [{ key := "Composition/c", body := 1 }] [0] [0]).1.get "Composition/c").map (·.owners)
    = some [⟨10, some true, some true⟩, ⟨1, some false, some true⟩, ⟨11, none, none⟩] := by decide

/-- `c` released by revision 10; the active revision 11 establishes `c` and `b` -/
def exStore2 : Store := ⟨[⟨"Composition/c", 1, [⟨10, some false, some true⟩, ⟨1, some false, some true⟩], 1⟩], 2, []⟩

/-- `establish_success_covers` is false under interference: revision 11 takes `c` over,
the third party deletes `c` before `b` is created, Establish reports success for
both objects, and `c` is gone. -/
example :
    let r := establishI exOk Fault.none { pre := fun i => if i = 1 then [.del "Composition/c"] else [] }
      exRev11 true exStore2 [{ key := "Composition/c", body := 9 }, { key := "Composition/b", body := 5 }] [0, 1] [0, 1]
    r.2 = .ok [⟨"Composition/c", true⟩, ⟨"Composition/b", false⟩] ∧ r.1.get "Composition/c" = none ∧
    (r.1.get "Composition/b").map (·.owners) = some [⟨11, some true, some true⟩, ⟨1, some false, some true⟩] := by decide

/-- a third party re-creates `c` (now controlled by a foreign owner 90) between the two
phases: the inactive revision's update carries the resourceVersion it validated and
is refused with a conflict; the object remains exactly what the third party put. -/
example : establishI exOk Fault.none { mid := [.put ⟨"Composition/c", 0, [⟨90, some true, none⟩], 4⟩] }
      exRev11 false exStore2 [{ key := "Composition/c", body := 1 }] [0] [0]
    = (⟨[⟨"Composition/c", 2, [⟨90, some true, none⟩], 4⟩], 3, [⟨.update, "Composition/c", some .conflict, false⟩]⟩,
       .err .conflict) := by decide

end InterfExamples

/-! ## 8. `status.objectRefs` and deactivation

"Deactivation gives up control" rests on `status.objectRefs`: `ReleaseObjects` walks
that list and nothing else, and the reconciler of an inactive revision stops right
after it when the list is not empty. So the list must never lose an object the
revision controls. Vocabulary (Xp/Proofs/C16Refs.lean):
  `Listed sys u`      — every object revision `u` controls is in `sys.refs u`
  `Stable sys u K`    — `Listed sys u`, and every package key (`K`) is in `sys.refs u`
                        (what a healthy revision has after a successful reconcile)
  `NotCtrlBy o u`     — `u`'s owner entry on `o` (the first with its uid, as the code
                        looks it up), if any, is not a controller reference
  `BenignStep`/`Benign` — the steps of a history are reconciles of other revisions,
                        inactive reconciles, or FAILED reconciles of `u` over its package -/

/-- **`status.objectRefs` is only replaced by a successful Establish**, whoever
interferes: a reconcile that does not end in success (validation failure, an API
error or a crash at any call, including a real write of the establish phase after a
clean validation) leaves the lists of ALL revisions exactly as they were; and a
reconcile never touches the list of another revision. -/
theorem failed_establish_keeps_object_refs (sys : Sys) (r : Rev) (e : Env) (tp : Interf) :
    ((reconcileRevI sys r e tp).2 ≠ .ok () → (reconcileRevI sys r e tp).1.refs = sys.refs) ∧
    (∀ v, v ≠ r.parent.uid → (reconcileRevI sys r e tp).1.refs v = sys.refs v) :=
  reconcileRevI_refs sys r e tp

/-- **Establish writes objects of the package only**: an object of the store after
Establish is an untouched old object or has the key of a package object. -/
theorem establish_writes_package_objects_only (rejects : Obj → Bool) (fault : Fault) (p : Parent) (control : Bool)
    (s : Store) (objs : List Desired) (vorder eorder : List Nat) :
    ∀ o' ∈ (establish rejects fault p control s objs vorder eorder).1.objs,
      o' ∈ s.objs ∨ ∃ d ∈ objs, d.key = o'.key :=
  establish_keys rejects fault p control s objs vorder eorder

/-- **A successful inactive reconcile gives up all control** (under interference): if
everything the revision controls is listed in its `status.objectRefs` and every
ReleaseObjects goroutine is in the completion order, then after a reconcile of the
inactive revision that reports success, the revision is the controller of no
object (objects put by the third party aside). -/
theorem inactive_reconcile_gives_up_control (sys sys' : Sys) (r : Rev) (e : Env) (tp : Interf)
    (hw : WF sys.store) (hr : r.active = false) (hl : Listed sys r.parent.uid)
    (ho : ∀ j, j < (sys.refs r.parent.uid).length → j ∈ e.rorder)
    (h : reconcileRevI sys r e tp = (sys', .ok ())) :
    ∀ o' ∈ sys'.store.objs, PutBy tp.Puts o' ∨ NotCtrlBy o' r.parent.uid :=
  reconcileRevI_released sys sys' r e tp hw hr hl ho h

/-- **A healthy revision stays fully listed** (induction over the history): `Stable`
survives every history made of reconciles of other revisions (upgrades, rollbacks,
competing packages), inactive reconciles, and *failed* active reconciles of the
revision itself over its package — under every fault plan and goroutine order. -/
theorem healthy_revision_stays_listed (sys : Sys) (h : List (Rev × Env)) (hw : WF sys.store)
    (u : Nat) (K : String → Prop) (hs : Stable sys u K) (hb : Benign u K sys h) :
    WF (runHistory sys h).store ∧ Stable (runHistory sys h) u K :=
  stable_history sys h hw u K hs hb

/-- **History theorem: after a successful release the revision controls nothing.**
Take a healthy revision `u` (`Stable`), any benign history `h` (in particular: one
or more reconciles of `u` that pass validation and fail at a real write; the
package manager activating another revision; that revision being reconciled first
or later), and then a reconcile of `u` as inactive that reports success. Afterwards
`u` is the controller of no object at all — so the next active revision can take
every object over. -/
theorem deactivation_gives_up_control_history (sys sys' : Sys) (h : List (Rev × Env)) (hw : WF sys.store)
    (K : String → Prop) (r : Rev) (e : Env) (hs : Stable sys r.parent.uid K) (hb : Benign r.parent.uid K sys h)
    (hr : r.active = false)
    (ho : ∀ j, j < ((runHistory sys h).refs r.parent.uid).length → j ∈ e.rorder)
    (hok : reconcileRev (runHistory sys h) r e = (sys', .ok ())) :
    ∀ o' ∈ sys'.store.objs, NotCtrlBy o' r.parent.uid := by
  have ⟨hw1, hs1⟩ := stable_history sys h hw r.parent.uid K hs hb
  intro o' ho'
  rw [← reconcileRevI_none] at hok
  rcases reconcileRevI_released _ sys' r e Interf.none hw1 hr hs1.listed ho hok o' ho' with ⟨a, ha, _⟩ | h1
  · rcases ha with ha | ⟨_, ha⟩ <;> cases ha
  · exact h1

section RefsExamples

/-- revision 10 is active and healthy: it controls `b` and `c`, both listed -/
def exStore3 : Store :=
  ⟨[⟨"Composition/b", 1, [⟨10, some true, some true⟩, ⟨1, some false, some true⟩], 1⟩,
    ⟨"Composition/c", 2, [⟨10, some true, some true⟩, ⟨1, some false, some true⟩], 1⟩], 3, []⟩
def exSys3 : Sys := ⟨exStore3, fun u => if u = 10 then [⟨"Composition/b", true⟩, ⟨"Composition/c", true⟩] else []⟩
def exPkg : List Desired := [{ key := "Composition/b", body := 1 }, { key := "Composition/c", body := 1 }]
def exEnv2 : Env := ⟨exOk, Fault.none, [0, 1], [0, 1], [0, 1], exAll, id⟩
/-- validation passes, the REAL update of the second object is answered with an API error -/
def exEnvFail : Env := { exEnv2 with fault := fun i ph => if i = 1 ∧ ph = .real then .fail else .ok }

/-- the hypotheses of `deactivation_gives_up_control_history` hold for this state and the
history "one reconcile that fails at a real write" … -/
example : Stable exSys3 10 (fun k => k = "Composition/b" ∨ k = "Composition/c") := by
  refine ⟨?_, ?_⟩
  · intro o ho _
    simp [exSys3, exStore3] at ho
    rcases ho with rfl | rfl <;> simp [exSys3]
  · intro key hk
    rcases hk with rfl | rfl <;> simp [exSys3]

example : (reconcileRev exSys3 ⟨exRev10, true, exPkg⟩ exEnvFail).2 = .err .other := by decide

/-- … the failed reconcile keeps the list, the release then covers both objects, and
revision 10 ends up as plain owner of both (the conclusion is reached, not vacuous) -/
example :
    let sys1 := (reconcileRev exSys3 ⟨exRev10, true, exPkg⟩ exEnvFail).1
    let sys2 := (reconcileRev sys1 ⟨exRev10, false, exPkg⟩ exEnv2)
    sys1.refs 10 = [⟨"Composition/b", true⟩, ⟨"Composition/c", true⟩] ∧ sys2.2 = .ok () ∧
    sys2.1.store.objs.map (·.owners) =
      [[⟨10, some false, some true⟩, ⟨1, some false, some true⟩], [⟨10, some false, some true⟩, ⟨1, some false, some true⟩]] := by
  decide

/-- `Listed` is what the guarantee needs: were the list to lose `c` (what recording a
partial list after the failed reconcile would do), the same inactive reconcile would
still report success and revision 10 would remain the controller of `c`. -/
example :
    let sys2 := reconcileRev ⟨exStore3, fun u => if u = 10 then [⟨"Composition/b", true⟩] else []⟩ ⟨exRev10, false, exPkg⟩ exEnv2
    sys2.2 = .ok () ∧ (sys2.1.store.get "Composition/c").map (·.owners) =
      some [⟨10, some true, some true⟩, ⟨1, some false, some true⟩] := by
  decide

end RefsExamples

/-! ## 9. The world: interference during validation and inside ReleaseObjects, cached reads

Section 7 lets the third party write after the validate phase. Here (`Model/C16World.lean`)
it also writes DURING the validate phase — immediately before the Get of the goroutine of any
object and between that Get and the dry-run write of the same goroutine, so an object
validated later sees a different store than one validated earlier — and INSIDE ReleaseObjects —
before the Get of a reference's goroutine and between that Get and its Update. The Get of the
validate phase is a cached read (`VInterf.stale`): it may miss an object that exists or serve
an older version; the reconciler's Get of the revision itself may serve an older
`status.objectRefs` (`World.staleRefs`; every write of the revision object is then refused). Every theorem is for ALL well-formed stores,
rejection predicates, fault plans, completion orders, interference (`VInterf`, `Interf`,
`RInterf`) and staleness; the only hypothesis on the cache (`StaleOK`) is that what it serves
is a VERSION: an object of the key asked for whose resourceVersion was handed out before the
call and names that content (`Seen`).

`EPuts vi tp a` / `ri.Puts a` / `w.Puts a` — the third party put `a` during this Establish /
ReleaseObjects / reconcile. What is new compared with section 7: the revision can now
legitimately REWRITE an object the third party put (it validated it after the put), case
`rethird` of `OriginV`; the role laws hold for that rewrite relative to what the third party
put. -/

/-- Sections 1–8 are the special case "nobody interferes during validation or release, and
the cache is up to date". -/
theorem world_no_interference (rejects : Obj → Bool) (fault : Fault) (tp : Interf) (p : Parent) (control : Bool)
    (s : Store) (objs : List Desired) (vorder eorder : List Nat) (ran : Nat → Bool) (refs : List Ref)
    (order : List Nat) (sys : Sys) (r : Rev) (e : Env) (h : List HStep) :
    establishV rejects fault VInterf.none tp p control s objs vorder eorder =
      establishI rejects fault tp p control s objs vorder eorder ∧
    releaseV rejects fault RInterf.none p ran s refs order = release rejects fault p ran s refs order ∧
    reconcileRevV sys r e { e := tp } = reconcileRevI sys r e tp ∧
    runHistoryV sys (h.map fun x => ⟨x.before, x.rev, x.env, { e := x.tp }⟩) = runHistoryI sys h :=
  ⟨establishV_none _ _ _ _ _ _ _ _ _, releaseV_none _ _ _ _ _ _ _, reconcileRevV_none _ _ _ _, runHistoryV_none _ _⟩

/-- **The validate phase writes nothing, whoever interferes and whatever the cache serves**:
the store it ends in is well formed, the revision's log of non-dry-run writes is unchanged,
and every object is an object of the initial store or one the third party put. -/
theorem validate_writes_nothing_world (rejects : Obj → Bool) (fault : Fault) (vi : VInterf) (p : Parent) (control : Bool)
    (s : Store) (xs : List (Nat × Desired)) (hw : WF s) :
    let s' := (validateAllV rejects fault vi p control s xs).1
    WF s' ∧ s'.log = s.log ∧ ∀ o ∈ s'.objs, o ∈ s.objs ∨ PutBy vi.Puts o :=
  have h := validateAllV_writes_nothing rejects fault vi p control s xs hw
  ⟨h.wf, h.log, h.objs⟩

/-- **Any failure of the validate phase leaves the revision's hands clean** — a rejection, a
foreign controller, a transient error or crash, and also: a Conflict / AlreadyExists / NotFound
at a dry run because the third party wrote between the Get and the dry run, or because the
cache served a stale version or missed the object. Establish then fails, has issued no
non-dry-run write, and the store differs from the initial one by third-party writes only. -/
theorem failed_validation_writes_nothing_world (rejects : Obj → Bool) (fault : Fault) (vi : VInterf) (tp : Interf)
    (p : Parent) (control : Bool) (s : Store) (objs : List Desired) (vorder eorder : List Nat) (hw : WF s)
    (hf : (validateAllV rejects fault vi p control s (pick objs vorder)).2.failed) :
    let r := establishV rejects fault vi tp p control s objs vorder eorder
    (∀ refs, r.2 ≠ .ok refs) ∧ r.1.log = s.log ∧ ∀ o ∈ r.1.objs, o ∈ s.objs ∨ PutBy vi.Puts o :=
  have h := establishV_validate_failed rejects fault vi tp p control s objs vorder eorder hw hf
  ⟨h.2, h.1.log, h.1.objs⟩

/-- **All or nothing in the world.** If some object of the package is blocked (as in
`all_or_nothing`), its goroutine's read is not stale, and the third party's validate-phase
writes leave that object's key alone — whatever it does to every other object, whenever —
then Establish fails and the revision writes nothing (not even an attempt), although objects
validated before and after it may have met different stores. -/
theorem all_or_nothing_world (rejects : Obj → Bool) (fault : Fault) (vi : VInterf) (tp : Interf) (p : Parent) (control : Bool)
    (s : Store) (objs : List Desired) (vorder eorder : List Nat) (hw : WF s)
    (j : Nat) (d : Desired) (hd : objs[j]? = some d) (hj : j ∈ vorder)
    (hq : vi.Quiet d.key) (hs : vi.stale j = none)
    (hb : (control = true ∧ ForeignControlled p s d) ∨
          (∃ o, submission p control s d = some o ∧ rejects o = true) ∨
          (control = true ∧ d.needsCA = true ∧ p.tls ≠ .present)) :
    let r := establishV rejects fault vi tp p control s objs vorder eorder
    (∀ refs, r.2 ≠ .ok refs) ∧ r.1.log = s.log ∧ ∀ o ∈ r.1.objs, o ∈ s.objs ∨ PutBy vi.Puts o :=
  failed_validation_writes_nothing_world rejects fault vi tp p control s objs vorder eorder hw
    (validateAllV_failed rejects fault vi p control s (pick objs vorder) j d (mem_pick objs vorder j d hd hj) hq hs hb)

/-- **Master classification in the world** (`OriginV`): every object after Establish is an
untouched object of the initial store; such an object rewritten by the revision within the role
law `QE`; an object created within `CE` (active parent only); an object the third party put; or
an object the third party put that the revision then rewrote within `QE`. The resulting store
is well formed. -/
theorem establish_world_origin (rejects : Obj → Bool) (fault : Fault) (vi : VInterf) (tp : Interf) (p : Parent) (control : Bool)
    (s : Store) (objs : List Desired) (vorder eorder : List Nat) (hw : WF s)
    (hst : StaleOK s vi (pick objs vorder)) :
    WF (establishV rejects fault vi tp p control s objs vorder eorder).1 ∧
    ∀ o' ∈ (establishV rejects fault vi tp p control s objs vorder eorder).1.objs,
      OriginV p control (EPuts vi tp) s.objs o' :=
  have h := establishV_inv rejects fault vi tp p control s objs vorder eorder hw hst
  ⟨h.wf, h.objs⟩

/-- **An inactive revision never creates anything, in the world**: every object present after
Establish(control = false) has a key that was present before or that the third party put; and
the revision's own non-dry-run writes are updates only — it does not even attempt a create,
whatever a stale or missing cache entry made it believe. -/
theorem inactive_never_creates_world (rejects : Obj → Bool) (fault : Fault) (vi : VInterf) (tp : Interf) (p : Parent)
    (s : Store) (objs : List Desired) (vorder eorder : List Nat) (hw : WF s)
    (hst : StaleOK s vi (pick objs vorder)) :
    let s' := (establishV rejects fault vi tp p false s objs vorder eorder).1
    (∀ o' ∈ s'.objs, (∃ o ∈ s.objs, o.key = o'.key) ∨ (∃ a, EPuts vi tp a ∧ a.key = o'.key)) ∧
    (∃ new, s'.log = s.log ++ new ∧ ∀ e ∈ new, e.verb = .update) := by
  refine ⟨fun o' ho' => ?_, ?_⟩
  · cases (establishV_inv rejects fault vi tp p false s objs vorder eorder hw hst).objs o' ho' with
    | same h => exact Or.inl ⟨o', h, rfl⟩
    | rewritten o ho hk _ => exact Or.inl ⟨o, ho, hk⟩
    | created c => exact absurd c.active (by simp)
    | third t => obtain ⟨a, ha, hk, _⟩ := t; exact Or.inr ⟨a, ha, hk.symm⟩
    | rethird o t hk _ => obtain ⟨a, ha, hka, _⟩ := t; exact Or.inr ⟨a, ha, hka.symm.trans hk⟩
  · obtain ⟨new, he, hn⟩ := establishV_log rejects fault vi tp p false s objs vorder eorder hw
    exact ⟨new, he, fun e h => (hn e h).resolve_right (by simp)⟩

/-- **Only an active revision becomes controller, in the world** (both roles in one statement):
a controller reference on an object after Establish was on the object of that key before, or
on an object of that key the third party put, or it is the parent's and the parent is active. -/
theorem only_active_controls_world (rejects : Obj → Bool) (fault : Fault) (vi : VInterf) (tp : Interf) (p : Parent) (control : Bool)
    (s : Store) (objs : List Desired) (vorder eorder : List Nat) (hw : WF s)
    (hst : StaleOK s vi (pick objs vorder)) :
    ∀ o' ∈ (establishV rejects fault vi tp p control s objs vorder eorder).1.objs, ∀ u, ctrl o'.owners u →
      (∃ o ∈ s.objs, o.key = o'.key ∧ ctrl o.owners u) ∨
      (∃ a, EPuts vi tp a ∧ a.key = o'.key ∧ ctrl a.owners u) ∨ (control = true ∧ u = p.uid) := by
  intro o' ho' u hu
  cases (establishV_inv rejects fault vi tp p control s objs vorder eorder hw hst).objs o' ho' with
  | same h => exact Or.inl ⟨o', h, rfl, hu⟩
  | rewritten o ho hk q =>
    rcases q.ctrls u hu with h | h
    · exact Or.inl ⟨o, ho, hk, h⟩
    · exact Or.inr (Or.inr h)
  | created c => exact Or.inr (Or.inr ⟨c.active, c.ctrls u hu⟩)
  | third t => obtain ⟨a, ha, hk, hown, _⟩ := t; exact Or.inr (Or.inl ⟨a, ha, hk.symm, hown ▸ hu⟩)
  | rethird o t hk q =>
    obtain ⟨a, ha, hka, hown, _⟩ := t
    rcases q.ctrls u hu with h | h
    · exact Or.inr (Or.inl ⟨a, ha, hka.symm.trans hk, hown ▸ h⟩)
    · exact Or.inr (Or.inr h)

/-- **An inactive revision is at most a plain owner, in the world**: every object after
Establish(control = false) is untouched, or the third party's, or a rewrite of an object `o` —
of the initial store or put by the third party — with the same content, no owner entry
dropped, no new controller, the revision present as a plain owner reference, and the
revision's own entry (the first with its uid) not a controller reference. -/
theorem inactive_plain_owner_world (rejects : Obj → Bool) (fault : Fault) (vi : VInterf) (tp : Interf) (p : Parent)
    (s : Store) (objs : List Desired) (vorder eorder : List Nat) (hw : WF s)
    (hst : StaleOK s vi (pick objs vorder)) :
    ∀ o' ∈ (establishV rejects fault vi tp p false s objs vorder eorder).1.objs,
      o' ∈ s.objs ∨ PutBy (EPuts vi tp) o' ∨
      ∃ o, (o ∈ s.objs ∨ PutBy (EPuts vi tp) o) ∧ o.key = o'.key ∧ o'.body = o.body ∧ asOwner p ∈ o'.owners ∧
        (∀ u, hasUid o.owners u → hasUid o'.owners u) ∧ (∀ u, ctrl o'.owners u → ctrl o.owners u) ∧
        NotCtrlBy o' p.uid := by
  intro o' ho'
  have key : ∀ o, QE p false o o' → o'.body = o.body ∧ asOwner p ∈ o'.owners ∧
      (∀ u, hasUid o.owners u → hasUid o'.owners u) ∧ (∀ u, ctrl o'.owners u → ctrl o.owners u) ∧
      NotCtrlBy o' p.uid := by
    intro o q
    refine ⟨q.body rfl, q.mine, q.uids, fun u hu => ?_, q.released rfl⟩
    rcases q.ctrls u hu with h | ⟨h, _⟩
    · exact h
    · cases h
  cases (establishV_inv rejects fault vi tp p false s objs vorder eorder hw hst).objs o' ho' with
  | same h => exact Or.inl h
  | rewritten o ho hk q => exact Or.inr (Or.inr ⟨o, Or.inl ho, hk, key o q⟩)
  | created c => exact absurd c.active (by simp)
  | third t => exact Or.inr (Or.inl t)
  | rethird o t hk q => exact Or.inr (Or.inr ⟨o, Or.inr t, hk, key o q⟩)

/-- **The package is a plain owner of whatever the revision wrote, in the world**. -/
theorem package_is_plain_owner_world (rejects : Obj → Bool) (fault : Fault) (vi : VInterf) (tp : Interf) (p : Parent) (control : Bool)
    (s : Store) (objs : List Desired) (vorder eorder : List Nat) (hw : WF s)
    (hst : StaleOK s vi (pick objs vorder))
    (q : ORef) (hq : pkgRef p = some q) (hne : q.uid ≠ p.uid) :
    ∀ o' ∈ (establishV rejects fault vi tp p control s objs vorder eorder).1.objs,
      o' ∈ s.objs ∨ PutBy (EPuts vi tp) o' ∨ (q ∈ o'.owners ∧ q.controller = some false) := by
  intro o' ho'
  cases (establishV_inv rejects fault vi tp p control s objs vorder eorder hw hst).objs o' ho' with
  | same h => exact Or.inl h
  | rewritten o ho hk qe => exact Or.inr (Or.inr ⟨qe.pkg q hq hne, pkgRef_controller p q hq⟩)
  | created c => exact Or.inr (Or.inr ⟨c.pkg q hq hne, pkgRef_controller p q hq⟩)
  | third t => exact Or.inr (Or.inl t)
  | rethird o t hk qe => exact Or.inr (Or.inr ⟨qe.pkg q hq hne, pkgRef_controller p q hq⟩)

/-- **Deactivation keeps ownership and gives up control, whoever interferes with
ReleaseObjects**: the store stays well formed; ReleaseObjects issues updates only; and every
object afterwards is some `b` — an object of the initial store or one the third party put —
either untouched or rewritten with the same content, no owner entry dropped, nobody made
controller, the revision an owner whose (first) entry is no controller reference. In
particular ReleaseObjects never writes over a third-party write it has not read. -/
theorem release_world (rejects : Obj → Bool) (fault : Fault) (ri : RInterf) (p : Parent) (ran : Nat → Bool)
    (s : Store) (refs : List Ref) (order : List Nat) (hw : WF s) :
    let s' := (releaseV rejects fault ri p ran s refs order).1
    WF s' ∧ (∃ new, s'.log = s.log ++ new ∧ ∀ e ∈ new, e.verb = .update) ∧
    ∀ o' ∈ s'.objs, ∃ b, (b ∈ s.objs ∨ PutBy ri.Puts b) ∧
      (o' = b ∨ (o'.key = b.key ∧ o'.body = b.body ∧ (∀ u, hasUid b.owners u → hasUid o'.owners u) ∧
                 (∀ u, ctrl o'.owners u → ctrl b.owners u) ∧ hasUid o'.owners p.uid ∧ NotCtrlBy o' p.uid)) := by
  have h := releaseV_inv rejects fault ri p ran s refs order hw
  refine ⟨h.wf, ?_, fun o' ho' => ?_⟩
  · obtain ⟨new, he, hn⟩ := releaseAllV_log rejects fault ri p ran s (pick refs order)
    exact ⟨new, he, fun e h => (hn e h).resolve_right (by simp)⟩
  · obtain ⟨b, hb, hr⟩ := h.objs o' ho'
    exact ⟨b, hb, hr.imp id fun q => ⟨q.key, q.body, q.uids, q.ctrls, q.mine, q.released⟩⟩

/-- **A successful release has released everything it references, whoever interferes**: every
stored object named by a reference (whose goroutine is in the order) is one the third party
put, or has the revision as an owner that is not its controller. -/
theorem release_gives_up_control_world (rejects : Obj → Bool) (fault : Fault) (ri : RInterf) (p : Parent) (ran : Nat → Bool)
    (s s' : Store) (refs : List Ref) (order : List Nat) (hw : WF s)
    (h : releaseV rejects fault ri p ran s refs order = (s', .ok ()))
    (j : Nat) (k : Ref) (hk : refs[j]? = some k) (hj : j ∈ order) :
    ∀ o' ∈ s'.objs, o'.key = k.key → PutBy ri.Puts o' ∨ (hasUid o'.owners p.uid ∧ NotCtrlBy o' p.uid) :=
  releaseV_ok rejects fault ri p ran s s' refs order hw h j k hk hj

/-- **`status.objectRefs` in the world**: a reconcile that does not end in success leaves the
lists of all revisions as they were; a reconcile never touches another revision's list; and a
reconcile whose read of the revision was stale never ends in success and never changes any
list (every write of the revision object is refused), so a stale list is never written back. -/
theorem object_refs_world (sys : Sys) (r : Rev) (e : Env) (w : World) :
    ((reconcileRevV sys r e w).2 ≠ .ok () → (reconcileRevV sys r e w).1.refs = sys.refs) ∧
    (w.staleRefs.isSome = true →
      (reconcileRevV sys r e w).2 ≠ .ok () ∧ (reconcileRevV sys r e w).1.refs = sys.refs) ∧
    (∀ v, v ≠ r.parent.uid → (reconcileRevV sys r e w).1.refs v = sys.refs v) :=
  reconcileRevV_refs sys r e w

/-- **Reconciling an inactive revision in the world** (ReleaseObjects and Establish(false), the
third party writing anywhere, stale reads of the objects and of the revision): no object
appears that was not there or put by the third party, and no controller reference appears
that was not there or written by the third party. -/
theorem inactive_reconcile_world (sys : Sys) (r : Rev) (e : Env) (w : World)
    (hw : WF sys.store) (hr : r.active = false) (hst : StaleOK sys.store w.v (pick r.objs e.vorder)) :
    ∀ o' ∈ (reconcileRevV sys r e w).1.store.objs,
      ((∃ o ∈ sys.store.objs, o.key = o'.key) ∨ (∃ a, w.Puts a ∧ a.key = o'.key)) ∧
      ∀ u, ctrl o'.owners u →
        (∃ o ∈ sys.store.objs, o.key = o'.key ∧ ctrl o.owners u) ∨ (∃ a, w.Puts a ∧ a.key = o'.key ∧ ctrl a.owners u) := by
  intro o' ho'
  have g := ((GInv.init sys.store (fun _ => False) w.Puts hw).reconcileV r e w hst
    (fun ha => by rw [hr] at ha; cases ha) (fun _ h => h)).good o' ho'
  constructor
  · rcases g.origin with h | h | ⟨_, hf, _⟩
    · exact Or.inl h
    · exact Or.inr h
    · exact hf.elim
  · intro u hu
    rcases g.ctrls u hu with h | hf | h
    · exact Or.inl h
    · exact hf.elim
    · exact Or.inr h

/-- **A successful inactive reconcile gives up all control, in the world**: if everything the
revision controls is listed in its `status.objectRefs` and every ReleaseObjects goroutine is in
the completion order, then after a reconcile of the inactive revision that reports success the
revision is the controller of no object (objects put by the third party aside) — whatever the
third party did before the Gets, between a Get and its Update, or during the Establish call
that follows when the list is empty. -/
theorem inactive_reconcile_gives_up_control_world (sys sys' : Sys) (r : Rev) (e : Env) (w : World)
    (hw : WF sys.store) (hr : r.active = false) (hl : Listed sys r.parent.uid)
    (hst : StaleOK sys.store w.v (pick r.objs e.vorder))
    (ho : ∀ j, j < (sys.refs r.parent.uid).length → j ∈ e.rorder)
    (h : reconcileRevV sys r e w = (sys', .ok ())) :
    ∀ o' ∈ sys'.store.objs, PutBy w.Puts o' ∨ NotCtrlBy o' r.parent.uid :=
  reconcileRevV_released sys sys' r e w hw hr hl hst ho h

/-- **History corollary in the world** (induction over the history): any sequence of reconciles
of any revisions in any roles, under any faults and orders, the third party writing before
every reconcile, inside every validate phase, establish phase and ReleaseObjects call, with
stale cached reads (`WorldOK`: each serves a version). Comparing the final store with the
initial one: the store is well formed; a controller reference at the end was on the object of
that key at the start, or belongs to a revision reconciled as *active*, or was written by the
third party; an object at the end has a key present at the start, or a key the third party
put, or is owned by a revision that was reconciled as active. -/
theorem history_roles_world (sys : Sys) (h : List WStep) (hw : WF sys.store) (hok : WorldOK sys h) :
    let s' := (runHistoryV sys h).store
    WF s' ∧
    (∀ o' ∈ s'.objs, ∀ u, ctrl o'.owners u →
        (∃ o ∈ sys.store.objs, o.key = o'.key ∧ ctrl o.owners u) ∨ ActiveInV h u ∨
        (∃ a, PutsInV h a ∧ a.key = o'.key ∧ ctrl a.owners u)) ∧
    (∀ o' ∈ s'.objs, (∃ o ∈ sys.store.objs, o.key = o'.key) ∨ (∃ a, PutsInV h a ∧ a.key = o'.key) ∨
        (∃ u, ActiveInV h u ∧ hasUid o'.owners u)) := by
  have g := runHistoryV_ginv sys.store.objs (ActiveInV h) (PutsInV h) h sys hok (fun _ h => h) (fun _ h => h)
    (GInv.init sys.store _ _ hw)
  exact ⟨g.wf, fun o' ho' => (g.good o' ho').ctrls, fun o' ho' => (g.good o' ho').origin⟩

/-- **A package never becomes a controller, in the world.** -/
theorem package_never_controller_world (sys : Sys) (h : List WStep) (hw : WF sys.store) (hok : WorldOK sys h) (q : Nat)
    (hq : ∀ x ∈ h, x.rev.parent.uid ≠ q) (h0 : ∀ o ∈ sys.store.objs, ¬ ctrl o.owners q)
    (hp : ∀ a, PutsInV h a → ¬ ctrl a.owners q) :
    ∀ o' ∈ (runHistoryV sys h).store.objs, ¬ ctrl o'.owners q := by
  intro o' ho' hc
  rcases (history_roles_world sys h hw hok).2.1 o' ho' q hc with ⟨o, ho, _, hco⟩ | ⟨x, hx, _, hxu⟩ | ⟨a, ha, _, hca⟩
  · exact h0 o ho hco
  · exact hq x hx hxu
  · exact hp a ha hca

section WorldExamples

/-- between the Get of object 0 (`Composition/b`, absent) and its dry-run create a third party
creates `b`, controlled by a foreign owner: the dry run answers AlreadyExists, Establish fails
and has written nothing — the object stays exactly what the third party put -/
example : establishV exOk Fault.none { dry := fun i => if i = 0 then [.put ⟨"Composition/b", 0, [⟨90, some true, none⟩], 4⟩] else [] }
      Interf.none exRev11 true exStore2 [{ key := "Composition/b", body := 5 }] [0] [0]
    = (⟨exStore2.objs ++ [⟨"Composition/b", 2, [⟨90, some true, none⟩], 4⟩], 3, []⟩, .err .alreadyExists) := by decide

/-- the same write BEFORE the Get: the active revision sees a foreign controller and refuses
locally (`hq` of `all_or_nothing_world` is needed: the third party can block and unblock) -/
example : (establishV exOk Fault.none { get := fun i => if i = 0 then [.put ⟨"Composition/b", 0, [⟨90, some true, none⟩], 4⟩] else [] }
      Interf.none exRev11 true exStore2 [{ key := "Composition/b", body := 5 }] [0] [0]).2 = .err .notControllable := by decide

/-- case `rethird` is real: a third party creates `b` (uncontrolled) right before the inactive
revision 11 validates it; the revision then adds itself and its package as plain owners of the
third party's object — it neither created it nor controls it -/
example : ((establishV exOk Fault.none { get := fun i => if i = 0 then [.put ⟨"Composition/b", 0, [⟨91, none, none⟩], 4⟩] else [] }
      Interf.none exRev11 false exStore2 [{ key := "Composition/b", body := 5 }] [0] [0]).1.get "Composition/b").map (fun o => (o.owners, o.body))
    = some ([⟨91, none, none⟩, ⟨1, some false, some true⟩, ⟨11, none, none⟩], 4) := by decide

/-- a lagging cache: it still serves `c` as released by revision 10 (resourceVersion 0) although
`c` is now (resourceVersion 1) controlled by the foreign owner 90. The active revision 11 decides
"controllable" on the stale version; the dry-run update carries the stale resourceVersion and is
refused: nothing is written. -/
def exForeign : Store := ⟨[⟨"Composition/c", 1, [⟨90, some true, none⟩], 1⟩], 2, []⟩
example : establishV exOk Fault.none
      { stale := fun i => if i = 0 then some (some ⟨"Composition/c", 0, [⟨10, some false, some true⟩, ⟨1, some false, some true⟩], 1⟩) else none }
      Interf.none exRev11 true exForeign [{ key := "Composition/c", body := 9 }] [0] [0]
    = (exForeign, .err .conflict) := by decide

/-- … and what it served satisfies `StaleOK` (a version: older resourceVersion, right key) -/
example : StaleOK exForeign
    { stale := fun i => if i = 0 then some (some ⟨"Composition/c", 0, [⟨10, some false, some true⟩, ⟨1, some false, some true⟩], 1⟩) else none }
    (pick [({ key := "Composition/c", body := 9 } : Desired)] [0]) := by
  intro x hx v hv
  simp [pick] at hx
  subst hx
  simp at hv
  subst hv
  refine ⟨rfl, by decide, ?_⟩
  intro c hc _ hrv
  simp [exForeign] at hc
  subst hc
  simp at hrv

/-- a cache miss: `c` exists but the Get says NotFound; the active revision dry-runs a create,
which the server refuses (AlreadyExists); an INACTIVE revision believes the object absent and
does nothing at all — in particular it creates nothing. -/
example : establishV exOk Fault.none { stale := fun i => if i = 0 then some none else none }
      Interf.none exRev11 true exStore2 [{ key := "Composition/c", body := 9 }] [0] [0] = (exStore2, .err .alreadyExists) ∧
    establishV exOk Fault.none { stale := fun i => if i = 0 then some none else none }
      Interf.none exRev11 false exStore2 [{ key := "Composition/c", body := 9 }] [0] [0]
      = (exStore2, .ok [⟨"Composition/c", true⟩]) := by decide

/-- ReleaseObjects: between the Get of `c` (controlled by revision 10) and its Update an
administrator re-creates `c`. The Update carries the resourceVersion read and is refused; `c`
remains exactly what the administrator put. -/
example : releaseV exOk Fault.none { upd := fun i => if i = 0 then [.put ⟨"Composition/c", 0, [⟨91, none, none⟩], 7⟩] else [] }
      exRev10 exAll exStore3 [⟨"Composition/c", true⟩] [0]
    = (⟨[⟨"Composition/b", 1, [⟨10, some true, some true⟩, ⟨1, some false, some true⟩], 1⟩,
         ⟨"Composition/c", 3, [⟨91, none, none⟩], 7⟩], 4, [⟨.update, "Composition/c", some .conflict, false⟩]⟩, .err .conflict) := by decide

/-- a stale read of the revision: the cache still serves the list `[b]` for the healthy revision
10 (it has meanwhile recorded `[b, c]`), now inactive. ReleaseObjects releases `b` only, the
shortcut's status update is refused: the reconcile ends in an error, the list is not
overwritten, and the next reconcile (fresh read) releases `c` as well. -/
example :
    let r := reconcileRevV exSys3 ⟨exRev10, false, exPkg⟩ exEnv2 { staleRefs := some [⟨"Composition/b", true⟩] }
    r.2 = .err .conflict ∧ r.1.refs 10 = [⟨"Composition/b", true⟩, ⟨"Composition/c", true⟩] ∧
    r.1.store.objs.map (·.owners) =
      [[⟨10, some false, some true⟩, ⟨1, some false, some true⟩], [⟨10, some true, some true⟩, ⟨1, some false, some true⟩]] ∧
    (reconcileRevV r.1 ⟨exRev10, false, exPkg⟩ exEnv2 {}).2 = .ok () ∧
    (reconcileRevV r.1 ⟨exRev10, false, exPkg⟩ exEnv2 {}).1.store.objs.map (·.owners) =
      [[⟨10, some false, some true⟩, ⟨1, some false, some true⟩], [⟨10, some false, some true⟩, ⟨1, some false, some true⟩]] := by decide

end WorldExamples

/-! ## 10. `spec.desiredState` is a string

Sections 4, 7, 8, 9 give a revision a Boolean role. The field is a free-form string without
enum or default: besides `Active` and `Inactive` it is EMPTY for a revision that was never
activated (`revisionActivationPolicy: Manual`), and it may be anything a user typed (`active`,
`ACTIVE`, `Inactive ` …). `reconcileState` (Model/C16World.lean) is `Reconciler.Reconcile`
reading the string as the code does: deactivation (ReleaseObjects, shortcut) iff it is exactly
`Inactive`; `control` iff it is exactly `Active`; anything else: no deactivation, Establish
without control. The role theorems below quantify over the desired state AS A STRING: a
revision is active iff its desired state is exactly `Active`. -/

/-- the two constants are those of the current tree (`v1.PackageRevisionActive/Inactive`) -/
theorem desired_state_constants_match_library :
    activeState = Xp.Gen.c16DesiredActive ∧ inactiveState = Xp.Gen.c16DesiredInactive := by decide

/-- for the two proper values `reconcileState` is `reconcileRevV` with the Boolean role -/
theorem reconcile_state_proper_values (sys : Sys) (p : Parent) (objs : List Desired) (e : Env) (w : World) :
    reconcileState sys p objs activeState e w = reconcileRevV sys ⟨p, true, objs⟩ e w ∧
    reconcileState sys p objs inactiveState e w = reconcileRevV sys ⟨p, false, objs⟩ e w := by
  have hne : activeState ≠ inactiveState := by decide
  constructor
  · unfold reconcileState
    rw [if_neg hne, if_pos rfl]
  · unfold reconcileState
    rw [if_pos rfl]

/-- **Only a revision whose desired state is exactly `Active` creates objects or becomes
controller** — for EVERY string `ds` (empty, garbage, case variants), in the world (third party
anywhere, stale reads): after one reconcile, every object has a key that was present before, or
that the third party put, or `ds` is exactly `Active` and the revision owns it; and every
controller reference was on the object of that key before, or was written by the third party, or
is the revision's own and `ds` is exactly `Active`. -/
theorem only_exactly_active_creates_or_controls (sys : Sys) (p : Parent) (objs : List Desired) (ds : String)
    (e : Env) (w : World) (hw : WF sys.store) (hst : StaleOK sys.store w.v (pick objs e.vorder)) :
    ∀ o' ∈ (reconcileState sys p objs ds e w).1.store.objs,
      ((∃ o ∈ sys.store.objs, o.key = o'.key) ∨ (∃ a, w.Puts a ∧ a.key = o'.key) ∨
        (ds = activeState ∧ hasUid o'.owners p.uid)) ∧
      ∀ u, ctrl o'.owners u →
        (∃ o ∈ sys.store.objs, o.key = o'.key ∧ ctrl o.owners u) ∨ (ds = activeState ∧ u = p.uid) ∨
        (∃ a, w.Puts a ∧ a.key = o'.key ∧ ctrl a.owners u) := by
  intro o' ho'
  have g := ((GInv.init sys.store (fun u => ds = activeState ∧ u = p.uid) w.Puts hw).reconcileS p objs ds e w hst
    (fun h => ⟨h, rfl⟩) (fun _ h => h)).good o' ho'
  constructor
  · rcases g.origin with h | h | ⟨u, ⟨hd, hu⟩, hh⟩
    · exact Or.inl h
    · exact Or.inr (Or.inl h)
    · exact Or.inr (Or.inr ⟨hd, hu ▸ hh⟩)
  · exact g.ctrls

/-- **A revision whose desired state is anything but exactly `Active` issues updates only**: not
even an attempt to create, whatever the string, the interference and the cache. -/
theorem non_active_issues_updates_only (sys : Sys) (p : Parent) (objs : List Desired) (ds : String)
    (e : Env) (w : World) (hw : WF sys.store) (hds : ds ≠ activeState) :
    ∃ new, (reconcileState sys p objs ds e w).1.store.log = sys.store.log ++ new ∧ ∀ x ∈ new, x.verb = .update := by
  obtain ⟨new, he, hn⟩ := reconcileState_log sys p objs ds e w hw hds
  exact ⟨new, he, fun x h => (hn x h).resolve_right (by simp)⟩

/-- **History corollary with string-valued desired states** (induction over the history): the
store stays well formed; a controller reference at the end was there at the start, or belongs to
a revision reconciled at some step with desired state exactly `Active`, or was written by the
third party; an object at the end has a key present at the start, or put by the third party, or
is owned by a revision that was reconciled with desired state exactly `Active`. -/
theorem history_roles_state (sys : Sys) (h : List SStep) (hw : WF sys.store) (hok : WorldOKS sys h) :
    let s' := (runHistoryS sys h).store
    WF s' ∧
    (∀ o' ∈ s'.objs, ∀ u, ctrl o'.owners u →
        (∃ o ∈ sys.store.objs, o.key = o'.key ∧ ctrl o.owners u) ∨ ActiveInS h u ∨
        (∃ a, PutsInS h a ∧ a.key = o'.key ∧ ctrl a.owners u)) ∧
    (∀ o' ∈ s'.objs, (∃ o ∈ sys.store.objs, o.key = o'.key) ∨ (∃ a, PutsInS h a ∧ a.key = o'.key) ∨
        (∃ u, ActiveInS h u ∧ hasUid o'.owners u)) := by
  have g := runHistoryS_ginv sys.store.objs (ActiveInS h) (PutsInS h) h sys hok (fun _ h => h) (fun _ h => h)
    (GInv.init sys.store _ _ hw)
  exact ⟨g.wf, fun o' ho' => (g.good o' ho').ctrls, fun o' ho' => (g.good o' ho').origin⟩

section StateExamples

/-- Manual activation policy: revision 11 was never activated (desired state ""), the objects of
its package do not exist: it creates nothing, reports success and records the references -/
example :
    let r := reconcileState ⟨⟨[], 1, []⟩, fun _ => []⟩ exRev11 exPkg "" exEnv2 {}
    r.2 = .ok () ∧ r.1.store.objs = [] ∧ r.1.store.log = [] := by decide

/-- … the objects exist (controlled by revision 10): it adds itself as a plain owner, no more -/
example :
    (reconcileState exSys3 exRev11 exPkg "" exEnv2 {}).1.store.objs.map (·.owners) =
      [[⟨10, some true, some true⟩, ⟨1, some false, some true⟩, ⟨11, none, none⟩],
       [⟨10, some true, some true⟩, ⟨1, some false, some true⟩, ⟨11, none, none⟩]] := by decide

/-- a case variant is not `Active` either; exactly `Active` does create (the statements discriminate) -/
example :
    (reconcileState ⟨⟨[], 1, []⟩, fun _ => []⟩ exRev11 exPkg "active" exEnv2 {}).1.store.objs = [] ∧
    (reconcileState ⟨⟨[], 1, []⟩, fun _ => []⟩ exRev11 exPkg "Inactive " exEnv2 {}).1.store.objs = [] ∧
    (reconcileState ⟨⟨[], 1, []⟩, fun _ => []⟩ exRev11 exPkg "Active" exEnv2 {}).1.store.objs.length = 2 := by decide

/-- unlike `Inactive`, the empty state does not release what `status.objectRefs` lists beyond the
package: revision 10 (healthy, lists `b`, `c`) with desired state "" and a package of `b` only
keeps control of `c` — it was not deactivated -/
example :
    (reconcileState exSys3 exRev10 [{ key := "Composition/b", body := 1 }] "" exEnv2 {}).1.store.objs.map (·.owners) =
      [[⟨10, none, none⟩, ⟨1, some false, some true⟩], [⟨10, some true, some true⟩, ⟨1, some false, some true⟩]] := by decide

end StateExamples

/-! ## 11. Call skeletons regenerated from the source on every run

`Xp/Gen/C16Skel.lean` lists, in source order, the calls (and `return`s) of every Go function the
model mirrors, extracted with go/ast from the current tree. `Model/C16Skel.lean` (and, for
`enrichControlledResource`, `Model/C16Enrich.lean`) declares the skeleton each model definition
was written against, entry by entry. A call added, dropped or moved in the code breaks the
obligation of that function before any scenario runs. -/

theorem skeleton_Establish : Xp.Gen.c16SkelEstablish = skelEstablish := by decide
theorem skeleton_addLabels : Xp.Gen.c16SkelAddLabels = skelAddLabels := by decide
theorem skeleton_validate : Xp.Gen.c16SkelValidate = skelValidate := by decide
theorem skeleton_enrichControlledResource : Xp.Gen.c16SkelEnrich = skelEnrich := by decide
/-- the FIELD WRITES of `enrichControlledResource` (left-hand sides of its assignments, per case of
its type switch): the paths `PObj.frame` blanks out, and no other -/
theorem skeleton_enrichControlledResource_writes : Xp.Gen.c16AssignEnrich = assignEnrich := by decide
theorem skeleton_getWebhookTLSCert : Xp.Gen.c16SkelGetWebhookTLSCert = skelGetWebhookTLSCert := by decide
theorem skeleton_establish : Xp.Gen.c16SkelEstablishPhase = skelEstablishPhase := by decide
theorem skeleton_create : Xp.Gen.c16SkelCreate = skelCreate := by decide
theorem skeleton_update : Xp.Gen.c16SkelUpdate = skelUpdate := by decide
theorem skeleton_ReleaseObjects : Xp.Gen.c16SkelReleaseObjects = skelReleaseObjects := by decide
theorem skeleton_GetPackageOwnerReference :
    Xp.Gen.c16SkelGetPackageOwnerReference = skelGetPackageOwnerReference := by decide
theorem skeleton_Reconcile : Xp.Gen.c16SkelReconcile = skelReconcile := by decide
theorem skeleton_deactivateRevision : Xp.Gen.c16SkelDeactivateRevision = skelDeactivateRevision := by decide

/-! ## 12. The content of a package object: `addLabels` and `enrichControlledResource`

`Model/C16Enrich.lean`: before `validate` reads the cluster, `Establish` merges the parent's
`spec.commonLabels` into every package object and — for a controlling parent only — renames a
webhook configuration after the package and points its webhooks (and the conversion webhook of a
CRD) at the package's service with the CA bundle, or refuses a CRD with webhook conversion when
there is no CA bundle. Proved for every object, parent, namespace and certificate:
the function writes nothing but those fields (`enrich_frame`), writes them as specified
(`enrich_result`), refuses exactly what the guard of `validateOne` refuses
(`enrich_refuses_iff`, `validate_guard_is_enrich`), is idempotent (it rewrites the parser's
object in place), names a webhook configuration after the package alone (`enrich_name`: two
revisions of one package take over the SAME object), and an inactive parent rewrites nothing
(`prepare_inactive`). The definitions are tied to the code by the two skeletons above, by the
constants and by `prepare_matches_code`: 140 rows produced by the real `addLabels` /
`enrichControlledResource`. -/

/-- the frame: whatever `enrichControlledResource` does to an object, the object with the
permitted fields blanked out — the name and the webhooks' client-config fields caBundle,
service.name/namespace/port of a webhook configuration; the same fields below
spec.conversion.webhook.clientConfig of a CRD whose strategy is Webhook — is unchanged. In
particular labels, `rest`, the kind, the number, names and `rest` of the webhooks, `url` and
`service.path` of every client config, the conversion strategy and review versions, and the NAME
of everything that is not a webhook configuration. -/
theorem enrich_frame (ns cert : String) (p : EParent) (o o' : PObj)
    (h : enrich ns cert p o = .ok o') :
    o'.frame = o.frame ∧ o'.rest = o.rest ∧ o'.labels = o.labels ∧
    (match o.shape, o'.shape with
     | .validating hs, .validating hs' => hs'.map (fun h => (h.name, h.rest)) = hs.map (fun h => (h.name, h.rest))
     | .mutating hs, .mutating hs' => hs'.map (fun h => (h.name, h.rest)) = hs.map (fun h => (h.name, h.rest))
     | .crd c, .crd c' => o'.name = o.name ∧ c'.map (·.strategy) = c.map (·.strategy)
     | .other, .other => o' = o
     | _, _ => False) := by
  unfold enrich at h
  cases o with
  | mk name labels shape rest =>
    cases shape with
    | validating hs =>
      simp only at h
      by_cases hc : cert = ""
      · rw [if_pos hc] at h; injection h with h; subst h; simp
      · rw [if_neg hc] at h; injection h with h; subst h
        simp [PObj.frame, enrichHooks_frame, enrichHooks_shape]
    | mutating hs =>
      simp only at h
      by_cases hc : cert = ""
      · rw [if_pos hc] at h; injection h with h; subst h; simp
      · rw [if_neg hc] at h; injection h with h; subst h
        simp [PObj.frame, enrichHooks_frame, enrichHooks_shape]
    | crd c =>
      cases c with
      | none => simp only at h; injection h with h; subst h; simp
      | some c =>
        simp only at h
        cases hcv : enrichConv ns p.label cert c with
        | error e => rw [hcv] at h; cases h
        | ok c' =>
          rw [hcv] at h; injection h with h; subst h
          have hf := enrichConv_frame ns p.label cert c c' hcv
          refine ⟨by simp [PObj.frame, hf], rfl, rfl, rfl, ?_⟩
          unfold enrichConv at hcv
          by_cases hs : c.strategy = webhookStrategy
          · rw [if_pos hs] at hcv
            by_cases hc : cert = ""
            · rw [if_pos hc] at hcv; cases hcv
            · rw [if_neg hc] at hcv; injection hcv with hcv; subst hcv; rfl
          · rw [if_neg hs] at hcv; injection hcv with hcv; subst hcv; rfl
    | other => simp only at h; injection h with h; subst h; simp

/-- what is written: with a certificate, every webhook of a webhook configuration and the
conversion webhook of a CRD (strategy Webhook) carries the certificate as CA bundle and the
service `label` / `ns` / 9443; the review versions of the conversion are kept -/
theorem enrich_result (ns cert : String) (p : EParent) (o o' : PObj)
    (h : enrich ns cert p o = .ok o') (hc : cert ≠ "") :
    match o.shape, o'.shape with
    | .validating _, .validating hs' => ∀ h ∈ hs', h.cc.filled ns p.label cert = true
    | .mutating _, .mutating hs' => ∀ h ∈ hs', h.cc.filled ns p.label cert = true
    | .crd (some c), .crd (some c') =>
      c.strategy = webhookStrategy →
        ∃ w cc, c'.webhook = some w ∧ w.cc = some cc ∧ cc.filled ns p.label cert = true ∧
          w.reviewVersions = (c.webhook.map (·.reviewVersions)).getD []
    | .crd none, .crd none => True
    | .other, .other => True
    | _, _ => False := by
  unfold enrich at h
  cases o with
  | mk name labels shape rest =>
    cases shape with
    | validating hs =>
      simp only at h; rw [if_neg hc] at h; injection h with h; subst h
      exact enrichHooks_filled ns p.label cert hs
    | mutating hs =>
      simp only at h; rw [if_neg hc] at h; injection h with h; subst h
      exact enrichHooks_filled ns p.label cert hs
    | crd c =>
      cases c with
      | none => simp only at h; injection h with h; subst h; trivial
      | some c =>
        simp only at h
        cases hcv : enrichConv ns p.label cert c with
        | error e => rw [hcv] at h; cases h
        | ok c' =>
          rw [hcv] at h; injection h with h; subst h
          intro hs
          exact (enrichConv_filled ns p.label cert c c' hcv hs).2
    | other => simp only at h; injection h with h; subst h; trivial

/-- `enrichControlledResource` fails exactly for a CRD whose conversion strategy is Webhook when
there is no certificate -/
theorem enrich_refuses_iff (ns cert : String) (p : EParent) (o : PObj) :
    (∃ e, enrich ns cert p o = .error e) ↔ (needsCAOf o = true ∧ cert = "") := by
  unfold enrich needsCAOf
  cases o with
  | mk name labels shape rest =>
    cases shape with
    | validating hs => by_cases hc : cert = "" <;> simp [hc]
    | mutating hs => by_cases hc : cert = "" <;> simp [hc]
    | crd c =>
      cases c with
      | none => simp
      | some c =>
        simp only
        have := enrichConv_error_iff ns p.label cert c
        cases hcv : enrichConv ns p.label cert c with
        | error e =>
          have h2 := this.mp ⟨e, hcv⟩
          simp [h2.1, h2.2]
        | ok c' =>
          have h2 : ¬ (c.strategy = webhookStrategy ∧ cert = "") := fun hh => by
            obtain ⟨e, he⟩ := this.mpr hh
            rw [hcv] at he; cases he
          simp only [reduceCtorEq, exists_false, false_iff, beq_iff_eq]
          exact h2
    | other => simp

/-- the guard `control && d.needsCA && p.tls != .present` of `validateOne` (Model/C16.lean) IS
`enrichControlledResource` refusing the object: for a secret whose certificate is not empty (an
empty one never gets past `getWebhookTLSCert`), preparing the object fails exactly when the guard
fires, with `needsCA` read off the structured object -/
theorem validate_guard_is_enrich (ns crt : String) (t : Tls) (control : Bool) (p : EParent) (o : PObj)
    (hcrt : crt ≠ "") :
    (∃ e, prepare ns crt t control p o = .error e) ↔ (control && needsCAOf o && t != .present) = true := by
  unfold prepare prepareC
  cases control with
  | false => simp
  | true =>
    simp only [if_true, Bool.true_and]
    rw [enrich_refuses_iff]
    have hn : needsCAOf { o with labels := addLabels p.common o.labels } = needsCAOf o := rfl
    rw [hn]
    cases t <;> simp [certOf, hcrt]

/-- `enrichControlledResource` rewrites the parser's object in place; doing it again changes nothing -/
theorem enrich_idempotent (ns cert : String) (p : EParent) (o o' : PObj)
    (h : enrich ns cert p o = .ok o') : enrich ns cert p o' = .ok o' := by
  unfold enrich at h
  cases o with
  | mk name labels shape rest =>
    cases shape with
    | validating hs =>
      simp only at h
      by_cases hc : cert = ""
      · rw [if_pos hc] at h; injection h with h; subst h; simp [enrich, hc]
      · rw [if_neg hc] at h; injection h with h; subst h
        simp [enrich, hc, enrichHooks_idem, enrichName]
        cases pkgOwner p <;> rfl
    | mutating hs =>
      simp only at h
      by_cases hc : cert = ""
      · rw [if_pos hc] at h; injection h with h; subst h; simp [enrich, hc]
      · rw [if_neg hc] at h; injection h with h; subst h
        simp [enrich, hc, enrichHooks_idem, enrichName]
        cases pkgOwner p <;> rfl
    | crd c =>
      cases c with
      | none => simp only at h; injection h with h; subst h; simp [enrich]
      | some c =>
        simp only at h
        cases hcv : enrichConv ns p.label cert c with
        | error e => rw [hcv] at h; cases h
        | ok c' =>
          rw [hcv] at h; injection h with h; subst h
          simp [enrich, enrichConv_idem ns p.label cert c c' hcv]
    | other => simp only at h; injection h with h; subst h; simp [enrich]

/-- the name: only a webhook configuration is renamed, only with a certificate and only when the
revision has an owner reference named like its package label; the new name depends on that owner
reference alone — not on the revision, not on the name the package gave the object. So the
revisions of one package (same package owner reference) address the SAME object, which is what
lets an upgrade take the object over instead of creating a second one. -/
theorem enrich_name (ns cert : String) (p : EParent) (o o' : PObj) (h : enrich ns cert p o = .ok o') :
    o'.name =
      (match o.shape with
       | .validating _ | .mutating _ =>
         if cert = "" then o.name else (match pkgOwner p with | some q => webhookName q | none => o.name)
       | _ => o.name) := by
  unfold enrich at h
  cases o with
  | mk name labels shape rest =>
    cases shape with
    | validating hs =>
      simp only at h ⊢
      by_cases hc : cert = ""
      · rw [if_pos hc] at h; injection h with h; subst h; simp [hc]
      · rw [if_neg hc] at h; injection h with h; subst h
        show enrichName p name = if cert = "" then name else _
        rw [if_neg hc]; rfl
    | mutating hs =>
      simp only at h ⊢
      by_cases hc : cert = ""
      · rw [if_pos hc] at h; injection h with h; subst h; simp [hc]
      · rw [if_neg hc] at h; injection h with h; subst h
        show enrichName p name = if cert = "" then name else _
        rw [if_neg hc]; rfl
    | crd c =>
      cases c with
      | none => simp only at h; injection h with h; subst h; rfl
      | some c =>
        simp only at h
        cases hcv : enrichConv ns p.label cert c with
        | error e => rw [hcv] at h; cases h
        | ok c' => rw [hcv] at h; injection h with h; subst h; rfl
    | other => simp only at h; injection h with h; subst h; rfl

/-- an inactive parent (`control = false`) never calls `enrichControlledResource`: the object it
looks up and becomes a plain owner of is the parser's object, labels apart -/
theorem prepare_inactive (ns crt : String) (t : Tls) (p : EParent) (o : PObj) :
    prepare ns crt t false p o = .ok { o with labels := addLabels p.common o.labels } := rfl

/-- `addLabels`: every common label of the parent is on the object afterwards (keys of a map are
unique), every other label of the object is kept, and an object without labels gets exactly the
parent's (nil stays nil) -/
theorem addLabels_spec (common : List (String × String)) (labels : List (String × String))
    (hu : common.Pairwise (fun a b => a.1 ≠ b.1)) :
    ∃ r, addLabels (some common) (some labels) = some r ∧
      (∀ k v, (k, v) ∈ common → getLabel r k = some v) ∧
      (∀ k, (∀ kv ∈ common, kv.1 ≠ k) → getLabel r k = getLabel labels k) :=
  ⟨_, rfl, fun k v hm => lookup_foldl_mem common k v hu hm labels,
    fun k hk => lookup_foldl_other common k hk labels⟩

theorem addLabels_nil (common : Option (List (String × String))) (labels : List (String × String)) :
    addLabels common none = common ∧ addLabels none (some labels) = some labels := ⟨rfl, rfl⟩

/-- `pkgOwner` (the owner reference a webhook configuration is named after) and `pkgRef` (the owner
reference every established object gets as a plain owner, sections 2 and 4) are the SAME owner
reference of the revision — both are `GetPackageOwnerReference`: the first one whose name is the
value of the label pkg.crossplane.io/package -/
theorem pkgOwner_is_pkgRef (p : Parent) (kind : PRef → String) (common : Option (List (String × String))) :
    ∃ r : Option PRef, r = p.owners.find? (fun r => r.name = p.label) ∧
      pkgRef p = r.map (fun r => { r.ref with controller := some false }) ∧
      pkgOwner (eparentOf p kind common) = r.map (fun r => ⟨kind r, r.name⟩) :=
  ⟨_, rfl, rfl, find_map_name p.owners kind p.label⟩

/-- **The API-level model is a sound abstraction of the structured pipeline.** One goroutine of
`validate` run on a structured package object (`validateOneP`: `enrichControlledResource`, then the
Get and the dry run on the rewritten object) IS `validateOne` of Model/C16.lean run on the
abstract object `⟨kind/NAME AFTER REWRITING, content after rewriting (any encoding), needsCA⟩` with
`needsCA` read off the structured object — for every rejection predicate, fault plan, store,
encoding and object, and every secret whose certificate is not empty. So sections 1–10
(`all_or_nothing` with its third disjunct `d.needsCA ∧ p.tls ≠ present`, the role laws, …) speak
about webhook configurations and conversion CRDs as they are submitted. -/
theorem validateOneP_refines (rejects : Obj → Bool) (fault : Fault) (ns crt : String) (enc : PObj → Nat)
    (kind : String) (p : Parent) (ep : EParent) (control : Bool) (s : Store) (i : Nat) (o : PObj)
    (hcrt : crt ≠ "") :
    validateOneP rejects fault ns crt enc kind p ep control s i o =
      validateOne rejects fault p control s i
        (desiredOfP enc kind ((prepare ns crt p.tls control ep o).toOption.getD o) (needsCAOf o)) := by
  have hg := validate_guard_is_enrich ns crt p.tls control ep o hcrt
  unfold validateOneP validateOne
  cases hp : prepare ns crt p.tls control ep o with
  | error e =>
    have : (control && (desiredOfP enc kind ((Except.error e : Except Err PObj).toOption.getD o) (needsCAOf o)).needsCA
        && p.tls != .present) = true := hg.mp ⟨e, hp⟩
    rw [if_pos this]
  | ok o' =>
    have : ¬ (control && (desiredOfP enc kind ((Except.ok o' : Except Err PObj).toOption.getD o) (needsCAOf o)).needsCA
        && p.tls != .present) = true := fun h => by
      obtain ⟨e, he⟩ := hg.mpr h
      rw [hp] at he; cases he
    rw [if_neg this]
    rfl

/-! ### the tie to the code -/

theorem enrich_constants_match_code :
    servicePort = Xp.Gen.c16ServicePort ∧ webhookStrategy = Xp.Gen.c16WebhookStrategy := by decide

def ccOfGen (c : Xp.Gen.C16CC) : CC :=
  ⟨c.url, c.service.map fun s => ⟨s.name, s.ns, s.path, s.port⟩, c.caBundle⟩

def pobjOfGen (o : Xp.Gen.C16PObj) : PObj :=
  let hooks : List Hook := o.hooks.map fun h => ⟨h.name, ccOfGen h.cc, h.rest⟩
  let conv : Option Conv := o.conv.map fun c =>
    ⟨c.strategy, c.webhook.map fun w => ⟨w.cc.map ccOfGen, w.reviewVersions⟩⟩
  ⟨o.name, o.labels,
    if o.kind = "VWC" then .validating hooks else if o.kind = "MWC" then .mutating hooks
    else if o.kind = "CRD" then .crd conv else .other,
    o.rest⟩

/-- labels are a map: equal as maps (the rows carry them sorted by key) -/
def sameLabels : Option (List (String × String)) → Option (List (String × String)) → Bool
  | none, none => true
  | some a, some b => a.length == b.length && b.all fun kv => getLabel a kv.1 == some kv.2
  | _, _ => false

def sameObj (a b : PObj) : Bool :=
  a.name == b.name && a.shape == b.shape && a.rest == b.rest && sameLabels a.labels b.labels

set_option maxRecDepth 100000 in
/-- every row of the table — produced by running `addLabels` and (for a controlling parent)
`enrichControlledResource` of the current tree on 14 objects (webhook configurations with 0–3
webhooks whose client configs have a service with a path / a service with a port and an old CA
bundle / a URL / nothing; CRDs without conversion, with strategy None (with and without a
left-over webhook section), with strategy Webhook and no / an empty / a partial / a full webhook
section; a Composition) x 4 parents (package owner found / found after an owner whose name merely
starts with the package's name and before a second one of that name / not found / no label) x
{certificate, no certificate, inactive} — is reproduced by the model -/
theorem prepare_matches_code :
    Xp.Gen.c16EnrichTable.all (fun r =>
      match prepareC r.ns r.cert r.control ⟨r.label, r.owners.map fun kn => ⟨kn.1, kn.2⟩, r.common⟩ (pobjOfGen r.obj), r.out with
      | .ok o', some e => sameObj o' (pobjOfGen e)
      | .error _, none => true
      | _, _ => false) = true := by
  decide

/-! ### owner references: `create` and `update` themselves

Section 5 ties the library helpers; these two tables tie their COMPOSITION in
`APIEstablisher.create` / `APIEstablisher.update` — which references a new object gets, which of
current / desired is submitted by an update, with which references and resourceVersion, and when
it refuses without a call — to `createRefs` / `updateSub`, by running the two functions of the
current tree over a recording client: 3 parents (package owner found; not found; found as the
second of three, after one whose name merely starts with the label and before another of the same
name) x control x every list of at most two references over {package, the revision itself, a
stranger} x controller ∈ {nil,false,true}. -/

def parentOfGen (c : String × List (String × Xp.Gen.C16Ref)) : Parent :=
  { uid := 7, label := c.1, owners := c.2.map fun nr => ⟨nr.1, ofGen nr.2⟩ }

set_option maxRecDepth 100000 in
theorem create_matches_code :
    Xp.Gen.c16CreateTable.all (fun r =>
      match Xp.Gen.c16OwnerParents[r.1]? with
      | some pc => createRefs (parentOfGen pc) == r.2.map ofGen
      | none => false) = true := by
  decide

set_option maxRecDepth 100000 in
theorem update_matches_code :
    Xp.Gen.c16UpdateTable.all (fun r =>
      match Xp.Gen.c16OwnerParents[r.1]? with
      | none => false
      | some pc =>
        match updateSub (parentOfGen pc) r.2.1 ⟨"k", 5, r.2.2.1.map ofGen, 1⟩ ⟨"k", 0, [], 2⟩, r.2.2.2 with
        | .ok sub, some (isDesired, carriesRv, refs) =>
          sub.body == (if isDesired then 2 else 1) && (sub.rv == 5) == carriesRv && sub.owners == refs.map ofGen
        | .error _, none => true
        | _, _ => false) = true := by
  decide

section EnrichExamples

def exProv : EParent := ⟨"prov", [⟨"Lock", "provx"⟩, ⟨"Provider", "prov"⟩], some [("team", "a")]⟩
def exVWC : PObj :=
  ⟨"validating-webhook-configuration", some [("team", "b"), ("x", "1")],
   .validating [⟨"h0", ⟨none, some ⟨"webhook-service", "system", some "/validate", none⟩, ""⟩, 10⟩], 7⟩
def exConvCRD : PObj := ⟨"things.example.org", none, .crd (some ⟨"Webhook", none⟩), 3⟩

/-- an active provider revision with its certificate: the webhook configuration is renamed after
the package and its webhook points at the package's service; path, webhook name and everything
else stay; the common label wins over the object's own -/
example :
    (prepare "xp" "CERT" .present true exProv exVWC).toOption =
      some ⟨"crossplane-provider-prov", some [("team", "a"), ("x", "1")],
           .validating [⟨"h0", ⟨none, some ⟨"prov", "xp", some "/validate", some 9443⟩, "CERT"⟩, 10⟩], 7⟩ := by decide

/-- the hypotheses of `enrich_frame` / `enrich_result` / `enrich_name` hold non-trivially, and the
frame discriminates: it does see a change of a webhook's `rest` or of `service.path` -/
example : ∃ o', enrich "xp" "CERT" exProv exVWC = .ok o' ∧ o' ≠ exVWC ∧ o'.frame = exVWC.frame := by
  refine ⟨_, rfl, ?_, ?_⟩ <;> decide
example :
    ({ exVWC with shape := .validating [⟨"h0", ⟨none, some ⟨"webhook-service", "system", some "/other", none⟩, ""⟩, 10⟩] } : PObj).frame
      ≠ exVWC.frame := by decide

/-- no certificate (the secret is not named): the webhook configuration passes untouched, the CRD
with webhook conversion is refused — `validate_guard_is_enrich` on both sides -/
example : (prepare "xp" "CERT" .noName true exProv { exVWC with labels := none }).toOption =
    some { exVWC with labels := some [("team", "a")] } := by decide
example : (prepare "xp" "CERT" .noName true exProv exConvCRD).toOption = none := by decide
example : (prepare "xp" "CERT" .present true exProv exConvCRD).toOption.map (·.shape) =
    some (.crd (some ⟨"Webhook", some ⟨some ⟨none, some ⟨"prov", "xp", none, some 9443⟩, "CERT"⟩, []⟩⟩)) := by decide

/-- an inactive revision does not enrich: it looks the webhook configuration up under the name the
package gave it -/
example : (prepare "xp" "CERT" .present false exProv exVWC).toOption.map (·.name) =
    some "validating-webhook-configuration" := by decide

/-- `validateOneP_refines` on the conversion CRD: no certificate — refused before any call; with the
certificate — a dry-run create of the rewritten object (nothing stored, the goroutine succeeds) -/
example :
    validateOneP (fun _ => false) Fault.none "xp" "CERT" (fun o => o.rest) "CRD"
      { uid := 31, label := "prov", owners := [], tls := .noName } exProv true ⟨[], 1, []⟩ 0 exConvCRD =
      (⟨[], 1, []⟩, .err .other) := by decide
example :
    (validateOneP (fun _ => false) Fault.none "xp" "CERT" (fun o => o.rest) "CRD"
      { uid := 31, label := "prov", owners := [], tls := .present } exProv true ⟨[], 1, []⟩ 0 exConvCRD).2 =
      .ok ⟨⟨"CRD/things.example.org", 0, [⟨31, some true, some true⟩], 3⟩, none⟩ := by decide

/-- `addLabels_spec` is satisfiable -/
example : addLabels (some [("team", "a"), ("y", "2")]) (some [("x", "1"), ("team", "b")]) =
    some [("x", "1"), ("team", "a"), ("y", "2")] := by decide

end EnrichExamples

end Xp.C16

import Xp.Proofs.C07
import Xp.Proofs.C07Hist
import Xp.Proofs.C07Rev
import Xp.Proofs.C07World
import Xp.Proofs.C07Meta
/-
C07 — claim and XR exchange exactly the fields each side owns.

The partition `owner` / `statusMachinery` (Xp/Model/C07.lean) is stated by hand,
independently of internal/xcrd/schemas.go; `tables_conform_to_partition` ties
the tables regenerated from the current tree (Xp.Gen) to it, and every theorem
below is about the model functions that filter with those generated tables.
All theorems hold for every claim, XR, key and history: no bounds.
-/
namespace Xp.C07
open Xp

/-! ### the generated tables against the independent partition -/

/-- The key tables of the current tree are exactly the partition: claim machinery =
shared + revision + claim-only + each-side; XR machinery = shared + revision + XR-only
+ each-side; the propagated keys are the shared ones; status machinery as stated. -/
theorem tables_conform_to_partition :
    (∀ k, Xp.Gen.specPropsClaim.contains k =
      (owner k == .shared || owner k == .revision || owner k == .claimOnly || owner k == .eachSide)) ∧
    (∀ k, Xp.Gen.specPropsXR.contains k =
      (owner k == .shared || owner k == .revision || owner k == .xrOnly || owner k == .eachSide)) ∧
    (∀ k, Xp.Gen.propagateSpecProps.contains k = (owner k == .shared)) ∧
    (∀ k, Xp.Gen.statusProps.contains k = statusMachinery k) ∧
    owner Xp.Gen.compositionRevisionRefKey = .revision := by
  refine ⟨?_, ?_, ?_, statusProps_contains, by decide⟩
  all_goals
    intro k
    by_cases hk : k ∈ machineryKeys
    · revert k; decide
    · rw [owner_user_of_not_machinery k hk]
      simp only [machineryKeys, List.mem_cons, List.not_mem_nil, or_false, not_or] at hk
      simp [Xp.Gen.specPropsClaim, Xp.Gen.specPropsXR, Xp.Gen.propagateSpecProps, hk]

/-! ### claim → XR -/

/-- **claim_to_xr** (server-side syncer, spec). For every claim, XR and top-level key `k`
the applied object carries the claim's value of `k` unchanged — whatever is nested
inside it — iff `k` is a user field or a composition selection field; the revision
reference iff the XR's update policy is Manual; claim-only and each-side machinery never;
and `claimRef` names the claim. -/
theorem claim_to_xr (c : Cfg) (gen : String) (cm : KObj) (xr : Option KObj) (cs : AL J) (k : String) :
    let ps := (ssaPatch c gen cm xr cs).specFields
    (owner k = .user ∨ owner k = .shared → alookup k ps = alookup k cs) ∧
    (owner k = .claimOnly ∨ owner k = .eachSide → alookup k ps = none) ∧
    (owner k = .revision →
      alookup k ps = if policyOf (xrSpecFields xr) == some "Manual" then alookup k cs else none) ∧
    (k = "claimRef" → alookup k ps = some (claimRefJ c cm)) ∧
    (owner k = .xrOnly → k ≠ "claimRef" → alookup k ps = alookup k cs) := by
  have hcr : owner "claimRef" = .xrOnly := by decide
  have key : alookup k (ssaPatch c gen cm xr cs).specFields =
      alookup k (specToXR c cm (policyOf (xrSpecFields xr) == some "Manual") cs) := rfl
  simp only [key, alookup_specToXR]
  refine ⟨?_, ?_, ?_, ?_, ?_⟩
  · intro h
    have : k ≠ "claimRef" := by intro e; subst e; rw [hcr] at h; cases h <;> contradiction
    rcases h with h | h <;> simp [this, h]
  · intro h
    have : k ≠ "claimRef" := by intro e; subst e; rw [hcr] at h; cases h <;> contradiction
    rcases h with h | h <;> simp [this, h]
  · intro h
    have : k ≠ "claimRef" := by intro e; subst e; rw [hcr] at h; contradiction
    simp [this, h]
  · intro h; simp [h]
  · intro h hne; simp [hne, h]

/-- Filtering is by top-level key only: a user field that merely *contains* fields named
like machinery is copied whole. -/
example :
    let cs : AL J := [("params", .obj [("resourceRef", .obj [("name", .str "inner")]), ("claimRef", .str "x")]),
                      ("resourceRef", .obj [("name", .str "xr-1")])]
    let ps := (ssaPatch ⟨"example.org/v1", "Thing", "ns", "example.org/v1", "XThing"⟩ "g" { name := "c" } none cs).specFields
    (match alookup "params" ps with
     | some (.obj [("resourceRef", .obj [("name", .str v)]), ("claimRef", .str w)]) => v ++ w
     | _ => "") = "innerx" ∧ (alookup "resourceRef" ps).isNone = true := by decide

/-- **claim_to_xr**, labels and annotations: Kubernetes-reserved keys are never applied,
every other label and annotation of the claim is, the two claim labels name the claim,
and an external name the XR already has wins over the claim's. -/
theorem claim_to_xr_meta (c : Cfg) (gen : String) (cm : KObj) (xr : Option KObj) (cs : AL J) (k : String) :
    let p := ssaPatch c gen cm xr cs
    alookup k p.labels =
      (if k = Xp.Gen.labelKeyClaimNamespace then some c.claimNS
       else if k = Xp.Gen.labelKeyClaimName then some cm.name
       else if reserved k then none else alookup k cm.labels) ∧
    alookup k p.anns =
      (if k = extNameKey ∧ extName xr ≠ "" then some (extName xr)
       else if reserved k then none else alookup k cm.anns) :=
  ⟨ssaPatch_labels c gen cm xr cs k, ssaPatch_anns c gen cm xr cs k⟩

/-- **claim_to_xr**, in the store, first sync and re-sync (server-side syncer): every user
field and composition selection field of the claim whose value is not itself an object
(scalars and lists, which server-side apply treats as atoms here) is stored on the XR
with exactly the claim's value, whatever the XR held and whatever was applied before;
object values are merged key-wise by server-side apply (see `first_sync_creates_body`
for the unmerged case). -/
theorem claim_to_xr_stored (c : Cfg) (gen : String) (s : St) (cs : AL J) (k : String) (v : J)
    (h : s.cm.spec = some (.obj cs)) (hnd : NoDup cs)
    (hk : owner k = .user ∨ owner k = .shared) (hv : alookup k cs = some v) (hatom : ∀ l, v ≠ .obj l) :
    ∃ y, (syncSSA c gen s).st.xr = some y ∧ alookup k y.specFields = some v := by
  refine ⟨_, syncSSA_xr c gen s cs h, ?_⟩
  have hp : alookup k (specToXR c s.cm (policyOf (xrSpecFields s.xr) == some "Manual") cs) = some v := by
    have := (claim_to_xr c gen s.cm s.xr cs k).1 hk
    rw [← hv]; exact this
  exact applySSA_spec_set s.xr s.prev _ _ k v rfl (NoDup_specToXR _ _ _ cs hnd) hp hatom
/-- **claim_to_xr** for the client-side syncer: the object it hands to Apply (create or
merge patch) carries exactly the same spec law. -/
theorem claim_to_xr_csa (c : Cfg) (gen : String) (cm : KObj) (xr : Option KObj) (cs : AL J) (k : String) :
    let ps := (csaDesired c gen cm xr cs).specFields
    (owner k = .user ∨ owner k = .shared → alookup k ps = alookup k cs) ∧
    (owner k = .claimOnly ∨ owner k = .eachSide → alookup k ps = none) ∧
    (owner k = .revision →
      alookup k ps = if policyOf (xrSpecFields xr) == some "Manual" then alookup k cs else none) ∧
    (k = "claimRef" → alookup k ps = some (claimRefJ c cm)) := by
  have hcr : owner "claimRef" = .xrOnly := by decide
  have key : alookup k (csaDesired c gen cm xr cs).specFields =
      alookup k (specToXR c cm (policyOf (xrSpecFields xr) == some "Manual") cs) := rfl
  simp only [key, alookup_specToXR]
  refine ⟨?_, ?_, ?_, ?_⟩
  · intro h
    have : k ≠ "claimRef" := by intro e; subst e; rw [hcr] at h; cases h <;> contradiction
    rcases h with h | h <;> simp [this, h]
  · intro h
    have : k ≠ "claimRef" := by intro e; subst e; rw [hcr] at h; cases h <;> contradiction
    rcases h with h | h <;> simp [this, h]
  · intro h
    have : k ≠ "claimRef" := by intro e; subst e; rw [hcr] at h; contradiction
    simp [this, h]
  · intro h; simp [h]

/-- **claim_to_xr**, labels and annotations, client-side syncer: the object handed to
Apply is the XR as read plus every non-reserved label and annotation of the claim (the
claim's value wins), plus the two claim labels; reserved keys of the claim are not added;
an external name the existing XR already has is restored. -/
theorem claim_to_xr_meta_csa (c : Cfg) (gen : String) (cm : KObj) (xr : Option KObj) (cs : AL J) (k : String)
    (hl : NoDup cm.labels) (ha : NoDup cm.anns) :
    let d := csaDesired c gen cm xr cs
    let x0 : KObj := xr.getD { name := "" }
    alookup k d.labels =
      (if k = Xp.Gen.labelKeyClaimNamespace then some c.claimNS
       else if k = Xp.Gen.labelKeyClaimName then some cm.name
       else if reserved k then alookup k x0.labels
       else (alookup k cm.labels).or (alookup k x0.labels)) ∧
    alookup k d.anns =
      (if k = extNameKey ∧ xr.isSome ∧ extName xr ≠ "" then some (extName xr)
       else if reserved k then alookup k x0.anns
       else (alookup k cm.anns).or (alookup k x0.anns)) := by
  refine ⟨?_, ?_⟩
  · simp only [csaDesired, claimLabels, addAll]
    have hw : NoDup (withoutReserved cm.labels) := NoDup_filter _ _ hl
    rw [alookup_aset, alookup_aset, alookup_addAll _ _ _ hw, alookup_withoutReserved]
    by_cases h1 : k = Xp.Gen.labelKeyClaimNamespace
    · simp [h1]
    · by_cases h2 : k = Xp.Gen.labelKeyClaimName
      · simp [h2]
      · by_cases h3 : reserved k <;> simp [h1, h2, h3]
  · have hnd : NoDup ((cm.annotations.map withoutReserved).getD []) := by
      cases hca : cm.annotations with
      | none => simp [NoDup, akeys]
      | some a =>
        simp only [Option.map_some, Option.getD_some]
        have : NoDup a := by simpa [KObj.anns, hca] using ha
        exact NoDup_filter _ a this
    have hfl : alookup k ((cm.annotations.map withoutReserved).getD []) = if reserved k then none else alookup k cm.anns := by
      cases hca : cm.annotations with
      | none => simp [KObj.anns, hca]
      | some a => simp [KObj.anns, hca, alookup_withoutReserved]
    have base := getD_addAnn (xr.getD { name := "" }).annotations (cm.annotations.map withoutReserved) k hnd
    rw [hfl] at base
    simp only [csaDesired, KObj.anns]
    by_cases hcond : xr.isSome = true ∧ extName xr ≠ ""
    · have : (xr.isSome && extName xr != "") = true := by simp [hcond.1, hcond.2]
      simp only [this, if_true, anns_setAnn, base]
      by_cases hk : k = extNameKey
      · simp [hk, hcond.1, hcond.2]
      · by_cases h3 : reserved k <;> simp [hk, h3, KObj.anns]
    · have : (xr.isSome && extName xr != "") = false := by
        by_cases h1 : xr.isSome = true
        · have : extName xr = "" := by
            by_cases h2 : extName xr = ""
            · exact h2
            · exact absurd ⟨h1, h2⟩ hcond
          simp [this]
        · simp [h1]
      simp only [this, Bool.false_eq_true, if_false, base]
      have hc2 : ¬ (k = extNameKey ∧ xr.isSome = true ∧ extName xr ≠ "") := fun ⟨_, h2, h3⟩ => hcond ⟨h2, h3⟩
      simp only [hc2, if_false]
      by_cases h3 : reserved k <;> simp [h3, KObj.anns]
/-! ### what the XR side owns is preserved -/

/-- **xr_owned_preserved**, what is asserted: for a valid claim the server-side apply
body never mentions `resourceRefs`, `writeConnectionSecretToRef` or
`publishConnectionDetailsTo`, carries no status, and asserts the XR's existing
external name rather than the claim's. -/
theorem xr_owned_never_asserted (c : Cfg) (gen : String) (cm : KObj) (xr : Option KObj) (cs : AL J)
    (hv : ClaimValid cs) :
    let p := ssaPatch c gen cm xr cs
    (∀ k, XrOwned k → alookup k p.specFields = none) ∧ p.status = none ∧
    (extName xr ≠ "" → alookup extNameKey p.anns = some (extName xr)) := by
  refine ⟨?_, rfl, ?_⟩
  · intro k hk
    have h := claim_to_xr c gen cm xr cs k
    rcases hk with hk | hk
    · exact h.2.1 (Or.inr hk)
    · subst hk
      have ho : owner "resourceRefs" = .xrOnly := by decide
      rw [h.2.2.2.2 ho (by decide)]
      exact hv _ ho
  · intro hen
    rw [ssaPatch_anns]
    simp [hen]

/-- **xr_owned_preserved**, in the store, server-side syncer, first sync and re-sync:
if the claim is valid and the configuration the claim controller applied last time
(if any) mentioned no XR-owned key — which `prev_never_owns` shows for every history —
then after the sync the stored XR has the same `resourceRefs`,
`writeConnectionSecretToRef`, `publishConnectionDetailsTo` and status as before. -/
theorem xr_owned_preserved (c : Cfg) (gen : String) (s : St) (cs : AL J) (x : KObj)
    (h : s.cm.spec = some (.obj cs)) (hx : s.xr = some x) (hv : ClaimValid cs)
    (hprev : ∀ q, s.prev = some q → ∀ k, XrOwned k → alookup k q.specFields = none) :
    ∃ y, (syncSSA c gen s).st.xr = some y ∧
      (∀ k, XrOwned k → alookup k y.specFields = alookup k x.specFields) ∧
      y.status = x.status ∧ y.name = x.name := by
  refine ⟨_, syncSSA_xr c gen s cs h, ?_, ?_, ?_⟩
  · intro k hk
    rw [hx]
    apply applySSA_spec_untouched x s.prev _ _ k rfl
    · exact (xr_owned_never_asserted c gen s.cm (some x) cs hv).1 k hk
    · intro q hq; exact hprev q hq k hk
  · rw [hx]; rfl
  · rw [hx]; rfl

/-- **xr_owned_preserved**, external name: an external name the XR already has survives the
server-side sync in the store, whatever external name the claim carries. -/
theorem external_name_preserved (c : Cfg) (gen : String) (s : St) (cs : AL J) (x : KObj)
    (h : s.cm.spec = some (.obj cs)) (hx : s.xr = some x) (hen : extName (some x) ≠ "")
    (hnd : NoDup s.cm.anns) :
    extName (syncSSA c gen s).st.xr = extName (some x) := by
  rw [syncSSA_xr c gen s cs h, hx]
  have hp : (ssaPatch c gen s.cm (some x) cs).annotations =
      setAnn (nonEmptyUnreserved s.cm.annotations) extNameKey (extName (some x)) := by
    have : (extName (some x) != "") = true := by simp [hen]
    simp only [ssaPatch, this, if_true]
  have hnd' : NoDup ((setAnn (nonEmptyUnreserved s.cm.annotations) extNameKey (extName (some x))).getD []) :=
    NoDup_setAnn _ _ _ (NoDup_nonEmptyUnreserved _ hnd)
  have hl : alookup extNameKey ((setAnn (nonEmptyUnreserved s.cm.annotations) extNameKey (extName (some x))).getD []) =
      some (extName (some x)) := by rw [anns_setAnn]; simp
  cases hs : setAnn (nonEmptyUnreserved s.cm.annotations) extNameKey (extName (some x)) with
  | none =>
    rw [hs] at hl; simp at hl
  | some m =>
    rw [hs] at hl hnd'
    simp only [Option.getD_some] at hl hnd'
    have : ∃ d, (applySSA (some x) s.prev (ssaPatch c gen s.cm (some x) cs)).annotations =
        some (addAll d m) := by
      simp only [applySSA, hp, hs]
      exact ⟨_, rfl⟩
    obtain ⟨d, hd⟩ := this
    have hgoal : alookup extNameKey (applySSA (some x) s.prev (ssaPatch c gen s.cm (some x) cs)).anns =
        some (extName (some x)) := by
      simp only [KObj.anns, hd, Option.getD_some]
      rw [alookup_addAll _ _ _ hnd', hl]; rfl
    show (alookup extNameKey (applySSA (some x) s.prev (ssaPatch c gen s.cm (some x) cs)).anns).getD "" = _
    rw [hgoal]; rfl
/-- First sync: when no XR exists the server-side apply creates exactly the applied
object (so everything `claim_to_xr` says of the body holds of the stored XR). -/
theorem first_sync_creates_body (c : Cfg) (gen : String) (s : St) (cs : AL J)
    (h : s.cm.spec = some (.obj cs)) (hx : s.xr = none) :
    (syncSSA c gen s).st.xr = some { ssaPatch c gen s.cm none cs with status := none } := by
  rw [syncSSA_xr c gen s cs h, hx]; rfl

/-- **xr_owned_preserved**, client-side syncer: the JSON merge patch (or the skipped
no-op patch) leaves the same keys and the status of the stored XR unchanged. -/
theorem xr_owned_preserved_csa (c : Cfg) (gen : String) (s : St) (cs : AL J) (x : KObj)
    (h : s.cm.spec = some (.obj cs)) (hx : s.xr = some x) (hv : ClaimValid cs) :
    ∃ y, (syncCSA c gen s).st.xr = some y ∧
      (∀ k, XrOwned k → alookup k y.specFields = alookup k x.specFields) ∧
      y.status = x.status := by
  obtain ⟨w, hw⟩ := syncCSA_eq c gen s cs h
  refine ⟨csaApplied c gen s cs, ?_, ?_, ?_⟩
  · rw [hw]; exact csaBack_xr _ _ _ _ _ rfl
  · intro k hk
    have hnone : alookup k (csaDesired c gen s.cm s.xr cs).specFields = none := by
      have hc := claim_to_xr_csa c gen s.cm s.xr cs k
      rcases hk with hk | hk
      · exact hc.2.1 (Or.inr hk)
      · subst hk
        have ho : owner "resourceRefs" = .xrOnly := by decide
        have key : alookup "resourceRefs" (csaDesired c gen s.cm s.xr cs).specFields =
            alookup "resourceRefs" (specToXR c s.cm (policyOf (xrSpecFields s.xr) == some "Manual") cs) := rfl
        rw [key, alookup_specToXR]
        simp [ho, hv _ ho]
    rw [hx] at hnone
    unfold csaApplied
    simp only [hx]
    split
    · rfl
    · exact mergePatchXR_spec_untouched x _ _ k rfl hnone
  · unfold csaApplied
    simp only [hx]
    split <;> rfl

/-! ### XR → claim -/

/-- **xr_to_claim** (server-side syncer, first sync and re-sync). After the sync the
stored claim differs from the claim before only as follows. Spec: `resourceRef` names the
XR; `compositionRef` is the XR's only when the claim had none; `compositionRevisionRef`
is the XR's iff the XR's update policy is Automatic and the XR has one; every other key —
user fields and all other machinery — is exactly the claim's own (so nothing else of the
XR's spec, in particular no XR-only machinery, reaches the claim). Labels unchanged;
annotations unchanged except the XR's external name. Status, when the XR has one: every
non-machinery key is the XR's; `conditions` are the claim's own, `connectionDetails` is
the claim's own lastPublishedTime, `claimConditionTypes` never appears. Without an XR
status the claim status is unchanged. -/
theorem xr_to_claim (c : Cfg) (gen : String) (s : St) (cs : AL J) (h : s.cm.spec = some (.obj cs)) :
    let o := syncSSA c gen s
    let xs := xrSpecFields s.xr
    let cst := s.cm.statusFields
    (∀ k, alookup k o.st.cm.specFields =
      if k = "resourceRef" then some (xrRefJ c (ssaPatch c gen s.cm s.xr cs).name)
      else if k = "compositionRef" then
        (match alookup k cs with
         | some v => some v
         | none => alookup k xs)
      else if k = "compositionRevisionRef" then
        (if policyOf xs = some "Automatic" then
          match alookup k xs with
          | some r => some r
          | none => alookup k cs
         else alookup k cs)
      else alookup k cs) ∧
    o.st.cm.labels = s.cm.labels ∧
    (∀ k, alookup k o.st.cm.anns =
      if k = extNameKey ∧ extName s.xr ≠ "" then some (extName s.xr) else alookup k s.cm.anns) ∧
    (∀ x xst, s.xr = some x → x.status = some (.obj xst) →
      ∀ k, alookup k o.st.cm.statusFields =
        if k = "connectionDetails" then ownPublished cst
        else if k = "conditions" then alookup "conditions" cst
        else if statusMachinery k then none else alookup k xst) ∧
    ((s.xr = none ∨ ∃ x, s.xr = some x ∧ x.status = none) → o.st.cm.status = s.cm.status) := by
  simp only [syncSSA_cm c gen s cs h, applySSA_status]
  refine ⟨?_, ?_, ?_, ?_, ?_⟩
  · intro k
    refine Eq.trans ?_ (ssaClaim_spec c (ssaPatch c gen s.cm s.xr cs).name s.cm s.xr cs k)
    split <;> rfl
  · split <;> rfl
  · intro k
    have : ∀ (cm : KObj) (en : String),
        alookup k ((if (en != "") = true then setAnn cm.annotations extNameKey en else cm.annotations).getD []) =
        if k = extNameKey ∧ en ≠ "" then some en else alookup k cm.anns := by
      intro cm en
      by_cases hen : en = ""
      · simp [hen, KObj.anns]
      · have : (en != "") = true := by simp [hen]
        simp only [this, if_true, anns_setAnn, ne_eq, hen, not_false_eq_true, and_true, KObj.anns]
    have key := this s.cm (extName s.xr)
    split <;> exact key
  · intro x xst hx hst k
    simp only [hx, hst]
    exact alookup_ssaStatus s.cm.statusFields xst k
  · intro hn
    rcases hn with hn | ⟨x, hx, hst⟩
    · simp only [hn]; rfl
    · simp only [hx, hst]; rfl

/-- **xr_to_claim**, client-side syncer, the part that holds (`_partial`: see
`xr_to_claim_fails_for_csa_on_unfixed_witness` for what does not). After a successful
sync the claim's status machinery (`conditions`, `connectionDetails`,
`claimConditionTypes`) is exactly the claim's own, and XR-only and each-side spec
machinery (`claimRef`, `resourceRefs`, `writeConnectionSecretToRef`,
`publishConnectionDetailsTo`) never flows back: those claim keys are unchanged.

Full statement that does NOT hold for the client-side syncer (defect D10, known finding
`C07:csa-xr-spec-backflow`): "every claim spec key other than resourceRef,
compositionRef (when the claim has none) and compositionRevisionRef (under Automatic)
is unchanged". -/
theorem xr_to_claim_csa_partial (c : Cfg) (gen : String) (s : St) (cs : AL J)
    (h : s.cm.spec = some (.obj cs)) (herr : (syncCSA c gen s).err = "") :
    (∀ k, statusMachinery k = true →
      alookup k (syncCSA c gen s).st.cm.statusFields = alookup k s.cm.statusFields) ∧
    (∀ k, owner k = .xrOnly ∨ owner k = .eachSide →
      alookup k (syncCSA c gen s).st.cm.specFields = alookup k cs) := by
  obtain ⟨w, hw⟩ := syncCSA_eq c gen s cs h
  obtain ⟨cs1, hcs1, hsame⟩ := csaBound_spec c gen s cs h
  rw [hw] at herr ⊢
  have := csaBack_ok c _ _ _ w cs1 hcs1 herr
  refine ⟨?_, ?_⟩
  · intro k hk
    rw [this.1 k hk]
    simp only [KObj.statusFields, csaBound_status]
  · intro k hk
    rw [this.2 k hk]
    apply hsame
    intro e; subst e
    have : owner "resourceRef" = .claimOnly := by decide
    rw [this] at hk; rcases hk with hk | hk <;> cases hk

/-- Negation witness for the full XR → claim clause on the unchanged client-side syncer
(D10): the claim has no `region`, the XR does; after `syncCSA` the claim has the XR's
value. The server-side syncer on the same state leaves the claim without it. -/
theorem xr_to_claim_fails_for_csa_on_unfixed_witness :
    (alookup "region" d10Witness.cm.specFields).isNone = true ∧
    (syncCSA wcfg "g" d10Witness).err = "" ∧
    strAt "region" (syncCSA wcfg "g" d10Witness).st.cm = "xu-east" ∧
    -- the server-side syncer on the same state does not copy it
    (alookup "region" (syncSSA wcfg "g" d10Witness).st.cm.specFields).isNone = true := by decide


/-! ### compositionRevisionRef: one direction per update policy

Each statement below is about ONE sync and mentions nothing but that sync's claim and
XR (and, for server-side apply, the configuration the claim controller last applied to
that same XR): which claims a syncer served before is not an input. The harness runs
many claims through one long-lived syncer object and compares every sync with these
per-sync functions, so any state carried from one sync to the next is a disagreement. -/

/-- **revision_ref_claim_to_xr**, every policy value, both syncers, the write bodies:
the object handed to server-side apply / client-side Apply carries the claim's
`compositionRevisionRef` when the XR's update policy (as read) is `Manual`, and carries
NO `compositionRevisionRef` at all when the policy is anything else - `Automatic`, unset,
or any other string - and on a first sync (no XR, hence no policy). -/
theorem revision_ref_claim_to_xr (c : Cfg) (gen : String) (cm : KObj) (xr : Option KObj) (cs : AL J) :
    (policyOf (xrSpecFields xr) = some "Manual" →
      alookup revKey (ssaPatch c gen cm xr cs).specFields = alookup revKey cs ∧
      alookup revKey (csaDesired c gen cm xr cs).specFields = alookup revKey cs) ∧
    (policyOf (xrSpecFields xr) ≠ some "Manual" →
      alookup revKey (ssaPatch c gen cm xr cs).specFields = none ∧
      alookup revKey (csaDesired c gen cm xr cs).specFields = none) := by
  have k1 : alookup revKey (ssaPatch c gen cm xr cs).specFields =
      alookup revKey (specToXR c cm (policyOf (xrSpecFields xr) == some "Manual") cs) := rfl
  have k2 : alookup revKey (csaDesired c gen cm xr cs).specFields =
      alookup revKey (specToXR c cm (policyOf (xrSpecFields xr) == some "Manual") cs) := rfl
  rw [k1, k2, alookup_specToXR_rev]
  constructor
  · intro hp; simp [hp]
  · intro hp
    have : (policyOf (xrSpecFields xr) == some "Manual") = false := by simpa using hp
    simp [this]

/-- **revision_ref_claim_to_xr**, in the store, re-sync: when the XR's update policy is not
`Manual` the XR side owns the field, and the stored XR's `compositionRevisionRef` after
the sync is exactly what it was before - whatever the claim carries. For server-side
apply this needs that the claim controller did not itself apply the field to this XR the
last time (it did only if the policy was `Manual` then; in that case apply drops what it
owned, it still never writes the claim's value). -/
theorem revision_ref_xr_kept_unless_manual (c : Cfg) (gen : String) (s : St) (cs : AL J) (x : KObj)
    (h : s.cm.spec = some (.obj cs)) (hx : s.xr = some x)
    (hpol : policyOf x.specFields ≠ some "Manual") :
    ((∀ q, s.prev = some q → alookup revKey q.specFields = none) →
      ∃ y, (syncSSA c gen s).st.xr = some y ∧ alookup revKey y.specFields = alookup revKey x.specFields) ∧
    (∃ y, (syncCSA c gen s).st.xr = some y ∧ alookup revKey y.specFields = alookup revKey x.specFields) := by
  have hb := (revision_ref_claim_to_xr c gen s.cm (some x) cs).2 hpol
  refine ⟨?_, ?_⟩
  · intro hprev
    refine ⟨_, syncSSA_xr c gen s cs h, ?_⟩
    rw [hx]
    exact applySSA_spec_untouched x s.prev _ _ revKey rfl hb.1 hprev
  · obtain ⟨w, hw⟩ := syncCSA_eq c gen s cs h
    refine ⟨csaApplied c gen s cs, ?_, ?_⟩
    · rw [hw]; exact csaBack_xr _ _ _ _ _ rfl
    · have hnone := hb.2
      unfold csaApplied
      simp only [hx]
      split
      · rfl
      · exact mergePatchXR_spec_untouched x _ _ revKey rfl hnone

/-- **revision_ref_claim_to_xr**, in the store, first sync: the XR either syncer creates
has no `compositionRevisionRef`, whatever the claim carries (a new XR has no update
policy yet, so the claim's reference is not pushed). -/
theorem revision_ref_absent_on_first_sync (c : Cfg) (gen : String) (s : St) (cs : AL J)
    (h : s.cm.spec = some (.obj cs)) (hx : s.xr = none) :
    (∃ y, (syncSSA c gen s).st.xr = some y ∧ alookup revKey y.specFields = none) ∧
    (∃ y, (syncCSA c gen s).st.xr = some y ∧ alookup revKey y.specFields = none) := by
  have hb := (revision_ref_claim_to_xr c gen s.cm none cs).2 (by decide)
  refine ⟨⟨_, first_sync_creates_body c gen s cs h hx, hb.1⟩, ?_⟩
  obtain ⟨w, hw⟩ := syncCSA_eq c gen s cs h
  refine ⟨csaApplied c gen s cs, ?_, ?_⟩
  · rw [hw]; exact csaBack_xr _ _ _ _ _ rfl
  · unfold csaApplied
    simp only [hx]
    exact hb.2

/-- **revision_ref_xr_to_claim**, every policy value, both syncers, in the store: after the
sync the claim's `compositionRevisionRef` is the XR's iff the XR's update policy is
`Automatic`; under every other value (`Manual`, unset, any other string, no XR) it is
exactly the claim's own. Server-side syncer: policy and revision of the XR as read (an
XR without a revision leaves the claim's alone). Client-side syncer (successful sync):
policy and revision of the XR as applied (an XR without a revision is mirrored as an
explicit null, which the API server prunes). -/
theorem revision_ref_xr_to_claim (c : Cfg) (gen : String) (s : St) (cs : AL J)
    (h : s.cm.spec = some (.obj cs)) :
    (alookup revKey (syncSSA c gen s).st.cm.specFields =
      if policyOf (xrSpecFields s.xr) = some "Automatic" then
        (match alookup revKey (xrSpecFields s.xr) with
         | some r => some r
         | none => alookup revKey cs)
      else alookup revKey cs) ∧
    ((syncCSA c gen s).err = "" →
      alookup revKey (syncCSA c gen s).st.cm.specFields =
        if policyOf (csaApplied c gen s cs).specFields = some "Automatic" then
          some ((alookup revKey (csaApplied c gen s cs).specFields).getD .null)
        else alookup revKey cs) := by
  refine ⟨?_, ?_⟩
  · have := (xr_to_claim c gen s cs h).1 revKey
    simp only [revKey_ne_resourceRef, revKey_ne_compositionRef, if_false] at this
    simpa using this
  · intro herr
    obtain ⟨w, hw⟩ := syncCSA_eq c gen s cs h
    obtain ⟨cs1, hcs1, hsame⟩ := csaBound_spec c gen s cs h
    rw [hw] at herr ⊢
    rw [csaBack_rev c _ _ _ w cs1 hcs1 herr, hsame revKey revKey_ne_resourceRef]

/-- the three policy values on concrete states: a claim pinned to `rev-1` against an XR
at `rev-2`. Manual: the XR receives `rev-1`, the claim keeps `rev-1`. Automatic: the XR
keeps `rev-2`, the claim receives `rev-2`. Unset: neither side changes. Both syncers. -/
def revState (policy : Option String) : St :=
  let pol : AL J := match policy with | some p => [("compositionUpdatePolicy", .str p)] | none => []
  { cm := { name := "my-claim"
            spec := some (.obj (pol ++ [("compositionRevisionRef", .obj [("name", .str "rev-1")]),
                                        ("resourceRef", xrRefJ wcfg "my-claim-x")])) }
    xr := some { name := "my-claim-x"
                 labels := [("crossplane.io/claim-name", "my-claim"), ("crossplane.io/claim-namespace", "team-a")]
                 spec := some (.obj (pol ++ [("claimRef", claimRefJ wcfg { name := "my-claim" }),
                                             ("compositionRevisionRef", .obj [("name", .str "rev-2")])])) } }

def revOf (o : Option KObj) : String :=
  match o with
  | some x => (match alookup revKey x.specFields with
               | some (.obj [("name", .str v)]) => v
               | _ => "")
  | none => ""

example :
    (revOf (syncSSA wcfg "g" (revState (some "Manual"))).st.xr = "rev-1" ∧
     revOf (some (syncSSA wcfg "g" (revState (some "Manual"))).st.cm) = "rev-1" ∧
     revOf (syncCSA wcfg "g" (revState (some "Manual"))).st.xr = "rev-1" ∧
     revOf (some (syncCSA wcfg "g" (revState (some "Manual"))).st.cm) = "rev-1") ∧
    (revOf (syncSSA wcfg "g" (revState (some "Automatic"))).st.xr = "rev-2" ∧
     revOf (some (syncSSA wcfg "g" (revState (some "Automatic"))).st.cm) = "rev-2" ∧
     revOf (syncCSA wcfg "g" (revState (some "Automatic"))).st.xr = "rev-2" ∧
     revOf (some (syncCSA wcfg "g" (revState (some "Automatic"))).st.cm) = "rev-2") ∧
    (revOf (syncSSA wcfg "g" (revState none)).st.xr = "rev-2" ∧
     revOf (some (syncSSA wcfg "g" (revState none)).st.cm) = "rev-1" ∧
     revOf (syncCSA wcfg "g" (revState none)).st.xr = "rev-2" ∧
     revOf (some (syncCSA wcfg "g" (revState none)).st.cm) = "rev-1") := by decide

/-! ### the hypotheses are satisfiable by non-trivial states -/

/-- a re-sync of a claim with user fields (one nesting machinery names), claim-only and
each-side machinery against an XR holding composed-resource references, its own secret
reference, an external name, conditions and a user status field -/
def exampleState : St :=
  { cm := { name := "my-claim"
            labels := [("team", "a"), ("app.kubernetes.io/name", "x")]
            annotations := some [("kubectl.kubernetes.io/last-applied-configuration", "{}"), ("crossplane.io/external-name", "claim-ext")]
            spec := some (.obj [("region", .str "eu"), ("params", .obj [("resourceRef", .str "nested")]),
                                ("compositionSelector", .obj [("matchLabels", .obj [])]),
                                ("compositeDeletePolicy", .str "Foreground"),
                                ("writeConnectionSecretToRef", .obj [("name", .str "cm-secret")]),
                                ("resourceRef", xrRefJ wcfg "my-claim-x")])
            status := some (.obj [("conditions", .arr [.obj [("type", .str "Ready")]])]) }
    xr := some { name := "my-claim-x"
                 annotations := some [("crossplane.io/external-name", "xr-ext")]
                 spec := some (.obj [("claimRef", claimRefJ wcfg { name := "my-claim" }), ("region", .str "old"),
                                     ("resourceRefs", .arr [.obj [("name", .str "cd-0")]]),
                                     ("writeConnectionSecretToRef", .obj [("name", .str "xr-secret")]),
                                     ("compositionRef", .obj [("name", .str "comp")])])
                 status := some (.obj [("conditions", .arr [.obj [("type", .str "Synced")]]), ("address", .str "10.0.0.1")]) }
    prev := some { name := "my-claim-x", spec := some (.obj [("region", .str "old"), ("size", .num 3)]) } }

example : ClaimValid exampleState.cm.specFields ∧ NoDup exampleState.cm.anns ∧ Inv exampleState := by
  have hv : ClaimValid exampleState.cm.specFields := by
    intro k hk
    have h1 : k = "claimRef" ∨ k = "resourceRefs" := by
      by_cases hm : k ∈ machineryKeys
      · revert hk; revert k; decide
      · rw [owner_user_of_not_machinery k hm] at hk; cases hk
    rcases h1 with h1 | h1 <;> subst h1 <;> decide
  refine ⟨hv, by unfold NoDup akeys; decide, hv, ?_⟩
  intro q hq k hk
  cases hq
  rcases hk with hk | hk
  · have h1 : k = "writeConnectionSecretToRef" ∨ k = "publishConnectionDetailsTo" := by
      by_cases hm : k ∈ machineryKeys
      · revert hk; revert k; decide
      · rw [owner_user_of_not_machinery k hm] at hk; cases hk
    rcases h1 with h1 | h1 <;> subst h1 <;> decide
  · subst hk; decide

/-- what the theorems say, evaluated on that state: the XR keeps its own fields and
external name and receives the claim's user fields; the claim keeps its conditions,
receives the XR's user status and composition reference, and none of the XR's machinery -/
example :
    let o := syncSSA wcfg "g" exampleState
    let y := o.st.xr.getD { name := "" }
    o.err = "" ∧ o.st.xr.isSome ∧
    strAt "region" y = "eu" ∧ (alookup "size" y.specFields).isNone ∧
    (alookup "resourceRefs" y.specFields).isSome ∧ (alookup "compositeDeletePolicy" y.specFields).isNone ∧
    (match alookup "writeConnectionSecretToRef" y.specFields with
     | some (.obj [("name", .str v)]) => v
     | _ => "") = "xr-secret" ∧
    extName o.st.xr = "xr-ext" ∧ (alookup "app.kubernetes.io/name" y.labels).isNone ∧
    alookup "team" y.labels = some "a" ∧
    (match alookup "address" o.st.cm.statusFields with | some (.str v) => v | _ => "") = "10.0.0.1" ∧
    (match alookup "conditions" o.st.cm.statusFields with
     | some (.arr [.obj [("type", .str v)]]) => v
     | _ => "") = "Ready" ∧
    (alookup "resourceRefs" o.st.cm.specFields).isNone ∧ (alookup "compositionRef" o.st.cm.specFields).isSome := by
  decide

/-! ### first sync and re-sync: every history -/

/-- Along every history of syncs (either syncer), user edits of the claim that the API
server admits, XR-controller writes and managed-field upgrades, starting from a valid
claim that the claim controller has not applied yet: the claim stays free of XR-only
machinery and the configuration last applied by the claim controller's field manager
never mentions a key the XR side owns (the hypothesis of `xr_owned_preserved`). -/
theorem prev_never_owns (c : Cfg) (s0 : St) (ops : List Op)
    (h0 : ClaimValid s0.cm.specFields) (hp : s0.prev = none) (hv : ∀ op ∈ ops, ValidOp op) :
    Inv (run c s0 ops) :=
  inv_run c ops s0 ⟨h0, fun q hq => by rw [hp] at hq; cases hq⟩ hv

/-- **xr_owned_preserved**, every history: at any server-side sync anywhere in any
admitted history, the stored XR keeps its `resourceRefs`, `writeConnectionSecretToRef`,
`publishConnectionDetailsTo`, status and name. -/
theorem xr_owned_preserved_history (c : Cfg) (s0 : St) (pre post : List Op) (gen : String)
    (h0 : ClaimValid s0.cm.specFields) (hp : s0.prev = none)
    (hv : ∀ op ∈ pre ++ Op.syncSSA gen :: post, ValidOp op)
    (x : KObj) (cs : AL J) (hx : (run c s0 pre).xr = some x) (hcs : (run c s0 pre).cm.spec = some (.obj cs)) :
    ∃ y, (syncSSA c gen (run c s0 pre)).st.xr = some y ∧
      (∀ k, XrOwned k → alookup k y.specFields = alookup k x.specFields) ∧
      y.status = x.status ∧ y.name = x.name := by
  have hinv := prev_never_owns c s0 pre h0 hp (fun op ho => hv op (List.mem_append_left _ ho))
  have hvalid : ClaimValid cs := by
    have := hinv.1; simpa [KObj.specFields, hcs, objFields] using this
  exact xr_owned_preserved c gen _ cs x hcs hx hvalid hinv.2

/-! ### worlds that are not quiet: stale cached reads, third parties, failing calls

`syncSSAW` / `syncCSAW` (Xp/Model/C07World.lean) are the call-level model the harness
runs: what the reconciler READ (`rcm`, `rxr`: any version, the XR possibly missing) is
an input of its own, third parties write before any API call, any call may fail with
any error class, writes of the claim are resource-version checked. Everything above is
about the special case below; what follows holds in every world. -/

/-- **world_model_is_sync_when_quiet**: no third party, no failing call, the reconciler
read the stored objects: the call-level model IS `syncSSA` / `syncCSA` (stored claim, XR,
applied configuration, writes, error), so every theorem above is a theorem about the
model the differential harness runs. -/
theorem world_model_is_sync_when_quiet (c : Cfg) (gen : String) (s : Srv) :
    (let o := syncSSAW c gen World.quiet s.cm s.cmV s.xr s
     o.srv.toSt = (syncSSA c gen s.toSt).st ∧ o.writes = (syncSSA c gen s.toSt).writes ∧
       o.err = (syncSSA c gen s.toSt).err) ∧
    ((s.xr = none → s.prev = none) →
     let o := syncCSAW c gen World.quiet s.cm s.cmV s.xr s.xrV s
     o.srv.toSt = (syncCSA c gen s.toSt).st ∧ o.writes = (syncCSA c gen s.toSt).writes ∧
       o.err = (syncCSA c gen s.toSt).err) :=
  ⟨syncSSAW_quiet c gen s, fun hp => syncCSAW_quiet c gen s hp⟩

/-- **claim_to_xr_every_world**: in every world - whatever third parties write between the
calls, whichever call fails, however stale the cached reads - every request either syncer
sends to the XR (apply, create, merge patch) carries the field partition of the claim AS
READ: user and composition-selection fields unchanged, claim-only and each-side machinery
never, the revision reference iff the update policy of the XR as read is Manual, and a
`claimRef` naming the claim. -/
theorem claim_to_xr_every_world (c : Cfg) (gen : String) (w : World) (rcm : KObj) (rcmV : Nat)
    (rxr : Option KObj) (rxrV : Nat) (s : Srv) (cs : AL J) (hcs : rcm.spec = some (.obj cs))
    (wr : Write) (hx : wr.isXR = true)
    (h : wr ∈ (syncSSAW c gen w rcm rcmV rxr s).writes ∨ wr ∈ (syncCSAW c gen w rcm rcmV rxr rxrV s).writes)
    (k : String) :
    let ps := wr.body.specFields
    (owner k = .user ∨ owner k = .shared → alookup k ps = alookup k cs) ∧
    (owner k = .claimOnly ∨ owner k = .eachSide → alookup k ps = none) ∧
    (owner k = .revision →
      alookup k ps = if policyOf (xrSpecFields rxr) == some "Manual" then alookup k cs else none) ∧
    (k = "claimRef" → alookup k ps = some (claimRefJ c rcm)) := by
  rcases h with h | h
  · have := syncSSAW_xr_writes c gen w rcm rcmV rxr s cs hcs wr h hx
    subst this
    have t := claim_to_xr c gen rcm rxr cs k
    exact ⟨t.1, t.2.1, t.2.2.1, t.2.2.2.1⟩
  · rcases syncCSAW_xr_writes c gen w rcm rcmV rxr rxrV s cs hcs wr h hx with e | e <;>
    · subst e
      exact claim_to_xr_csa c gen rcm rxr cs k

/-- **xr_owned_preserved_any_store**: what the XR side owns survives whatever XR the write
meets in the store. For EVERY stored XR `cur` (changed by anybody since it was read, or
never seen by the cache at all) and every read `rcm`, `rxr` the write body was computed
from: the server-side apply (claim controller's previous configuration not owning, see
`prev_never_owns_every_world`) and the client-side merge patch leave `resourceRefs`,
`writeConnectionSecretToRef`, `publishConnectionDetailsTo` and the status of `cur` as they are. -/
theorem xr_owned_preserved_any_store (c : Cfg) (gen : String) (rcm : KObj) (rxr : Option KObj) (cs : AL J)
    (cur : KObj) (prev : Option KObj) (hv : ClaimValid cs)
    (hprev : ∀ q, prev = some q → ∀ k, XrOwned k → alookup k q.specFields = none) :
    (let y := applySSA (some cur) prev (ssaPatch c gen rcm rxr cs)
     (∀ k, XrOwned k → alookup k y.specFields = alookup k cur.specFields) ∧ y.status = cur.status ∧ y.name = cur.name) ∧
    (let y := mergePatchXR cur (csaDesired c gen rcm rxr cs)
     (∀ k, XrOwned k → alookup k y.specFields = alookup k cur.specFields) ∧ y.status = cur.status) :=
  ⟨applySSA_keeps_owned c gen rcm rxr cs cur prev hv hprev, mergePatch_keeps_owned c gen rcm rxr cs cur hv⟩

/-- **prev_never_owns_every_world**: the hypothesis of `xr_owned_preserved_any_store` is an
invariant of every sync in every world: if the configuration last applied by the claim
controller's field manager mentions no key the XR side owns, it still does not after a
sync by either syncer - with any third-party writes, failing calls and stale reads - as
long as the claim that was read is a valid instance of the claim CRD. -/
theorem prev_never_owns_every_world (c : Cfg) (gen : String) (w : World) (rcm : KObj) (rcmV : Nat)
    (rxr : Option KObj) (rxrV : Nat) (s : Srv) (hp : PrevOK s) (hv : ClaimValid rcm.specFields) :
    PrevOK (syncSSAW c gen w rcm rcmV rxr s).srv ∧ PrevOK (syncCSAW c gen w rcm rcmV rxr rxrV s).srv :=
  ⟨syncSSAW_prevOK c gen w rcm rcmV rxr s hp hv, syncCSAW_prevOK c gen w rcm rcmV rxr rxrV s hp⟩

/-- **stale_claim_never_overwritten**: a sync that works on a copy of the claim older than
the stored claim (an old version from the cache; for the server-side syncer also: a user
edited the claim between the read and the first write) never writes the claim: it ends in
an error and the stored claim is exactly what third parties made of it (`ClaimByEnv`). The
server-side syncer stops at its first call, before anything is sent to the XR. -/
theorem stale_claim_never_overwritten (c : Cfg) (gen : String) (w : World) (rcm : KObj) (rcmV : Nat)
    (rxr : Option KObj) (rxrV : Nat) (s : Srv) (cs : AL J) (hcs : rcm.spec = some (.obj cs)) :
    (rcmV ≠ (applyActs s (w.acts 0)).cmV →
      let o := syncSSAW c gen w rcm rcmV rxr s
      o.err ≠ "" ∧ o.srv = applyActs s (w.acts 0) ∧ o.calls = 1 ∧ (∀ wr ∈ o.writes, wr.isXR = false)) ∧
    (rcmV < s.cmV →
      let o := syncCSAW c gen w rcm rcmV rxr rxrV s
      o.err ≠ "" ∧ ClaimByEnv s o.srv) :=
  ⟨syncSSAW_stale_claim c gen w rcm rcmV rxr s cs hcs, syncCSAW_stale_claim c gen w rcm rcmV rxr rxrV s cs hcs⟩

/-- **no_api_error_swallowed**: every error class at every call. A sync that returns no
error had no failing call - the one exception being a NotFound answer to the Get inside
the client-side Apply (its first or second call), which means "create the XR". -/
theorem no_api_error_swallowed (c : Cfg) (gen : String) (w : World) (rcm : KObj) (rcmV : Nat)
    (rxr : Option KObj) (rxrV : Nat) (s : Srv) (cs : AL J) (hcs : rcm.spec = some (.obj cs)) :
    ((syncSSAW c gen w rcm rcmV rxr s).err = "" →
      ∀ k, k < (syncSSAW c gen w rcm rcmV rxr s).calls → w.inj k = none) ∧
    ((syncCSAW c gen w rcm rcmV rxr rxrV s).err = "" →
      ∀ k, k < (syncCSAW c gen w rcm rcmV rxr rxrV s).calls → ∀ e, w.inj k = some e → k ≤ 1 ∧ e = "notFound") :=
  ⟨syncSSAW_ok_no_failed_call c gen w rcm rcmV rxr s cs hcs, syncCSAW_ok_no_failed_call c gen w rcm rcmV rxr rxrV s⟩

/-- **external_name_preserved_when_read**: the exact boundary of the recorded finding D27.
Whatever XR the server-side apply meets in the store, afterwards it carries the external
name of the XR AS READ (when that is not empty): an existing external name survives iff
the version the reconciler read already carried it. -/
theorem external_name_preserved_when_read (c : Cfg) (gen : String) (rcm : KObj) (rxr : Option KObj) (cs : AL J)
    (cur : KObj) (prev : Option KObj) (hen : extName rxr ≠ "") (hnd : NoDup rcm.anns) :
    extName (some (applySSA (some cur) prev (ssaPatch c gen rcm rxr cs))) = extName rxr :=
  applySSA_extName_of_read c gen rcm rxr cs cur prev hen hnd

/-- D27 witness state: the stored XR received the external name `xr-new` after the version
the informer cache still holds (`d27ReadXR`, no external name); the claim carries its own. -/
def d27Stored : Srv :=
  { cm := { name := "my-claim"
            annotations := some [("crossplane.io/external-name", "claim-ext")]
            spec := some (.obj [("region", .str "eu"), ("resourceRef", xrRefJ wcfg "my-claim-x")]) }
    cmV := 3
    xr := some { name := "my-claim-x"
                 labels := [("crossplane.io/claim-name", "my-claim"), ("crossplane.io/claim-namespace", "team-a")]
                 annotations := some [("crossplane.io/external-name", "xr-new")]
                 spec := some (.obj [("claimRef", claimRefJ wcfg { name := "my-claim" }), ("region", .str "eu")]) }
    xrV := 5 }

def d27ReadXR : KObj :=
  { name := "my-claim-x"
    labels := [("crossplane.io/claim-name", "my-claim"), ("crossplane.io/claim-namespace", "team-a")]
    spec := some (.obj [("claimRef", claimRefJ wcfg { name := "my-claim" }), ("region", .str "eu")]) }

/-- the same XR before a third party gave it an external name, and that third party's write -/
def d27Before : Srv := { d27Stored with xr := some d27ReadXR }

def d27Race : World :=
  { acts := fun k => if k = 1 then [Act.xrCtl { setAnn := [("crossplane.io/external-name", "xr-new")] }] else [] }

/-- Negation witness for "an existing external name is preserved" on the unchanged
server-side syncer outside the quiet world (recorded finding D27, signature
`C07:external-name-overwritten-after-stale-xr-read`): (1) the reconciler reads an XR
version that does not carry the external name yet (cache lag) - the sync succeeds and the
stored XR's `xr-new` is replaced by the claim's `claim-ext`; (2) the reads are fresh but a
third party sets the external name between the claim update and the apply - same loss;
(3) with a fresh read and no interference the name survives (`external_name_preserved`). -/
theorem external_name_overwritten_after_stale_read_witness :
    extName d27Stored.xr = "xr-new" ∧
    (let o := syncSSAW wcfg "g" World.quiet d27Stored.cm d27Stored.cmV (some d27ReadXR) d27Stored
     o.err = "" ∧ extName o.srv.xr = "claim-ext") ∧
    (let o := syncSSAW wcfg "g" d27Race d27Before.cm d27Before.cmV d27Before.xr d27Before
     o.err = "" ∧ extName o.srv.xr = "claim-ext") ∧
    (let o := syncSSAW wcfg "g" World.quiet d27Stored.cm d27Stored.cmV d27Stored.xr d27Stored
     o.err = "" ∧ extName o.srv.xr = "xr-new") := by decide

/-- the hypotheses of the world theorems are satisfiable: a stale claim copy against a
store that moved on, an injected failure, a third party's edit -/
example :
    let w : World := { acts := fun k => if k = 0 then [Act.editClaim { setSpec := [("region", .str "us")] }] else []
                       inj := fun k => if k = 1 then some "forbidden" else none }
    -- the user's edit before the first write makes the claim copy stale: Conflict, nothing else happens
    (syncSSAW wcfg "g" w d27Stored.cm d27Stored.cmV d27Stored.xr d27Stored).err = "api:conflict" ∧
    strAt "region" (syncSSAW wcfg "g" w d27Stored.cm d27Stored.cmV d27Stored.xr d27Stored).srv.cm = "us" ∧
    -- without the edit the injected Forbidden on the apply is returned, the XR is untouched
    (syncSSAW wcfg "g" { inj := w.inj } d27Stored.cm d27Stored.cmV d27Stored.xr d27Stored).err = "api:forbidden" ∧
    extName (syncSSAW wcfg "g" { inj := w.inj } d27Stored.cm d27Stored.cmV d27Stored.xr d27Stored).srv.xr = "xr-new" := by
  decide

/-! ### regenerated call skeletons (tie to the source, DESIGN section 11)

For every Go function the model mirrors: the ordered list of every call it makes, extracted
from the current tree on every run (harness/main/c07_dump.go → Xp.Gen.c07Skel…), equals the
skeleton the model was written against (Xp/Model/C07Skel.lean, one entry per call with the
model step that mirrors it). -/

/-- `ServerSideCompositeSyncer.Sync` -/
theorem skeleton_ssa_sync : Xp.Gen.c07SkelSsaSync = skelSsaSync := by decide

/-- `ClientSideCompositeSyncer.Sync` -/
theorem skeleton_csa_sync : Xp.Gen.c07SkelCsaSync = skelCsaSync := by decide

/-- `NewClientSideCompositeSyncer`: the applicator is crossplane-runtime's APIPatchingApplicator -/
theorem skeleton_new_csa : Xp.Gen.c07SkelNewCsa = skelNewCsa := by decide

/-- crossplane-runtime's `APIPatchingApplicator.Apply`, in the module version go.mod requires
(the client-side syncer's Apply; `csaApplyW` mirrors it) -/
theorem skeleton_runtime_apply : Xp.Gen.c07SkelRuntimeApply = skelRuntimeApply := by decide

/-- `PatchingManagedFieldsUpgrader.Upgrade` -/
theorem skeleton_upgrade : Xp.Gen.c07SkelUpgrade = skelUpgrade := by decide

/-- `withoutReservedK8sEntries`: calls and statement shape -/
theorem skeleton_without_reserved :
    Xp.Gen.c07SkelWithoutReserved = skelWithoutReserved ∧ Xp.Gen.c07ShapeWithoutReserved = shapeWithoutReserved := by
  decide

/-- `withoutKeys` makes no calls: its statement shape is the regenerated fact -/
theorem skeleton_without_keys :
    Xp.Gen.c07SkelWithoutKeys = skelWithoutKeys ∧ Xp.Gen.c07ShapeWithoutKeys = shapeWithoutKeys := by decide

/-- `merge` (object.go) -/
theorem skeleton_merge : Xp.Gen.c07SkelMerge = skelMerge := by decide

/-- `xcrd.GetPropFields` -/
theorem skeleton_get_prop_fields :
    Xp.Gen.c07SkelGetPropFields = skelGetPropFields ∧ Xp.Gen.c07ShapeGetPropFields = shapeGetPropFields := by decide

/-- the constants, tables and option values the two `Sync`s refer to (which update policy
gates which direction, the only mergo option, the apply options), in source order -/
theorem skeleton_refs :
    Xp.Gen.c07RefsSsaSync = refsSsaSync ∧ Xp.Gen.c07RefsCsaSync = refsCsaSync := by decide

/-- The API calls of the declared skeletons ARE the model's writes: on a state on which every
write happens, the writes of `syncSSA` / `syncCSA`, in order, are the client calls of the
declared (= regenerated) skeleton, in order. -/
theorem skeleton_api_calls_are_model_writes :
    (syncSSA wcfg "g" skelStateSSA).writes.map (Write.verb true) = skelSsaSync.filter isClientCall ∧
    (syncCSA wcfg "c-x" skelStateCSA).writes.map (Write.verb false) = skelCsaSync.filter isClientCall := by
  decide

/-! ### the reserved-key filter -/

/-- The literals of `withoutReservedK8sEntries` in the current tree: it splits at one
one-character separator and tests exactly these suffixes (the model's `reserved` is a
function of these regenerated tables). -/
theorem reserved_tables :
    Xp.Gen.c07ReservedSeparators.map String.toList = [[reservedSep]] ∧ reservedSep = '/' ∧
    Xp.Gen.c07ReservedSuffixes = ["kubernetes.io", "k8s.io"] := by decide

/-- **Which keys are reserved**, stated without the tables: `k` is reserved iff it is
`p ++ r` where `p` contains no "/", `r` is empty or starts with "/", and `p` ends in
`kubernetes.io` or `k8s.io`. (Suffix, not label-domain match: `xkubernetes.io/a` is reserved,
`kubernetes.io.x/a` and `a/kubernetes.io` are not.) -/
theorem reserved_iff (k : String) :
    reserved k = true ↔
      ∃ p r, k.toList = p ++ r ∧ '/' ∉ p ∧ (r = [] ∨ r.head? = some '/') ∧
        ("kubernetes.io".toList <:+ p ∨ "k8s.io".toList <:+ p) := by
  rw [reserved_eq]
  simp only [Bool.or_eq_true, List.isSuffixOf_iff_suffix]
  constructor
  · intro h
    exact ⟨_, _, (List.takeWhile_append_dropWhile (p := (· != '/')) (l := k.toList)).symm,
      not_mem_takeWhile_ne '/' _, dropWhile_ne_head '/' _, h⟩
  · rintro ⟨p, r, hk, hp, hr, hs⟩
    rw [hk, takeWhile_ne_append '/' p r hp hr]
    exact hs

example : reserved "kubectl.kubernetes.io/last-applied-configuration" = true ∧ reserved "xkubernetes.io/a" = true ∧
    reserved "k8s.io" = true ∧ reserved "kubernetes.io.x/a" = false ∧ reserved "a/kubernetes.io" = false ∧
    reserved "K8s.io/x" = false ∧ reserved "crossplane.io/external-name" = false := by decide

/-! ### labels and annotations: which cross, in which direction

claim → XR: `claim_to_xr_meta`, `claim_to_xr_meta_csa` above (every non-reserved label and
annotation, the two claim labels; the XR's existing external name wins).
XR → claim: nothing but the external name (below).
Reserved keys: never cross, and a reserved label / annotation the XR holds is never changed
or removed by a sync, in any history (below). -/

/-- **XR → claim, labels and annotations, server-side syncer**: every claim write (Update,
Status().Update) and the stored claim afterwards carry the claim's own name and labels and
its own annotations, except that the external name is the XR's when the XR has one. No
other label or annotation of the XR reaches the claim. -/
theorem meta_xr_to_claim (c : Cfg) (gen : String) (s : St) (cs : AL J) (h : s.cm.spec = some (.obj cs)) :
    (∀ w ∈ (syncSSA c gen s).writes, w.isXR = false → ClaimMetaOf s.cm (extName s.xr) w.body) ∧
    ClaimMetaOf s.cm (extName s.xr) (syncSSA c gen s).st.cm :=
  syncSSA_claim_meta c gen s cs h

/-- **XR → claim, labels and annotations, client-side syncer**: the same, the external name
being that of the XR as applied (its first two claim writes precede the copy and carry the
claim's metadata unchanged). -/
theorem meta_xr_to_claim_csa (c : Cfg) (gen : String) (s : St) (cs : AL J) (h : s.cm.spec = some (.obj cs)) :
    let en := extName (some (csaApplied c gen s cs))
    (∀ w ∈ (syncCSA c gen s).writes, w.isXR = false →
      ClaimMetaOf s.cm "" w.body ∨ ClaimMetaOf s.cm en w.body) ∧
    (ClaimMetaOf s.cm "" (syncCSA c gen s).st.cm ∨ ClaimMetaOf s.cm en (syncCSA c gen s).st.cm) ∧
    ((syncCSA c gen s).err = "" → ClaimMetaOf s.cm en (syncCSA c gen s).st.cm) :=
  syncCSA_claim_meta c gen s cs h

/-- **XR → claim, labels and annotations, every world** (server-side syncer): whatever third
parties write between the calls, whichever call fails, however stale the reads - every
claim write carries the name, labels and annotations of the claim AS READ, the external
name being that of the XR AS READ when it has one. -/
theorem meta_xr_to_claim_every_world (c : Cfg) (gen : String) (w : World) (rcm : KObj) (rcmV : Nat)
    (rxr : Option KObj) (s : Srv) (cs : AL J) (hcs : rcm.spec = some (.obj cs))
    (wr : Write) (h : wr ∈ (syncSSAW c gen w rcm rcmV rxr s).writes) (hx : wr.isXR = false) :
    ClaimMetaOf rcm (extName rxr) wr.body :=
  syncSSAW_claim_meta c gen w rcm rcmV rxr s cs hcs wr h hx

example :
    let o := syncSSA wcfg "g" exampleState
    o.st.cm.labels = exampleState.cm.labels ∧
    alookup extNameKey o.st.cm.anns = some "xr-ext" ∧
    alookup "kubectl.kubernetes.io/last-applied-configuration" o.st.cm.anns = some "{}" := by decide

/-- **Reserved labels / annotations never cross and are never disturbed, server-side
syncer**: the apply body carries none, and a reserved label or annotation of the stored XR
(e.g. one a user or another controller put there) has the same value - or absence - after the
sync, provided the claim controller's previously applied configuration carried none
(`prev_clean_every_history`: it never does). -/
theorem reserved_meta_untouched (c : Cfg) (gen : String) (s : St) (cs : AL J) (x : KObj) (k : String)
    (h : s.cm.spec = some (.obj cs)) (hx : s.xr = some x) (hk : reserved k = true) (hp : PrevClean s.prev) :
    alookup k (ssaPatch c gen s.cm s.xr cs).labels = none ∧ alookup k (ssaPatch c gen s.cm s.xr cs).anns = none ∧
    ∃ y, (syncSSA c gen s).st.xr = some y ∧
      alookup k y.labels = alookup k x.labels ∧ alookup k y.anns = alookup k x.anns := by
  have hl := ssaPatch_reserved_labels c gen s.cm s.xr cs k hk
  have ha := ssaPatch_reserved_anns c gen s.cm s.xr cs k hk
  refine ⟨hl, ha, _, syncSSA_xr c gen s cs h, ?_, ?_⟩
  · rw [hx] at hl ⊢
    exact applySSA_labels_untouched x s.prev _ k hl (fun q hq => (hp q hq k hk).1)
  · rw [hx] at ha ⊢
    exact applySSA_anns_untouched x s.prev _ k ha (fun q hq => (hp q hq k hk).2)

/-- the same for the client-side syncer: the XR its Apply leaves in the store has every
reserved label and annotation of the XR it found, unchanged -/
theorem reserved_meta_untouched_csa (c : Cfg) (gen : String) (s : St) (cs : AL J) (x : KObj) (k : String)
    (hx : s.xr = some x) (hk : reserved k = true)
    (hcl : NoDup s.cm.labels) (hca : NoDup s.cm.anns) (hxl : NoDup x.labels) (hxa : NoDup x.anns) :
    alookup k (csaApplied c gen s cs).labels = alookup k x.labels ∧
    alookup k (csaApplied c gen s cs).anns = alookup k x.anns := by
  have h1 : k ≠ Xp.Gen.labelKeyClaimNamespace := by intro e; subst e; revert hk; decide
  have h2 : k ≠ Xp.Gen.labelKeyClaimName := by intro e; subst e; revert hk; decide
  have h3 : k ≠ extNameKey := by intro e; subst e; revert hk; decide
  obtain ⟨dl, da⟩ := claim_to_xr_meta_csa c gen s.cm s.xr cs k hcl hca
  simp only [hx, Option.getD_some, h1, h2, h3, hk, if_true, if_false, false_and] at dl da
  unfold csaApplied
  simp only [hx]
  split
  · exact ⟨rfl, rfl⟩
  · refine ⟨?_, ?_⟩
    · simp only [mergePatchXR]
      have hnd : NoDup (csaDesired c gen s.cm (some x) cs).labels := by
        simp only [csaDesired, Option.getD_some]
        exact NoDup_addAll _ _ (NoDup_addAll _ _ hxl)
      rw [alookup_addAll _ _ _ hnd, dl]
      cases alookup k x.labels <;> rfl
    · simp only [mergePatchXR, KObj.anns]
      cases hda : (csaDesired c gen s.cm (some x) cs).annotations with
      | none => rfl
      | some m =>
        have hnd : NoDup m := by
          have : NoDup ((csaDesired c gen s.cm (some x) cs).anns) := by
            simp only [csaDesired, Option.getD_some, KObj.anns]
            have hbase : NoDup ((addAnn x.annotations (s.cm.annotations.map withoutReserved)).getD []) := by
              cases hxa' : x.annotations with
              | none =>
                cases hca' : s.cm.annotations with
                | none => simp [addAnn, NoDup, akeys]
                | some a =>
                  simp only [addAnn, Option.map_some, Option.getD_some]
                  exact NoDup_filter _ a (by simpa [KObj.anns, hca'] using hca)
              | some xa =>
                simp only [addAnn, Option.getD_some]
                exact NoDup_addAll _ _ (by simpa [KObj.anns, hxa'] using hxa)
            split
            · exact NoDup_setAnn _ _ _ hbase
            · exact hbase
          simpa [KObj.anns, hda] using this
        have da' : alookup k m = alookup k x.anns := by simpa [KObj.anns, hda] using da
        simp only [Option.getD_some]
        rw [alookup_addAll _ _ _ hnd, da']
        simp only [KObj.anns]
        cases alookup k (x.annotations.getD []) <;> rfl

/-- `PrevClean` (the hypothesis of `reserved_meta_untouched`) holds along every history of
syncs of either syncer, claim edits, XR-controller writes and upgrades. -/
theorem prev_clean_every_history (c : Cfg) (s0 : St) (ops : List Op) (hp : s0.prev = none) :
    PrevClean (run c s0 ops).prev :=
  run_prevClean c ops s0 (fun q hq => by rw [hp] at hq; cases hq)

example :
    let s : St := { exampleState with
      xr := exampleState.xr.map fun x => { x with labels := [("topology.kubernetes.io/zone", "z1"), ("team", "old")] }
      prev := some { name := "my-claim-x", labels := [("team", "old")] } }
    PrevClean s.prev ∧
    (alookup "topology.kubernetes.io/zone" ((syncSSA wcfg "g" s).st.xr.getD { name := "" }).labels = some "z1") ∧
    (alookup "team" ((syncSSA wcfg "g" s).st.xr.getD { name := "" }).labels = some "a") := by
  refine ⟨?_, by decide, by decide⟩
  intro q hq k hk
  cases hq
  refine ⟨?_, rfl⟩
  by_cases h : k = "team"
  · subst h; revert hk; decide
  · simp [alookup, Ne.symm h]

/-! ### mergo on lists -/

/-- **Lists (of scalars or of maps) are atoms for both merges**: `merge` passes mergo no
slice option (`skeleton_refs`), so a list of the XR replaces the claim's value wholesale
under WithOverride (status) and otherwise only fills an absent or empty claim value (spec);
lists of maps are never merged element-wise. -/
theorem merge_lists_are_atoms (dst : Option J) (l : List J) :
    mergeV true dst (.arr l) = some (.arr l) ∧
    mergeV false dst (.arr l) =
      (match dst with
       | none => some (.arr l)
       | some d => if isEmptyJ d then some (.arr l) else some d) := by
  constructor
  · simp [mergeV]
  · cases dst <;> simp [mergeV]

example :
    jeqv (.obj (mergeF true [("ports", .arr [.obj [("n", .num 1), ("p", .str "a")]])] [("ports", .arr [.obj [("n", .num 2)]])]))
      (.obj [("ports", .arr [.obj [("n", .num 2)]])]) = true ∧
    jeqv (.obj (mergeF false [("ports", .arr [.obj [("n", .num 1)]])] [("ports", .arr [.obj [("n", .num 2)]]), ("tags", .arr [.str "x"])]))
      (.obj [("ports", .arr [.obj [("n", .num 1)]]), ("tags", .arr [.str "x"])]) = true := by decide

/-! ### the managed-fields upgrader (CSA → SSA migration) -/

/-- The JSON patches of `Upgrade` in the current tree write nothing but
metadata.managedFields and metadata.resourceVersion: no label, annotation, spec or status
field of the XR. -/
theorem upgrade_patches_only_bookkeeping :
    upgradePaths ≠ [] ∧ ∀ p ∈ upgradePaths, bookkeepingPath p = true := by decide

/-- The three cases of `Upgrade`, for every list of managers in every order: the claim
manager present and before-first-apply absent - nothing is sent; both present - exactly the
LAST before-first-apply entry is removed; the claim manager absent - all managers are
cleared. -/
theorem upgrade_plan_cases (ssa : String) (mf : List String) :
    (ssa ∈ mf → bfaManager ∉ mf → upgradePlan true ssa mf = .nothing) ∧
    (ssa ∉ mf → upgradePlan true ssa mf = .clearAll) ∧
    (ssa ∈ mf → bfaManager ∈ mf →
      ∃ j, upgradePlan true ssa mf = .removeAt j ∧ mf[j]? = some bfaManager ∧
        ∀ j', j < j' → mf[j']? ≠ some bfaManager) := by
  obtain ⟨h1, h2, _, h4⟩ := scan_spec ssa mf 0 {}
  simp only [Bool.false_eq_true, false_or] at h1 h2
  refine ⟨?_, ?_, ?_⟩
  · intro hs hb
    have e1 : (scan ssa mf 0 {}).foundSSA = true := h1.mpr hs
    have e2 : (scan ssa mf 0 {}).foundBFA = false := by
      cases hf : (scan ssa mf 0 {}).foundBFA with
      | false => rfl
      | true => exact absurd (h2.mp hf) hb
    simp [upgradePlan, e1, e2]
  · intro hs
    have e1 : (scan ssa mf 0 {}).foundSSA = false := by
      cases hf : (scan ssa mf 0 {}).foundSSA with
      | false => rfl
      | true => exact absurd (h1.mp hf) hs
    simp [upgradePlan, e1]
  · intro hs hb
    have e1 : (scan ssa mf 0 {}).foundSSA = true := h1.mpr hs
    have e2 : (scan ssa mf 0 {}).foundBFA = true := h2.mpr hb
    obtain ⟨j, hj1, hj2, hj3⟩ := h4 hb
    refine ⟨j, ?_, hj2, hj3⟩
    simp [upgradePlan, e1, e2, hj1]

/-- **The upgrade never drops the claim controller's own manager entry** (so the set of
fields server-side apply treats as previously applied by the claim controller - what
`xr_owned_preserved` and `reserved_meta_untouched` reason about - survives every upgrade),
removes nothing but one before-first-apply entry when the claim manager is present, and
once the claim manager is alone with no before-first-apply entry it is a no-op without an
API call. -/
theorem upgrade_keeps_claim_manager (ssa : String) (mf : List String) (inj : Option String)
    (hne : ssa ≠ bfaManager) (hs : ssa ∈ mf) :
    ssa ∈ (upgradeRun true ssa mf inj).managers ∧
    ((upgradeRun true ssa mf inj).managers = mf ∨
      (bfaManager ∈ mf ∧ inj = none ∧ mf.Perm (bfaManager :: (upgradeRun true ssa mf inj).managers))) ∧
    (bfaManager ∉ mf → upgradeRun true ssa mf inj = { managers := mf, calls := 0, err := "" }) := by
  obtain ⟨c1, _, c3⟩ := upgrade_plan_cases ssa mf
  by_cases hb : bfaManager ∈ mf
  · obtain ⟨j, hj, hjb, _⟩ := c3 hs hb
    cases inj with
    | some e =>
      have : (upgradeRun true ssa mf (some e)).managers = mf := by simp [upgradeRun, hj]
      exact ⟨by rw [this]; exact hs, Or.inl this, fun h => absurd hb h⟩
    | none =>
      have hm : (upgradeRun true ssa mf none).managers = mf.eraseIdx j := by simp [upgradeRun, hj, applyUpg]
      have hperm := perm_cons_eraseIdx bfaManager mf j hjb
      refine ⟨?_, Or.inr ⟨hb, rfl, by rw [hm]; exact hperm⟩, fun h => absurd hb h⟩
      rw [hm]
      have := (hperm.mem_iff (a := ssa)).mp hs
      simp only [List.mem_cons] at this
      rcases this with h | h
      · exact absurd h hne
      · exact h
  · have hn := c1 hs hb
    have : upgradeRun true ssa mf inj = { managers := mf, calls := 0, err := "" } := by simp [upgradeRun, hn]
    exact ⟨by rw [this]; exact hs, Or.inl (by rw [this]), fun _ => this⟩

/-- Every run of the upgrader makes at most one API call; a failure of that call of any
class other than NotFound is returned (never swallowed) and nothing changed. -/
theorem upgrade_error_not_swallowed (created : Bool) (ssa : String) (mf : List String) (e : String)
    (he : e ≠ "notFound") :
    (upgradeRun created ssa mf (some e)).managers = mf ∧ (upgradeRun created ssa mf (some e)).calls ≤ 1 ∧
    ((upgradeRun created ssa mf (some e)).calls = 1 → (upgradeRun created ssa mf (some e)).err = apiErr e) := by
  unfold upgradeRun
  have hf : (e == "notFound") = false := by simp [he]
  split <;> simp [hf]

/-- the migration as the comment of `Upgrade` tells it: managers of client-side apply only →
cleared; after the claim controller's first apply (claim manager + before-first-apply) →
before-first-apply removed; then nothing more -/
example :
    (upgradeRun true Xp.Gen.fieldOwnerXR ["crossplane", "apiextensions.crossplane.io/composite"] none).managers = [] ∧
    (upgradeRun true Xp.Gen.fieldOwnerXR [Xp.Gen.fieldOwnerXR, "before-first-apply"] none).managers = [Xp.Gen.fieldOwnerXR] ∧
    (upgradeRun true Xp.Gen.fieldOwnerXR [Xp.Gen.fieldOwnerXR] none).calls = 0 ∧
    (upgradeRun true Xp.Gen.fieldOwnerXR ["before-first-apply", "x", "before-first-apply", Xp.Gen.fieldOwnerXR] none).managers
      = ["before-first-apply", "x", Xp.Gen.fieldOwnerXR] ∧
    Xp.Gen.fieldOwnerXR ≠ bfaManager := by decide


end Xp.C07
